#!/usr/bin/env python3
"""Writes /verif/MANIFEST.json from the table below (kept valid at all times)."""
import json, os
VERIF = os.path.dirname(os.path.dirname(os.path.abspath(__file__)))
BASELINE = "cd /repo && go test -json -vet=off -count=1 -timeout 25m ./..."
TECH = "Rocq (Coq 8.16) theorems over an executable Gallina model; model tied to /repo by a go/ast translator (coq/Gen) and a differential correspondence check (vm_compute vs yqlib); direct oracle on the implementation only to find the replay"

# id -> (claimed?, level text, level note, design ref)
CLAIMS = {
 "C17": ("full: C17_sh_single_word (every NUL-free string is one shell word expanding to itself) and C17_shellvars_source (sourcing -o=shell output executes nothing and defines exactly the document's scalars, for any normalisation function) are proved over Model/Sh.v against the hand-written POSIX quoting spec Spec/PosixSh.v; the safe-character class is regenerated from encoder_sh.go on every run and C17_safe_class_sound is re-proved over it; the model is compared with the implementation on every ASCII byte, all metacharacter pairs and seeded random strings/documents, and every implementation output is executed by /bin/sh with a canary.",
         "Trusted: Coq kernel + vm_compute; Spec/PosixSh.v (validated against dash each run); translator; sampled correspondence; NFKD is a Section variable; byte-level strings (valid UTF-8 only). Not modelled: invalid UTF-8 input. The name mapping is not injective (C17_names_not_injective_refuted) as the source documents.",
         "§6 C17"),
}
NOT_YET = {}

def load_claims():
    import glob
    for f in glob.glob(os.path.join(VERIF, "checks", "props", "*.claim.json")):
        pid = os.path.basename(f).split(".")[0].upper()
        c = json.load(open(f))
        if os.path.exists(os.path.join(VERIF, "checks", "props", pid.lower() + ".py")):
            CLAIMS[pid] = (c["text"], c["note"], c.get("ref", "§6 " + pid))

def main():
    load_claims()
    props = [json.loads(l) for l in open(os.path.join(VERIF, "properties.jsonl"))]
    checks, na = [], []
    for p in props:
        pid = p["id"]
        if pid in CLAIMS:
            text, note, ref = CLAIMS[pid]
            checks.append({
                "property_id": pid,
                "quick_cmd": "python3 checks/check.py %s --tier quick" % pid,
                "thorough_cmd": "python3 checks/check.py %s --tier thorough" % pid,
                "evidence_file": "/verif/evidence/%s.json" % pid,
                "replay_cmd_template": "python3 checks/check.py %s --replay {path}" % pid,
                "engine": "coq-model",
                "level_claimed": {"category": "proof", "text": text, "design_ref": "DESIGN.md " + ref},
                "level_note": note,
                "technique": TECH,
            })
        else:
            na.append({"property_id": pid, "reason": NOT_YET.get(pid, "check not built yet in this round; the design (DESIGN.md §6) plans a Coq model + theorems + correspondence for it")})
    hooks_commits = []
    hp = os.path.join(VERIF, "MANIFEST.hooks")
    if os.path.exists(hp):
        hooks_commits = [l.split()[0] for l in open(hp) if l.strip() and not l.startswith("#")]
    m = {
        "version": 1,
        "setup_cmd": "make -C /verif setup",
        "hooks": {"guard": "verif", "enable": "go build -tags verif (checks build /repo and the harness with this tag)",
                  "baseline_off_cmd": BASELINE, "source_commits": hooks_commits, "add_only": True},
        "engines": [{"name": "coq-model", "path": "/verif/coq", "serves_properties": [c["property_id"] for c in checks],
                     "kind_free_text": "Coq 8.16.1 development: executable Gallina model (Model/), specs (Spec/), proofs (Proofs/), property theorems (Props/), tables regenerated from /repo (Gen/)"}],
        "checks": checks,
        "not_applicable": na,
        "notes": "Every check rebuilds the Go harness and yq from /repo's working tree with -tags verif, reruns the translator, rebuilds the property's Coq cone, replays KNOWN_FINDINGS.txt, runs the correspondence and the direct oracle, and rewrites evidence/<id>.json.",
    }
    json.dump(m, open(os.path.join(VERIF, "MANIFEST.json"), "w"), indent=1)
    print("claimed:", [c["property_id"] for c in checks])

if __name__ == "__main__":
    main()
