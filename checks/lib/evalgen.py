"""Generators and renderers for the evaluator model (Model/Eval.v): expression
ASTs -> yq text and -> Coq terms; JSON-model documents -> JSON text and -> Coq
nodes; canonical serialisation of implementation output (mirror of ser_node)."""
import copy, json
import vlib

KEYS = ["a", "b", "c", "d"]
TYPEY = ["5", "true", "null", "1.5", "~"]    # strings that look like another type: they must stay strings
NEWKEYS = ["x?", "*.log", "q*z", ""]          # never match a document key (documents use KEYS and ""): created literally
WILD = ["*", "?", "a*", "c*", "?og", "*a*", "c?t", "**", "*?"]
STRS = ["", "a", "b", "cat", "dog", "a b", "xé", "zz", "c*", "*", "?og"]   # [1:5] are used as literals; pattern-like ones only occur in documents
INTS = [0, 1, 2, 3, -1, -2, 5, 10, 7, 100, 9007199254740992]   # in documents: exactly representable in binary64 (JSON reader goes through float64: C06)
LIT_INTS = INTS + [9007199254740993, 9007199254740991]          # in expression literals: compared exactly as int64


# ---------------------------------------------------------------- documents
def gen_deep_seq(rng, depth=0):
    """nested sequences several levels deep (flatten / index arithmetic territory)"""
    if depth >= 4 or (depth > 0 and rng.random() < 0.3):
        return rng.choice(INTS[:6])
    return [gen_deep_seq(rng, depth + 1) for _ in range(rng.choice([1, 2, 2, 3]))]


def gen_doc(rng, depth=0, maxdepth=3):
    if depth == 0 and rng.random() < 0.06:
        return {"a": gen_deep_seq(rng), "b": rng.choice(INTS)} if rng.random() < 0.6 else gen_deep_seq(rng)
    r = rng.random()
    if depth >= maxdepth or r < 0.35:
        k = rng.random()
        if k < 0.4:
            return rng.choice(INTS)
        if k < 0.7:
            return rng.choice(STRS)
        if k < 0.8:
            return None
        if k < 0.9:
            return rng.choice([True, False])
        return rng.choice([1.5, -0.25, 2.75])
    if r < 0.65:
        if rng.random() < 0.12:
            # equal siblings (several nulls, several empty containers, the same scalar twice): a decoder or an operator
            # that shares one node between them shows as soon as one of them is updated
            x = rng.choice([None, None, None, {}, [], rng.choice(INTS), rng.choice(STRS)]) if rng.random() < 0.8 else gen_doc(rng, depth + 1, maxdepth)
            out = [copy.deepcopy(x) for _ in range(rng.choice([2, 2, 3]))]
            if rng.random() < 0.5:
                out.insert(rng.randrange(len(out) + 1), gen_doc(rng, depth + 1, maxdepth))
            return out
        return [gen_doc(rng, depth + 1, maxdepth) for _ in range(rng.choice([0, 1, 2, 3, 3, 4]))]
    d = {}
    for k in rng.sample(KEYS, rng.choice([0, 1, 2, 3, 3, 4])):
        d[k] = gen_doc(rng, depth + 1, maxdepth)
    if d and rng.random() < 0.08:
        # the empty string is an ordinary key
        items = list(d.items())
        items.insert(rng.randrange(len(items) + 1), ("", gen_doc(rng, depth + 1, maxdepth)))
        d = dict(items)
    return d


def coq_node(v):
    if v is None:
        return "(Scalar TNull %s)" % vlib.coq_str("null")
    if v is True:
        return "(Scalar TBool %s)" % vlib.coq_str("true")
    if v is False:
        return "(Scalar TBool %s)" % vlib.coq_str("false")
    if isinstance(v, int):
        return "(Scalar TInt %s)" % vlib.coq_str(str(v))
    if isinstance(v, float):
        return "(Scalar TFloat %s)" % vlib.coq_str(repr(v))
    if isinstance(v, str):
        return "(Scalar TStr %s)" % vlib.coq_str(v)
    if isinstance(v, list):
        return "(Seq [%s])" % ";".join("(RIdx %d, %s)" % (i, coq_node(x)) for i, x in enumerate(v))
    if isinstance(v, dict):
        return "(Map [%s])" % ";".join("(%s, %s)" % (vlib.coq_str(k), coq_node(x)) for k, x in v.items())
    raise ValueError(v)


# ---------------------------------------------------------------- canonical serialisation (mirror of Model/Node.v ser_node)
class NumText(str):
    pass


def _ser_str(b):
    if isinstance(b, str):
        b = b.encode("utf-8")
    return str(len(b)).encode() + b":" + b


def ser_value(v):
    if v is None:
        return b"N"
    if v is True:
        return b"B" + _ser_str("true")
    if v is False:
        return b"B" + _ser_str("false")
    if isinstance(v, NumText):
        return b"I" + _ser_str(str(v))
    if isinstance(v, (int, float)):
        return b"I" + _ser_str(repr(v) if isinstance(v, float) else str(v))
    if isinstance(v, str):
        return b"S" + _ser_str(v)
    if isinstance(v, list):
        return b"L" + str(len(v)).encode() + b"[" + b"".join(ser_value(x) for x in v) + b"]"
    if isinstance(v, OrderedPairs):
        return b"M" + str(len(v.pairs)).encode() + b"[" + b"".join(_ser_str(k) + ser_value(x) for k, x in v.pairs) + b"]"
    if isinstance(v, dict):
        return b"M" + str(len(v)).encode() + b"[" + b"".join(_ser_str(k) + ser_value(x) for k, x in v.items()) + b"]"
    raise ValueError(v)


class OrderedPairs:
    def __init__(self, pairs):
        self.pairs = pairs


def parse_json_line(line):
    return json.loads(line, object_pairs_hook=OrderedPairs, parse_int=NumText, parse_float=NumText)


def canon_impl(resp):
    """yqh eval response (JSON -I0 output, one result per line) -> bytes comparable with Model.Eval.run"""
    if resp is None:
        return b"CRASH"
    if resp.get("panic"):
        return b"PANIC"
    if resp.get("timeout"):
        return b"TIMEOUT"
    if resp.get("crash") is not None:
        return b"CRASH"
    if resp.get("err"):
        return b"ERR"
    out = vlib.b64d(resp["out_b64"]).decode("utf-8", "replace")
    res = b"OK\n"
    for line in out.splitlines():
        if line.strip() == "":
            continue
        try:
            res += ser_value(parse_json_line(line)) + b"\n"
        except Exception:
            return b"UNPARSEABLE " + line.encode()
    return res


# ---------------------------------------------------------------- expressions
BINOPS = {"add": ("+", "OAdd"), "sub": ("-", "OSub"), "mul": ("*", "OMul"), "mod": ("%", "OMod"),
          "eq": ("==", "OEq"), "ne": ("!=", "ONe"), "lt": ("<", "OLt"), "le": ("<=", "OLe"),
          "gt": (">", "OGt"), "ge": (">=", "OGe"), "and": ("and", "OAnd"), "or": ("or", "OOr"), "alt": ("//", "OAlt")}
NULLARY = {"self": (".", "ESelf"), "recurse": ("..", "ERecurse"), "not": ("not", "ENot"), "length": ("length", "ELength"),
           "keys": ("keys", "EKeys"), "to_entries": ("to_entries", "EToEntries"), "from_entries": ("from_entries", "EFromEntries"),
           "reverse": ("reverse", "EReverse"), "any": ("any", "EAny"), "all": ("all", "EAll"), "path": ("path", "EPath"),
           "key": ("key", "EGetKey"), "parent": ("parent", "EParent")}
UNARY = {"with_entries": ("with_entries", "EWithEntries"), "select": ("select", "ESelect"), "map": ("map", "EMap"), "filter": ("filter", "EFilter"), "has": ("has", "EHas"),
         "unique_by": ("unique_by", "EUniqueBy"), "group_by": ("group_by", "EGroupBy"), "any_c": ("any_c", "EAnyC"),
         "all_c": ("all_c", "EAllC"), "sort_by": ("sort_by", "ESortBy"), "del": ("del", "EDel")}


def lit(v):
    return ("lit", v)


def render(e):
    """AST -> yq expression text (everything bracketed, so the parser's precedence plays no role)."""
    k = e[0]
    if k in NULLARY:
        return NULLARY[k][0]
    if k == "lit":
        v = e[1]
        if v is None:
            return "null"
        if v is True:
            return "true"
        if v is False:
            return "false"
        if isinstance(v, int):
            return str(v)
        return json.dumps(v, ensure_ascii=False)
    if k == "with":
        return "with(" + render(e[1]) + "; " + render(e[2]) + ")"
    if k == "getkey":
        assert e[1].isalpha(), "getkey is for identifier-like keys; use the index form for %r" % (e[1],)
        return "." + e[1]
    if k == "index":
        l = "." if e[1] == ("self",) else "(" + render(e[1]) + ")"
        return l + "[" + (render(e[2]) if e[2] is not None else "") + "]"
    if k == "slice":
        l = "." if e[1] == ("self",) else "(" + render(e[1]) + ")"
        return l + "[(" + render(e[2]) + "):(" + render(e[3]) + ")]"
    if k == "pipe":
        return "(" + render(e[1]) + " | " + render(e[2]) + ")"
    if k == "union":
        return "(" + render(e[1]) + " , " + render(e[2]) + ")"
    if k == "collect":
        return "[" + (render(e[1]) if e[1] is not None else "") + "]"
    if k in BINOPS:
        return "(" + render(e[1]) + " " + BINOPS[k][0] + " " + render(e[2]) + ")"
    if k == "mulf":
        fl = e[1]
        return "(" + render(e[2]) + " *" + ("+" if fl & 1 else "") + ("d" if fl & 2 else "") + ("?" if fl & 4 else "") + ("n" if fl & 8 else "") + " " + render(e[3]) + ")"
    if k == "contains":
        return "contains(" + render(e[1]) + ")"
    if k in UNARY:
        return UNARY[k][0] + "(" + render(e[1]) + ")"
    if k == "unique":
        return "unique"
    if k == "sort":
        return "sort"
    if k == "flatten":
        return "flatten" if e[1] < 0 else "flatten(%d)" % e[1]
    if k == "as":
        return "((" + render(e[1]) + ") as $" + e[2] + " | " + render(e[3]) + ")"
    if k == "var":
        return "$" + e[1]
    if k == "reduce":
        return "((" + render(e[1]) + ") as $" + e[2] + " ireduce (" + render(e[3]) + "; " + render(e[4]) + "))"
    if k == "object":
        return "{" + ", ".join(json.dumps(kk) + ": " + render(v) for kk, v in e[1]) + "}"
    if k == "join":
        return "join(" + render(e[1]) + ")"
    if k == "split":
        return "split(" + render(e[1]) + ")"
    if k == "assign":
        return "(" + render(e[1]) + " = " + render(e[2]) + ")"
    if k == "update":
        return "(" + render(e[1]) + " |= " + render(e[2]) + ")"
    if k == "compound":
        return "(" + render(e[2]) + " " + BINOPS[e[1]][0] + "= " + render(e[3]) + ")"
    raise ValueError(e)


def coq_expr(e):
    k = e[0]
    if k in NULLARY:
        return NULLARY[k][1]
    if k == "lit":
        v = e[1]
        if v is None:
            return "(ELit TNull %s)" % vlib.coq_str("null")
        if v is True:
            return "(ELit TBool %s)" % vlib.coq_str("true")
        if v is False:
            return "(ELit TBool %s)" % vlib.coq_str("false")
        if isinstance(v, int):
            return "(ELit TInt %s)" % vlib.coq_str(str(v))
        return "(ELit TStr %s)" % vlib.coq_str(v)
    if k == "getkey":
        return "(EKey %s)" % vlib.coq_str(e[1])
    if k == "index":
        return "(EIndex %s %s)" % (coq_expr(e[1]), "(Some %s)" % coq_expr(e[2]) if e[2] is not None else "None")
    if k == "slice":
        return "(ESlice %s %s %s)" % (coq_expr(e[1]), coq_expr(e[2]), coq_expr(e[3]))
    if k == "pipe":
        return "(EPipe %s %s)" % (coq_expr(e[1]), coq_expr(e[2]))
    if k == "union":
        return "(EUnion %s %s)" % (coq_expr(e[1]), coq_expr(e[2]))
    if k == "collect":
        return "(ECollect %s)" % ("(Some %s)" % coq_expr(e[1]) if e[1] is not None else "None")
    if k in BINOPS:
        return "(EBin %s %s %s)" % (BINOPS[k][1], coq_expr(e[1]), coq_expr(e[2]))
    if k == "mulf":
        return "(EBin (OMulF %d) %s %s)" % (e[1], coq_expr(e[2]), coq_expr(e[3]))
    if k == "contains":
        return "(EBin OContains ESelf %s)" % coq_expr(e[1])
    if k in UNARY:
        return "(%s %s)" % (UNARY[k][1], coq_expr(e[1]))
    if k == "unique":
        return "(EUniqueBy ESelf)"
    if k == "sort":
        return "(ESortBy ESelf)"
    if k == "flatten":
        return "(EFlatten %s)" % coq_Z(e[1])
    if k == "as":
        return "(EAs %s %s %s)" % (coq_expr(e[1]), vlib.coq_str(e[2]), coq_expr(e[3]))
    if k == "var":
        return "(EVar %s)" % vlib.coq_str(e[1])
    if k == "reduce":
        return "(EReduce %s %s %s %s)" % (coq_expr(e[1]), vlib.coq_str(e[2]), coq_expr(e[3]), coq_expr(e[4]))
    if k == "object":
        return "(EObject [%s])" % ";".join("(ELit TStr %s, %s)" % (vlib.coq_str(kk), coq_expr(v)) for kk, v in e[1])
    if k == "join":
        return "(EJoin %s)" % coq_expr(e[1])
    if k == "split":
        return "(ESplit %s)" % coq_expr(e[1])
    if k == "assign":
        return "(EAssign %s %s)" % (coq_expr(e[1]), coq_expr(e[2]))
    if k == "update":
        return "(EUpdate %s %s)" % (coq_expr(e[1]), coq_expr(e[2]))
    if k == "compound":
        return "(ECompound %s %s %s)" % (BINOPS[e[1]][1], coq_expr(e[2]), coq_expr(e[3]))
    raise ValueError(e)


def coq_Z(z):
    return "Z0" if z == 0 else ("(Zpos %d)" % z if z > 0 else "(Zneg %d)" % (-z))


def ops_of(e, acc=None):
    acc = acc if acc is not None else []
    acc.append(e[0])
    if e[0] == "object":
        for _, v in e[1]:
            ops_of(v, acc)
        return acc
    for x in e[1:]:
        if isinstance(x, tuple) and x and isinstance(x[0], str) and (x[0] in NULLARY or x[0] in UNARY or x[0] in BINOPS or x[0] in
            ("lit", "getkey", "index", "slice", "pipe", "union", "collect", "contains", "unique", "sort", "flatten", "as", "var", "reduce", "assign", "update", "compound", "object", "join", "split", "mulf")):
            ops_of(x, acc)
    return acc


def doc_paths(v, pre=()):
    """all position paths of a JSON value, preorder"""
    out = [pre]
    if isinstance(v, dict):
        for k, x in v.items():
            out += doc_paths(x, pre + (k,))
    elif isinstance(v, list):
        for i, x in enumerate(v):
            out += doc_paths(x, pre + (i,))
    return out


def path_expr(p):
    e = None
    for s in p:
        step = ("getkey", s) if isinstance(s, str) and s.isalpha() else ("index", ("self",), lit(s))
        e = step if e is None else ("pipe", e, step)
    return e if e is not None else ("self",)


class Gen:
    """Type-directed-ish random expressions over the core fragment; doc-aware when a document is set."""

    def __init__(self, rng, vars_=(), ro_only=True):
        self.rng = rng
        self.ro_only = ro_only
        self.doc = None
        self.wild = 0.0      # probability of glob patterns (* ?) in key steps and string literals
        self.entry_updates = False   # with_entries bodies that update the entry (they work on copies of the entries)

    def set_doc(self, doc):
        self.doc = doc
        self._paths = [p for p in doc_paths(doc) if p] if doc is not None else []

    def simple_path(self, allow_new=True):
        """a simple path (keys / indices only) as a tuple; mostly existing, sometimes extended into new territory"""
        rng = self.rng
        if self._paths and rng.random() < 0.8:
            p = rng.choice(self._paths)
        else:
            p = ()
        if allow_new and rng.random() < 0.35:
            for _ in range(rng.choice([1, 1, 2])):
                # (a key with * or ? that matches nothing is created literally; "" is an ordinary key)
                p = p + (rng.choice(KEYS + [0, 1, 2, -1] + (NEWKEYS if rng.random() < 0.25 else [])),)
        return p or (rng.choice(KEYS),)

    def path(self, d):
        """a selector: keys / indices / splat composed with pipe"""
        rng = self.rng
        if self.doc is not None and self._paths and rng.random() < 0.6:
            p = rng.choice(self._paths)
            if rng.random() < 0.3 and len(p) > 1:
                # replace one step by a splat
                i = rng.randrange(len(p))
                e = None
                for j, s in enumerate(p):
                    step = ("index", ("self",), None) if j == i else (("getkey", s) if isinstance(s, str) and s.isalpha() else ("index", ("self",), lit(s)))
                    e = step if e is None else ("pipe", e, step)
                return e
            return path_expr(p)
        n = rng.choice([1, 1, 2, 2, 3])
        e = None
        for _ in range(n):
            r = rng.random()
            if r < 0.5:
                step = ("getkey", rng.choice(KEYS))
            elif r < 0.7:
                step = ("index", ("self",), lit(rng.choice([0, 1, 2, -1, 3])))
            elif r < 0.85:
                step = ("index", ("self",), None)
            elif r < 0.93:
                step = ("index", ("self",), lit(rng.choice(WILD if rng.random() < self.wild else KEYS)))
            else:
                step = ("slice", ("self",), lit(rng.choice([0, 1, -2])), lit(rng.choice([1, 2, 3, -1])))
            e = step if e is None else ("pipe", e, step)
        return e

    def scalar(self, d, vs):
        rng = self.rng
        r = rng.random()
        if r < 0.35:
            if rng.random() < self.wild:
                return lit(rng.choice(WILD + STRS[3:5]))
            return lit(rng.choice(LIT_INTS + STRS[1:5] + [None, True, False]))
        if r < 0.75 or d <= 0:
            return self.path(d)
        if vs and r < 0.85:
            return ("var", rng.choice(vs))
        return self.expr(d - 1, vs)

    def expr(self, d, vs=()):
        rng = self.rng
        vs = list(vs)
        if d <= 0:
            return self.scalar(0, vs) if rng.random() < 0.8 else ("self",)
        r = rng.random()
        sub = lambda: self.expr(d - 1, vs)
        if r < 0.12:
            return self.path(d)
        if r < 0.22:
            return ("pipe", sub(), sub())
        if r < 0.28:
            return ("union", sub(), sub())
        if r < 0.34:
            return ("collect", sub() if rng.random() < 0.9 else None)
        if r < 0.50:
            op = rng.choice(["add", "add", "sub", "mul", "mod", "eq", "ne", "lt", "le", "gt", "ge", "and", "or", "alt"])
            k = rng.random()
            if k < 0.08 and op in ("lt", "le", "gt", "ge", "eq", "ne", "sub", "add"):
                # integers that only differ beyond binary64 precision must still be told apart
                return (op, lit(rng.choice([9007199254740993, 9007199254740992, 9007199254740991])), lit(rng.choice([9007199254740993, 9007199254740992])))
            if k < 0.16:
                # the context is the document root followed by inner nodes: the operator still works per input node
                return ("pipe", ("union", ("self",), self.path(1)), (op, self.scalar(0, vs), self.scalar(0, vs)))
            return (op, self.scalar(d - 1, vs), self.scalar(d - 1, vs))
        if r < 0.515:
            # array subtraction removes the elements equal to an element of the RHS, and only those (nulls, type-looking strings)
            def seqx():
                if self.doc is not None and rng.random() < 0.4:
                    ls = [p for p in doc_paths(self.doc) if isinstance(_get(self.doc, p), list)]
                    if ls:
                        return path_expr(rng.choice(ls))
                items = [lit(rng.choice([None, None, 1, 2, "1", "a", True, "null", 0])) for _ in range(rng.choice([1, 2, 3, 4]))]
                e = items[0]
                for it in items[1:]:
                    e = ("union", e, it)
                return ("collect", e)
            return ("sub", seqx(), seqx())
        if r < 0.535:
            bodies = [("self",), ("select", (rng.choice(["gt", "lt", "ne"]), ("getkey", "value"), lit(rng.choice(INTS[:4])))),
                      ("select", ("ne", ("getkey", "key"), lit(rng.choice(KEYS)))), ("union", ("self",), ("self",)),
                      ("object", [("key", ("getkey", "key")), ("value", lit(rng.choice(INTS[:4])))]), sub()]
            if self.entry_updates:
                bodies += [("compound", "add", ("getkey", "value"), lit(1)), ("assign", ("getkey", "key"), lit(rng.choice(KEYS))),
                           ("update", ("getkey", "key"), ("add", ("self",), lit("x"))), ("assign", ("getkey", "value"), ("getkey", "key")),
                           ("pipe", ("select", ("lt", ("getkey", "value"), lit(3))), ("assign", ("getkey", "value"), lit(None)))]
            return ("pipe", self.path(d) if rng.random() < 0.7 else sub(), ("with_entries", rng.choice(bodies)))
        if r < 0.58:
            return (rng.choice(["select", "select", "map", "filter", "any_c", "all_c"]), sub())
        if r < 0.70:
            return ("pipe", sub(), (rng.choice(["length", "keys", "to_entries", "reverse", "any", "all", "not", "recurse", "unique", "sort"]),)
                    if True else None)
        if r < 0.74:
            return ("pipe", sub(), (rng.choice(["has"]), lit(rng.choice(KEYS + [0, 1, 5, 2, -1, True, None, "1", "0", "true"]))))
        if r < 0.78:
            return ("pipe", sub(), (rng.choice(["group_by", "unique_by", "sort_by"]), self.path(1)))
        if r < 0.81:
            return ("pipe", sub(), ("flatten", rng.choice([-1, -1, 1, 2])))
        if r < 0.84:
            return ("pipe", sub(), ("contains", self.scalar(d - 1, vs)))
        if r < 0.90:
            x = rng.choice(["x", "y"])
            if rng.random() < 0.15:
                # which list object an operand of `,` hands back (the context's own, a variable's, a new one) decides
                # whether the RHS results are kept: the recorded union-same-list behaviour, modelled by list_id
                def operand():
                    return rng.choice([("var", x), ("pipe", ("var", x), ("self",)), ("as", ("getkey", rng.choice(KEYS + ["zz"])), x, ("var", x)),
                                       ("as", ("select", ("eq", lit(1), lit(2))), x, ("var", x)), ("as", lit(5), "z", ("var", x)), ("self",),
                                       ("pipe", ("self",), ("self",)), ("var", "u"), ("pipe", ("var", x), ("length",)),
                                       ("as", ("select", ("eq", lit(1), lit(2))), "z", ("pipe", ("var", x), ("self",))),
                                       ("pipe", self.path(1), ("var", x))])
                u = ("union", operand(), operand())
                if rng.random() < 0.3:
                    u = ("union", u, operand())
                e = ("as", self.scalar(d - 1, vs), x, rng.choice([u, ("collect", u)]))
                k = rng.random()
                return ("map", e) if k < 0.25 else ("pipe", ("select", ("eq", lit(1), lit(2))), e) if k < 0.35 else e
            if rng.random() < 0.25:
                # scoping: an inner binding of the same name must not leak into a sibling operand
                inner = ("as", self.scalar(d - 1, vs + [x]), x, rng.choice([("var", x), ("collect", ("var", x)), self.expr(max(0, d - 2), vs + [x])]))
                sib = rng.choice([("var", x), ("pipe", ("var", x), ("length",))])
                pair = rng.choice([(inner, sib), (sib, inner)])
                shape = rng.choice([("collect", ("union",) + pair), ("union",) + pair, ("add",) + pair, ("eq",) + pair, ("pipe", inner, sib)])
                return ("as", self.scalar(d - 1, vs), x, shape)
            return ("as", self.scalar(d - 1, vs), x, self.expr(d - 1, vs + [x]))
        if r < 0.94:
            x = rng.choice(["i", "j"])
            body = rng.choice([("add", ("self",), ("var", x)), ("add", ("self",), ("var", x)),
                               ("add", ("self",), ("alt", ("pipe", ("var", x), ("getkey", rng.choice(KEYS))), lit(1))),
                               ("add", ("self",), ("pipe", ("var", x), ("length",))),
                               ("collect", ("union", ("self",), ("pipe", ("var", x), ("index", ("self",), lit(rng.choice([0, 2])))))),
                               # the block yields nothing for some elements (the accumulator becomes empty) and restarts from $x later
                               ("pipe", ("var", x), ("select", ("gt", ("self",), lit(rng.choice([0, 1, 2]))))),
                               ("select", ("lt", ("var", x), lit(rng.choice([1, 2, 3])))),
                               ("alt", ("pipe", ("var", x), ("select", ("ne", ("self",), lit(1)))), ("self",))])
            return ("reduce", self.path(d), x, lit(rng.choice([0, "", None])), body)
        if r < 0.945 and self.doc is not None:
            # deep merge of two containers of the document (all 16 flag sets)
            conts = [p for p in doc_paths(self.doc) if isinstance(_get(self.doc, p), (dict, list))]
            if len(conts) >= 2:
                a, b = rng.sample(conts, 2)
                return ("mulf", rng.choice([0, 0, 0, 1, 2, 4, 8, 3, 5, 12, 15]), path_expr(a), path_expr(b))
        if r < 0.955:
            ks = rng.sample(["k", "m", "a", "z"], rng.choice([1, 2, 2, 3]))
            return ("object", [(kk, self.scalar(d - 1, vs)) for kk in ks]) if rng.random() < 0.8 else ("object", [])
        if r < 0.965:
            return ("pipe", sub(), (rng.choice(["join", "split"]), lit(rng.choice([",", "a", " ", "--"]))))
        if r < 0.98:
            return ("pipe", sub(), ("pipe", ("to_entries",), ("from_entries",)))
        return ("index", sub(), lit(rng.choice([0, 1, -1])) if rng.random() < 0.7 else None)


    # ------------------------------------------------------------ updates
    def value_expr(self, vs=()):
        rng = self.rng
        r = rng.random()
        if r < 0.5:
            return lit(rng.choice(INTS + STRS[1:5] + TYPEY + [None, True, False]))
        if r < 0.65:
            return ("collect", ("union", lit(rng.choice(INTS)), lit(rng.choice(STRS[1:4] + TYPEY))))
        if r < 0.72:
            return ("collect", None)
        if r < 0.85:
            return path_expr(self.simple_path(allow_new=False))
        if r < 0.93:
            # reads of missing keys / indices at or beyond the end (must not change the document)
            p = self.simple_path(allow_new=False)
            try:
                tgt = _get(self.doc, p)
            except Exception:
                tgt = None
            if isinstance(tgt, list) and rng.random() < 0.6:
                return path_expr(p + (len(tgt),))          # exactly one past the end
            return path_expr(p + (rng.choice(KEYS + [0, 1, 2, 3, 4]),))
        return ("add", path_expr(self.simple_path(allow_new=False)), lit(rng.choice([1, 2, "x"])))

    def lhs(self):
        rng = self.rng
        r = rng.random()
        if r < 0.6:
            return path_expr(self.simple_path())
        if r < 0.8:
            return self.path(2)
        if r < 0.9:
            return ("pipe", ("index", path_expr(self.simple_path(allow_new=False)), None), ("select", (rng.choice(["eq", "ne", "lt", "gt"]), ("self",), lit(rng.choice(INTS[:5] + STRS[1:3])))))
        return ("pipe", ("recurse",), ("select", (rng.choice(["eq", "lt", "gt"]), ("self",), lit(rng.choice(INTS[:5])))))

    def update(self):
        rng = self.rng
        r = rng.random()
        seqs = [p for p in doc_paths(self.doc) if isinstance(_get(self.doc, p), list) and len(_get(self.doc, p)) >= 1] if self.doc is not None else []
        if r < 0.07 and seqs:
            # several context nodes, each updated relative to itself: `P[] | (.k = .j)`, `P[] | (.k |= f)`, `P[] | (.k += .j)`
            P = path_expr(rng.choice(seqs)) if rng.random() < 0.8 else ("self",)
            k1, k2 = rng.choice(KEYS), rng.choice(KEYS)
            rhs = rng.choice([("getkey", k2), ("add", ("getkey", k2), lit(1)), ("self",), ("pipe", ("getkey", k2), ("length",))])
            tgt = rng.choice([("getkey", k1), ("index", ("self",), lit(0)), ("self",)])
            u = rng.choice([("assign", tgt, rhs), ("update", tgt, ("add", ("self",), lit(1))), ("compound", "add", tgt, rhs)])
            return ("pipe", ("index", P, None), u)
        if r < 0.13 and seqs:
            # an update that leaves duplicate recorded keys behind (appended / re-collected elements), then every element once more
            sp = rng.choice(seqs)
            P = path_expr(sp)
            first = rng.choice([("compound", "add", P, ("collect", ("union", lit(7), lit(8)))),
                                ("assign", P, ("collect", ("union", ("index", P, lit(0)), ("index", P, lit(0))))),
                                ("update", P, ("add", ("self",), ("self",))), ("update", P, ("reverse",))])
            second = rng.choice([("compound", "add", ("index", P, None), lit(1)), ("update", ("index", P, None), ("length",)),
                                 ("assign", ("index", P, None), lit(0)), ("compound", "add", ("index", P, lit(-1)), lit(1))])
            return ("pipe", first, second)
        if r < 0.35:
            return ("assign", self.lhs(), self.value_expr())
        if r < 0.6:
            f = rng.choice([("add", ("self",), lit(1)), ("length",), ("collect", ("self",)), lit(0), ("mul", ("self",), lit(2)), ("getkey", rng.choice(KEYS)), ("reverse",), ("sub", ("self",), lit(1)),
                            # several results (the first one is written) and none (nothing is written)
                            ("union", lit(rng.choice(INTS[:4])), lit(rng.choice(STRS[1:4]))), ("union", ("index", ("self",), lit(0)), ("index", ("self",), lit(-1))),
                            ("union", ("length",), ("self",)), ("index", ("self",), None), ("select", ("gt", ("self",), lit(1))), ("pipe", ("index", ("self",), None), ("select", ("ne", ("self",), lit(1))))])
            return ("update", self.lhs(), f)
        if r < 0.75:
            return ("compound", rng.choice(["add", "add", "sub", "mul"]), self.lhs(), self.value_expr())
        return ("del", self.lhs() if rng.random() < 0.7 else ("union", self.lhs(), self.lhs()))

    # ------------------------------------------------------------ derived containers (C03 / C16)
    def derive(self):
        """an expression producing a container that was rebuilt by an operator"""
        rng = self.rng
        seqs = [p for p in doc_paths(self.doc) if isinstance(_get(self.doc, p), list)] if self.doc is not None else []
        base = path_expr(rng.choice(seqs)) if seqs and rng.random() < 0.85 else ("self",)
        r = rng.random()
        if r < 0.15:
            f = ("sort",)
        elif r < 0.3:
            f = ("reverse",)
        elif r < 0.42:
            f = ("slice", ("self",), lit(rng.choice([0, 1, -2])), lit(rng.choice([2, 3, -1, 10])))
        elif r < 0.52:
            f = ("map", rng.choice([("self",), ("add", ("self",), lit(1)), ("select", ("ne", ("self",), lit(1)))]))
        elif r < 0.6:
            f = ("filter", ("ne", ("self",), lit(rng.choice([1, 2, "a"]))))
        elif r < 0.7:
            f = ("add", ("self",), ("collect", ("union", lit(9), lit("n"))))
        elif r < 0.78:
            f = ("collect", ("union", ("index", ("self",), lit(1)), ("index", ("self",), lit(0))))
        elif r < 0.86:
            f = ("unique",)
        elif r < 0.93:
            f = ("flatten", rng.choice([-1, 1]))
        else:
            f = ("sort_by", ("self",))
        return ("pipe", base, f)

    def derived_query(self):
        rng = self.rng
        f = self.derive()
        r = rng.random()
        if r < 0.4:
            sel = rng.choice([("index", ("self",), lit(rng.choice([0, 1, 2, -1]))),
                              ("pipe", ("index", ("self",), None), ("select", (rng.choice(["lt", "gt", "eq"]), ("self",), lit(rng.choice([1, 2, 5]))))),
                              ("union", ("index", ("self",), lit(0)), ("index", ("self",), lit(2)))])
            return ("pipe", f, ("del", sel))
        if r < 0.7:
            return ("pipe", f, ("pipe", ("index", ("self",), None), ("path",)))
        if r < 0.85:
            return ("pipe", f, ("pipe", ("recurse",), ("path",)))
        return ("pipe", f, ("pipe", ("index", ("self",), None), ("key",)))


def _get(v, p):
    for s in p:
        v = v[s]
    return v
