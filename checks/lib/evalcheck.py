"""Shared driver for the properties decided over the evaluator model
(Model/Node.v, Store.v, Eval.v): C01, C02, C03, C08, C16."""
import json, collections
import vlib, evalgen

LAST_UNSUP = set()
IMPORTS = "From YQ Require Import Base.Str Model.Node Model.Store Model.Eval."


def impl_eval(cases, fmt="json"):
    """fmt="yaml": the same JSON text read by the YAML decoder (nodes then carry line numbers, as for any .yaml file)"""
    reqs = [{"op": "eval", "expr": evalgen.render(e) if not isinstance(e, str) else e, "input": json.dumps(d), "in": fmt, "out": "json", "indent": 0}
            for e, d in cases]
    return [evalgen.canon_impl(r) for r in vlib.yqh_parallel(reqs)]


def correspondence(chk, cases, name):
    """cases: list of (ast, doc).  Returns (impl outputs, {index: model output} for disagreements, #unsup, error)."""
    impl = impl_eval(cases)
    coq_cases = [("(%s, %s)" % (evalgen.coq_expr(e), evalgen.coq_node(d)), impl[i]) for i, (e, d) in enumerate(cases)]
    mism, err = vlib.coq_mismatches(chk.workdir, name, IMPORTS, "(fun c => run (fst c) (snd c))", coq_cases, shard=250)
    if err:
        return impl, {}, 0, err
    mm, unsup = {}, 0
    global LAST_UNSUP
    LAST_UNSUP = set()
    for i, mo in mism:
        if mo == b"UNSUP":
            unsup += 1
            LAST_UNSUP.add(i)
        else:
            mm[i] = mo
    return impl, mm, unsup, None


def model_only(chk, cases, name):
    """Evaluate the model alone on (ast, doc) cases; returns list of bytes (or None on error)."""
    coq_cases = [("(%s, %s)" % (evalgen.coq_expr(e), evalgen.coq_node(d)), b"") for e, d in cases]
    mism, err = vlib.coq_mismatches(chk.workdir, name, IMPORTS, "(fun c => run (fst c) (snd c))", coq_cases, shard=250)
    if err:
        return None, err
    out = [b""] * len(cases)
    for i, mo in mism:
        out[i] = mo
    return out, None


def results_of(b):
    """canonical bytes 'OK\\n r1\\n r2\\n' -> list of result byte strings, or None if not OK"""
    if not b.startswith(b"OK\n"):
        return None
    return [x for x in b[3:].split(b"\n") if x != b""] if b"\n" in b[3:] or b[3:] == b"" else None


def report_disagreements(chk, cases, impl, mm, what):
    for i in sorted(mm, key=lambda i: len(evalgen.render(cases[i][0])))[:5]:
        e, d = cases[i]
        chk.violation({"kind": "eval", "expr": evalgen.render(e), "doc": d, "impl": impl[i].decode("utf-8", "replace"),
                       "model": mm[i].decode("utf-8", "replace") if isinstance(mm[i], bytes) else repr(mm[i])},
                      False, "%s: the implementation departs from the reference semantics (Model/Eval.v, about which the property's theorems are proved) on %s; no oracle independent of the model found the property itself failing" % (what, evalgen.render(e)))


def replay_eval(rp):
    r = impl_eval([(rp["expr"], rp["doc"])])[0]
    if "expect" in rp:
        return r.decode("utf-8", "replace") == rp["expect"]
    if "model" in rp:
        return r.decode("utf-8", "replace") == rp["model"]
    return True


def outcome_stats(impl):
    c = collections.Counter()
    for b in impl:
        cls = b.split(b"\n")[0].decode("utf-8", "replace")
        c[cls if cls in ("OK", "ERR", "PANIC", "TIMEOUT", "CRASH") else "OTHER"] += 1
    return dict(c)


# ---------------- reference operations on JSON values (independent of the Coq model) ----------------
def jget(v, p):
    for s in p:
        if isinstance(v, dict) and isinstance(s, str) and s in v:
            v = v[s]
        elif isinstance(v, list) and isinstance(s, int) and -len(v) <= s < len(v):
            v = v[s]
        else:
            return None, False
    return v, True


def jremove(v, paths):
    """remove the given position paths (tuples) from a JSON value"""
    ps = set(paths)

    def go(x, pre):
        if isinstance(x, dict):
            return {k: go(y, pre + (k,)) for k, y in x.items() if pre + (k,) not in ps}
        if isinstance(x, list):
            return [go(y, pre + (i,)) for i, y in enumerate(x) if pre + (i,) not in ps]
        return x
    return go(v, ())


def ser(v):
    return evalgen.ser_value(_wrap(v))


def _wrap(v):
    if isinstance(v, float):
        return evalgen.NumText(repr(v))
    if isinstance(v, list):
        return [_wrap(x) for x in v]
    if isinstance(v, dict):
        return {k: _wrap(x) for k, x in v.items()}
    return v


def unser_paths(result_bytes):
    """a `path` result 'L2[S1:aI1:0]' -> tuple ('a', 0)"""
    b = result_bytes
    assert b[:1] == b"L"
    i = b.index(b"[")
    n = int(b[1:i])
    i += 1
    out = []
    for _ in range(n):
        t = b[i:i + 1]
        j = b.index(b":", i)
        ln = int(b[i + 1:j])
        s = b[j + 1:j + 1 + ln]
        out.append(int(s) if t == b"I" else s.decode())
        i = j + 1 + ln
    return tuple(out)
