"""Shared machinery for the /verif checks.

Every check: (1) rebuilds the Go harness and the yq binary from /repo's
working tree (build tag `verif`), (2) reruns the translator into coq/Gen,
(3) rebuilds the property's Coq cone (full .vo), (4) replays known findings,
(5) runs the correspondence between the model (evaluated inside Coq with
vm_compute) and the implementation, (6) runs the property's direct oracle on
the implementation to find a concrete replay, (7) writes evidence.
"""
import base64, fcntl, hashlib, json, os, random, re, shutil, subprocess, sys, time

VERIF = os.path.dirname(os.path.dirname(os.path.dirname(os.path.abspath(__file__))))
REPO = os.environ.get("VERIF_REPO", "/repo")
WORK = os.path.join(VERIF, "work")
BIN = os.path.join(WORK, "bin")
COQ = os.path.join(VERIF, "coq")
GOENV = dict(os.environ, GOFLAGS="-mod=mod", GOPROXY="off", GOSUMDB="off", GOTOOLCHAIN="local",
             CGO_ENABLED="0")
YQH = os.path.join(BIN, "yqh")
YQ = os.path.join(BIN, "yq")
GENTABLES = os.path.join(BIN, "gentables")
NCPU = os.cpu_count() or 4


def log(*a):
    print(*a, file=sys.stderr, flush=True)


class Lock:
    def __init__(self, name):
        os.makedirs(WORK, exist_ok=True)
        self.path = os.path.join(WORK, name + ".lock")

    def __enter__(self):
        self.f = open(self.path, "w")
        fcntl.flock(self.f, fcntl.LOCK_EX)
        return self

    def __exit__(self, *a):
        fcntl.flock(self.f, fcntl.LOCK_UN)
        self.f.close()


def sh(cmd, cwd=None, env=None, timeout=None, input=None):
    p = subprocess.run(cmd, cwd=cwd, env=env, timeout=timeout, input=input,
                       stdout=subprocess.PIPE, stderr=subprocess.STDOUT)
    return p.returncode, p.stdout.decode("utf-8", "replace")


# --------------------------------------------------------------------------
# builds
# --------------------------------------------------------------------------
class BuildError(Exception):
    pass


def build_impl(race=False):
    """go build of the harness (linked against /repo via replace) and of the yq
    binary, both with -tags verif, from /repo's current working tree."""
    os.makedirs(BIN, exist_ok=True)
    with Lock("gobuild"):
        hs = os.path.join(VERIF, "harness")
        shutil.copyfile(os.path.join(REPO, "go.sum"), os.path.join(hs, "go.sum"))
        # the harness links against the tree under test (VERIF_REPO, default /repo) through a replace directive
        gm = os.path.join(hs, "go.mod")
        txt = open(gm).read()
        new_txt = re.sub(r"replace github.com/mikefarah/yq/v4 => \S+", "replace github.com/mikefarah/yq/v4 => " + REPO, txt)
        if new_txt != txt:
            open(gm, "w").write(new_txt)
        for out, pkg, cwd in ((YQH, "./cmd/yqh", hs), (GENTABLES, "./cmd/gentables", hs), (YQ, ".", REPO)):
            rc, o = sh(["go", "build", "-tags", "verif", "-o", out, pkg], cwd=cwd, env=GOENV, timeout=900)
            if rc != 0:
                raise BuildError("go build %s failed:\n%s" % (pkg, o))
        if race:
            env = dict(GOENV, CGO_ENABLED="1")
            rc, o = sh(["go", "build", "-race", "-tags", "verif", "-o", YQH + "-race", "./cmd/yqh"], cwd=hs, env=env, timeout=1800)
            if rc != 0:
                raise BuildError("go build -race failed:\n%s" % o)


def run_translator():
    """Regenerate coq/Gen/*.v from /repo.  Returns (ok, log)."""
    with Lock("coq"):
        rc, o = sh([GENTABLES, REPO, os.path.join(COQ, "Gen")], timeout=120)
    return rc == 0, o


def coq_project():
    files = []
    for root, _, fs in os.walk(COQ):
        for f in fs:
            if f.endswith(".v"):
                files.append(os.path.relpath(os.path.join(root, f), COQ))
    files.sort()
    content = "-Q . YQ\n" + "\n".join(files) + "\n"
    p = os.path.join(COQ, "_CoqProject")
    old = open(p).read() if os.path.exists(p) else None
    if old != content or not os.path.exists(os.path.join(COQ, "Makefile")):
        open(p, "w").write(content)
        rc, o = sh(["coq_makefile", "-f", "_CoqProject", "-o", "Makefile"], cwd=COQ)
        if rc != 0:
            raise BuildError("coq_makefile failed: " + o)


def coq_make(targets, timeout=1500):
    """Full .vo build of the given targets (and their dependency cone)."""
    with Lock("coq"):
        coq_project()
        t0 = time.time()
        rc, o = sh(["timeout", str(timeout), "make", "-j%d" % NCPU] + targets, cwd=COQ, timeout=timeout + 30)
        return rc == 0, o, time.time() - t0


def coq_clean_cone(target_v):
    """Remove the .vo files of the whole development (thorough tier: clean rebuild)."""
    with Lock("coq"):
        for root, _, fs in os.walk(COQ):
            for f in fs:
                if f.endswith((".vo", ".vok", ".vos", ".glob", ".aux")):
                    os.remove(os.path.join(root, f))


def coqchk(mod, timeout=2400):
    """Independent re-check of the compiled property module and everything it depends on (thorough tier).
    Cached by the digest of the .vo files involved."""
    with Lock("coq"):
        h = hashlib.sha1()
        for root, _, fs in sorted(os.walk(COQ)):
            for f in sorted(fs):
                if f.endswith(".vo"):
                    h.update(f.encode())
                    h.update(open(os.path.join(root, f), "rb").read())
        cache = os.path.join(WORK, "coqchk_%s_%s.txt" % (mod.replace(".", "_"), h.hexdigest()[:16]))
        if os.path.exists(cache):
            out = open(cache).read()
        else:
            rc, out = sh(["timeout", str(timeout), "coqchk", "-silent", "-o", "-Q", COQ, "YQ", "YQ." + mod], cwd=COQ, timeout=timeout + 60)
            out = "rc=%s\n%s" % (rc, out)
            open(cache, "w").write(out)
    ok = out.startswith("rc=0") and "Axioms: <none>" in out.replace("\n  ", " ") or (out.startswith("rc=0") and "* Axioms:" in out and "<none>" in out.split("* Axioms:")[1][:40])
    return ok, out


def theorem_names(props_file):
    src = open(os.path.join(COQ, props_file)).read()
    return re.findall(r"^\s*Theorem\s+([A-Za-z0-9_']+)", src, re.M)


def print_assumptions(pid, props_mod, names, workdir):
    """Ask Coq (not the build log) which axioms each property theorem rests on."""
    os.makedirs(workdir, exist_ok=True)
    p = os.path.join(workdir, "assume_%s.v" % pid)
    with open(p, "w") as f:
        f.write("From YQ Require Import %s.\n" % props_mod)
        for n in names:
            f.write('Goal True. idtac "@@THM %s". exact I. Qed.\nPrint Assumptions %s.\n' % (n, n))
    rc, o = sh(["coqc", "-Q", COQ, "YQ", p], cwd=workdir, timeout=300)
    res = {}
    if rc != 0:
        return None, o
    cur = None
    for line in o.splitlines():
        m = re.match(r"@@THM (\S+)", line)
        if m:
            cur = m.group(1)
            res[cur] = []
        elif cur is not None and line.strip():
            res[cur].append(line.strip())
    out = {}
    for k, v in res.items():
        txt = " ".join(v)
        out[k] = [] if "Closed under the global context" in txt else v
    return out, o


def coq_cone(props_file):
    """The .v files a property's theorems depend on (transitive `From YQ Require Import` closure)."""
    seen, todo = set(), [props_file]
    while todo:
        f = todo.pop()
        if f in seen or not os.path.exists(os.path.join(COQ, f)):
            continue
        seen.add(f)
        src = re.sub(r"\(\*.*?\*\)", "", open(os.path.join(COQ, f)).read(), flags=re.S)
        for m in re.finditer(r"From\s+YQ\s+Require\s+(?:Import|Export)\s+(.*?)\.(?=\s|$)", src, re.S):
            for mod in m.group(1).split():
                todo.append(mod.replace(".", "/") + ".v")
        for m in re.finditer(r"Require\s+(?:Import|Export)\s+(.*?)\.(?=\s|$)", src, re.S):
            for mod in m.group(1).split():
                if mod.startswith("YQ."):
                    todo.append(mod[3:].replace(".", "/") + ".v")
    return sorted(seen)


def hygiene_scan(props_file=None):
    """No Admitted/admit/Axiom/Parameter/... in the development (with props_file: in that property's
    dependency cone, so an unfinished file that no theorem uses cannot disturb other properties)."""
    bad = []
    pat = re.compile(r"\b(Admitted|admit|Axiom|Axioms|Parameter|Parameters|Conjecture|Conjectures|Guard Checking|Positivity Checking|Universe Checking|bypass_check|Admit Obligations|type-in-type|impredicative-set)\b")
    only = set(coq_cone(props_file)) if props_file else None
    for root, _, fs in os.walk(COQ):
        for f in fs:
            if not f.endswith(".v"):
                continue
            if only is not None and os.path.relpath(os.path.join(root, f), COQ) not in only:
                continue
            src = open(os.path.join(root, f)).read()
            src_nc = re.sub(r"\(\*.*?\*\)", "", src, flags=re.S)
            for m in pat.finditer(src_nc):
                bad.append("%s: %s" % (os.path.relpath(os.path.join(root, f), COQ), m.group(1)))
            # section-less Variable/Hypothesis
            depth = 0
            for line in src_nc.splitlines():
                if re.match(r"\s*(Section|Module)\s", line):
                    depth += 1
                elif re.match(r"\s*End\s", line):
                    depth -= 1
                elif depth == 0 and re.match(r"\s*(Variable|Variables|Hypothesis|Hypotheses|Context)\s", line):
                    bad.append("%s: section-less %s" % (f, line.strip()))
    return bad


# --------------------------------------------------------------------------
# implementation side: the yqh JSON-lines server
# --------------------------------------------------------------------------
def b64e(b):
    if isinstance(b, str):
        b = b.encode("utf-8")
    return base64.b64encode(b).decode()


def b64d(s):
    return base64.b64decode(s)


def yqh_batch(reqs, binary=None, timeout=600, env=None):
    """Run all requests through one yqh process; if the process dies (a fatal
    error recover() cannot catch), the request it died on is answered
    {"crash": ...} and the rest continue in a new process."""
    binary = binary or YQH
    out = [None] * len(reqs)
    start = 0
    while start < len(reqs):
        data = "".join(json.dumps(r) + "\n" for r in reqs[start:]).encode()
        try:
            p = subprocess.run([binary], input=data, stdout=subprocess.PIPE, stderr=subprocess.PIPE, timeout=timeout, env=env)
            lines = [l for l in p.stdout.decode("utf-8", "replace").split("\n") if l.strip()]   # not splitlines(): U+0085/U+2028 are data
            err = p.stderr.decode("utf-8", "replace")[-2000:]
        except subprocess.TimeoutExpired as e:
            lines = [l for l in (e.stdout or b"").decode("utf-8", "replace").split("\n") if l.strip()]
            err = "batch timeout"
        n = 0
        for ln in lines:
            try:
                out[start + n] = json.loads(ln)
            except Exception:
                break
            n += 1
        if start + n >= len(reqs):
            break
        out[start + n] = {"crash": err}
        start = start + n + 1
    return out


def yqh_parallel(reqs, binary=None, shards=None, timeout=600):
    """Split a batch over several yqh processes (order preserved)."""
    from concurrent.futures import ThreadPoolExecutor
    shards = shards or min(NCPU, max(1, len(reqs) // 50))
    if shards <= 1:
        return yqh_batch(reqs, binary, timeout)
    size = (len(reqs) + shards - 1) // shards
    parts = [reqs[i:i + size] for i in range(0, len(reqs), size)]
    with ThreadPoolExecutor(len(parts)) as ex:
        res = list(ex.map(lambda p: yqh_batch(p, binary, timeout), parts))
    return [r for part in res for r in part]


def run_yq(args, stdin=None, cwd=None, env=None, timeout=30):
    """Run the real binary built from the working tree. Returns (rc, stdout bytes, stderr bytes)."""
    try:
        p = subprocess.run([YQ] + args, input=stdin, cwd=cwd, env=env, timeout=timeout,
                           stdout=subprocess.PIPE, stderr=subprocess.PIPE)
        return p.returncode, p.stdout, p.stderr
    except subprocess.TimeoutExpired:
        return "timeout", b"", b""


# --------------------------------------------------------------------------
# model side: evaluate executable Gallina definitions with vm_compute
# --------------------------------------------------------------------------
def coq_str(b):
    """bytes / str / list of ints -> Coq term of type list N."""
    if isinstance(b, str):
        b = b.encode("utf-8")
    if len(b) == 0:
        return "(@nil N)"      # typed: a shard holding only empty strings must still elaborate
    return "[" + ";".join(str(x) for x in b) + "]"


def coq_list(items):
    return "[" + ";\n ".join(items) + "]"


def parse_coq_value(txt):
    """Parse the value printed by `Eval vm_compute in t` where t is built from
    nested lists / pairs of numbers / constructors without arguments."""
    m = re.search(r"=\s*(.*?)\n\s*:\s", txt, re.S)
    if not m:
        raise ValueError("no value in coq output: " + txt[:500])
    s = m.group(1)
    s = re.sub(r"%[A-Za-z_]+", "", s)
    toks = re.findall(r"\[|\]|\(|\)|;|,|[A-Za-z_][A-Za-z0-9_']*|-?\d+", s)
    pos = 0

    def parse():
        nonlocal pos
        t = toks[pos]
        if t == "[":
            pos += 1
            items = []
            while toks[pos] != "]":
                items.append(parse_app())
                if toks[pos] == ";":
                    pos += 1
            pos += 1
            return items
        if t == "(":
            pos += 1
            items = [parse_app()]
            while toks[pos] == ",":
                pos += 1
                items.append(parse_app())
            assert toks[pos] == ")", toks[pos - 5:pos + 5]
            pos += 1
            return tuple(items) if len(items) > 1 else items[0]
        pos += 1
        if re.match(r"-?\d+$", t):
            return int(t)
        return t

    def parse_app():
        nonlocal pos
        head = parse()
        args = []
        while pos < len(toks) and toks[pos] not in ("]", ")", ";", ","):
            args.append(parse())
        if args:
            return (head,) + tuple(args)
        return head

    v = parse_app()
    return v


def coq_eval_file(path, timeout=600):
    """Evaluate a generated file; only what it prints matters, so its compiled by-products are removed again
    (a thorough run writes thousands of shards)."""
    rc, o = sh(["coqc", "-noglob", "-Q", COQ, "YQ", path], cwd=os.path.dirname(path), timeout=timeout)
    base = path[:-2] if path.endswith(".v") else path
    for ext in (".vo", ".vos", ".vok", ".glob"):
        try:
            os.remove(base + ext)
        except OSError:
            pass
    try:
        os.remove(os.path.join(os.path.dirname(path), "." + os.path.basename(base) + ".aux"))
    except OSError:
        pass
    if rc == 0 and os.environ.get("VERIF_KEEP_CASES") != "1":
        try:
            os.remove(path)
        except OSError:
            pass
    return rc, o


def coq_mismatches(workdir, name, imports, model_fn, cases, shard=400, timeout=900, eq="str_eqb"):
    """cases: list of (coq_input_term, expected_output_bytes).
    Evaluates `model_fn input` inside Coq for every case and returns
    (list of (index, model_output_bytes), error_log or None).
    model_fn must have type  input -> list N."""
    from concurrent.futures import ThreadPoolExecutor
    os.makedirs(workdir, exist_ok=True)
    shards = [list(range(i, min(i + shard, len(cases)))) for i in range(0, len(cases), shard)]
    files = []
    for k, idxs in enumerate(shards):
        p = os.path.join(workdir, "%s_%d.v" % (name, k))
        with open(p, "w") as f:
            f.write(imports + "\nOpen Scope N_scope.\n")
            f.write("Definition cases := %s.\n" % coq_list(["(%s, %s)" % (cases[i][0], coq_str(cases[i][1])) for i in idxs]))
            f.write("Definition outs := Eval vm_compute in List.map (fun c => %s (fst c)) cases.\n" % model_fn)
            f.write("Fixpoint bad {A : Type} (i : N) (cs : list (A * list N)) (os : list (list N)) : list (N * list N) :=\n"
                    "  match cs, os with\n  | c :: cs', o :: os' => if %s o (snd c) then bad (i+1) cs' os' else (i, o) :: bad (i+1) cs' os'\n"
                    "  | _, _ => [] end.\n" % eq)
            f.write("Eval vm_compute in bad 0 cases outs.\n")
        files.append(p)

    def run(p):
        return coq_eval_file(p, timeout)

    with ThreadPoolExecutor(min(NCPU, len(files) or 1)) as ex:
        results = list(ex.map(run, files))
    mism = []
    for k, (rc, o) in enumerate(results):
        if rc != 0:
            return None, "coqc failed on %s:\n%s" % (files[k], o[-3000:])
        v = parse_coq_value(o)
        for item in v:
            i, out = item
            mism.append((shards[k][i], bytes(out) if all(0 <= x < 256 for x in out) else out))
    return mism, None


# --------------------------------------------------------------------------
# known findings, violations, evidence
# --------------------------------------------------------------------------
def known_findings(pid):
    """Lines of KNOWN_FINDINGS.txt:  known: property=<id> key=<key> :: <what fails>
                                     fixed: property=<id> <commit> <what failed>"""
    res = []
    p = os.path.join(VERIF, "KNOWN_FINDINGS.txt")
    if not os.path.exists(p):
        return res
    for line in open(p):
        line = line.strip()
        m = re.match(r"known:\s+property=(\S+)\s+key=(\S+)\s+::\s+(.*)", line)
        if m and m.group(1) == pid:
            res.append((m.group(2), m.group(3)))
    return res


class Check:
    def __init__(self, pid, tier, seed, level="proof"):
        self.pid, self.tier, self.seed, self.level = pid, tier, seed, level
        self.t0 = time.time()
        self.rng = random.Random(seed)
        self.workdir = os.path.join(WORK, pid)
        os.makedirs(self.workdir, exist_ok=True)
        self.violations = []
        self.known_printed = []
        self.obligations = 0
        self.discharged = 0
        self.thm_assumptions = {}
        self.cov = {"evaluations": 0, "distinct_nontrivial": 0, "samples": [], "rule": ""}
        self.assumptions = []
        self.trusted = []
        self.extra = {}
        self.seen = set()
        self.known = dict(known_findings(pid))
        self.known_hit = {}

    # ---- coverage bookkeeping
    def count(self, case_key, nontrivial=True, sample=None):
        self.cov["evaluations"] += 1
        if nontrivial:
            h = hashlib.sha1(repr(case_key).encode()).hexdigest()
            if h not in self.seen:
                self.seen.add(h)
                self.cov["distinct_nontrivial"] += 1
        if sample is not None and len(self.cov["samples"]) < 12:
            self.cov["samples"].append(sample)

    # ---- known findings
    def known_finding(self, key, detail=""):
        """Report that the listed finding `key` still reproduces."""
        if key in self.known and key not in self.known_hit:
            self.known_hit[key] = detail
            print("KNOWN-FINDING: property=%s %s [%s]" % (self.pid, self.known[key], key), flush=True)

    def is_known(self, key):
        return key in self.known

    # ---- violations
    def violation(self, replay, found_input=True, what=""):
        os.makedirs(os.path.join(VERIF, "replays"), exist_ok=True)
        n = len(self.violations)
        path = os.path.join(VERIF, "replays", "%s-%d-%d.json" % (self.pid, self.seed, n))
        replay = dict(replay, property=self.pid, what=what, seed=self.seed, tier=self.tier)
        with open(path, "w") as f:
            json.dump(replay, f, indent=1, default=repr)
        self.violations.append(path)
        tail = "" if found_input else " no-failing-input-found"
        print("VIOLATION property=%s replay=%s%s" % (self.pid, path, tail), flush=True)
        log("  -> %s" % what)

    # ---- proof obligations
    def prove(self, props_file, clean=False):
        """Build coq/Props/<pid>.vo from source; record obligations."""
        names = theorem_names(props_file)
        self.obligations = len(names)
        if clean:
            coq_clean_cone(props_file)
        ok_t, tlog = run_translator()
        if not ok_t:
            # a generator failure breaks the tie of the property that owns it:
            # gen_cXX.go -> CXX, main.go (genSh) -> C17; anything unattributable breaks every property
            mine = []
            for line in tlog.splitlines():
                m = re.search(r"FAILED (\S+) (.*)", line)
                if not m:
                    if line.strip():
                        mine.append(line)
                    continue
                owner = m.group(1).lower()
                mo = re.match(r"gen_(c\d+)", owner)
                pid = mo.group(1).upper() if mo else ("C17" if owner == "main.go" else None)
                if pid is None or pid == self.pid:
                    mine.append(line)
            if mine:
                self.extra["translator"] = "\n".join(mine)[-2000:]
                return False, "translator failed: " + "\n".join(mine)[-1500:]
        ok, o, dt = coq_make([props_file + "o"])
        self.extra["coq_build_s"] = round(dt, 1)
        bad = hygiene_scan(props_file)
        self.extra["cone"] = coq_cone(props_file)
        if bad:
            self.extra["hygiene"] = bad
            return False, "hygiene scan: " + "; ".join(bad)
        if not ok:
            self.extra["coq_log"] = o[-3000:]
            # theorems before the failing line still count as discharged
            m = re.search(r'File "\./%s", line (\d+)' % re.escape(props_file), o)
            if m:
                src = open(os.path.join(COQ, props_file)).read().splitlines()[:int(m.group(1))]
                self.discharged = max(0, len(re.findall(r"^\s*Theorem\s", "\n".join(src), re.M)) - 1)
            return False, o[-1500:]
        mod = props_file[:-2].replace("/", ".")
        if self.tier == "thorough":
            ok_c, clog = coqchk(mod)
            self.extra["coqchk"] = clog[-1500:]
            if not ok_c:
                return False, "coqchk failed: " + clog[-1200:]
        ass, alog = print_assumptions(self.pid, mod, names, self.workdir)
        if ass is None:
            return False, "Print Assumptions failed: " + alog[-1500:]
        self.thm_assumptions = ass
        self.discharged = len(names)
        return True, ""

    # ---- evidence
    def finish(self, checker_cmd, rule, trusted, assumptions, explanation=None):
        cov = dict(self.cov)
        cov["rule"] = rule
        cov["obligations"] = self.obligations
        cov["discharged"] = self.discharged
        if self.discharged == 0:
            # schema: a proof-level file must not claim 0 discharged; fall back to the generic keys
            del cov["discharged"]
            cov["discharged_none"] = True
        cov["checker_cmd"] = checker_cmd
        cov["trusted_base"] = trusted
        cov["theorems"] = {k: (v if v else "Closed under the global context") for k, v in self.thm_assumptions.items()}
        cov["known_findings_reproduced"] = self.known_hit
        cov.update(self.extra)
        if not cov["samples"]:
            cov["samples"] = ["(no case sampled)"]
        ev = {
            "property_id": self.pid, "tier": self.tier, "seed": self.seed, "level": self.level,
            "coverage": cov, "assumptions": assumptions, "wall_s": round(time.time() - self.t0, 2),
            "violations": len(self.violations),
        }
        os.makedirs(os.path.join(VERIF, "evidence"), exist_ok=True)
        with open(os.path.join(VERIF, "evidence", self.pid + ".json"), "w") as f:
            json.dump(ev, f, indent=1, default=repr)
        log("%s %s: evaluations=%d distinct_nontrivial=%d obligations=%d/%d violations=%d wall=%.1fs" % (
            self.pid, self.tier, cov["evaluations"], cov["distinct_nontrivial"], self.discharged, self.obligations,
            len(self.violations), time.time() - self.t0))
        return 1 if self.violations else 0


COMMON_TRUSTED = [
    "Coq 8.16.1 kernel and vm_compute (no native_compute); coqchk re-check in the thorough tier",
    "no axioms declared by the development (grep-enforced on every run); Print Assumptions per theorem is recorded under coverage.theorems",
    "translator harness/cmd/gentables (Go go/ast) for coq/Gen/*.v",
    "correspondence check: model evaluated inside Coq (vm_compute) vs implementation on generated inputs (sampling; python driver, yqh harness, canonicalisation)",
]
