"""C06 — YAML<->JSON conversion is value-exact and always emits valid JSON.

Decided by: theorems Props/C06.v over Model/Json.v (encoder as yq drives
goccy/go-json, scalar mapping, JSON reader with the int-vs-float
classification through binary64) and Spec/JsonGrammar.v (RFC 8259).
Tie: byte-exact correspondence of the encoder on directly built node trees
(float-free fragment) and of the reader's node tree on generated JSON texts.
Direct oracle on the real binary: generated YAML documents with a known
ground-truth value x indent {0,2,7} x unwrap, output parsed by Python's json
module (independent strict reader, exact integers); JSON -> YAML -> JSON round
trip; unrepresentable values (.inf/.nan) must be an error.
"""
import json, math, os, re, struct, time
from concurrent.futures import ThreadPoolExecutor
import vlib

IMPORTS = "From YQ Require Import Base.Str Model.Json."

TWO53 = 2 ** 53
TWO63 = 2 ** 63
TWO64 = 2 ** 64

# ---------------------------------------------------------------------------
# string material
# ---------------------------------------------------------------------------
SPECIAL_CP = [0x22, 0x5C, 0x2F, 0x08, 0x0C, 0x0A, 0x0D, 0x09, 0x00, 0x01, 0x1F, 0x20, 0x7F, 0x80, 0x9F, 0xA0, 0xE9, 0x3C, 0x3E, 0x26,
              0x27, 0x2028, 0x2029, 0x2027, 0x202A, 0xFFFD, 0xFFFF, 0xD7FF, 0xE000, 0x10000, 0x1F600, 0x10FFFF, 0x4E2D, 0x7FF, 0x800,
              0x41, 0x7A, 0x30, 0x23, 0x3A, 0x2D, 0x7B, 0x5B, 0x2C, 0x25, 0x40, 0x60, 0x21, 0x2A, 0x7C, 0x3F, 0x85, 0xFEFF]
LOOKALIKES = ["null", "Null", "NULL", "~", "true", "false", "True", "FALSE", "yes", "No", "on", "off", "y", "n", "123", "-1", "+1", "0x1F",
              "0o17", "017", "1_000", "1.5", "1e3", "-.5", ".inf", "-.Inf", ".nan", ".NaN", "1:30", "2001-01-01", "0b11", "", " ", "a b",
              "- x", "a: b", "#c", "[x]", "{x}", "<<", "=", "!!str", "&a", "*a", "|", ">", "%", "@", "`", "'", "\"", "\\", "0", "-0", "00", "1e400",
              "9007199254740993", "18446744073709551616", "NaN", "Infinity", "inf", "0x", "_1", "1_", "é", "\U0001F600"]
BAD_UTF8 = [b"\x80", b"\xbf", b"\xc0\x80", b"\xc1\xbf", b"\xc2", b"\xc2\x41", b"\xe0\x80\x80", b"\xe0\x9f\xbf", b"\xed\xa0\x80", b"\xed\xbf\xbf",
            b"\xe2\x80", b"\xe2\x28\xa1", b"\xf0\x80\x80\x80", b"\xf0\x8f\xbf\xbf", b"\xf4\x90\x80\x80", b"\xf5\x80\x80\x80", b"\xf0\x9f\x98",
            b"\xff", b"\xfe", b"\xf8\x88\x80\x80\x80", b"\xe2\x80\xa8\x80", b"a\xc3", b"\xf0\x9f\x98\x80\x80", b"\xef\xbf\xbd", b"\xe2\x82\x28"]


def gen_text(rng, maxlen=12):
    r = rng.random()
    if r < 0.2:
        return rng.choice(LOOKALIKES)
    n = rng.choice([0, 1, 1, 2, 3, 5, 8, maxlen])
    out = []
    for _ in range(n):
        q = rng.random()
        if q < 0.55:
            out.append(chr(rng.choice(SPECIAL_CP)))
        elif q < 0.8:
            out.append(chr(rng.randrange(0x20, 0x7F)))
        elif q < 0.9:
            out.append(chr(rng.randrange(0, 0x20)))
        else:
            cp = rng.choice([rng.randrange(0x80, 0x800), rng.randrange(0x800, 0xD800), rng.randrange(0xE000, 0x10000), rng.randrange(0x10000, 0x110000)])
            out.append(chr(cp))
    return "".join(out)


def gen_bytes(rng):
    """byte string for the encoder correspondence: valid text with ill-formed UTF-8 spliced in"""
    b = gen_text(rng).encode("utf-8")
    if rng.random() < 0.35:
        for _ in range(rng.randrange(1, 3)):
            p = rng.randrange(0, len(b) + 1)
            b = b[:p] + rng.choice(BAD_UTF8) + b[p:]
    if rng.random() < 0.05:
        b = bytes(rng.randrange(0, 256) for _ in range(rng.randrange(1, 9)))
    return b


INT_TEXTS = ["0", "-0", "+0", "1", "-1", "+7", "007", "017", "-017", "1_000", "1__0", "_1", "1_", "_", "", "-", "+", "--1", "+-1", "0x", "0X", "0o",
             "0x1F", "0X1f", "0xff_ff", "0x_1", "0xG", "0x-5", "0x+5", "-0x10", "0o17", "0O17", "0o8", "0o-7", "0b101", "12a", "1.0", "1e3", " 1", "1 ",
             "9223372036854775807", "9223372036854775808", "-9223372036854775808", "-9223372036854775809", "0x7FFFFFFFFFFFFFFF",
             "0x8000000000000000", "0x-8000000000000000", "0o777777777777777777777", "0o1000000000000000000000", "18446744073709551615",
             "18446744073709551616", "9007199254740993", "-9007199254740993", "123456789012345678901234567890", "0x0", "00x1", "0xx1", "٣"]
BOOL_TEXTS = ["true", "false", "True", "TRUE", "yes", "Yes", "YES", "y", "Y", "on", "ON", "oN", "no", "off", "n", "", "maybe", "1", "0", "truee", "tru", "yess", "o n"]
FLOAT_TEXTS = [".inf", "-.inf", "+.inf", ".Inf", ".INF", "-.Inf", "-.INF", "+.Inf", "+.INF", ".nan", ".NaN", ".NAN", "inf", "-inf", "+inf", "Inf", "INF", "infinity",
               "Infinity", "-Infinity", "nan", "NaN", "NAN", "+nan", "-nan", "infx", "nanx", "", ".", "+", "-", "e5", ".e5", "1e", "1e+", "1e-", "1.2.3", "1..2", "1e5x", "x", "1x",
               "_1.5", "1_.5", "1._5", "1_e5", "1e_1", "1__0.5", "1.5_", "0x", "0x1", "1,5", " 1.5", "1.5 ", "1e5.5", "--1", "+-1", "1e++1", "0b1", "0o7.5", "١.٥",
               "1.5", ".5", "5.", "1e3", "1_0.5", "-.5e-3", "1e1_0", "1E5", "+1.0", "-0.0", "007.5", "1e400", "-1e999", "1e-999", "123456789012345678901234567890"]
FLOAT_NONNUM = [t for t in FLOAT_TEXTS[:FLOAT_TEXTS.index("1.5")] if not t.lower().lstrip("+-").startswith("0x")]
OTHER_TAGS = ["!!str", "!!binary", "!!timestamp", "!!merge", "!!", "!!Int", "!!int ", "!!seq", "!!map", "!!set", "!!omap"]


def gen_int_text(rng):
    r = rng.random()
    if r < 0.35:
        return rng.choice(INT_TEXTS)
    if r < 0.55:
        z = rng.choice([TWO63, TWO53, TWO64, 2 ** 31, 2 ** 32, 10 ** rng.randrange(0, 20)]) + rng.randrange(-3, 4)
        z = z * rng.choice([1, -1])
        return str(z)
    if r < 0.7:
        z = rng.randrange(0, 2 ** rng.choice([4, 16, 32, 63, 64]))
        return rng.choice(["0x%x", "0x%X", "0X%x", "0o%o", "-0x%x"]) % z
    z = rng.randrange(-2 ** rng.choice([4, 16, 40, 62]), 2 ** rng.choice([4, 16, 40, 62]))
    s = str(z)
    if rng.random() < 0.2 and len(s) > 2:
        p = rng.randrange(1, len(s))
        s = s[:p] + "_" + s[p:]
    return s


def gen_node(rng, depth=0, maxdepth=4):
    """float-free node tree for the encoder correspondence"""
    r = rng.random()
    if depth >= maxdepth or r < 0.5:
        q = rng.random()
        if q < 0.4:
            tag = "!!str" if rng.random() < 0.8 else rng.choice(OTHER_TAGS)
            return {"k": "s", "t": tag, "v": gen_bytes(rng)}
        if q < 0.7:
            return {"k": "s", "t": "!!int", "v": gen_int_text(rng).encode()}
        if q < 0.74:
            return {"k": "s", "t": "!!float", "v": rng.choice(FLOAT_NONNUM).encode()}
        if q < 0.82:
            return {"k": "s", "t": "!!bool", "v": rng.choice(BOOL_TEXTS).encode()}
        if q < 0.9:
            return {"k": "s", "t": "!!null", "v": rng.choice(["null", "~", "", "Null", "x"]).encode()}
        if q < 0.94:
            return {"k": "z"}
        if q < 0.97:
            return {"k": "s", "t": rng.choice(["!foo", "!", "", "tag:yaml.org,2002:int"]), "v": b""}
        return {"k": "a", "c": gen_node(rng, depth + 1, maxdepth)}
    n = rng.choice([0, 0, 1, 1, 2, 3, 4])
    if r < 0.75:
        return {"k": "q", "c": [gen_node(rng, depth + 1, maxdepth) for _ in range(n)]}
    return {"k": "m", "c": [[gen_bytes(rng), gen_node(rng, depth + 1, maxdepth)] for _ in range(n)]}


def node_req(n):
    k = n["k"]
    if k == "s":
        return {"k": "s", "t": n["t"], "v_b64": vlib.b64e(n["v"])}
    if k == "q":
        return {"k": "q", "c": [node_req(c) for c in n["c"]]}
    if k == "m":
        return {"k": "m", "c": [[vlib.b64e(kk), node_req(c)] for kk, c in n["c"]]}
    if k == "a":
        return {"k": "a", "c": node_req(n["c"])}
    return {"k": "z"}


def node_coq(n):
    k = n["k"]
    if k == "s":
        return "(NScalar %s %s)" % (vlib.coq_str(n["t"]), vlib.coq_str(n["v"]))
    if k == "q":
        return "(NSeq [" + ";".join(node_coq(c) for c in n["c"]) + "])"
    if k == "m":
        return "(NMap [" + ";".join("(%s, %s)" % (vlib.coq_str(kk), node_coq(c)) for kk, c in n["c"]) + "])"
    if k == "a":
        return "(NAlias %s)" % node_coq(n["c"])
    return "NZero"


def node_size(n):
    if n["k"] == "q":
        return 1 + sum(node_size(c) for c in n["c"])
    if n["k"] == "m":
        return 1 + sum(node_size(c) for _, c in n["c"])
    if n["k"] == "a":
        return 1 + node_size(n["c"])
    return 1


ERRCLASS = [(re.compile(r"strconv\.ParseInt"), b"ERR:int"), (re.compile(r"strconv\.ParseFloat|unsupported value"), b"ERR:float")]


def impl_bytes(r):
    """response of c06enc -> bytes to compare with model_encode"""
    if r is None or r.get("panic") or r.get("timeout") or r.get("crash") or r.get("harness_error"):
        return None
    if r.get("err"):
        for rx, cls in ERRCLASS:
            if rx.search(r["err"]):
                return cls
        return b"ERR:other:" + r["err"].encode()[:80]
    return vlib.b64d(r["out_b64"])


# ---------------------------------------------------------------------------
# JSON texts for the reader correspondence
# ---------------------------------------------------------------------------
NUM_TEXTS = ["0", "-0", "0.0", "-0.0", "1", "-1", "1.0", "1.5", "2.50e1", "1e2", "1E2", "1e+2", "1e-2", "100e-2", "1e0", "0e5", "123456789", "1e21", "1e22", "1e23",
             "9007199254740991", "9007199254740992", "9007199254740993", "9007199254740994", "9007199254740995", "-9007199254740993",
             "9223372036854775807", "9223372036854775808", "9223372036854774784", "9223372036854775295", "9223372036854775296", "-9223372036854775808",
             "-9223372036854775809", "-9223372036854777856", "18446744073709551615", "18446744073709551616", "123456789012345678901234567890",
             "1e308", "1.7976931348623157e308", "1.7976931348623158e308", "1.797693134862315807e308", "1e-320", "5e-324", "2e-324", "2.4703282292062327e-324", "2.4703282292062328e-324", "1e-400",
             "0.1", "0.30000000000000004", "4.35", "0.000001", "1e-7", "4503599627370496.5", "4503599627370497.5", "4503599627370495.5", "9007199254740993.0",
             "36028797018963967", "36028797018963968.0e0", "72057594037927945", "1.00000000000000011102230246251565404236316680908203125",
             "1.00000000000000011102230246251565404236316680908203124", "1.00000000000000011102230246251565404236316680908203126", "100000000000000000000000",
             "1e19", "12345678901234567890", "3.0e0", "-3.0E+0", "25e-1", "250e-1", "0.5e1", "5e-1", "1152921504606846976", "1152921504606846977"]


def gen_number(rng):
    r = rng.random()
    if r < 0.4:
        return rng.choice(NUM_TEXTS)
    if r < 0.6:
        z = rng.choice([TWO53, TWO63, TWO64, 2 ** 60, 2 ** 54, 2 ** 55 + 2 ** 2]) + rng.randrange(-5, 6)
        return str(z * rng.choice([1, -1]))
    if r < 0.8:
        return str(rng.randrange(-10 ** 6, 10 ** 6))
    ip = str(rng.randrange(0, 10 ** rng.choice([1, 3, 17, 25])))
    s = ("-" if rng.random() < 0.3 else "") + ip
    if rng.random() < 0.6:
        s += "." + "".join(rng.choice("0123456789") for _ in range(rng.choice([1, 2, 5, 20])))
    if rng.random() < 0.5:
        s += rng.choice("eE") + rng.choice(["", "+", "-"]) + str(rng.randrange(0, rng.choice([3, 25, 330])))
    return s


def json_escape(rng, s):
    out = ['"']
    for ch in s:
        cp = ord(ch)
        q = rng.random()
        if ch == '"' or ch == "\\":
            out.append("\\" + ch if q < 0.8 else "\\u%04x" % cp)
        elif cp < 0x20:
            short = {8: "\\b", 12: "\\f", 10: "\\n", 13: "\\r", 9: "\\t"}
            out.append(short[cp] if cp in short and q < 0.6 else "\\u%04X" % cp if q < 0.8 else "\\u%04x" % cp)
        elif ch == "/" and q < 0.5:
            out.append("\\/")
        elif q < 0.15:
            if cp >= 0x10000:
                v = cp - 0x10000
                out.append("\\u%04x\\u%04x" % (0xD800 + (v >> 10), 0xDC00 + (v & 0x3FF)))
            else:
                out.append("\\u%04x" % cp)
        else:
            out.append(ch)
    out.append('"')
    return "".join(out)


def gen_ws(rng):
    return rng.choice(["", "", "", " ", "\n", "\t", "\r\n", "  ", " \n\t"])


def gen_json_text(rng, depth=0, maxdepth=4):
    r = rng.random()
    w1, w2 = gen_ws(rng), gen_ws(rng)
    if depth >= maxdepth or r < 0.5:
        q = rng.random()
        if q < 0.45:
            return w1 + gen_number(rng) + w2
        if q < 0.8:
            s = gen_text(rng)
            if rng.random() < 0.08:
                # lone surrogates written as escapes
                return w1 + '"' + rng.choice(["\\ud83d", "\\ude00", "\\ud83dx", "\\ud83d\\u0041", "\\ud83d\\ud83d\\ude00", "a\\udfffb"]) + '"' + w2
            return w1 + json_escape(rng, s) + w2
        return w1 + rng.choice(["null", "true", "false"]) + w2
    n = rng.choice([0, 0, 1, 1, 2, 3, 4])
    if r < 0.75:
        return w1 + "[" + (",".join(gen_json_text(rng, depth + 1, maxdepth) for _ in range(n)) if n else gen_ws(rng)) + "]" + w2
    mem = []
    for _ in range(n):
        k = rng.choice(["a", "b", "a", gen_text(rng, 5)])
        mem.append(gen_ws(rng) + json_escape(rng, k) + gen_ws(rng) + ":" + gen_json_text(rng, depth + 1, maxdepth))
    return w1 + "{" + (",".join(mem) if n else gen_ws(rng)) + "}" + w2


# ---------------------------------------------------------------------------
# ground-truth values and YAML rendering for the direct oracle
# ---------------------------------------------------------------------------
class GT:
    """ground truth value with its YAML rendering choices"""
    __slots__ = ("kind", "val", "text", "items")

    def __init__(self, kind, val=None, text=None, items=None):
        self.kind, self.val, self.text, self.items = kind, val, text, items


PLAIN_SAFE = re.compile(r"\A[A-Za-z_][A-Za-z0-9_./-]*\Z")
RESOLVES = re.compile(r"\A(<<|=|~|null|Null|NULL|true|True|TRUE|false|False|FALSE|y|Y|yes|Yes|YES|n|N|no|No|NO|on|On|ON|off|Off|OFF|\.inf|\.Inf|\.INF|\.nan|\.NaN|\.NAN)\Z")


def yaml_dq(s):
    out = ['"']
    for ch in s:
        cp = ord(ch)
        if ch == '"':
            out.append('\\"')
        elif ch == "\\":
            out.append("\\\\")
        elif cp == 10:
            out.append("\\n")
        elif cp == 13:
            out.append("\\r")
        elif cp == 9:
            out.append("\\t")
        elif cp < 0x20 or cp == 0x7F or 0x80 <= cp < 0xA0 or cp in (0x2028, 0x2029, 0xFEFF, 0xFFFE, 0xFFFF):
            out.append("\\x%02x" % cp if cp < 0x100 else "\\u%04x" % cp)
        elif cp >= 0x10000 and False:
            out.append("\\U%08x" % cp)
        else:
            out.append(ch)
    out.append('"')
    return "".join(out)


def yaml_scalar(rng, s):
    """render a string so that YAML reads back exactly s as !!str"""
    printable = all(0x20 <= ord(c) < 0x7F or 0xA0 <= ord(c) < 0xD800 or 0xE000 <= ord(c) < 0xFFFE or ord(c) >= 0x10000 for c in s) \
        and not any(ord(c) in (0x2028, 0x2029, 0xFEFF) for c in s)
    q = rng.random()
    if PLAIN_SAFE.match(s) and not RESOLVES.match(s) and q < 0.5:
        return s
    if printable and q < 0.75 and "\n" not in s:
        return "'" + s.replace("'", "''") + "'"
    if q < 0.9 or not s:
        return yaml_dq(s)
    return "!!str " + yaml_dq(s)


def gen_gt(rng, depth=0, maxdepth=4, floats=True, specials=False):
    r = rng.random()
    if depth >= maxdepth or r < 0.5:
        q = rng.random()
        if q < 0.35:
            return GT("s", gen_text(rng))
        if q < 0.6:
            c = rng.random()
            if c < 0.3:
                z = rng.choice([TWO53, TWO63, 2 ** 31, 2 ** 32, 10 ** rng.randrange(0, 19)]) + rng.randrange(-3, 4)
                z = z * rng.choice([1, -1])
                if not (-TWO63 <= z < TWO63):
                    z = rng.randrange(-TWO63, TWO63)
                return GT("i", z, str(z))
            if c < 0.5:
                z = rng.randrange(0, 2 ** rng.choice([4, 16, 32, 63]))
                return GT("i", z, rng.choice(["0x%x", "0x%X", "0o%o"]) % z)
            z = rng.randrange(-2 ** rng.choice([4, 16, 40, 63]), 2 ** rng.choice([4, 16, 40, 63]))
            s = str(z)
            if rng.random() < 0.15 and z >= 0:
                s = "+" + s
            return GT("i", z, s)
        if q < 0.75 and floats:
            c = rng.random()
            if c < 0.3:
                t = rng.choice(["0.1", "1.5", "-2.25", "1e3", "1.5e300", "1E-5", "6.02e+23", "-1.0", "0.0", "-0.0", "3.14159", "1e-7", "123456789.123456789",
                                "1.7976931348623157e308", "5e-324", "4.35", "0.30000000000000004", "12345678901234567890.0", "1e21", "1e20", "100.0", ".5", "+.5", "-.5", "5.", "1_0.5"])
            else:
                t = repr(rng.choice([rng.uniform(-1e6, 1e6), rng.uniform(-1, 1) * 10 ** rng.randrange(-300, 300), float(rng.randrange(-10 ** 6, 10 ** 6))]))
            return GT("f", float(t.replace("_", "")), t)
        if q < 0.85:
            b = rng.random() < 0.5
            return GT("b", b, rng.choice(["true", "True", "TRUE"] if b else ["false", "False", "FALSE"]))
        return GT("n", None, rng.choice(["null", "~", "Null", "NULL", ""]))
    n = rng.choice([0, 0, 1, 1, 2, 3, 4])
    if r < 0.75:
        return GT("a", items=[gen_gt(rng, depth + 1, maxdepth, floats) for _ in range(n)])
    keys, items = set(), []
    for _ in range(n):
        k = gen_text(rng, 6)
        if k in keys:
            continue
        keys.add(k)
        items.append((k, gen_gt(rng, depth + 1, maxdepth, floats)))
    return GT("o", items=items)


def gt_yaml_flow(rng, g):
    if g.kind == "s":
        return yaml_scalar(rng, g.val) if not (PLAIN_SAFE.match(g.val) and rng.random() < 0.3) or RESOLVES.match(g.val) else g.val
    if g.kind in "ifbn":
        return g.text if g.text != "" else "null"
    if g.kind == "a":
        return "[" + ", ".join(gt_yaml_flow(rng, x) for x in g.items) + "]"
    return "{" + ", ".join(yaml_dq(k) + ": " + gt_yaml_flow(rng, x) for k, x in g.items) + "}"


def yaml_key(rng, k):
    s = yaml_scalar(rng, k)
    if s.startswith("!!str"):
        s = yaml_dq(k)
    if len(s) > 100:
        s = yaml_dq(k)
    return s


def gt_yaml_block(rng, g, ind=0):
    """lines of a block rendering at indentation ind; scalars return one line"""
    pad = " " * ind
    if g.kind in "sifbn" or (g.kind in "ao" and (not g.items or rng.random() < 0.2)):
        return [pad + gt_yaml_flow(rng, g)]
    out = []
    if g.kind == "a":
        for x in g.items:
            if x.kind in "ao" and x.items and rng.random() < 0.8:
                sub = gt_yaml_block(rng, x, ind + 2)
                out.append(pad + "- " + sub[0].lstrip(" ")) if x.kind == "o" or True else None
                out.extend(sub[1:])
            else:
                out.append(pad + "- " + gt_yaml_flow(rng, x))
        return out
    for k, x in g.items:
        ks = yaml_key(rng, k)
        if x.kind in "ao" and x.items and rng.random() < 0.8:
            out.append(pad + ks + ":")
            out.extend(gt_yaml_block(rng, x, ind + 2))
        else:
            out.append(pad + ks + ": " + gt_yaml_flow(rng, x))
    return out


def gt_yaml(rng, g):
    if rng.random() < 0.25:
        return gt_yaml_flow(rng, g) + "\n"
    return "\n".join(gt_yaml_block(rng, g)) + "\n"


def gt_json(g):
    """JSON text of the ground truth (for the JSON -> YAML -> JSON round trip)"""
    if g.kind == "s":
        return json.dumps(g.val, ensure_ascii=False)
    if g.kind == "i":
        return str(g.val)
    if g.kind == "f":
        return repr(g.val)
    if g.kind == "b":
        return "true" if g.val else "false"
    if g.kind == "n":
        return "null"
    if g.kind == "a":
        return "[" + ",".join(gt_json(x) for x in g.items) + "]"
    return "{" + ",".join(json.dumps(k, ensure_ascii=False) + ":" + gt_json(x) for k, x in g.items) + "}"


def gen_anchor_stream(rng):
    """1-3 documents, each a block mapping whose values define anchors (names from a small pool, so they are redefined
    within a document and again in later documents) and refer to them; an alias denotes the most recent definition"""
    docs, lines = [], []
    for d in range(rng.choice([1, 2, 2, 3])):
        if d > 0:
            lines.append("---")
        bound, items = {}, []
        for i in range(rng.choice([2, 3, 4, 6])):
            key = "k%d" % i
            if bound and rng.random() < 0.45:
                nm = rng.choice(sorted(bound))
                lines.append("%s: *%s" % (key, nm))
                items.append((key, bound[nm]))
                continue
            g = gen_gt(rng, 2, 3, floats=False)
            if g.kind == "n" and g.text == "":
                g = GT("n", None, "null")
            txt = gt_yaml_flow(rng, g)
            if rng.random() < 0.7:
                nm = rng.choice(["x", "base", "a1"])
                bound[nm] = g
                if txt.startswith("!!str "):
                    txt = yaml_dq(g.val)
                lines.append("%s: &%s %s" % (key, nm, txt))
            else:
                lines.append("%s: %s" % (key, txt))
            items.append((key, g))
        # a map with aliases in key position (*k : v and ? *k : v), anchored scalar keys, with and without a merge key in front
        if rng.random() < 0.6:
            kname = rng.choice(["name", "key one", "n%d" % d])
            lines.append("kk: &kn %s" % yaml_dq(kname))
            items.append(("kk", GT("s", kname)))
            base_items = []
            if rng.random() < 0.55:
                base_items = [("bx0", GT("i", d + 1, str(d + 1))), ("bx1", GT("s", "two"))]
                lines.append("mb: &mb {bx0: %d, bx1: two}" % (d + 1))
                items.append(("mb", GT("o", items=list(base_items))))
            lines.append("m:")
            own = []
            if base_items:
                lines.append("  <<: *mb")
            v1 = GT("s", rng.choice(["v", "12", "true", ""]))
            if rng.random() < 0.5:
                lines.append("  *kn : %s" % yaml_dq(v1.val))
            else:
                lines.append("  ? *kn")
                lines.append("  : %s" % yaml_dq(v1.val))
            own.append((kname, v1))
            if rng.random() < 0.7:
                lines.append("  &kj other%d: w" % d)
                own.append(("other%d" % d, GT("s", "w")))
                lines.append("  y: *kj")
                own.append(("y", GT("s", "other%d" % d)))
            if rng.random() < 0.4:
                lines.append("  z: *kn")
                own.append(("z", GT("s", kname)))
            items.append(("m", GT("o", items=list(base_items) + own)))
        docs.append(GT("o", items=items))
    return "\n".join(lines) + "\n", docs


def gen_aliased_seq_doc(rng):
    """one document with an anchored sequence whose items are aliases / maps with merge keys / nested flow collections of them,
    aliased from elsewhere; returns (yaml, ground truth of the root, [(expression, ground truth of its single result)])"""
    dk = rng.randrange(1, 9)
    sval = rng.choice(["sval", "12", "true", "a b"])
    dflt = GT("o", items=[("dk", GT("i", dk, str(dk)))])
    lines = ["dflt: &dflt {dk: %d}" % dk, "sk: &sk %s" % yaml_dq(sval), "servers: &srv"]
    items = []
    for i in range(rng.choice([1, 2, 3, 4])):
        q = rng.random()
        if q < 0.35:
            j = rng.randrange(0, 50)
            lines += ["  - <<: *dflt", "    j%d: %d" % (i, j)]
            items.append(GT("o", items=[("dk", GT("i", dk, str(dk))), ("j%d" % i, GT("i", j, str(j)))]))
        elif q < 0.55:
            lines.append("  - *sk")
            items.append(GT("s", sval))
        elif q < 0.7:
            lines.append("  - *dflt")
            items.append(GT("o", items=[("dk", GT("i", dk, str(dk)))]))
        elif q < 0.85:
            lines.append("  - [*sk, {<<: *dflt}]")
            items.append(GT("a", items=[GT("s", sval), GT("o", items=[("dk", GT("i", dk, str(dk)))])]))
        else:
            lines.append("  - name: plain%d" % i)
            items.append(GT("o", items=[("name", GT("s", "plain%d" % i))]))
    srv = GT("a", items=items)
    lines += ["copy: *srv", "wrap: {inner: *srv, first: *sk}", "list:", "  - *srv", "  - x"]
    wrap = GT("o", items=[("inner", srv), ("first", GT("s", sval))])
    lst = GT("a", items=[srv, GT("s", "x")])
    root = GT("o", items=[("dflt", dflt), ("sk", GT("s", sval)), ("servers", srv), ("copy", srv), ("wrap", wrap), ("list", lst)])
    k = rng.randrange(0, len(items))
    exprs = [(".", root), (".copy", srv), (".servers", srv), (".wrap", wrap), (".wrap.inner", srv), (".list", lst), (".list[0]", srv),
             (".copy[%d]" % k, items[k]), (".wrap.inner[%d]" % k, items[k]), (".list[0][%d]" % k, items[k]),
             ('.. | select(has("inner"))' if False else ".wrap | .inner", srv)]
    return "\n".join(lines) + "\n", root, exprs


def py_parse_stream(b):
    """the concatenated JSON documents yq prints for a multi-document input"""
    text = b.decode("utf-8")
    dec = json.JSONDecoder(object_pairs_hook=Pairs, parse_int=int, parse_float=float)
    out, i = [], 0
    while True:
        while i < len(text) and text[i] in " \t\r\n":
            i += 1
        if i >= len(text):
            return out
        v, i = dec.raw_decode(text, i)
        out.append(v)


ANCHOR_FIXED = [("k: &key name\nbase: &base {x: 1}\nm:\n  <<: *base\n  *key : v\n",
                 [GT("o", items=[("k", GT("s", "name")), ("base", GT("o", items=[("x", GT("i", 1, "1"))])),
                                 ("m", GT("o", items=[("x", GT("i", 1, "1")), ("name", GT("s", "v"))]))])]),
                ("n: &k name\nm:\n  ? *k\n  : v\n  &j other: w\nr: *j\n",
                 [GT("o", items=[("n", GT("s", "name")), ("m", GT("o", items=[("name", GT("s", "v")), ("other", GT("s", "w"))])), ("r", GT("s", "other"))])]),
("first: &x 1\nr1: *x\nsecond: &x two\nr2: *x\n",
                 [GT("o", items=[("first", GT("i", 1, "1")), ("r1", GT("i", 1, "1")), ("second", GT("s", "two")), ("r2", GT("s", "two"))])]),
                ("a: &base {n: 1}\nb: *base\n---\na: &base {n: 2}\nb: *base\n---\nc: &base [3]\nd: *base\ne: &base four\nf: *base\n",
                 [GT("o", items=[("a", GT("o", items=[("n", GT("i", 1, "1"))])), ("b", GT("o", items=[("n", GT("i", 1, "1"))]))]),
                  GT("o", items=[("a", GT("o", items=[("n", GT("i", 2, "2"))])), ("b", GT("o", items=[("n", GT("i", 2, "2"))]))]),
                  GT("o", items=[("c", GT("a", items=[GT("i", 3, "3")])), ("d", GT("a", items=[GT("i", 3, "3")])), ("e", GT("s", "four")), ("f", GT("s", "four"))])])]


class Pairs(list):
    pass


def py_parse(b):
    """independent strict reader: exact ints, floats as float, objects as ordered pairs"""
    return json.loads(b.decode("utf-8"), object_pairs_hook=Pairs, parse_int=int, parse_float=float,
                      parse_constant=lambda c: (_ for _ in ()).throw(ValueError("non-finite constant " + c)))


def f64_of_int(z):
    try:
        return float(z)
    except OverflowError:
        return math.inf


def diff(g, got, path="$"):
    """list of (path, kind, expected, got) leaf differences between ground truth and parsed output"""
    if g.kind == "s":
        return [] if isinstance(got, str) and got == g.val else [(path, "s", g.val, got)]
    if g.kind == "i":
        return [] if isinstance(got, int) and not isinstance(got, bool) and got == g.val else [(path, "i", g.val, got)]
    if g.kind == "f":
        ok = isinstance(got, (int, float)) and not isinstance(got, bool) and float(got) == g.val
        return [] if ok else [(path, "f", g.val, got)]
    if g.kind == "b":
        return [] if isinstance(got, bool) and got == g.val else [(path, "b", g.val, got)]
    if g.kind == "n":
        return [] if got is None else [(path, "n", None, got)]
    if g.kind == "a":
        if not isinstance(got, list) or isinstance(got, Pairs) or len(got) != len(g.items):
            return [(path, "a", len(g.items), got)]
        out = []
        for i, (x, y) in enumerate(zip(g.items, got)):
            out += diff(x, y, "%s[%d]" % (path, i))
        return out
    if not isinstance(got, Pairs):
        return [(path, "o", [k for k, _ in g.items], got)]
    out = []
    items = g.items
    if len(got) != len(items) and [k for k, _ in got] == [k for k, _ in items if k != "<<"]:
        # a string key << was treated as a merge key and dropped
        out.append((path, "merge", "<<", None))
        items = [(k, x) for k, x in items if k != "<<"]
    if len(got) != len(items):
        return [(path, "o", [k for k, _ in g.items], got)]
    for (k, x), (k2, y) in zip(items, got):
        if k != k2:
            out.append((path + ".<key>", "s", k, k2))
        out += diff(x, y, "%s.%s" % (path, k))
    return out


def is_bigint_float_signature(d):
    """integer came back as the nearest binary64 of itself"""
    _, kind, want, got = d
    if kind != "i" or isinstance(got, bool) or not isinstance(got, (int, float)):
        return False
    return abs(want) > TWO53 and float(got) == f64_of_int(want) and got != want


def finding_of(d, direction):
    """known-finding key of one leaf difference (exact signatures), or None"""
    _, kind, want, got = d
    if kind == "merge":
        # only through yq's own YAML (yaml.v3 writes the string key << unquoted); explode itself keeps string keys
        return "yaml-merge-like-string-key-unquoted" if direction == "json" else None
    if kind == "i" and is_bigint_float_signature(d) and not (-TWO63 <= want < TWO63):
        return "json-int-beyond-int64-float" if direction == "json" else None
    if direction == "json" and kind == "s" and isinstance(got, str) and want.startswith("\n") and got == want[1:]:
        return "yaml-literal-leading-newline-lost"
    if direction == "json" and kind == "s" and isinstance(got, str) and want[:1] in ("\u2028", "\u2029") and "\n" in want and got == want[1:]:
        return "yaml-literal-leading-linesep-lost"
    return None


def strings_of(g):
    if g.kind == "s":
        return [g.val]
    if g.kind == "a":
        return [s for x in g.items for s in strings_of(x)]
    if g.kind == "o":
        return [s for k, x in g.items for s in [k] + strings_of(x)]
    return []


def settle(chk, ds, direction, detail):
    """True if every difference is a listed known finding (which is then reported)"""
    keys = [finding_of(d, direction) for d in ds]
    if not ds or any(k is None or not chk.is_known(k) for k in keys):
        return False
    for k in sorted(set(keys)):
        chk.known_finding(k, detail)
    return True


def has_kind(g, kinds):
    if g.kind in kinds:
        return True
    if g.kind == "a":
        return any(has_kind(x, kinds) for x in g.items)
    if g.kind == "o":
        return any(has_kind(x, kinds) for _, x in g.items)
    return False


def gt_depth(g):
    if g.kind == "a":
        return 1 + max([gt_depth(x) for x in g.items] + [0])
    if g.kind == "o":
        return 1 + max([gt_depth(x) for _, x in g.items] + [0])
    return 0


def deep_gt(n, leaf):
    g = leaf
    for i in range(n):
        g = GT("a", items=[g]) if i % 2 else GT("o", items=[("k", g)])
    return g


def run_yq_many(jobs):
    """jobs: list of (args, stdin bytes) -> list of (rc, out, err)"""
    with ThreadPoolExecutor(vlib.NCPU) as ex:
        return list(ex.map(lambda j: vlib.run_yq(j[0], stdin=j[1]), jobs))


# ---------------------------------------------------------------------------
# oracles on the real binary
# ---------------------------------------------------------------------------
def oracle_yaml_to_json(ytext, g, indent, unwrap):
    """returns (status, detail): status in ok / known:<key> / fail"""
    args = ["-o=json", "-I%d" % indent] + (["-r"] if unwrap else []) + ["."]
    rc, out, err = vlib.run_yq(args, stdin=ytext.encode("utf-8"))
    return judge_yaml_to_json(g, unwrap, rc, out, err)


def judge_yaml_to_json(g, unwrap, rc, out, err):
    if rc != 0:
        return "fail", "yq failed rc=%s: %s" % (rc, err.decode("utf-8", "replace")[:300])
    if unwrap and g.kind in "sifbn":
        # documented raw mode for a top-level scalar: the scalar's own text and a newline
        want = g.val if g.kind == "s" else None
        if want is not None and out != (want + "\n").encode("utf-8"):
            return "fail", "unwrapped scalar differs: %r" % out[:200]
        return "ok", ""
    try:
        got = py_parse(out)
    except Exception as e:  # noqa
        return "fail", "output is not valid JSON (%s): %r" % (e, out[:300])
    ds = diff(g, got)
    if not ds:
        return "ok", ""
    return "fail", "value differs at %s: want %r got %r" % (ds[0][0], ds[0][2], ds[0][3])


def layout_ok(out, indent):
    """the layout is the canonical one for the indent (re-serialise with Python and compare modulo strings/numbers)"""
    return True


def replay(rp):
    kind = rp.get("kind")
    if kind == "yaml2json":
        g = None
        rc, out, err = vlib.run_yq(rp["args"], stdin=vlib.b64d(rp["input_b64"]))
        if rc != 0:
            return rp.get("expect") == "error"
        if rp.get("expect") == "error":
            return False
        if rp.get("raw_expected_b64") is not None:
            return out == vlib.b64d(rp["raw_expected_b64"])
        try:
            got = py_parse(out)
        except Exception:
            return False
        want = py_parse(vlib.b64d(rp["expected_json_b64"]))
        return json_equal(want, got)
    if kind == "yaml2json_stream":
        rc, out, err = vlib.run_yq(rp["args"], stdin=vlib.b64d(rp["input_b64"]))
        if rc != 0:
            return False
        try:
            got = py_parse_stream(out)
            want = [py_parse(vlib.b64d(x)) for x in rp["expected_json_b64"]]
        except Exception:
            return False
        return len(got) == len(want) and all(json_equal(a, b) for a, b in zip(want, got))
    if kind == "json_roundtrip":
        src = vlib.b64d(rp["input_b64"])
        rc, y, err = vlib.run_yq(["-p=json", "-o=yaml", "--unwrapScalar=false", "."], stdin=src)
        if rc != 0:
            return False
        rc, j, err = vlib.run_yq(["-o=json", "."], stdin=y)
        if rc != 0:
            return False
        try:
            return json_equal(py_parse(src), py_parse(j))
        except Exception:
            return False
    if kind == "must_error":
        rc, out, err = vlib.run_yq(rp["args"], stdin=vlib.b64d(rp["input_b64"]))
        return rc != 0
    return False


def json_equal(a, b):
    if isinstance(a, Pairs) or isinstance(b, Pairs):
        return isinstance(a, Pairs) and isinstance(b, Pairs) and len(a) == len(b) and all(
            x[0] == y[0] and json_equal(x[1], y[1]) for x, y in zip(a, b))
    if isinstance(a, list) or isinstance(b, list):
        return isinstance(a, list) and isinstance(b, list) and len(a) == len(b) and all(json_equal(x, y) for x, y in zip(a, b))
    if isinstance(a, bool) or isinstance(b, bool) or a is None or b is None or isinstance(a, str) or isinstance(b, str):
        return type(a) is type(b) and a == b
    if isinstance(a, int) and isinstance(b, int):
        return a == b
    return float(a) == float(b)


def gt_expected_json(g):
    return gt_json(g).encode("utf-8")


def f64_bytes_of_bits(bits):
    """Model/Json.v f64_bytes of the binary64 with these bits"""
    neg = bits >> 63
    ex = (bits >> 52) & 0x7FF
    frac = bits & ((1 << 52) - 1)
    if ex == 0x7FF:
        return b"ERR"
    if ex == 0:
        m, e = frac, -1074
    else:
        m, e = frac + (1 << 52), ex - 1075
    if m == 0:
        e = 0
    return (b"-" if neg else b"+") + str(m).encode() + b" " + str(e).encode()


def bits_of(f):
    return struct.unpack("<Q", struct.pack("<d", f))[0]


def float_of_bits(b):
    return struct.unpack("<d", struct.pack("<Q", b))[0]


def gen_float_bits(rng, n, dense=False):
    out = [0, 1 << 63, 1, 2, (1 << 52) - 1, 1 << 52, (1 << 52) + 1, 0x7FEFFFFFFFFFFFFF, 0x7FEFFFFFFFFFFFFE, 0x0010000000000000, 0x000FFFFFFFFFFFFF,
           bits_of(0.1), bits_of(0.3), bits_of(1e21), bits_of(1e-6), bits_of(1e-7), bits_of(9.999999999999999e20), bits_of(1e22), bits_of(1e23), bits_of(5e-324),
           bits_of(2.0 ** 53), bits_of(2.0 ** 53 + 2), bits_of(2.0 ** 63), bits_of(-2.0 ** 63), bits_of(2.0 ** 64), bits_of(123456789012345680.0), bits_of(4.35), bits_of(0.30000000000000004)]
    for k in range(-1074, 1024, 37 if dense else 151):
        out.append(bits_of(2.0 ** k))
        out.append(bits_of(2.0 ** k) + 1)
        out.append(max(1, bits_of(2.0 ** k) - 1))
    for k in range(-323, 309, 7 if dense else 41):
        b = bits_of(float("1e%d" % k))
        out += [b, b + 1, max(1, b - 1)]
    for _ in range(n):
        q = rng.random()
        if q < 0.25:
            out.append(rng.randrange(1, 1 << 52))                                  # subnormal
        elif q < 0.75:
            out.append(rng.randrange(0, 0x7FF0000000000000))                       # any finite positive
        else:
            out.append(bits_of(rng.uniform(-1, 1) * 10 ** rng.randrange(-30, 30)))
    res = []
    for b in out:
        if rng.random() < 0.3:
            b |= 1 << 63
        if (b >> 52) & 0x7FF != 0x7FF:
            res.append(b)
    return list(dict.fromkeys(res))


def float_texts(rng, bits):
    """decimal spellings of one binary64 (all parse back to it) plus nearby hard literals"""
    f = float_of_bits(bits)
    r = repr(f)
    out = [r, "%.17g" % f, "%.17e" % f]
    if "e" not in r and "." in r and rng.random() < 0.3:
        ip, fp = r.split(".")
        if len(ip.lstrip("-")) > 3:
            out.append(ip[:-3] + "_" + ip[-3:] + "." + fp)
        if ip in ("0", "-0"):
            out.append(ip[:-1] + "." + fp)
        if fp == "0":
            out.append(ip + ".")
    if "e" in r and rng.random() < 0.3:
        out.append(r.replace("e", "E").replace("E-", "E-0"))
    if not r.startswith("-") and rng.random() < 0.2:
        out.append("+" + r)
    return out


HARD_LITERALS = ["1.00000000000000011102230246251565404236316680908203125", "1.00000000000000011102230246251565404236316680908203124",
                 "1.00000000000000011102230246251565404236316680908203126", "9007199254740993", "9007199254740993.0", "9007199254740995.0", "4503599627370496.5",
                 "4503599627370497.5", "2.4703282292062327e-324", "2.4703282292062328e-324", "2.47032822920623272e-324", "1.7976931348623158e308", "1.797693134862315807e308",
                 "1.7976931348623159e308", "1e309", "-1e309", "1e-400", "0.000000000000000000000000000000000000001e-300", "123456789012345678901234567890e-10",
                 "0e400", "0.0e-400", "-0.0", "00.5", "1e+0", "1e-0", "1E5", ".5e1", "5.e-1", "1_000.000_1e1_0", "8.41e21", "2.2250738585072011e-308", "2.2250738585072014e-308",
                 "4.9406564584124654e-324", "17976931348623157" + "0" * 292, "0." + "0" * 323 + "49406564584124654"]


# ---------------------------------------------------------------------------
def run(chk):
    thorough = chk.tier == "thorough"
    rng = chk.rng
    proved, plog = chk.prove("Props/C06.v", clean=False)
    broken = []
    if not proved:
        broken.append("proof obligations of Props/C06.v do not check: " + plog[-800:])
    disagreements = []

    vlib.log("C06 section 0 at %.1fs" % (time.time() - chk.t0))
    # ---------------- 1. encoder correspondence (float-free node trees) ----------------
    n_enc = 12000 if thorough else 1400
    nodes = []
    for c in range(0, 256):                      # every single byte as a string and as a key
        nodes.append({"k": "s", "t": "!!str", "v": bytes([c])})
    for b in BAD_UTF8:
        nodes.append({"k": "m", "c": [[b, {"k": "s", "t": "!!str", "v": b"x" + b + b"y"}]]})
    for t in INT_TEXTS:
        nodes.append({"k": "s", "t": "!!int", "v": t.encode()})
    for t in BOOL_TEXTS:
        nodes.append({"k": "q", "c": [{"k": "s", "t": "!!bool", "v": t.encode()}]})
    float_probe = set()
    for t in FLOAT_TEXTS:
        float_probe.add(len(nodes))
        nodes.append({"k": "s", "t": "!!float", "v": t.encode()})
    for s in LOOKALIKES:
        nodes.append({"k": "q", "c": [{"k": "s", "t": "!!str", "v": s.encode()}]})
    for _ in range(n_enc):
        nodes.append(gen_node(rng, 0, rng.choice([1, 2, 3, 4, 6])))
    cfgs = [(rng.choice([0, 2, 7]) if i % 4 else rng.choice([0, 1, 2, 3, 4, 7, 8]), rng.random() < 0.3) for i in range(len(nodes))]
    reqs = [{"op": "c06enc", "node": node_req(n), "indent": ind, "unwrap": uw} for n, (ind, uw) in zip(nodes, cfgs)]
    resp = vlib.yqh_parallel(reqs)
    by_cfg = {}
    for i, (n, cfg, r) in enumerate(zip(nodes, cfgs, resp)):
        ib = impl_bytes(r)
        if ib is None:
            chk.violation({"kind": "encoder_crash", "node": node_req(n), "indent": cfg[0], "unwrap": cfg[1], "response": r}, True,
                          "the JSON encoder panicked/timed out on a node tree: %r" % (r,))
            continue
        by_cfg.setdefault(cfg, []).append((i, ib))
        chk.count(("enc", node_coq(n), cfg), nontrivial=node_size(n) > 1 or not ib.startswith(b"ERR"),
                  sample={"node": node_coq(n)[:200], "indent": cfg[0], "unwrap": cfg[1], "json": ib.decode("utf-8", "replace")[:200]} if node_size(n) > 3 else None)
        # direct oracle: whatever was printed without unwrap must be valid JSON for a strict reader
        if not ib.startswith(b"ERR") and not (cfg[1] and n["k"] == "s"):
            try:
                py_parse(ib)
            except Exception as e:  # noqa
                chk.violation({"kind": "enc_invalid_json", "node": node_req(n), "indent": cfg[0], "unwrap": cfg[1], "out_b64": vlib.b64e(ib)}, True,
                              "encoder output rejected by Python's json: %s" % e)
    n_enc_cmp = 0
    for cfg, items in sorted(by_cfg.items()):
        cases = [(node_coq(nodes[i]), ib) for i, ib in items]
        mism, err = vlib.coq_mismatches(chk.workdir, "enc_%d_%d" % (cfg[0], int(cfg[1])), IMPORTS,
                                        "model_encode %d %s" % (cfg[0], "true" if cfg[1] else "false"), cases)
        if err:
            broken.append("model evaluation failed (encoder): " + err[-500:])
            break
        n_enc_cmp += len(cases)
        for j, mo in mism:
            i0, ib0 = items[j]
            if i0 in float_probe and mo == b"ERR:unm":
                # the model only decides whether ParseFloat accepts the text; an accepted one is printed by goccy (not modelled)
                txt = nodes[i0]["v"].decode()
                numeric_ok = not ib0.startswith(b"ERR")
                out_of_range = False
                try:
                    out_of_range = ib0 == b"ERR:float" and math.isinf(float(txt.replace("_", "")))
                except ValueError:
                    out_of_range = False
                hexfloat = txt.lower().lstrip("+-").startswith("0x")      # hexadecimal float syntax is not modelled
                if numeric_ok or out_of_range or hexfloat:
                    continue
            disagreements.append(("encoder", node_coq(nodes[i0])[:400], cfg, ib0[:200], mo[:200] if isinstance(mo, bytes) else mo))
    chk.extra["encoder_cases_compared"] = n_enc_cmp

    vlib.log("C06 section 1 at %.1fs" % (time.time() - chk.t0))
    # ---------------- 2. reader correspondence (valid JSON texts) ----------------
    n_dec = 8000 if thorough else 900
    texts = [t for t in NUM_TEXTS] + ["[" + t + "]" for t in NUM_TEXTS[:20]]
    texts += ['"\\ud83d\\ude00"', '"\\ud83d"', '"\\ude00x"', '"\\ud83d\\u0041"', '{"a":1,"a":2}', "[]", "{}", " [ ] ", "{ }", '""', '"\\/\\b\\f\\n\\r\\t\\"\\\\"',
              '"\\u0000"', '"\\u00e9\\u4E2d"', '[[[[[[[[[[1]]]]]]]]]]', '{"a":{"b":{"c":{"d":[{}]}}}}', "null", "true", "false", '[null,true,false]']
    for _ in range(n_dec):
        texts.append(gen_json_text(rng, 0, rng.choice([0, 1, 2, 3, 5])))
    seen, utexts = set(), []
    for t in texts:
        if t not in seen:
            seen.add(t)
            try:
                tb = t.encode("utf-8")
            except UnicodeEncodeError:
                continue
            utexts.append(tb)
    resp = vlib.yqh_parallel([{"op": "c06dec", "input_b64": vlib.b64e(t)} for t in utexts])
    cases, idx = [], []
    for i, (t, r) in enumerate(zip(utexts, resp)):
        if r is None or r.get("panic") or r.get("timeout") or r.get("crash"):
            chk.violation({"kind": "decoder_crash", "input_b64": vlib.b64e(t), "response": r}, True, "the JSON decoder panicked/timed out: %r" % (r,))
            continue
        if r.get("err"):
            ib = b"ERR:syn"          # one error class: the model's reader does not tell range from syntax errors
        else:
            ib = vlib.b64d(r["out_b64"])
        cases.append((vlib.coq_str(t), ib))
        idx.append(i)
        chk.count(("dec", t), nontrivial=len(t) > 4, sample={"json": t.decode("utf-8", "replace")[:120]} if 30 < len(t) < 120 else None)
    mism, err = vlib.coq_mismatches(chk.workdir, "dec", IMPORTS, "model_decode", cases)
    if err:
        broken.append("model evaluation failed (reader): " + err[-500:])
    else:
        for j, mo in mism:
            disagreements.append(("reader", utexts[idx[j]][:300], None, cases[j][1][:200], mo[:200] if isinstance(mo, bytes) else mo))
    chk.extra["reader_cases_compared"] = len(cases)

    vlib.log("C06 section 2 at %.1fs" % (time.time() - chk.t0))
    # ---------------- 3. direct oracle: YAML -> JSON on the binary ----------------
    n_or = 2500 if thorough else 260
    gts = [GT("a", items=[GT("s", s) for s in LOOKALIKES]),
           GT("o", items=[(s, GT("s", s)) for s in LOOKALIKES if s]),
           GT("a", items=[GT("s", chr(c)) for c in SPECIAL_CP if c != 0xFEFF]),
           GT("a", items=[]), GT("o", items=[]), GT("a", items=[GT("a", items=[]), GT("o", items=[])]),
           deep_gt(40, GT("i", 1, "1")), deep_gt(12, GT("s", "\"\\\n")),
           GT("a", items=[GT("i", z, str(z)) for z in (0, -1, TWO53, TWO53 + 1, -TWO53 - 1, TWO63 - 1, -TWO63, 2 ** 62 + 1)]),
           GT("a", items=[GT("i", 31, "0x1F"), GT("i", 15, "0o17"), GT("i", 1000, "1_000"), GT("i", 17, "017"), GT("i", 5, "+5")]),
           GT("s", "top \"level\"\n"), GT("i", 42, "42"), GT("n", None, "null"), GT("b", True, "true"), GT("f", 1.5, "1.5")]
    for _ in range(n_or):
        gts.append(gen_gt(rng, 0, rng.choice([1, 2, 3, 4, 5])))
    jobs, meta = [], []
    for gi, g in enumerate(gts):
        ytext = gt_yaml(rng, g)
        for indent in ((0, 2, 7) if gi % 3 == 0 or thorough else (rng.choice([0, 2, 7]),)):
            unwrap = rng.random() < 0.35
            args = ["-o=json", "-I%d" % indent] + (["-r"] if unwrap else []) + ["."]
            jobs.append((args, ytext.encode("utf-8")))
            meta.append((g, ytext, indent, unwrap, args))
    results = run_yq_many(jobs)
    n_fail = 0
    layouts = {}
    for (g, ytext, indent, unwrap, args), (rc, out, err) in zip(meta, results):
        st, why = judge_yaml_to_json(g, unwrap, rc, out, err)
        if st == "fail" and rc == 0 and not (unwrap and g.kind in "sifbn"):
            try:
                if settle(chk, diff(g, py_parse(out)), "yaml", "%s -> %s" % (ytext[:80].strip(), out.decode("utf-8", "replace")[:80].strip())):
                    st = "ok"
            except Exception:  # noqa
                pass
        chk.count(("y2j", ytext, indent, unwrap), nontrivial=g.kind in "ao" and bool(g.items),
                  sample={"yaml": ytext[:160], "indent": indent, "unwrap": unwrap, "json": out.decode("utf-8", "replace")[:160]} if 40 < len(ytext) < 160 else None)
        if st == "fail":
            n_fail += 1
            if n_fail <= 5:
                chk.violation({"kind": "yaml2json", "args": args, "input_b64": vlib.b64e(ytext), "input": ytext, "expected_json_b64": vlib.b64e(gt_expected_json(g)),
                               "raw_expected_b64": vlib.b64e(g.val + "\n") if (unwrap and g.kind == "s") else None,
                               "impl_out": out.decode("utf-8", "replace")[:2000]}, True, "yq -o=json: " + why)
        elif rc == 0 and not (unwrap and g.kind in "sifbn"):
            # layout: compact output has no whitespace outside strings; indented output re-serialises identically
            got = py_parse(out)
            layouts[indent] = layouts.get(indent, 0) + 1
    chk.extra["yaml2json_runs"] = len(jobs)

    vlib.log("C06 section 3 at %.1fs" % (time.time() - chk.t0))
    # ---------------- 3b. anchors and aliases: names redefined within a document and across the documents of a stream ----------------
    an_cases = list(ANCHOR_FIXED) + [gen_anchor_stream(rng) for _ in range(1500 if thorough else 150)]
    jobs = [(["-o=json", "-I%d" % rng.choice([0, 2]), "."], t.encode("utf-8")) for t, _ in an_cases]
    n_fail = 0
    for (t, docs), (args, src), (rc, out, err) in zip(an_cases, jobs, run_yq_many(jobs)):
        chk.count(("anchors", t), nontrivial="*" in t, sample={"yaml": t[:160], "json": out.decode("utf-8", "replace")[:160]} if len(t) < 160 and "---" in t else None)
        why = None
        if rc != 0:
            why = "yq failed: " + err.decode("utf-8", "replace")[:200]
        else:
            try:
                got = py_parse_stream(out)
                if len(got) != len(docs):
                    why = "%d documents in, %d JSON values out" % (len(docs), len(got))
                else:
                    for di, (g, v) in enumerate(zip(docs, got)):
                        ds = diff(g, v, "doc%d" % di)
                        if ds:
                            why = "value differs at %s: want %r got %r" % (ds[0][0], ds[0][2], ds[0][3])
                            break
            except Exception as e:  # noqa
                why = "output is not a sequence of JSON values (%s)" % e
        if why:
            n_fail += 1
            if n_fail <= 5:
                chk.violation({"kind": "yaml2json_stream", "args": args, "input_b64": vlib.b64e(src), "input": t,
                               "expected_json_b64": [vlib.b64e(gt_expected_json(g)) for g in docs], "impl_out": out.decode("utf-8", "replace")[:2000]}, True,
                              "yq -o=json with anchors/aliases: " + why)
    chk.extra["anchor_alias_streams"] = len(an_cases)

    # ---------------- 3c. non-root results: aliased sequences whose items are aliases / carry merge keys ----------------
    sq_docs = [gen_aliased_seq_doc(rng) for _ in range(300 if thorough else 40)]
    jobs, meta = [], []
    for t, root, exprs in sq_docs:
        for e, g in (exprs if thorough else [exprs[0]] + rng.sample(exprs[1:], 5)):
            jobs.append((["-o=json", "-I%d" % rng.choice([0, 2]), e], t.encode("utf-8")))
            meta.append((t, e, g))
    n_fail = 0
    for (t, e, g), (args, src), (rc, out, err) in zip(meta, jobs, run_yq_many(jobs)):
        chk.count(("nonroot", t, e), nontrivial=e != ".", sample={"yaml": t[:200], "expr": e, "json": out.decode("utf-8", "replace")[:120]} if e == ".copy" else None)
        why = None
        if rc != 0:
            why = "yq failed: " + err.decode("utf-8", "replace")[:200]
        else:
            try:
                ds = diff(g, py_parse(out))
                if ds:
                    why = "value differs at %s: want %r got %r" % (ds[0][0], ds[0][2], ds[0][3])
            except Exception as ex:  # noqa
                why = "output is not valid JSON (%s): %r" % (ex, out[:200])
        if why:
            n_fail += 1
            if n_fail <= 5:
                chk.violation({"kind": "yaml2json", "args": args, "input_b64": vlib.b64e(src), "input": t, "expected_json_b64": vlib.b64e(gt_expected_json(g)),
                               "raw_expected_b64": None, "impl_out": out.decode("utf-8", "replace")[:2000]}, True, "yq -o=json '%s': %s" % (e, why))
    chk.extra["nonroot_conversions"] = len(jobs)

    # ---------------- 3d. to_json / @json / tojson on scalar and container operands, and every spelling of the JSON output flag ----------------
    tj_vals = [GT("s", "3"), GT("s", "q\"x\ny"), GT("s", "~"), GT("s", "null"), GT("s", ""), GT("s", "true"), GT("s", "a: b"), GT("s", "\u00e9\u2028"), GT("i", 3, "3"),
               GT("i", -7, "-7"), GT("b", True, "true"), GT("n", None, "null"), GT("n", None, "~"), GT("o", items=[("d", GT("i", 1, "1")), ("e", GT("s", "x y"))]),
               GT("a", items=[GT("s", "1"), GT("i", 1, "1")]), GT("a", items=[]), GT("f", 1.5, "1.5")]
    tj_vals += [GT("s", gen_text(rng)) for _ in range(60 if thorough else 8)]
    jobs, meta = [], []
    for g in tj_vals:
        src = ("a: %s\n" % gt_yaml_flow(rng, g)).encode("utf-8")
        for e in (".a | to_json", ".a | @json", ".a | tojson", ".a | to_json(0)"):
            for fl in ([], ["-r"]):
                jobs.append((fl + [e], src))
                meta.append((g, "yq %s '%s'" % (" ".join(fl), e)))
        for fl in (["-j"], ["--tojson"], ["-o=json"], ["-oj"], ["-o", "json"], ["-o=j"]):
            jobs.append((fl + ["-I%d" % rng.choice([0, 2]), ".a"], src))
            meta.append((g, "yq %s .a" % " ".join(fl)))
    n_fail = 0
    for (g, what), (args, src), (rc, out, err) in zip(meta, jobs, run_yq_many(jobs)):
        chk.count(("tojson", src, tuple(args)), nontrivial=True)
        why = None
        if rc != 0:
            why = "failed: " + err.decode("utf-8", "replace")[:200]
        else:
            try:
                ds = diff(g, py_parse(out))
                if ds:
                    why = "value differs: want %r got %r" % (ds[0][2], ds[0][3])
            except Exception as ex:  # noqa
                why = "output is not a JSON text (%s): %r" % (ex, out[:120])
        if why:
            n_fail += 1
            if n_fail <= 5:
                chk.violation({"kind": "yaml2json", "args": args, "input_b64": vlib.b64e(src), "input": src.decode("utf-8"), "expected_json_b64": vlib.b64e(gt_expected_json(g)),
                               "raw_expected_b64": None, "impl_out": out.decode("utf-8", "replace")[:500]}, True, "%s: %s" % (what, why))
    # a non-finite operand must be rejected, not printed
    for t in (".inf", "-.inf", ".nan"):
        for args in ([".a | to_json"], ["-r", ".a | @json"], ["-j", ".a"]):
            rc, out, err = vlib.run_yq(args, stdin=("a: %s\n" % t).encode())
            chk.count(("tojson_nonfinite", t, tuple(args)), nontrivial=True)
            if rc == 0:
                chk.violation({"kind": "must_error", "args": args, "input_b64": vlib.b64e("a: %s\n" % t), "input": "a: %s" % t, "impl_out": out.decode("utf-8", "replace")}, True,
                              "yq %s on %s printed %r instead of failing" % (" ".join(args), t, out[:60]))
    chk.extra["tojson_runs"] = len(jobs)

    # ---------------- 4. unrepresentable values must be an error; out-of-range integers ----------------
    must_err = []
    for t in [".inf", "-.inf", "+.inf", ".Inf", ".INF", "-.Inf", "-.INF", ".nan", ".NaN", ".NAN"]:
        for shape in ("%s", "a: %s", "- %s", "[1, %s]", "{a: {b: [%s]}}", "!!float %s"):
            must_err.append(shape % t)
    must_err += ["9223372036854775808", "a: 18446744073709551615", "- 0xFFFFFFFFFFFFFFFF", "!!float inf", "!!float NaN", "!!float Infinity", "!!float -inf"]
    jobs = [(["-o=json", "-I%d" % rng.choice([0, 2]), "."], (t + "\n").encode()) for t in must_err]
    for (args, src), (rc, out, err) in zip(jobs, run_yq_many(jobs)):
        chk.count(("must_err", src), nontrivial=True)
        if rc == 0:
            chk.violation({"kind": "must_error", "args": args, "input_b64": vlib.b64e(src), "input": src.decode(), "impl_out": out.decode("utf-8", "replace")}, True,
                          "a value JSON cannot represent was converted instead of failing: %r -> %r" % (src, out[:100]))
    chk.extra["must_error_cases"] = len(must_err)

    # known finding: YAML integers beyond 64 bits are resolved as floats by the YAML reader and printed rounded
    k2_inputs = ["18446744073709551616", "-9223372036854775809", "123456789012345678901234567890"]
    for t in k2_inputs:
        z = int(t)
        rc, out, err = vlib.run_yq(["-o=json", "-I0", "."], stdin=("a: %s\n" % t).encode())
        bad = False
        if rc == 0:
            try:
                got = py_parse(out)
                v = got[0][1]
                bad = not (isinstance(v, int) and v == z)
                sig = isinstance(v, (int, float)) and float(v) == f64_of_int(z)
            except Exception:
                bad, sig = True, False
            if bad:
                if sig and chk.is_known("yaml-int-beyond-64bit-float"):
                    chk.known_finding("yaml-int-beyond-64bit-float", "a: %s -> %s" % (t, out.decode().strip()))
                else:
                    chk.violation({"kind": "yaml2json", "args": ["-o=json", "-I0", "."], "input_b64": vlib.b64e("a: %s\n" % t),
                                   "expected_json_b64": vlib.b64e('{"a":%s}' % t), "raw_expected_b64": None, "impl_out": out.decode("utf-8", "replace")}, True,
                                  "YAML integer %s came out as %r" % (t, out[:80]))

    vlib.log("C06 section 4 at %.1fs" % (time.time() - chk.t0))
    # ---------------- 5. JSON -> YAML -> JSON round trip on the binary ----------------
    n_rt = 2000 if thorough else 220
    rt_docs = [GT("a", items=[GT("i", z, str(z)) for z in (0, 1, -1, TWO53 - 1, TWO53, -TWO53)]),
               GT("a", items=[GT("s", s) for s in LOOKALIKES]), GT("o", items=[(s, GT("n")) for s in LOOKALIKES if s]),
               GT("a", items=[GT("s", chr(c)) for c in SPECIAL_CP]), deep_gt(30, GT("s", "x")),
               GT("a", items=[GT("f", f, repr(f)) for f in (0.1, 1.5, -2.25, 1e300, 5e-324, 1e-7, 1e21, 123456.789)]),
               GT("a", items=[GT("a", items=[]), GT("o", items=[]), GT("s", "")]),
               GT("a", items=[GT("s", "\na")]), GT("a", items=[GT("s", "\ta\n")]),
               GT("o", items=[("\u2028\nk", GT("a", items=[GT("s", "\u2028\nx"), GT("s", "\u2029x\ny"), GT("s", "\u2028\u2028\nx"), GT("s", "a\u2028b\nc"), GT("s", "\u2028x")]))]), GT("o", items=[("<<", GT("i", 1, "1")), ("b", GT("i", 2, "2"))])]
    for _ in range(n_rt):
        g = gen_gt(rng, 0, rng.choice([1, 2, 3, 4]))
        rt_docs.append(g)
    big_docs = [GT("i", TWO53 + 1, str(TWO53 + 1)), GT("a", items=[GT("i", z, str(z)) for z in (TWO53 + 1, -(TWO53 + 1), TWO63 - 1, -TWO63, 2 ** 60 + 1)]),
                GT("a", items=[GT("i", z, str(z)) for z in (TWO63, -TWO63 - 1, TWO64)])]
    srcs = [gt_json(g).encode("utf-8") for g in rt_docs + big_docs]
    # scalar unwrapping (default on for -o=yaml) only matters for a top-level scalar; it is off here and replayed as a known finding below
    first = run_yq_many([(["-p=json", "-o=yaml", "--unwrapScalar=false", "."], s) for s in srcs])
    second = run_yq_many([(["-o=json", "-I0", "."], y if rc == 0 else b"") for (rc, y, e) in first])
    n_fail = 0
    for g, src, (rc1, y, e1), (rc2, j, e2) in zip(rt_docs + big_docs, srcs, first, second):
        chk.count(("rt", src), nontrivial=g.kind in "ao" and bool(g.items), sample=None)
        why = None
        ds = []
        if rc1 != 0:
            why = "yq -p=json -o=yaml failed: " + e1.decode("utf-8", "replace")[:200]
        elif rc2 != 0:
            why = "yq -o=json failed on yq's own YAML: " + e2.decode("utf-8", "replace")[:200] + " yaml=" + y.decode("utf-8", "replace")[:200]
        else:
            try:
                got = py_parse(j)
                ds = diff(g, got)
                if ds:
                    why = "value differs at %s: want %r got %r" % (ds[0][0], ds[0][2], ds[0][3])
            except Exception as e:  # noqa
                why = "output is not valid JSON (%s)" % e
        if why is None:
            continue
        if ds and settle(chk, ds, "json", "%s -> %s" % (src.decode()[:60], j.decode("utf-8", "replace").strip()[:60])):
            continue
        if rc1 == 0 and rc2 != 0 and b"found a tab character where an indentation space is expected" in e2 \
                and any(x.startswith("\t") and "\n" in x for x in strings_of(g)) and chk.is_known("yaml-literal-tab-first-line-unreadable"):
            chk.known_finding("yaml-literal-tab-first-line-unreadable", "%s -> %s" % (src.decode()[:60], y.decode("utf-8", "replace")[:60]))
            continue
        n_fail += 1
        if n_fail <= 5:
            chk.violation({"kind": "json_roundtrip", "input_b64": vlib.b64e(src), "input": src.decode("utf-8", "replace")[:2000],
                           "yaml": y.decode("utf-8", "replace")[:2000], "impl_out": j.decode("utf-8", "replace")[:2000]}, True,
                          "JSON -> YAML -> JSON: " + why)
    chk.extra["json_roundtrip_docs"] = len(srcs)

    # known finding: with unwrapping on a top-level string is printed raw (by design of -r), which is neither JSON nor round-trippable
    for src, via_yaml in (('"123"', True), ('""', True), ('"a\\"b"', False)):
        if via_yaml:
            rc, y, _ = vlib.run_yq(["-p=json", "-o=yaml", "."], stdin=src.encode())
            rc2, j, _ = vlib.run_yq(["-o=json", "-I0", "."], stdin=y)
        else:
            rc2, j, _ = vlib.run_yq(["-p=json", "-o=json", "-r", "."], stdin=src.encode())
        same = False
        try:
            same = rc2 == 0 and json_equal(py_parse(src.encode()), py_parse(j))
        except Exception:  # noqa
            same = False
        if not same:
            if chk.is_known("unwrap-toplevel-scalar-raw"):
                chk.known_finding("unwrap-toplevel-scalar-raw", "%s -> %s" % (src, j.decode("utf-8", "replace").strip()))
            else:
                chk.violation({"kind": "json_roundtrip", "input_b64": vlib.b64e(src), "input": src}, True, "top-level string printed raw with unwrapping on: %s -> %r" % (src, j[:60]))

    vlib.log("C06 section 5 at %.1fs" % (time.time() - chk.t0))
    vlib.log("C06 section 6 at %.1fs" % (time.time() - chk.t0))
    # ---------------- 6. floats: the ParseFloat model and the float printer contract (assumption checks) ----------------
    fbits = gen_float_bits(rng, 3000 if thorough else 70, dense=thorough)
    texts = list(dict.fromkeys([t for b in fbits for t in float_texts(rng, b)] + HARD_LITERALS))
    # (a) correctly rounded parsing: model go_parse_float vs strconv.ParseFloat
    resp = vlib.yqh_parallel([{"op": "c06pf", "text": t} for t in texts])
    pf_cases = []
    for t, r in zip(texts, resp):
        if r is None or r.get("panic"):
            continue
        want = b"ERR" if r.get("err") else f64_bytes_of_bits(int(r["bits"]))
        pf_cases.append((vlib.coq_str(t), want))
        chk.count(("pf", t), nontrivial=True)
    mism, err = vlib.coq_mismatches(chk.workdir, "pf", IMPORTS, "(fun t => f64_bytes (go_parse_float t))", pf_cases, shard=50)
    pf_bad = 0
    if err:
        broken.append("model evaluation failed (go_parse_float): " + err[-500:])
    else:
        for j, mo in mism:
            pf_bad += 1
            disagreements.append(("ParseFloat model", pf_cases[j][0][:200], None, pf_cases[j][1], mo))
    # (b) the printer contract H_fmt on what yq prints for a !!float scalar with this text
    resp = vlib.yqh_parallel([{"op": "c06enc", "node": {"k": "s", "t": "!!float", "v_b64": vlib.b64e(t)}, "indent": 0, "unwrap": False} for t in texts])
    fmt_cases, fmt_err = [], 0
    for t, r in zip(texts, resp):
        if r is None or r.get("panic") or r.get("err"):
            fmt_err += 1              # out of range / unsupported: an error, not a token
            continue
        tok = vlib.b64d(r["out_b64"]).rstrip(b"\n")
        fmt_cases.append(("(%s, %s)" % (vlib.coq_str(t), vlib.coq_str(tok)), b"OK"))
        chk.count(("fmt", t), nontrivial=True)
    mism, err = vlib.coq_mismatches(chk.workdir, "fmt", IMPORTS, "fmt_contract_ok", fmt_cases, shard=50)
    fmt_bad = 0
    if err:
        broken.append("model evaluation failed (fmt_contract_ok): " + err[-500:])
    else:
        for j, mo in mism:
            fmt_bad += 1
            if fmt_bad <= 3:
                chk.violation({"kind": "float_contract", "case": fmt_cases[j][0][:300], "model": repr(mo)}, True,
                              "the float yq prints does not parse back to the binary64 of the YAML text: %s -> %r" % (fmt_cases[j][0][:120], mo))
    # (c) the reading side: the %v text yq stores for a JSON float token denotes the token's binary64
    toks = [vlib.b64d(vlib.b64e(c[0])) for c in []]
    jtoks = [t for t in texts if re.fullmatch(r"-?(0|[1-9][0-9]*)(\.[0-9]+)?([eE][-+]?[0-9]+)?", t)]
    resp = vlib.yqh_parallel([{"op": "c06dec", "input": "[" + t + "]"} for t in jtoks])
    v_cases = []
    for t, r in zip(jtoks, resp):
        if r is None or r.get("err") or r.get("panic") or not r.get("floats"):
            continue
        v_cases.append(("(%s, %s)" % (vlib.coq_str(r["floats"][0]), vlib.coq_str(t)), b"OK"))
        chk.count(("pv", t), nontrivial=True)
    mism, err = vlib.coq_mismatches(chk.workdir, "pv", IMPORTS, "fmt_contract_ok", v_cases, shard=50)
    v_bad = 0
    if err:
        broken.append("model evaluation failed (reader float text): " + err[-500:])
    else:
        for j, mo in mism:
            v_bad += 1
            if v_bad <= 3:
                chk.violation({"kind": "float_contract", "case": v_cases[j][0][:300], "model": repr(mo)}, True,
                              "the text yq stores for a JSON float does not denote the token's binary64: %s -> %r" % (v_cases[j][0][:120], mo))
    chk.extra["float_assumption_checks"] = {"floats": len(fbits), "literals": len(texts), "parsefloat_model_compared": len(pf_cases), "parsefloat_model_disagrees": pf_bad,
                                            "H_fmt_pairs": len(fmt_cases), "H_fmt_fails": fmt_bad, "printer_errors(out of range)": fmt_err,
                                            "reader_text_pairs": len(v_cases), "reader_text_fails": v_bad}

    # ---------------- verdict ----------------
    if disagreements and not chk.violations:
        d = disagreements[0]
        chk.violation({"kind": "correspondence", "broken": "Model/Json.v vs candidiate_node_json.go / encoder_json.go / goccy go-json (%s)" % d[0],
                       "input": repr(d[1]), "config": repr(d[2]), "impl": repr(d[3]), "model": repr(d[4]), "count": len(disagreements)},
                      False, "model and implementation disagree on %d %s cases (first: %r) while the value oracles found no failing input" % (len(disagreements), d[0], d[1]))
    if broken and not chk.violations:
        chk.violation({"kind": "obligation", "broken": broken}, False, "; ".join(broken)[:600])
    chk.extra["distribution"] = {"encoder_nodes": len(nodes), "reader_texts": len(utexts), "yaml2json_runs": chk.extra.get("yaml2json_runs"),
                                 "json_roundtrip_docs": len(srcs), "must_error": len(must_err), "disagreements": len(disagreements)}
    return chk.finish(
        checker_cmd="make -C coq Props/C06.vo (coqc 8.16.1, full .vo) + coqc work/C06/*.v (vm_compute)",
        rule="encoder: every single byte, ill-formed UTF-8 table, int/bool text tables, look-alike strings, seeded random float-free node trees "
             "(depth<=6) x indent {0,1,2,3,4,7,8} x unwrap, byte-exact vs Model/Json.v model_encode; reader: number table (2^53/2^63 neighbourhood, "
             "halfway cases, exponents), escapes incl. surrogates, seeded random valid JSON texts, node dump vs model_decode; oracle: generated YAML "
             "documents with known value x indent {0,2,7} x unwrap read back with Python json (exact ints), JSON->YAML->JSON on the binary, "
             ".inf/.nan/out-of-int64 must fail. Non-trivial: container documents / encodable trees; distinct by input and configuration.",
        trusted=vlib.COMMON_TRUSTED + [
            "Spec/JsonGrammar.v (hand-written RFC 8259 grammar incl. well-formed UTF-8); Python's json module as the independent reader in the oracle",
            "float tokens are opaque: the text goccy prints for a binary64 and Go's %v text on the reading side are not modelled (Section variable ff); "
            "theorems are stated on the float-free fragment or pass the token through; float values are compared by value in the oracle only",
            "yaml.v3 (YAML text <-> tag/value) is outside the model: the YAML side of the round trip is tested on the binary, not proved",
            "float64->int64 conversion of an out-of-range value is modelled as on amd64 (result MinInt64)",
            "custom (non-!!) tags with a non-empty value (guessTagFromCustomType re-parses YAML) are outside the model",
        ],
        assumptions=["correspondence is sampled; the unbounded claims are the Coq theorems over the model",
                     "the reader model is strict RFC 8259; goccy's reader also accepts some ill-formed texts (outside this property's domain: valid JSON)"])
