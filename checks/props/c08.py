"""C08 — conditions, keys and operands are evaluated read-only.

Theorem side: Props/C08.v (read-only evaluation of an assignment-free expression only allocates: every
pre-existing node keeps every field).  Tie: correspondence of `E as $x | .` and of `[E], .` between
Model/Eval.v and the implementation.  Direct oracle: `(E) as $x | .` prints what `.` prints, and
`[.[] | select(E)]` only passes unmodified elements, also for operators outside the model (text vocabulary)."""
import json
import vlib, evalgen, evalcheck

EXTRA_OPS = [".b * .a", ".b * {\"k\": {\"j\": 1}}", ".a.b * {\"k\": 1}", ".b *+ .a", ".b *d .a", ".b + .a", ".b // .a", "from_entries", ".a | from_entries", ".[] | from_entries", "with_entries(.)", "to_entries | from_entries", "tojson", "to_yaml", "@base64", "keys", "to_entries", "with_entries(.)", "min", "max", "tag", "kind", "type",
             "has(\"a\")", "pick([\"a\"])", "omit([\"a\"])", "sort_by(.a)", "group_by(.a)", "unique_by(.a)", "any_c(.a)", "all_c(.a == 1)",
             "contains(\"a\")", "upcase", "downcase", "test(\"a\")", "sub(\"a\";\"b\")", "split(\"a\")", "join(\",\")", "length",
             "to_number", "tostring", "first", "flatten", "reverse", "sort", "unique", "map(.a)", "filter(.a)", "select(.a)",
             ".a[3]", ".b[0]", ".c[]", ".[2]", ".a.b.c", ".a // .b", ".a == .b", ".a < .b", ".a + .b", ".a - .b", ".a * .b", ".a and .b", ".a or .b",
             "[.a, .b]", "{\"k\": .a}", "{(.a | tostring): .b}", ".. | select(. == 1)", "to_entries | from_entries", "path", "key", "parent",
             "splits(\"a\")", "ltrimstr(\"a\")", "trim", "getpath([\"a\",0])", "paths", "leaf_paths", "line", "column", "filename", "document_index",
             "@json", "@csv", "@tsv", "@uri", "@sh", "@yaml", "@props", "env(HOME)", "from_yaml", "from_json", "abs", "not", "any", "all",
             ".a[1:]", ".a[:1]", ".[0:2]", "with_entries(select(.key == \"a\"))"]


def per_doc_repeat(base, out):
    """a stream: every document printed a whole number of times (once per value bound to $x), in order"""
    bd, od = base.split(b"\n---\n"), out.split(b"\n---\n")
    if len(bd) < 2 or len(bd) != len(od):
        return False
    for i, (b, o) in enumerate(zip(bd, od)):
        b2 = b if b.endswith(b"\n") or i == len(bd) - 1 else b + b"\n"
        o2 = o if o.endswith(b"\n") or i == len(od) - 1 else o + b"\n"
        unit = b2 if b2.endswith(b"\n") else b2 + b"\n"
        txt = o2 if o2.endswith(b"\n") else o2 + b"\n"
        if len(unit) == 0 or len(txt) % len(unit) != 0 or unit * (len(txt) // len(unit)) != txt:
            return False
    return True


# binary operators whose handler clones its context read-only, those that use their caller's context, and the operators
# that evaluate a condition / key / argument read-only (Proofs/OperandsRO.v: ro_binop, ro_arg_op)
RO_BINOPS = ["add", "sub", "mul", "mod", "ne", "and", "or"]
CALLER_BINOPS = ["eq", "lt", "le", "gt", "ge", "alt"]
RO_ARGOPS = ["select", "has", "unique_by", "group_by", "sort_by", "any_c", "all_c", "contains"]

MERGE_FLAGS = ["", "+", "d", "?", "n", "+d", "+?", "+n", "d?", "dn", "?n", "+d?", "+dn", "+?n", "d?n", "+d?n"]


def run(chk):
    thorough = chk.tier == "thorough"
    proved, plog = chk.prove("Props/C08.v")
    broken = []
    if not proved:
        broken.append("proof obligations of Props/C08.v do not check: " + plog[-800:])
    g = evalgen.Gen(chk.rng)
    g.wild = 0.12
    n = 30000 if thorough else 9000
    cases = []
    for i in range(n):
        d = evalgen.gen_doc(chk.rng)
        g.set_doc(d)
        e = g.expr(chk.rng.choice([1, 2, 2, 3] if not thorough else [2, 3, 4]))
        form = chk.rng.random()
        if form < 0.5:
            cases.append((("as", e, "x", ("self",)), d, e))
        elif form < 0.8:
            cases.append((("union", ("collect", ("pipe", ("recurse",), ("select", e))), ("self",)), d, e))
        else:
            # the caller's context is writable: `(L op R), .` / `(op(E)), .` -- operands, keys and conditions that reach
            # for missing keys and indices beyond the end must still leave the document alone
            rng = chk.rng

            def operand():
                if rng.random() < 0.6:
                    conts = [p for p in evalgen.doc_paths(d) if isinstance(evalgen._get(d, p), (dict, list, type(None)))] or [()]
                    p = rng.choice(conts)
                    x = evalgen.path_expr(p)
                    for _ in range(rng.choice([1, 1, 2])):
                        step = ("getkey", rng.choice(["zq", "zr"])) if rng.random() < 0.5 else ("index", ("self",), evalgen.lit(rng.choice([3, 5, 7])))
                        x = step if x == ("self",) else ("pipe", x, step)
                    return x
                return g.expr(rng.choice([0, 1, 2]))
            op = rng.choice(RO_BINOPS + RO_BINOPS + CALLER_BINOPS + RO_ARGOPS)
            top = (op, operand(), operand()) if op in evalgen.BINOPS else (op, operand())
            cases.append((("union", top, ("self",)), d, top))
    pairs = [(c[0], c[1]) for c in cases]
    impl, mm, unsup, err = evalcheck.correspondence(chk, pairs, "c08_cases")
    if err:
        broken.append("model evaluation failed: " + err[-600:])
    # direct oracle: the document printed afterwards equals the input document
    nwritable = {"read_only_family": 0, "caller_mode": 0}
    for i, (w, d, e) in enumerate(cases):
        res = evalcheck.results_of(impl[i])
        if res is None:
            chk.count((evalgen.render(w), json.dumps(d)), nontrivial=False)
            continue
        want = evalcheck.ser(d)
        ok = True
        if w[0] == "as":
            ok = all(r == want for r in res)
        elif w[1][0] in CALLER_BINOPS:
            # equalsOperator / compareOperator / alternativeOperator evaluate their operands with the caller's context:
            # recorded findings, one per handler (the existing tests pin the result paths that come with it)
            nwritable["caller_mode"] += 1
            ok = len(res) >= 1 and res[-1] == want
            key = "caller-mode-operands-" + {"eq": "equals", "alt": "alternative"}.get(w[1][0], "compare")
            if not ok and chk.is_known(key):
                chk.known_finding(key, evalgen.render(w))
                ok = True
        else:
            ok = len(res) >= 1 and res[-1] == want
            if w[1][0] != "collect":
                nwritable["read_only_family"] += 1
        chk.count((evalgen.render(w), json.dumps(d)), nontrivial=len(evalgen.ops_of(e)) > 2,
                  sample={"expr": evalgen.render(w), "doc": d} if len(evalgen.render(w)) > 30 else None)
        if not ok:
            chk.violation({"kind": "eval", "expr": evalgen.render(w), "doc": d, "impl": impl[i].decode("utf-8", "replace"),
                           "expect_doc": want.decode("utf-8", "replace")}, True,
                          "evaluating an assignment-free expression changed the input document: " + evalgen.render(w))
            if len(chk.violations) >= 5:
                break
    wit = [("caller-mode-operands-equals", "(.b[3] == 1), ."), ("caller-mode-operands-compare", "(.b[3] < 1), ."), ("caller-mode-operands-compare", "(.b[3] >= 1), ."),
           ("caller-mode-operands-alternative", "(.b[3] // 1), ."), (None, "(.b[3] != 1), ."), (None, "(.b[3] + 1), ."), (None, "(.c.d * {\"k\": 1}), ."),
           (None, "(.b[3] - 1), ."), (None, "(.b[3] % 2), ."), (None, "(.b[3] and true), ."), (None, "(.b[3] or .c.d), ."), (None, "(.b | has(3)), ."),
           (None, "select(.b[3] == null), ."), (None, "(.l | sort_by(.zq.zr)), ."), (None, "(.l | group_by(.[3])), ."), (None, "(.l | unique_by(.zq)), ."),
           (None, "(.l | any_c(.zq == 1)), ."), (None, "(.l | all_c(.[2] == 1)), ."), (None, "([.b] | contains([.c.d])), ."),
           # bindings only read, in both spellings
           (None, ".b[3] as $x | ."), (None, ".b[3] ref $x | ."), (None, ".c.d ref $x | ."), (None, ".zq.zr ref $x | ."), (None, ".l[1][4] ref $x | ."),
           (None, "(.c.d ref $x | $x) as $y | ."), (None, ".c.d ref $x | .b[2] ref $y | ."), (None, ".c.d.e as $x | .c.f ref $y | .")]
    wdoc = {"b": [1], "c": {}, "l": [{"k": 1}, [1]]}
    wout = evalcheck.impl_eval([(e, wdoc) for _, e in wit])
    for (key, e), b in zip(wit, wout):
        res = evalcheck.results_of(b)
        if res is None or not res:
            continue
        chk.count((e, json.dumps(wdoc)), nontrivial=True)
        if res[-1] != evalcheck.ser(wdoc):
            if key and chk.is_known(key):
                chk.known_finding(key, e)
            else:
                chk.violation({"kind": "eval", "expr": e, "doc": wdoc, "impl": b.decode("utf-8", "replace"), "expect_doc": evalcheck.ser(wdoc).decode("utf-8", "replace")},
                              True, "evaluating the operands of an operator changed the input document: " + e)
    # text-vocabulary sweep (operators outside the model): oracle only
    docs = [evalgen.gen_doc(chk.rng) for _ in range(60 if not thorough else 400)]
    docs += [{"a": [1, [2, [3]]], "b": None, "c": "x"}, {"a": None}, [1, 2], {"a": {"b": None}}, [[3, 1], [2]], {"a": "a,b", "b": "b"}, {"a": 1, "b": 2}]
    # entry-shaped items with a part missing (operators that look a key up inside their input must not create it)
    docs += [{"a": {"k": {"x": 1}, "l": [1]}, "b": None}, {"a": {"b": None}, "b": None},
             [{"key": "a"}, {"key": "b", "value": 1}], {"a": [{"key": "k"}], "b": [{"value": 1}]}, [{"key": "a", "value": None}, {}],
             {"a": [{"key": "x", "value": 2}, {"key": "y"}]}, [{"k": 1}, {"key": 5, "value": 6}]]
    tcases = []
    pcases = []
    for d in docs:
        for op in (EXTRA_OPS if thorough else EXTRA_OPS[:12] + chk.rng.sample(EXTRA_OPS[12:], 20)):
            for wrap in ("(%s) as $x | .", "[.. | select(%s)], .", "(.. | %s) as $x | .", "(%s) ref $x | ."):
                tcases.append(((wrap % op), d))
            pcases.append((("(%s) as $x | [.. | path]" % op), d))
    timpl = evalcheck.impl_eval(tcases)
    for (expr, d), b in zip(tcases, timpl):
        res = evalcheck.results_of(b)
        if res is None or not res:
            chk.count((expr, json.dumps(d)), nontrivial=False)
            continue
        want = evalcheck.ser(d)
        chk.count((expr, json.dumps(d)), nontrivial=True)
        bad = (res[-1] != want) if expr.startswith("[") else any(r != want for r in res)
        if bad and len(chk.violations) < 8:
            chk.violation({"kind": "eval", "expr": expr, "doc": d, "impl": b.decode("utf-8", "replace"), "expect_doc": want.decode("utf-8", "replace")},
                          True, "evaluating an assignment-free expression changed the input document: " + expr)
    # ... and the nodes of the document still report the positions they have (nothing was re-parented)
    pimpl = evalcheck.impl_eval(pcases)
    for (expr, d), b in zip(pcases, pimpl):
        res = evalcheck.results_of(b)
        if res is None or not res:
            continue
        want = evalcheck.ser([list(p_) for p_ in evalgen.doc_paths(d)])
        chk.count((expr, json.dumps(d)), nontrivial=True)
        if any(r != want for r in res) and len(chk.violations) < 8:
            chk.violation({"kind": "eval", "expr": expr, "doc": d, "impl": b.decode("utf-8", "replace"), "expect": (b"OK\n" + want + b"\n").decode("utf-8", "replace")},
                          True, "evaluating an assignment-free expression changed where the document's nodes say they are: " + expr)
    # ---- YAML documents with anchors, aliases, merge keys, non-string keys: the document must print as `.` prints it
    ydocs = ["a: &x {k: 1}\nb: *x\n", "a: &x {k: 1}\nb: {<<: *x, c: &y [1, 2]}\nd: *y\n", "- &a [1, 2]\n- *a\n- {m: *a}\n",
             "base: &b {k: 1}\nlist: [*b, {k: 2}, *b]\nrecs:\n  - {id: 1, cfg: {ref: *b}}\n  - {id: 2, cfg: {ref: *b}}\n  - id: 3\n    cfg:\n      <<: *b\n      extra: true\n",
             "base: &x {k: ~, keep: 1}\na: {m: *x, n: ~, l: [1, *x]}\nb: {m: {k: 2, j: 3}, n: 5, l: [{k: 9}, {j: 1}, 3]}\n",
             "base: &b {k: 1, opts: &o {x: 1, l: &l [1, 2]}}\nsvc: {cfg: *b, log: *o, l: *l}\nother: [*b, {<<: *o}]\n",
             "a: 1\n---\nb: &x [1]\nc: *x\n---\n- 3\n",
             "1: x\ntrue: y\n~: z\n", "a: !!str 1\nb: !custom v\nc: 'q'\n", "a: # c\n  - 1 # one\n  - 2\n"]
    yops = EXTRA_OPS + ["unique_by(.cfg)", "group_by(.cfg)", "sort_by(.cfg)", "unique_by(.)", "group_by(.)", "sort_by(.)", "map(.cfg)", "[.]", "[., .]", "{\"k\": .}", "[.] | .[0]", "[.. | select(tag == \"!!map\")] | length",
                        "select(to_json | test(\"x\"))", ".. | select(tag == \"!!map\") | to_json", ".svc.cfg | to_json", ".svc | to_props", ".other | @json"] + [".a *%s .b" % fl for fl in MERGE_FLAGS] + [".b *%s .a" % fl for fl in MERGE_FLAGS[::3]] + ["to_json", "@json", "to_props", "to_yaml", "@yaml", "tojson", "to_xml", "to_csv", "to_tsv"]  # explode is an in-place operator, so it is outside the property
    yreq, ymeta = [], []
    for y in ydocs:
        yreq.append({"op": "eval", "expr": ".", "input": y, "in": "yaml", "out": "yaml"})
        ymeta.append((y, None))
        for op in yops:
            for wrap in ("(%s) as $x | .", "(.. | %s) as $x | .", "([.. | select(%s)] | length) as $n | .",
                         "(.. | select(tag == \"!!seq\") | %s) as $x | .", "(.. | select(tag == \"!!map\") | %s) as $x | ."):
                yreq.append({"op": "eval", "expr": wrap % op, "input": y, "in": "yaml", "out": "yaml"})
                ymeta.append((y, wrap % op))
    yresp = vlib.yqh_parallel(yreq)
    base = {}
    for (y, ex), r in zip(ymeta, yresp):
        if ex is None and r and "out_b64" in r and not r.get("err"):
            base[y] = vlib.b64d(r["out_b64"])
    nyaml = 0
    for (y, ex), r in zip(ymeta, yresp):
        if ex is None or y not in base or not r or r.get("err") or r.get("panic") or "out_b64" not in r:
            continue
        out = vlib.b64d(r["out_b64"])
        nyaml += 1
        chk.count(("yaml", ex, y), nontrivial=True)
        if out and out != base[y] and not (base[y] * (len(out) // max(1, len(base[y]))) == out) and not per_doc_repeat(base[y], out) and len(chk.violations) < 8:
            chk.violation({"kind": "yaml", "expr": ex, "yaml": y, "impl": out.decode("utf-8", "replace"), "expect": base[y].decode("utf-8", "replace")}, True,
                          "evaluating an assignment-free expression changed how the document prints: " + ex)
    chk.extra["yaml_alias_cases"] = nyaml
    chk.extra["writable_caller_cases"] = nwritable
    chk.extra["distribution"] = {"model_cases": len(cases), "impl_outcomes": evalcheck.outcome_stats(impl), "outside_model_fragment(UNSUP)": unsup,
                                 "text_vocabulary_cases": len(tcases), "text_outcomes": evalcheck.outcome_stats(timpl)}
    if mm and not chk.violations:
        evalcheck.report_disagreements(chk, pairs, impl, mm, "C08 correspondence")
    if broken and not chk.violations:
        chk.violation({"kind": "obligation", "broken": broken}, False, "; ".join(broken)[:600])
    return chk.finish(
        checker_cmd="make -C coq Props/C08.vo + coqc work/C08/c08_cases_*.v (vm_compute)",
        rule="seeded assignment-free expressions E (core fragment, doc-aware) wrapped as `(E) as $x | .` or `[.. | select(E)], .` x JSON documents; plus a text sweep of %d further operators in three wrappers; non-trivial = E has more than two operators / the wrapper produced output" % len(EXTRA_OPS),
        trusted=vlib.COMMON_TRUSTED + ["Model/Eval.v hand-written from operator_*.go; UNSUP inputs skipped"],
        assumptions=["stream mode, one JSON document", "operators in the text sweep are checked by the oracle only (not modelled)"])


def replay(rp):
    if rp.get("kind") == "yaml":
        r = vlib.yqh_batch([{"op": "eval", "expr": rp["expr"], "input": rp["yaml"], "in": "yaml", "out": "yaml"}])[0]
        if not r or r.get("err") or "out_b64" not in r:
            return True
        out = vlib.b64d(r["out_b64"]).decode("utf-8", "replace")
        return out == "" or out == rp["expect"] or rp["expect"] * (len(out) // max(1, len(rp["expect"]))) == out
    b = evalcheck.impl_eval([(rp["expr"], rp["doc"])])[0]
    res = evalcheck.results_of(b)
    if res is None or not res:
        return True
    want = rp["expect_doc"].encode()
    return (res[-1] == want) if rp["expr"].startswith("[") else all(r == want for r in res)
