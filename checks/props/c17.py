"""C17 — @sh and -o=shell are injection-safe and expand to the exact value.

Decided by: theorems Props/C17.v over Model/Sh.v (regenerated safe-class
table) and Spec/PosixSh.v;  tie: correspondence of sh_encode / sv_output with
the implementation on generated strings/documents;  replay search: the
outputs of the implementation are executed by /bin/sh with a canary.
"""
import json, os, shutil, subprocess, tempfile, unicodedata
from concurrent.futures import ThreadPoolExecutor
import vlib

META = [c for c in "'\"\\$`!&|;<>(){}[]*?~#=%\n\t -^,.:/@+_aZ09"] + ["\u00e9", "\u4e2d", "\U0001F600", "\x7f", "\x01", "\r"]
IMPORTS = "From YQ Require Import Base.Str Gen.ShSafe Model.Sh Spec.PosixSh."
PAYLOADS = ["$(touch PWNED)", "`touch PWNED`", "; touch PWNED;", "| touch PWNED", "& touch PWNED", "\ntouch PWNED\n",
            "' ; touch PWNED; '", "'$(touch PWNED)'", "\\'; touch PWNED; \\'", "'\"'\"'", "'\\''", "$IFS", "${x:-$(touch PWNED)}",
            "-n", "--", "~", "*", "a b", "a  b", " a", "a ", "\\", "\\\\", "\\n", "'", "''", "'''", "\"", "#x", "=", "a=b"]


def gen_strings(chk, n_random):
    out = []
    for c in range(1, 128):
        out.append(chr(c))
    for a in META:
        for b in META:
            out.append(a + b)
    out += PAYLOADS + [""]
    rng = chk.rng
    for _ in range(n_random):
        ln = rng.choice([1, 2, 3, 4, 5, 8, 13, 21])
        s = "".join(rng.choice(META) if rng.random() < 0.8 else chr(rng.randrange(1, 0x250)) for _ in range(ln))
        if rng.random() < 0.15:
            s = s + rng.choice(PAYLOADS) + s[:2]
        out.append(s)
    seen, res = set(), []
    for s in out:
        if s not in seen and "\x00" not in s:
            seen.add(s)
            res.append(s)
    return res


def sh_expand(word_bytes, cwd):
    """Fields /bin/sh produces for the words in word_bytes (NUL-separated), or None on a shell error."""
    script = b"set -- " + word_bytes + b"\nfor a do printf '%s\\0' \"$a\"; done\n"
    try:
        p = subprocess.run(["/bin/sh", "-c", script], cwd=cwd, stdout=subprocess.PIPE, stderr=subprocess.PIPE, timeout=10,
                           env={"PATH": "/usr/bin:/bin", "x": "XVAL", "HOME": "/verif-home", "IFS": " \t\n"})
    except subprocess.TimeoutExpired:
        return None
    if p.returncode != 0:
        return None
    parts = p.stdout.split(b"\0")
    return parts[:-1]


def oracle_sh(s, out_bytes, cwd):
    """True iff /bin/sh expands out_bytes to exactly the single word s and runs nothing."""
    fields = sh_expand(out_bytes, cwd)
    pwned = os.path.exists(os.path.join(cwd, "PWNED"))
    if pwned:
        os.remove(os.path.join(cwd, "PWNED"))
    return (fields == [s.encode()]) and not pwned, fields, pwned


def py_cook(path, raw):
    """Independent re-statement of appendPath (for the sourcing oracle)."""
    k = unicodedata.normalize("NFKD", raw)
    key = ""
    for ch in k:
        if ch.isascii() and (ch.isalnum() or ch == "_"):
            key += ch
        elif ord(ch) < 32 or ord(ch) > 126:
            continue
        else:
            key += "_"
    if path == "":
        if not key or not (key[0].isascii() and (key[0].isalpha() or key[0] == "_")):
            return "_" + key
        return key
    return path + "_" + key


def py_assigns(doc, path=""):
    if isinstance(doc, dict):
        out = []
        for k, v in doc.items():
            out += py_assigns(v, py_cook(path, k))
        return out
    if isinstance(doc, list):
        out = []
        for i, v in enumerate(doc):
            out += py_assigns(v, py_cook(path, str(i)))
        return out
    return [(path or "value", doc)]


def gen_doc(rng, depth=0):
    r = rng.random()
    if depth >= 3 or r < 0.45:
        ln = rng.choice([0, 1, 2, 3, 5, 8])
        s = "".join(rng.choice(META) for _ in range(ln))
        if rng.random() < 0.2:
            s += rng.choice(PAYLOADS)
        return s
    if r < 0.7:
        return [gen_doc(rng, depth + 1) for _ in range(rng.randrange(0, 4))]
    d = {}
    for _ in range(rng.randrange(0, 4)):
        kl = rng.choice([0, 1, 2, 3, 5])
        k = "".join(rng.choice(KEYCH) for _ in range(kl))
        if rng.random() < 0.1:
            k += rng.choice(PAYLOADS)
        d[k] = gen_doc(rng, depth + 1)
    return d


# keys whose NFKD form is themselves (the model takes NFKD as a parameter)
KEYCH = [c for c in "'\"\\$`!&|;<>(){}[]*?~#=%\n\t -^,.:/@+_aZ09"] + ["\u4e2d", "\U0001F600", "\x7f", "\x01", "\u0663", "\u0969", "\u0416"]   # incl. digits / letters of other scripts (not valid in a shell name)


def coq_svnode(doc):
    if isinstance(doc, dict):
        return "SvMap [" + ";".join("(%s, %s)" % (vlib.coq_str([ord(c) for c in k]), coq_svnode(v)) for k, v in doc.items()) + "]"
    if isinstance(doc, list):
        return "SvSeq [" + ";".join(coq_svnode(v) for v in doc) + "]"
    return "SvScalar " + vlib.coq_str(doc)


def source_oracle(doc, out_bytes, cwd):
    """Source the -o=shell output in /bin/sh: nothing may execute, and each
    expected variable must hold exactly the scalar text (last assignment of a
    colliding name wins)."""
    exp = {}
    for nm, v in py_assigns(doc):
        exp[nm] = v
    with open(os.path.join(cwd, "out.sh"), "wb") as f:
        f.write(out_bytes)
    names = list(exp.keys())
    script = ". ./out.sh || exit 97\n" + "".join("printf '%%s\\0' \"$%s\"\n" % nm if _name_ok(nm) else "exit 98\n" for nm in names)
    try:
        p = subprocess.run(["/bin/sh", "-c", script], cwd=cwd, stdout=subprocess.PIPE, stderr=subprocess.PIPE, timeout=10,
                           env={"PATH": "/usr/bin:/bin", "HOME": "/verif-home"})
    except subprocess.TimeoutExpired:
        return False, "timeout"
    pwned = os.path.exists(os.path.join(cwd, "PWNED"))
    if pwned:
        os.remove(os.path.join(cwd, "PWNED"))
        return False, "canary: a command was executed while sourcing"
    if p.returncode != 0:
        return False, "sourcing failed rc=%d %s" % (p.returncode, p.stderr[:200])
    got = p.stdout.split(b"\0")[:-1]
    want = [exp[n].encode() for n in names]
    if got != want:
        return False, "variables differ: got %r want %r" % (got[:5], want[:5])
    return True, ""


def source_oracle_pairs(pairs, out_bytes, cwd):
    """like source_oracle, for an explicit list of (name, text) the output must define"""
    exp = {}
    for nm, v in pairs:
        exp[nm] = v
    with open(os.path.join(cwd, "out.sh"), "wb") as f:
        f.write(out_bytes)
    names = list(exp.keys())
    script = ". ./out.sh || exit 97\n" + "".join("printf '%%s\\0' \"$%s\"\n" % nm for nm in names)
    try:
        p = subprocess.run(["/bin/sh", "-c", script], cwd=cwd, stdout=subprocess.PIPE, stderr=subprocess.PIPE, timeout=10,
                           env={"PATH": "/usr/bin:/bin", "HOME": "/verif-home"})
    except subprocess.TimeoutExpired:
        return False, "timeout"
    if os.path.exists(os.path.join(cwd, "PWNED")):
        os.remove(os.path.join(cwd, "PWNED"))
        return False, "canary: a command was executed while sourcing"
    if p.returncode != 0:
        return False, "sourcing failed rc=%d %s" % (p.returncode, p.stderr[:200])
    got = p.stdout.split(b"\0")[:-1]
    want = [exp[n].encode() for n in names]
    if got != want:
        return False, "variables differ: got %r want %r" % (got[:5], want[:5])
    return True, ""


def _name_ok(nm):
    return bool(nm) and (nm[0].isalpha() or nm[0] == "_") and nm.isascii() and all(c.isalnum() or c == "_" for c in nm)


def mk_cwd():
    d = tempfile.mkdtemp(prefix="c17_", dir=vlib.WORK)
    for f in ("a", "b", "ab", ".h"):
        open(os.path.join(d, f), "w").close()
    return d


def replay(rp):
    cwd = mk_cwd()
    try:
        if rp.get("kind") == "sh":
            s = vlib.b64d(rp["s_b64"]).decode()
            r = vlib.yqh_batch([{"op": "sh", "s_b64": rp["s_b64"]}])[0]
            if "out_b64" not in r or r.get("err"):
                return False
            ok, _, _ = oracle_sh(s, vlib.b64d(r["out_b64"]), cwd)
            return ok
        if rp.get("kind") == "shellvars_alias":
            a = vlib.run_yq(["-p=json", "-o=shell", "."], stdin=json.dumps(rp["doc"]).encode())
            b = vlib.run_yq(["-p=json", "-o=" + rp["format"], "."], stdin=json.dumps(rp["doc"]).encode())
            return a[0] != 0 or (b[0] == 0 and a[1] == b[1])
        if rp.get("kind") == "shellvars_sub":
            r = vlib.yqh_batch([{"op": "eval", "expr": rp["expr"], "input": json.dumps(rp["doc"]), "in": "json", "out": "shell"}])[0]
            if "out_b64" not in r or r.get("err"):
                return True
            ok, _ = source_oracle_pairs([tuple(x) for x in rp["want"]], vlib.b64d(r["out_b64"]), cwd)
            return ok
        if rp.get("kind") == "shlist":
            r = vlib.yqh_batch([{"op": "eval", "expr": "[.[] | @sh]", "input": json.dumps(rp["list"]), "in": "json", "out": "json", "indent": 0}])[0]
            if "out_b64" not in r or r.get("err"):
                return True
            outs = json.loads(vlib.b64d(r["out_b64"]))
            for x, o in zip(rp["list"], outs):
                ok, _, _ = oracle_sh(x, o.encode(), cwd)
                if not ok and x != "":
                    return False
            return True
        if rp.get("kind") == "shellvars_yaml":
            r = vlib.yqh_batch([{"op": "eval", "expr": ".", "input": rp["yaml"], "in": "yaml", "out": "shell"}])[0]
            if "out_b64" not in r or r.get("err"):
                return True
            ok, _ = source_oracle_pairs([tuple(x) for x in rp["want"]], vlib.b64d(r["out_b64"]), cwd)
            return ok
        if rp.get("kind") == "shellvars":
            doc = rp["doc"]
            r = vlib.yqh_batch([{"op": "shellvars", "input": json.dumps(doc)}])[0]
            if "out_b64" not in r or r.get("err"):
                return False
            ok, _ = source_oracle(doc, vlib.b64d(r["out_b64"]), cwd)
            return ok
        return False
    finally:
        shutil.rmtree(cwd, ignore_errors=True)


def run(chk):
    thorough = chk.tier == "thorough"
    proved, plog = chk.prove("Props/C17.v", clean=False)
    broken = []
    if not proved:
        broken.append("proof obligations of Props/C17.v do not check: " + plog[-800:])

    cwd = mk_cwd()
    try:
        # ---------------- @sh ----------------
        strings = gen_strings(chk, 20000 if thorough else 1500)
        resp = vlib.yqh_parallel([{"op": "sh", "s_b64": vlib.b64e(s)} for s in strings])
        impl = []
        for s, r in zip(strings, resp):
            if r is None or "out_b64" not in r or r.get("err") or r.get("panic"):
                chk.violation({"kind": "sh", "s_b64": vlib.b64e(s), "response": r}, True, "@sh failed on a string: %r" % (r,))
                impl.append(None)
            else:
                impl.append(vlib.b64d(r["out_b64"]))
        cases = [(vlib.coq_str(s), o) for s, o in zip(strings, impl) if o is not None]
        idx = [i for i, o in enumerate(impl) if o is not None]
        mism, err = vlib.coq_mismatches(chk.workdir, "sh_cases", IMPORTS, "sh_encode", cases)
        disagreements = []
        if err:
            broken.append("model evaluation failed: " + err[-500:])
        else:
            for i, mo in mism:
                disagreements.append((strings[idx[i]], impl[idx[i]], mo))
        # direct oracle on the implementation's output, for every case
        def one(i):
            d = tempfile.mkdtemp(prefix="c17w_", dir=cwd)
            for f in ("a", "b", "ab"):
                open(os.path.join(d, f), "w").close()
            ok, fields, pwned = oracle_sh(strings[i], impl[i], d)
            shutil.rmtree(d, ignore_errors=True)
            return ok, fields, pwned
        with ThreadPoolExecutor(vlib.NCPU) as ex:
            oracle = list(ex.map(lambda i: one(i) if impl[i] is not None else (True, None, False), range(len(strings))))
        nfail = 0
        for s, o, (ok, fields, pwned) in zip(strings, impl, oracle):
            if o is None:
                continue
            chk.count(("sh", s), nontrivial=(o != s.encode()), sample={"s": s, "at_sh": o.decode("utf-8", "replace")} if len(s) > 3 else None)
            if not ok:
                if s == "" and fields == [] and not pwned:
                    chk.known_finding("sh-empty", "'' | @sh -> no word")
                    if chk.is_known("sh-empty"):
                        continue
                nfail += 1
                if nfail <= 5:
                    chk.violation({"kind": "sh", "s_b64": vlib.b64e(s), "s": s, "impl_out": o.decode("utf-8", "replace"),
                                   "sh_fields": [f.decode("utf-8", "replace") for f in (fields or [])] if fields is not None else None, "executed_command": pwned},
                                  True, "/bin/sh does not expand the @sh output to the original string")
        chk.extra["sh_strings"] = len(strings)
        chk.extra["sh_disagreements"] = len(disagreements)

        # ---- several strings through ONE `@sh` in one evaluation (no quoting state may carry over from one match to the
        #      next): each element of `[.[] | @sh]` must expand to its own string
        lists = []
        for _ in range(2000 if thorough else 250):
            lists.append([chk.rng.choice(strings) if chk.rng.random() < 0.6 else chk.rng.choice(PAYLOADS) for _ in range(chk.rng.randrange(2, 5))])
        lresp = vlib.yqh_parallel([{"op": "eval", "expr": "[.[] | @sh]", "input": json.dumps(l), "in": "json", "out": "json", "indent": 0} for l in lists])
        nl = 0
        for l, r in zip(lists, lresp):
            if any("\x00" in x or not x.isprintable() and "\n" not in x and False for x in l):
                continue
            if r is None or "out_b64" not in r or r.get("err") or r.get("panic"):
                continue
            try:
                outs = json.loads(vlib.b64d(r["out_b64"]))
            except Exception:
                continue
            if not isinstance(outs, list) or len(outs) != len(l):
                continue
            for x, o in zip(l, outs):
                if "\x00" in x or any(ord(ch) > 0xD7FF and ord(ch) < 0xE000 for ch in x):
                    continue
                d = tempfile.mkdtemp(prefix="c17l_", dir=cwd)
                for f in ("a", "b", "ab"):
                    open(os.path.join(d, f), "w").close()
                ok, fields, pwned = oracle_sh(x, o.encode("utf-8", "surrogatepass") if isinstance(o, str) else b"", d)
                shutil.rmtree(d, ignore_errors=True)
                nl += 1
                chk.count(("shlist", json.dumps(l), x), nontrivial=True)
                if not ok and not (x == "" and chk.is_known("sh-empty")) and len(chk.violations) < 8:
                    chk.violation({"kind": "shlist", "list": l, "s": x, "impl_out": o, "executed_command": pwned}, True,
                                  "one `@sh` over several strings: an element's output does not expand to that element")
        chk.extra["sh_list_elements"] = nl

        # ---------------- spec validation: sh_words vs /bin/sh on arbitrary words ----------------
        rng = chk.rng
        alpha = ["'", "\\", "\"", " ", "a", "b", "=", "%", "-", "\n", "\t", ":", "x"]
        words = []
        for _ in range(3000 if thorough else 400):
            words.append("".join(rng.choice(alpha) for _ in range(rng.randrange(0, 9))))
        p = os.path.join(chk.workdir, "spec_words.v")
        with open(p, "w") as f:
            f.write(IMPORTS + "\nOpen Scope N_scope.\n")
            f.write("Eval vm_compute in List.map (fun w => match sh_words w with Some ws => (1, ws) | None => (0, []) end) %s.\n"
                    % vlib.coq_list([vlib.coq_str(w) for w in words]))
        rc, o = vlib.coq_eval_file(p)
        spec_checked = 0
        if rc != 0:
            broken.append("spec evaluation failed: " + o[-500:])
        else:
            vals = vlib.parse_coq_value(o)
            for w, (flag, ws) in zip(words, vals):
                if flag == 1 and "\n" not in w:
                    got = sh_expand(w.encode(), cwd)
                    spec_checked += 1
                    want = [bytes(x) for x in ws]
                    if got != want:
                        broken.append("Spec/PosixSh.v disagrees with /bin/sh on %r: spec %r sh %r" % (w, want, got))
                        break
        chk.extra["spec_words_validated_against_bin_sh"] = spec_checked

        # ---------------- -o=shell ----------------
        docs = [gen_doc(chk.rng) for _ in range(4000 if thorough else 400)]
        docs += [{"a-b": "1", "a_b": "2"}, "", "x y", {"": ""}, {"0": "z"}, [["a"], {"k": "'"}], {"a": {"b": ["c", "d'e"]}}]
        # keys that compatibility normalisation (NFKD) rewrites -- fullwidth `$ ( ) ;`, ideographic space, ligatures, circled
        # digits: judged by the sourcing oracle only (the model takes NFKD as a parameter)
        nfkd_docs = []
        NF = ["\uff04", "\uff08", "\uff09", "\uff1b", "\u3000", "\ufb01", "\u2460", "\uff41", "\uff10", "\u00e9", "\u212b", "\uff40", "\uff5c", "\uff06"]
        for _ in range(600 if thorough else 80):
            k = "".join(chk.rng.choice(NF + ["a", "_", "1", "touch PWNED", "x"]) for _ in range(chk.rng.randrange(1, 6)))
            nfkd_docs.append({k: chk.rng.choice(["v", "$(touch PWNED)", "a b"]), "z": {k + "q": "1"}})
        nresp = vlib.yqh_parallel([{"op": "shellvars", "input": json.dumps(d)} for d in nfkd_docs])
        for d, r in zip(nfkd_docs, nresp):
            if r is None or "out_b64" not in r or r.get("err") or r.get("panic"):
                continue
            out = vlib.b64d(r["out_b64"])
            ok, why = source_oracle(d, out, cwd)
            chk.count(("svnfkd", json.dumps(d)), nontrivial=True)
            if not ok and len(chk.violations) < 8:
                chk.violation({"kind": "shellvars", "doc": d, "impl_out": out.decode("utf-8", "replace"), "why": why}, True,
                              "sourcing the -o=shell output does not define the expected variables: " + why)
        resp = vlib.yqh_parallel([{"op": "shellvars", "input": json.dumps(d)} for d in docs])
        sv_cases, sv_docs = [], []
        for d, r in zip(docs, resp):
            if r is None or "out_b64" not in r or r.get("err") or r.get("panic"):
                chk.violation({"kind": "shellvars", "doc": d, "response": r}, True, "-o=shell failed on a document of strings")
                continue
            out = vlib.b64d(r["out_b64"])
            sv_docs.append((d, out))
            sv_cases.append((coq_svnode(d), out))
            ok, why = source_oracle(d, out, cwd)
            chk.count(("sv", json.dumps(d)), nontrivial=isinstance(d, (dict, list)) and len(out) > 0,
                      sample={"doc": d, "shell": out.decode("utf-8", "replace")} if len(out) > 20 else None)
            if not ok:
                chk.violation({"kind": "shellvars", "doc": d, "impl_out": out.decode("utf-8", "replace"), "why": why}, True,
                              "sourcing the -o=shell output does not define the expected variables: " + why)
        # ---- -o=shell on YAML input: non-string scalars (null ~, ints, floats, bools) and explicitly tagged text
        #      must be quoted by the same rule as strings (the encoder looks at the text only)
        ytexts = ["~", "null", "1", "-5", "1.5", "true", "no", "0x1F", "1e3", ".inf", "2001-01-01"]
        ycases = []
        for t in ytexts:
            ycases.append(("a: %s\n" % t, [("a", t)]))
        for tag in ("!!int", "!!float", "!!bool", "!!null", "!!str", "!custom"):
            for pay in ("$(touch PWNED)", "1 touch PWNED", "`touch PWNED`", "~", "a b", "*", "x;touch PWNED"):
                ycases.append(("a: %s %s\nb: ok\n" % (tag, json.dumps(pay)), [("a", pay), ("b", "ok")]))
        ycases.append(("- ~\n- 1\n- {k: ~}\n", [("_0", "~"), ("_1", "1"), ("_2_k", "~")]))
        yresp = vlib.yqh_parallel([{"op": "eval", "expr": ".", "input": y, "in": "yaml", "out": "shell"} for y, _ in ycases])
        for (y, want), r in zip(ycases, yresp):
            chk.count(("svyaml", y), nontrivial=True)
            if r is None or "out_b64" not in r or r.get("err") or r.get("panic"):
                continue       # a document the encoder rejects is not an injection
            out = vlib.b64d(r["out_b64"])
            sv_cases.append(("SvMap [%s]" % ";".join("(%s, SvScalar %s)" % (vlib.coq_str(k), vlib.coq_str(v)) for k, v in want)
                             if not y.startswith("-") else "SvSeq [SvScalar %s; SvScalar %s; SvMap [(%s, SvScalar %s)]]" % (vlib.coq_str("~"), vlib.coq_str("1"), vlib.coq_str("k"), vlib.coq_str("~")), out))
            sv_docs.append((y, out))
            okk, why = source_oracle_pairs(want, out, cwd)
            if not okk:
                chk.violation({"kind": "shellvars_yaml", "yaml": y, "impl_out": out.decode("utf-8", "replace"), "why": why, "want": want}, True,
                              "sourcing the -o=shell output of a YAML document does not define the expected variables: " + why)
        # ---- -o=shell of NON-ROOT results: a scalar picked out of the document is `value=...` (never its own key as the
        #      name), a container result is named from its own keys downwards; several results are written one after another
        sub = []
        for d in docs:
            if isinstance(d, dict) and d:
                ks = list(d.keys())
                k0 = chk.rng.choice(ks)
                sub.append((d, ".[%s]" % json.dumps(k0), [d[k0]]))
                if chk.rng.random() < 0.5:
                    sub.append((d, ".[]", list(d.values())))
            elif isinstance(d, list) and d:
                sub.append((d, ".[%d]" % chk.rng.randrange(len(d)), [d[chk.rng.randrange(len(d))]]))
        sub = [x for x in sub if not x[1].startswith(".[") or True][: (1500 if thorough else 250)]
        sub = [(d, e_, None) for d, e_, _ in sub]
        sresp = vlib.yqh_parallel([{"op": "eval", "expr": e_, "input": json.dumps(d), "in": "json", "out": "shell"} for d, e_, _ in sub])
        vresp = vlib.yqh_parallel([{"op": "eval", "expr": "[%s]" % e_, "input": json.dumps(d), "in": "json", "out": "json", "indent": 0} for d, e_, _ in sub])
        for (d, e_, _), r, rv in zip(sub, sresp, vresp):
            if r is None or "out_b64" not in r or r.get("err") or r.get("panic") or rv is None or "out_b64" not in rv or rv.get("err"):
                continue
            try:
                results = json.loads(vlib.b64d(rv["out_b64"]))
            except Exception:
                continue
            pairs = []
            for res_ in results:
                pairs += py_assigns(res_)
            if any(not isinstance(v_, str) for _, v_ in pairs):
                continue
            out = vlib.b64d(r["out_b64"])
            chk.count(("svsub", e_, json.dumps(d)), nontrivial=True)
            okk, why = source_oracle_pairs(pairs, out, cwd)
            if not okk and len(chk.violations) < 8:
                chk.violation({"kind": "shellvars_sub", "doc": d, "expr": e_, "impl_out": out.decode("utf-8", "replace"), "why": why, "want": pairs}, True,
                              "sourcing the -o=shell output of the results of %s does not define the expected variables: %s" % (e_, why))
        # ---- every spelling of the output format that means "shell variables" (-o=shell, -o=s, -o=sh) gives the same,
        #      sourceable, output; none of them may fall through to the bare-word @sh encoder
        adocs = [{"a": "$(touch PWNED)", "b": {"c": "x y"}}, {"k": "`touch PWNED`"}, "touch PWNED", {"p": "1;touch PWNED"}, ["a b", "c"]]
        for k, d in enumerate(adocs):
            # the real binary: the spelling is resolved by the command line's format table
            outs = []
            for name in ("shell", "s", "sh"):
                rc, so, se = vlib.run_yq(["-p=json", "-o=" + name, "."], stdin=json.dumps(d).encode())
                outs.append(so if rc == 0 else None)
            chk.count(("svalias", json.dumps(d)), nontrivial=True)
            if outs[0] is None:
                continue
            for name, o in zip(("s", "sh"), outs[1:]):
                if o != outs[0] and len(chk.violations) < 8:
                    okk, why = (False, "no output") if o is None else source_oracle(d, o, cwd)
                    chk.violation({"kind": "shellvars_alias", "doc": d, "format": name, "impl_out": (o or b"").decode("utf-8", "replace"),
                                   "expect": outs[0].decode("utf-8", "replace"), "why": why}, True,
                                  "-o=%s does not give the shell-variables output that -o=shell gives (sourcing it: %s)" % (name, why or "ok"))
        mism, err = vlib.coq_mismatches(chk.workdir, "sv_cases", IMPORTS, "sv_output (fun k => k)", sv_cases)
        if err:
            broken.append("model evaluation failed (shellvars): " + err[-500:])
        else:
            for i, mo in mism:
                disagreements.append((sv_docs[i][0], sv_docs[i][1], mo))
        chk.extra["shellvars_docs"] = len(docs)
    finally:
        shutil.rmtree(cwd, ignore_errors=True)

    if disagreements and not chk.violations:
        d = disagreements[0]
        chk.violation({"kind": "correspondence", "broken": "Model/Sh.v vs encoder_sh.go / encoder_shellvariables.go",
                       "input": repr(d[0]), "impl": repr(d[1]), "model": repr(d[2]), "count": len(disagreements)},
                      False, "model and implementation disagree (%d cases) but /bin/sh still expands every output correctly" % len(disagreements))
    if broken and not chk.violations:
        chk.violation({"kind": "obligation", "broken": broken}, False, "; ".join(broken)[:600])
    chk.extra["distribution"] = {"sh_strings": len(strings), "shellvars_docs": len(docs)}
    return chk.finish(
        checker_cmd="make -C coq Props/C17.vo (coqc 8.16.1, full .vo) + coqc work/C17/*_cases_*.v (vm_compute)",
        rule="@sh: every ASCII byte, every pair over a %d-character metacharacter set, injection payloads, seeded random strings; "
             "-o=shell: seeded random nested JSON documents of adversarial strings/keys. A case is non-trivial when the encoder "
             "changed the text (quoting needed) resp. the document is a container with output; distinct by input." % len(META),
        trusted=vlib.COMMON_TRUSTED + ["Spec/PosixSh.v (hand-written POSIX word-expansion subset; validated against /bin/sh (dash) on generated words each run)",
                                       "NFKD (golang.org/x/text) is a Section variable: theorems hold for any function in its place",
                                       "strings are modelled as byte lists: exact for valid UTF-8 input; invalid UTF-8 (Go substitutes U+FFFD) is not modelled"],
        assumptions=["/bin/sh is dash; its behaviour stands for 'a POSIX shell' in the replay search",
                     "correspondence is sampled; the unbounded claim is the Coq theorem over the model"])
