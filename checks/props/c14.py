"""C14 — properties, CSV/TSV, XML, TOML, Lua, base64 and URI codecs are faithful.

Decided by: theorems Props/C14.v over Model/{Base64,Uri,Csv,Props,LuaStr}.v and
Spec/Codecs.v (round trips and well-formedness for all inputs);
tie: byte-exact correspondence of the modelled codecs with the implementation
(yqh ops c14_enc / c14_dec / c14_op, linked against /repo) on generated inputs;
replay search: for every format, both directions against an independent
reader/writer (python base64, urllib.parse, csv, xml.etree, tomllib, and small
readers for .properties and Lua table literals written here) on generated
ground truth, plus the real binary on a sample.
"""
import base64, csv, io, json, os, re, urllib.parse
import vlib

sections = []


def section(f):
    sections.append(f)
    return f


# --------------------------------------------------------------------------
# node descriptions
# --------------------------------------------------------------------------
def S(v, tag="!!str", style=None):
    d = {"k": "s", "t": tag, "v_b64": vlib.b64e(v)}
    if style:
        d["style"] = style
    return d


def Q(items):
    return {"k": "q", "c": list(items)}


def M(pairs):
    c = []
    for k, v in pairs:
        c.append(k if isinstance(k, dict) else S(k))
        c.append(v)
    return {"k": "m", "c": c}


def to_node(v):
    if isinstance(v, dict):
        return M([(k, to_node(x)) for k, x in v.items()])
    if isinstance(v, (list, tuple)):
        return Q([to_node(x) for x in v])
    if v is None:
        return S("null", "!!null")
    if v is True:
        return S("true", "!!bool")
    if v is False:
        return S("false", "!!bool")
    if isinstance(v, int):
        return S(str(v), "!!int")
    if isinstance(v, float):
        return S(repr(v), "!!float")
    return S(v)


def sval(d):
    return vlib.b64d(d["v_b64"])


def from_node(d, typed=True):
    """dumped tree -> python value (maps as lists of pairs when keys repeat)."""
    if d["k"] == "s":
        raw = sval(d)
        t = d["t"]
        if not typed or t == "!!str":
            try:
                return raw.decode("utf-8")
            except UnicodeDecodeError:
                return raw
        if t == "!!null":
            return None
        if t == "!!bool":
            return raw.lower() == b"true"
        if t == "!!int":
            try:
                return int(raw.decode().replace("_", ""), 0)
            except ValueError:
                return ("int", raw.decode())
        if t == "!!float":
            try:
                return float(raw.decode())
            except ValueError:
                return ("float", raw.decode())
        return (t, raw.decode("utf-8", "replace"))
    if d["k"] == "q":
        return [from_node(c, typed) for c in d["c"]]
    if d["k"] == "m":
        out = {}
        for i in range(0, len(d["c"]), 2):
            k = from_node(d["c"][i], False)
            if k in out:
                return ("dupkey", k)
            out[k] = from_node(d["c"][i + 1], typed)
        return out
    return ("?", d)


def ok(r):
    return r is not None and not r.get("err") and not r.get("panic") and not r.get("timeout") and not r.get("crash")


def failed_cleanly(r):
    return r is not None and r.get("err") and not r.get("panic") and not r.get("timeout") and not r.get("crash") and not r.get("harness_error")


class Ctx:
    """per-run bookkeeping shared by the sections"""

    def __init__(self, chk):
        self.chk = chk
        self.rng = chk.rng
        self.thorough = chk.tier == "thorough"
        self.broken = []
        self.disagree = []      # (what, input, impl, model)
        self.nviol = {}
        self.dist = {}

    def n(self, quick, thorough):
        return thorough if self.thorough else quick

    def viol(self, kind, replay, what, limit=3):
        self.nviol[kind] = self.nviol.get(kind, 0) + 1
        if self.nviol[kind] <= limit:
            self.chk.violation(dict(replay, kind=kind), True, what)

    def correspond(self, name, imports, fn, cases, inputs, what):
        """cases: [(coq term, impl bytes)]; inputs: replayable description per case"""
        if not cases:
            return
        mism, err = vlib.coq_mismatches(self.chk.workdir, name, imports, fn, cases)
        self.dist["corr_" + name] = len(cases)
        if err:
            self.broken.append("model evaluation failed (%s): %s" % (name, err[-400:]))
            return
        for i, mo in mism:
            self.disagree.append((what, inputs[i], cases[i][1], mo))


# --------------------------------------------------------------------------
# generators
# --------------------------------------------------------------------------
def gen_bytes(cx, n_random):
    rng = cx.rng
    out = [bytes([b]) for b in range(256)]
    out += [b"", b"\x00\x00\x00", b"\xff\xff\xff", b"\xff\xff", b"\xff", b"\x00\x10\x83\x10\x51\x87\x20\x92\x8b\x30\xd3\x8f",
            bytes(range(256)), b"a b&c=d/e?f+g%h~i.j-k_l", b"100% sure + more", b"\n", b"a\n", b"\r\n", "héllo 中\U0001F600".encode()]
    for ln in range(2, 13):
        for _ in range(12):
            out.append(bytes(rng.randrange(256) for _ in range(ln)))
    specials = b" +%&=/?#~.-_*!'()\"\\\n\r\t\x00\x7f\x80\xff"
    for _ in range(n_random):
        ln = rng.choice([1, 2, 3, 4, 5, 6, 7, 9, 16, 31, 32, 33, 64, 100, 190])
        mode = rng.random()
        if mode < 0.4:
            s = bytes(rng.randrange(256) for _ in range(ln))
        elif mode < 0.7:
            s = bytes(rng.choice(specials) if rng.random() < 0.5 else rng.randrange(32, 127) for _ in range(ln))
        else:
            s = bytes(rng.choice([0, 0xff, 0x3f, 0xfc, 0xfb, 0xf0, 0x0f, 0x80, 0x7f]) for _ in range(ln))
        out.append(s)
    seen, res = set(), []
    for s in out:
        if s not in seen:
            seen.add(s)
            res.append(s)
    return res


NONSTRING = [S("12", "!!int"), S("true", "!!bool"), S("1.5", "!!float"), S("null", "!!null"), S("", "!!null"),
             Q([]), Q([S("a")]), M([]), M([("a", S("b"))]), S("12", "!foo")]


# --------------------------------------------------------------------------
# base64
# --------------------------------------------------------------------------
B64_IMPORTS = "From YQ Require Import Base.Str Model.Base64."
B64_ALPHA = b"ABCDEFGHIJKLMNOPQRSTUVWXYZabcdefghijklmnopqrstuvwxyz0123456789+/"


def b64_text_kind(t):
    """classify text for the decode oracle: ('canon'|'unpadded'|'newlines'|'other', value)"""
    body = t.replace(b"\n", b"").replace(b"\r", b"")
    stripped = body.rstrip(b"=")
    if any(c not in B64_ALPHA for c in stripped) or len(body) - len(stripped) > 2 or len(stripped) % 4 == 1:
        return "other", None
    padded = stripped + b"=" * (-len(stripped) % 4)
    if len(body) != len(stripped) and body != padded:
        return "other", None
    val = base64.b64decode(padded, validate=True)
    if base64.b64encode(val) != padded:
        return "other", None      # non-zero trailing bits: not the encoding of anything
    if body != t:
        return "newlines", val
    return ("canon" if t == padded else "unpadded"), val


@section
def sec_base64(cx):
    chk = cx.chk
    data = gen_bytes(cx, cx.n(700, 12000))
    # ---- encode: model correspondence + independent reader (python base64, strict)
    resp = vlib.yqh_parallel([{"op": "c14_enc", "fmt": "base64", "node": S(s)} for s in data])
    cases, inputs = [], []
    for s, r in zip(data, resp):
        if not ok(r):
            cx.viol("b64enc", {"s_b64": vlib.b64e(s), "response": r}, "base64 encoder failed on a string")
            continue
        out = vlib.b64d(r["out_b64"])
        cases.append((vlib.coq_str(s), out))
        inputs.append({"s_b64": vlib.b64e(s)})
        good = True
        try:
            good = base64.b64decode(out, validate=True) == s and re.fullmatch(rb"[A-Za-z0-9+/]*={0,2}", out) and len(out) % 4 == 0
        except Exception:
            good = False
        chk.count(("b64e", s), nontrivial=len(s) > 0, sample={"bytes_hex": s.hex(), "base64": out.decode("latin1")} if 3 < len(s) < 12 else None)
        if not good:
            cx.viol("b64enc", {"s_b64": vlib.b64e(s), "impl_out": out.decode("latin1")}, "python's strict base64 reader does not map yq's base64 output back to the input")
    cx.correspond("b64enc", B64_IMPORTS, "b64_encode", cases, inputs, "Model/Base64.v b64_encode vs encoder_base64.go")

    # ---- decode: ground truth written by python; canonical, unpadded, with newlines, malformed
    rng = cx.rng
    texts = []
    for s in data:
        t = base64.b64encode(s)
        texts.append(t)
        if t.endswith(b"="):
            texts.append(t.rstrip(b"="))
            if t.endswith(b"=="):
                texts.append(t[:-1])
    for s in data[:: 7]:
        t = base64.b64encode(s)
        texts += [t + b"\n", t + b"\r\n", b"\n".join(t[i:i + 8] for i in range(0, len(t), 8)) + b"\n", b"\n" + t]
    for _ in range(cx.n(500, 8000)):
        ln = rng.choice([1, 2, 3, 4, 5, 6, 7, 8, 9, 12, 13, 20])
        t = bytes(rng.choice(B64_ALPHA + b"===\n\r*-_ ") for _ in range(ln))
        texts.append(t)
    texts = [t for t in dict.fromkeys(texts) if len(t) < 600]
    resp = vlib.yqh_parallel([{"op": "c14_dec", "fmt": "base64", "text_b64": vlib.b64e(t), "again": True} for t in texts])
    cases, inputs = [], []
    for t, r in zip(texts, resp):
        if r is None or r.get("panic") or r.get("timeout") or r.get("crash") or r.get("harness_error"):
            cx.viol("b64dec", {"text_b64": vlib.b64e(t), "response": r}, "base64 decoder crashed")
            continue
        if ok(r):
            val = sval(r["node"])
            obs = b"O" + val
            if r["node"]["t"] != "!!str" or not r.get("again_eof", True) and val != b"":
                cx.viol("b64dec", {"text_b64": vlib.b64e(t), "response": r}, "base64 decoder result is not one string")
        else:
            val = None
            obs = {"b64corrupt": b"C", "ueof": b"U"}.get(r.get("errclass"), b"?")
        cases.append((vlib.coq_str(t), obs))
        inputs.append({"text_b64": vlib.b64e(t)})
        kind, want = b64_text_kind(t)
        chk.count(("b64d", t), nontrivial=kind != "other" and len(t) > 0)
        if kind == "other":
            continue
        if val != want:
            if kind == "newlines" and val is None:
                chk.known_finding("b64-newline", "text %r" % t[:40])
                if chk.is_known("b64-newline"):
                    continue
            cx.viol("b64dec", {"text_b64": vlib.b64e(t), "text": t.decode("latin1"), "want_b64": vlib.b64e(want), "response": r},
                    "yq's base64 decoder does not return the bytes that well-formed base64 text denotes")
    cx.correspond("b64dec", B64_IMPORTS, "b64_decode_obs", cases, inputs, "Model/Base64.v b64_decode vs decoder_base64.go")

    # ---- non-string input is an error; in-expression pair
    resp = vlib.yqh_parallel([{"op": "c14_enc", "fmt": f, "node": n} for f in ("base64", "uri") for n in NONSTRING])
    for (f, n), r in zip([(f, n) for f in ("base64", "uri") for n in NONSTRING], resp):
        chk.count(("nonstr", f, json.dumps(n)), nontrivial=True)
        if not failed_cleanly(r) or vlib.b64d(r.get("out_b64", "")) != b"":
            cx.viol("nonstring", {"fmt": f, "node": n, "response": r}, "%s encoder accepted a non-string node" % f)
    sample = data[:: 5]
    reqs = []
    for s in sample:
        reqs.append({"op": "c14_op", "expr": "@base64", "node": S(s)})
        reqs.append({"op": "c14_op", "expr": "@base64 | @base64d", "node": S(s)})
        reqs.append({"op": "c14_op", "expr": "@base64d", "node": S(base64.b64encode(s).rstrip(b"="))})
    resp = vlib.yqh_parallel(reqs)
    for i, s in enumerate(sample):
        want = [base64.b64encode(s), s, s]
        for j in range(3):
            r = resp[3 * i + j]
            got = sval(r["nodes"][0]) if ok(r) and len(r.get("nodes", [])) == 1 and r["nodes"][0]["k"] == "s" else None
            chk.count(("b64op", j, s), nontrivial=len(s) > 0)
            if got != want[j]:
                cx.viol("b64op", {"expr": reqs[3 * i + j]["expr"], "node": reqs[3 * i + j]["node"], "want_b64": vlib.b64e(want[j]), "response": r},
                        "in-expression base64 operator is not the codec / not an inverse pair")
    cx.dist["base64"] = {"byte_strings": len(data), "decode_texts": len(texts)}


# --------------------------------------------------------------------------
# URI
# --------------------------------------------------------------------------
URI_IMPORTS = "From YQ Require Import Base.Str Model.Uri."


@section
def sec_uri(cx):
    chk = cx.chk
    rng = cx.rng
    data = gen_bytes(cx, cx.n(700, 12000))
    resp = vlib.yqh_parallel([{"op": "c14_enc", "fmt": "uri", "node": S(s)} for s in data])
    cases, inputs = [], []
    for s, r in zip(data, resp):
        if not ok(r):
            cx.viol("urienc", {"s_b64": vlib.b64e(s), "response": r}, "uri encoder failed on a string")
            continue
        out = vlib.b64d(r["out_b64"])
        cases.append((vlib.coq_str(s), out))
        inputs.append({"s_b64": vlib.b64e(s)})
        good = re.fullmatch(rb"(?:[A-Za-z0-9._~-]|\+|%[0-9A-F]{2})*", out) is not None and urllib.parse.unquote_to_bytes(out.replace(b"+", b" ")) == s
        chk.count(("urie", s), nontrivial=out != s, sample={"bytes_hex": s.hex(), "uri": out.decode("latin1")} if 3 < len(s) < 10 else None)
        if not good:
            cx.viol("urienc", {"s_b64": vlib.b64e(s), "impl_out": out.decode("latin1")},
                    "urllib's reader does not map yq's @uri output back to the input, or the output uses characters outside unreserved / + / %XX")
    cx.correspond("urienc", URI_IMPORTS, "uri_escape", cases, inputs, "Model/Uri.v uri_escape vs encoder_uri.go")

    # decode: ground truth written by urllib (quote_plus, and lower-case hex, and everything-escaped variants), malformed text
    texts = []
    for s in data:
        t = urllib.parse.quote_plus(s, safe="").encode()
        texts.append((t, s))
        if rng.random() < 0.3:
            texts.append((t.lower() if b"%" in t and not re.search(rb"[A-Z]", re.sub(rb"%[0-9A-F]{2}", b"", t)) else t, s))
        if rng.random() < 0.3:
            texts.append(("".join("%%%02X" % b for b in s).encode(), s))
        if rng.random() < 0.2:
            texts.append((urllib.parse.quote(s, safe="!*'()$,/:;=?@").replace("+", "%2B").encode(), s))
    for _ in range(cx.n(400, 6000)):
        ln = rng.choice([1, 2, 3, 4, 5, 8])
        t = bytes(rng.choice(b"%%%+ aAfFgG09zZ\xff&=") for _ in range(ln))
        texts.append((t, None))
    seen = {}
    for t, s in texts:
        seen.setdefault(t, s)
    texts = list(seen.items())
    resp = vlib.yqh_parallel([{"op": "c14_dec", "fmt": "uri", "text_b64": vlib.b64e(t), "again": True} for t, _ in texts])
    cases, inputs = [], []
    for (t, s), r in zip(texts, resp):
        if r is None or r.get("panic") or r.get("timeout") or r.get("crash") or r.get("harness_error"):
            cx.viol("uridec", {"text_b64": vlib.b64e(t), "response": r}, "uri decoder crashed")
            continue
        if ok(r):
            val = sval(r["node"])
            obs = b"O" + val
        else:
            val = None
            obs = b"E" if r.get("errclass") == "uriescape" else b"?"
        cases.append((vlib.coq_str(t), obs))
        inputs.append({"text_b64": vlib.b64e(t)})
        wellformed = re.fullmatch(rb"(?:[^%]|%[0-9A-Fa-f]{2})*", t) is not None
        want = urllib.parse.unquote_to_bytes(t.replace(b"+", b" ")) if wellformed else None
        chk.count(("urid", t), nontrivial=wellformed and (b"%" in t or b"+" in t))
        if s is not None and want != s:
            cx.broken.append("generator: urllib does not read back its own text %r" % t)
        if wellformed and val != want:
            cx.viol("uridec", {"text_b64": vlib.b64e(t), "text": t.decode("latin1"), "want_b64": vlib.b64e(want), "response": r},
                    "yq's uri decoder does not return the bytes the text denotes")
        if not wellformed and val is not None:
            cx.viol("uridec", {"text_b64": vlib.b64e(t), "text": t.decode("latin1"), "response": r},
                    "yq's uri decoder accepted a malformed percent escape")
    cx.correspond("uridec", URI_IMPORTS, "uri_unescape_obs", cases, inputs, "Model/Uri.v uri_unescape vs decoder_uri.go")

    sample = data[:: 5]
    reqs = []
    for s in sample:
        reqs.append({"op": "c14_op", "expr": "@uri", "node": S(s)})
        reqs.append({"op": "c14_op", "expr": "@uri | @urid", "node": S(s)})
        reqs.append({"op": "c14_op", "expr": "@urid", "node": S(urllib.parse.quote_plus(s, safe=""))})
    resp = vlib.yqh_parallel(reqs)
    for i, s in enumerate(sample):
        want = [None, s, s]
        for j in range(3):
            r = resp[3 * i + j]
            got = sval(r["nodes"][0]) if ok(r) and len(r.get("nodes", [])) == 1 and r["nodes"][0]["k"] == "s" else None
            chk.count(("uriop", j, s), nontrivial=len(s) > 0)
            w = want[j] if j else (urllib.parse.unquote_to_bytes(got.replace(b"+", b" ")) == s and got if got is not None else b"")
            if got is None or got != w:
                cx.viol("uriop", {"expr": reqs[3 * i + j]["expr"], "node": reqs[3 * i + j]["node"], "response": r},
                        "in-expression uri operator is not the codec / not an inverse pair")
    cx.dist["uri"] = {"byte_strings": len(data), "decode_texts": len(texts)}


# --------------------------------------------------------------------------
# replay / run
# --------------------------------------------------------------------------
def replay(rp):
    """re-run the one recorded request against the current tree; True when it no longer fails"""
    class _Chk:
        pass
    kind = rp.get("kind", "")
    try:
        if kind == "b64enc":
            s = vlib.b64d(rp["s_b64"])
            r = vlib.yqh_batch([{"op": "c14_enc", "fmt": "base64", "node": S(s)}])[0]
            return ok(r) and base64.b64decode(vlib.b64d(r["out_b64"]), validate=True) == s
        if kind == "b64dec":
            t = vlib.b64d(rp["text_b64"])
            r = vlib.yqh_batch([{"op": "c14_dec", "fmt": "base64", "text_b64": rp["text_b64"]}])[0]
            k, want = b64_text_kind(t)
            return k != "other" and ok(r) and sval(r["node"]) == want
        if kind == "urienc":
            s = vlib.b64d(rp["s_b64"])
            r = vlib.yqh_batch([{"op": "c14_enc", "fmt": "uri", "node": S(s)}])[0]
            return ok(r) and urllib.parse.unquote_to_bytes(vlib.b64d(r["out_b64"]).replace(b"+", b" ")) == s
        if kind == "uridec":
            t = vlib.b64d(rp["text_b64"])
            r = vlib.yqh_batch([{"op": "c14_dec", "fmt": "uri", "text_b64": rp["text_b64"]}])[0]
            if "want_b64" in rp:
                return ok(r) and sval(r["node"]) == vlib.b64d(rp["want_b64"])
            return not ok(r)
        if kind == "nonstring":
            r = vlib.yqh_batch([{"op": "c14_enc", "fmt": rp["fmt"], "node": rp["node"]}])[0]
            return failed_cleanly(r)
        if kind in ("b64op", "uriop"):
            r = vlib.yqh_batch([{"op": "c14_op", "expr": rp["expr"], "node": rp["node"]}])[0]
            if "want_b64" in rp:
                return ok(r) and len(r["nodes"]) == 1 and sval(r["nodes"][0]) == vlib.b64d(rp["want_b64"])
            return ok(r)
        f = REPLAYERS.get(kind)
        if f:
            return f(rp)
    except Exception:
        return False
    return False


REPLAYERS = {}


def run(chk):
    cx = Ctx(chk)
    proved, plog = chk.prove("Props/C14.v", clean=False)
    if not proved:
        cx.broken.append("proof obligations of Props/C14.v do not check: " + plog[-800:])
    import time
    for sec in sections:
        try:
            t0 = time.time()
            sec(cx)
            cx.dist.setdefault("wall_s", {})[sec.__name__] = round(time.time() - t0, 1)
            vlib.log("  %s: %.1fs" % (sec.__name__, time.time() - t0))
        except Exception as e:      # a crash of the checker itself is a broken tie, never silence
            import traceback
            cx.broken.append("section %s raised %s: %s" % (sec.__name__, type(e).__name__, traceback.format_exc()[-600:]))
    if cx.disagree and not chk.violations:
        d = cx.disagree[0]
        chk.violation({"kind": "correspondence", "broken": d[0], "input": d[1], "impl": repr(d[2]), "model": repr(d[3]), "count": len(cx.disagree),
                       "all": sorted(set(x[0] for x in cx.disagree))},
                      False, "model and implementation disagree (%d cases, first: %s) but every independent reader still agrees with yq" % (len(cx.disagree), d[0]))
    if cx.broken and not chk.violations:
        chk.violation({"kind": "obligation", "broken": cx.broken}, False, "; ".join(cx.broken)[:600])
    chk.extra["distribution"] = cx.dist
    chk.extra["correspondence_disagreements"] = len(cx.disagree)
    chk.extra["violations_by_kind"] = cx.nviol
    return chk.finish(
        checker_cmd="make -C coq Props/C14.vo (coqc 8.16.1, full .vo) + coqc work/C14/*_N.v (vm_compute)",
        rule=RULE,
        trusted=vlib.COMMON_TRUSTED + TRUSTED,
        assumptions=ASSUMPTIONS)


RULE = ("base64/URI: every single byte, all short lengths, boundary patterns and seeded random byte strings, both directions "
        "(ground truth written by python's base64 / urllib, incl. unpadded, line-wrapped and malformed text); "
        "a case is non-trivial when the codec changed the text resp. the text is well-formed and non-empty; distinct by input.")
TRUSTED = [
    "Spec/Codecs.v (hand-written: form-urlencoded grammar and denotation, RFC 4180 field denotation)",
    "python3 stdlib readers/writers used as independent oracles (base64, urllib.parse, csv, xml.etree, tomllib)",
    "Go's streaming base64 decoder checks for data after a padded quantum per chunk (<= 1024 characters); the model checks it globally; malformed correspondence inputs are kept below one chunk",
]
ASSUMPTIONS = ["correspondence is sampled; the unbounded claims are the Coq theorems over the models"]
