"""C14 — properties, CSV/TSV, XML, TOML, Lua, base64 and URI codecs are faithful.

Decided by: theorems Props/C14.v over Model/{Base64,Uri,Csv,Props,LuaStr}.v and
Spec/Codecs.v (round trips and well-formedness for all inputs);
tie: byte-exact correspondence of the modelled codecs with the implementation
(yqh ops c14_enc / c14_dec / c14_op, linked against /repo) on generated inputs;
replay search: for every format, both directions against an independent
reader/writer (python base64, urllib.parse, csv, xml.etree, tomllib, and small
readers for .properties and Lua table literals written here) on generated
ground truth, plus the real binary on a sample.
"""
import base64, csv, io, json, os, re, shutil, tempfile, urllib.parse
import vlib

sections = []


def section(f):
    sections.append(f)
    return f


# --------------------------------------------------------------------------
# node descriptions
# --------------------------------------------------------------------------
def S(v, tag="!!str", style=None):
    d = {"k": "s", "t": tag, "v_b64": vlib.b64e(v)}
    if style:
        d["style"] = style
    return d


def Q(items):
    return {"k": "q", "c": list(items)}


def M(pairs):
    c = []
    for k, v in pairs:
        c.append(k if isinstance(k, dict) else S(k))
        c.append(v)
    return {"k": "m", "c": c}


def to_node(v):
    if isinstance(v, dict):
        return M([(k, to_node(x)) for k, x in v.items()])
    if isinstance(v, (list, tuple)):
        return Q([to_node(x) for x in v])
    if v is None:
        return S("null", "!!null")
    if v is True:
        return S("true", "!!bool")
    if v is False:
        return S("false", "!!bool")
    if isinstance(v, int):
        return S(str(v), "!!int")
    if isinstance(v, float):
        return S(repr(v), "!!float")
    return S(v)


def sval(d):
    return vlib.b64d(d["v_b64"])


def from_node(d, typed=True):
    """dumped tree -> python value (maps as lists of pairs when keys repeat)."""
    if d["k"] == "s":
        raw = sval(d)
        t = d["t"]
        if not typed or t == "!!str":
            try:
                return raw.decode("utf-8")
            except UnicodeDecodeError:
                return raw
        if t == "!!null":
            return None
        if t == "!!bool":
            return raw.lower() == b"true"
        if t == "!!int":
            try:
                return int(raw.decode().replace("_", ""), 0)
            except ValueError:
                return ("int", raw.decode())
        if t == "!!float":
            try:
                return float(raw.decode())
            except ValueError:
                return ("float", raw.decode())
        return (t, raw.decode("utf-8", "replace"))
    if d["k"] == "q":
        return [from_node(c, typed) for c in d["c"]]
    if d["k"] == "m":
        out = {}
        for i in range(0, len(d["c"]), 2):
            k = from_node(d["c"][i], False)
            if k in out:
                return ("dupkey", k)
            out[k] = from_node(d["c"][i + 1], typed)
        return out
    return ("?", d)


def ok(r):
    return r is not None and not r.get("err") and not r.get("panic") and not r.get("timeout") and not r.get("crash")


def failed_cleanly(r):
    return r is not None and r.get("err") and not r.get("panic") and not r.get("timeout") and not r.get("crash") and not r.get("harness_error")


class Ctx:
    """per-run bookkeeping shared by the sections"""

    def __init__(self, chk):
        self.chk = chk
        self.rng = chk.rng
        self.thorough = chk.tier == "thorough"
        self.broken = []
        self.disagree = []      # (what, input, impl, model)
        self.nviol = {}
        self.dist = {}

    def n(self, quick, thorough):
        return thorough if self.thorough else quick

    def viol(self, kind, replay, what, limit=3):
        self.nviol[kind] = self.nviol.get(kind, 0) + 1
        if self.nviol[kind] <= limit:
            self.chk.violation(dict(replay, kind=kind), True, what)

    def correspond(self, name, imports, fn, cases, inputs, what):
        """cases: [(coq term, impl bytes)]; inputs: replayable description per case"""
        if not cases:
            return
        mism, err = vlib.coq_mismatches(self.chk.workdir, name, imports, fn, cases)
        self.dist["corr_" + name] = len(cases)
        if err:
            self.broken.append("model evaluation failed (%s): %s" % (name, err[-400:]))
            return
        for i, mo in mism:
            self.disagree.append((what, inputs[i], cases[i][1], mo))


# --------------------------------------------------------------------------
# generators
# --------------------------------------------------------------------------
def gen_bytes(cx, n_random):
    rng = cx.rng
    out = [bytes([b]) for b in range(256)]
    out += [b"", b"\x00\x00\x00", b"\xff\xff\xff", b"\xff\xff", b"\xff", b"\x00\x10\x83\x10\x51\x87\x20\x92\x8b\x30\xd3\x8f",
            bytes(range(256)), b"a b&c=d/e?f+g%h~i.j-k_l", b"100% sure + more", b"\n", b"a\n", b"\r\n", "héllo 中\U0001F600".encode()]
    for ln in range(2, 13):
        for _ in range(12):
            out.append(bytes(rng.randrange(256) for _ in range(ln)))
    specials = b" +%&=/?#~.-_*!'()\"\\\n\r\t\x00\x7f\x80\xff"
    for _ in range(n_random):
        ln = rng.choice([1, 2, 3, 4, 5, 6, 7, 9, 16, 31, 32, 33, 64, 100, 190])
        mode = rng.random()
        if mode < 0.4:
            s = bytes(rng.randrange(256) for _ in range(ln))
        elif mode < 0.7:
            s = bytes(rng.choice(specials) if rng.random() < 0.5 else rng.randrange(32, 127) for _ in range(ln))
        else:
            s = bytes(rng.choice([0, 0xff, 0x3f, 0xfc, 0xfb, 0xf0, 0x0f, 0x80, 0x7f]) for _ in range(ln))
        out.append(s)
    seen, res = set(), []
    for s in out:
        if s not in seen:
            seen.add(s)
            res.append(s)
    return res


NONSTRING = [S("12", "!!int"), S("true", "!!bool"), S("1.5", "!!float"), S("null", "!!null"), S("", "!!null"),
             Q([]), Q([S("a")]), M([]), M([("a", S("b"))]), S("12", "!foo")]


# --------------------------------------------------------------------------
# base64
# --------------------------------------------------------------------------
B64_IMPORTS = "From YQ Require Import Base.Str Model.Base64."
B64_ALPHA = b"ABCDEFGHIJKLMNOPQRSTUVWXYZabcdefghijklmnopqrstuvwxyz0123456789+/"


def b64_text_kind(t):
    """classify text for the decode oracle: ('canon'|'unpadded'|'newlines'|'other', value)"""
    body = t.replace(b"\n", b"").replace(b"\r", b"")
    stripped = body.rstrip(b"=")
    if any(c not in B64_ALPHA for c in stripped) or len(body) - len(stripped) > 2 or len(stripped) % 4 == 1:
        return "other", None
    padded = stripped + b"=" * (-len(stripped) % 4)
    if len(body) != len(stripped) and body != padded:
        return "other", None
    val = base64.b64decode(padded, validate=True)
    if base64.b64encode(val) != padded:
        return "other", None      # non-zero trailing bits: not the encoding of anything
    if body != t:
        return "newlines", val
    return ("canon" if t == padded else "unpadded"), val


@section
def sec_base64(cx):
    chk = cx.chk
    data = gen_bytes(cx, cx.n(250, 12000))
    # ---- encode: model correspondence + independent reader (python base64, strict)
    resp = vlib.yqh_parallel([{"op": "c14_enc", "fmt": "base64", "node": S(s)} for s in data])
    cases, inputs = [], []
    for s, r in zip(data, resp):
        if not ok(r):
            cx.viol("b64enc", {"s_b64": vlib.b64e(s), "response": r}, "base64 encoder failed on a string")
            continue
        out = vlib.b64d(r["out_b64"])
        cases.append((vlib.coq_str(s), out))
        inputs.append({"s_b64": vlib.b64e(s)})
        good = True
        try:
            good = base64.b64decode(out, validate=True) == s and re.fullmatch(rb"[A-Za-z0-9+/]*={0,2}", out) and len(out) % 4 == 0
        except Exception:
            good = False
        chk.count(("b64e", s), nontrivial=len(s) > 0, sample={"bytes_hex": s.hex(), "base64": out.decode("latin1")} if 3 < len(s) < 12 else None)
        if not good:
            cx.viol("b64enc", {"s_b64": vlib.b64e(s), "impl_out": out.decode("latin1")}, "python's strict base64 reader does not map yq's base64 output back to the input")
    cx.correspond("b64enc", B64_IMPORTS, "b64_encode", cases, inputs, "Model/Base64.v b64_encode vs encoder_base64.go")

    # ---- decode: ground truth written by python; canonical, unpadded, with newlines, malformed
    rng = cx.rng
    texts = []
    for s in data:
        t = base64.b64encode(s)
        texts.append(t)
        if t.endswith(b"="):
            texts.append(t.rstrip(b"="))
            if t.endswith(b"=="):
                texts.append(t[:-1])
    for s in data[:: 7]:
        t = base64.b64encode(s)
        texts += [t + b"\n", t + b"\r\n", b"\n".join(t[i:i + 8] for i in range(0, len(t), 8)) + b"\n", b"\n" + t]
    for _ in range(cx.n(500, 8000)):
        ln = rng.choice([1, 2, 3, 4, 5, 6, 7, 8, 9, 12, 13, 20])
        t = bytes(rng.choice(B64_ALPHA + b"===\n\r*-_ ") for _ in range(ln))
        texts.append(t)
    texts = [t for t in dict.fromkeys(texts) if len(t) < 600]
    resp = vlib.yqh_parallel([{"op": "c14_dec", "fmt": "base64", "text_b64": vlib.b64e(t), "again": True} for t in texts])
    cases, inputs = [], []
    for t, r in zip(texts, resp):
        if r is None or r.get("panic") or r.get("timeout") or r.get("crash") or r.get("harness_error"):
            cx.viol("b64dec", {"text_b64": vlib.b64e(t), "response": r}, "base64 decoder crashed")
            continue
        if ok(r):
            val = sval(r["node"])
            obs = b"O" + val
            if r["node"]["t"] != "!!str" or not r.get("again_eof", True) and val != b"":
                cx.viol("b64dec", {"text_b64": vlib.b64e(t), "response": r}, "base64 decoder result is not one string")
        else:
            val = None
            obs = {"b64corrupt": b"C", "ueof": b"U"}.get(r.get("errclass"), b"?")
        cases.append((vlib.coq_str(t), obs))
        inputs.append({"text_b64": vlib.b64e(t)})
        kind, want = b64_text_kind(t)
        chk.count(("b64d", t), nontrivial=kind != "other" and len(t) > 0)
        if kind == "other":
            continue
        if val != want:
            cx.viol("b64dec", {"text_b64": vlib.b64e(t), "text": t.decode("latin1"), "want_b64": vlib.b64e(want), "response": r},
                    "yq's base64 decoder does not return the bytes that well-formed base64 text denotes")
    cx.correspond("b64dec", B64_IMPORTS, "b64_decode_obs", cases, inputs, "Model/Base64.v b64_decode vs decoder_base64.go")

    # ---- non-string input is an error; in-expression pair
    resp = vlib.yqh_parallel([{"op": "c14_enc", "fmt": f, "node": n} for f in ("base64", "uri") for n in NONSTRING])
    for (f, n), r in zip([(f, n) for f in ("base64", "uri") for n in NONSTRING], resp):
        chk.count(("nonstr", f, json.dumps(n)), nontrivial=True)
        if not failed_cleanly(r) or vlib.b64d(r.get("out_b64", "")) != b"":
            cx.viol("nonstring", {"fmt": f, "node": n, "response": r}, "%s encoder accepted a non-string node" % f)
    sample = data[:: 5]
    reqs = []
    for s in sample:
        reqs.append({"op": "c14_op", "expr": "@base64", "node": S(s)})
        reqs.append({"op": "c14_op", "expr": "@base64 | @base64d", "node": S(s)})
        reqs.append({"op": "c14_op", "expr": "@base64d", "node": S(base64.b64encode(s).rstrip(b"="))})
    resp = vlib.yqh_parallel(reqs)
    for i, s in enumerate(sample):
        want = [base64.b64encode(s), s, s]
        for j in range(3):
            r = resp[3 * i + j]
            got = sval(r["nodes"][0]) if ok(r) and len(r.get("nodes", [])) == 1 and r["nodes"][0]["k"] == "s" else None
            chk.count(("b64op", j, s), nontrivial=len(s) > 0)
            if got != want[j]:
                cx.viol("b64op", {"expr": reqs[3 * i + j]["expr"], "node": reqs[3 * i + j]["node"], "want_b64": vlib.b64e(want[j]), "response": r},
                        "in-expression base64 operator is not the codec / not an inverse pair")
    cx.dist["base64"] = {"byte_strings": len(data), "decode_texts": len(texts)}


# --------------------------------------------------------------------------
# URI
# --------------------------------------------------------------------------
URI_IMPORTS = "From YQ Require Import Base.Str Model.Uri."


@section
def sec_uri(cx):
    chk = cx.chk
    rng = cx.rng
    data = gen_bytes(cx, cx.n(250, 12000))
    resp = vlib.yqh_parallel([{"op": "c14_enc", "fmt": "uri", "node": S(s)} for s in data])
    cases, inputs = [], []
    for s, r in zip(data, resp):
        if not ok(r):
            cx.viol("urienc", {"s_b64": vlib.b64e(s), "response": r}, "uri encoder failed on a string")
            continue
        out = vlib.b64d(r["out_b64"])
        cases.append((vlib.coq_str(s), out))
        inputs.append({"s_b64": vlib.b64e(s)})
        good = re.fullmatch(rb"(?:[A-Za-z0-9._~-]|\+|%[0-9A-F]{2})*", out) is not None and urllib.parse.unquote_to_bytes(out.replace(b"+", b" ")) == s
        chk.count(("urie", s), nontrivial=out != s, sample={"bytes_hex": s.hex(), "uri": out.decode("latin1")} if 3 < len(s) < 10 else None)
        if not good:
            cx.viol("urienc", {"s_b64": vlib.b64e(s), "impl_out": out.decode("latin1")},
                    "urllib's reader does not map yq's @uri output back to the input, or the output uses characters outside unreserved / + / %XX")
    cx.correspond("urienc", URI_IMPORTS, "uri_escape", cases, inputs, "Model/Uri.v uri_escape vs encoder_uri.go")

    # decode: ground truth written by urllib (quote_plus, and lower-case hex, and everything-escaped variants), malformed text
    texts = []
    for s in data:
        t = urllib.parse.quote_plus(s, safe="").encode()
        texts.append((t, s))
        if rng.random() < 0.3:
            texts.append((t.lower() if b"%" in t and not re.search(rb"[A-Z]", re.sub(rb"%[0-9A-F]{2}", b"", t)) else t, s))
        if rng.random() < 0.3:
            texts.append(("".join("%%%02X" % b for b in s).encode(), s))
        if rng.random() < 0.2:
            texts.append((urllib.parse.quote(s, safe="!*'()$,/:;=?@").replace("+", "%2B").encode(), s))
    for _ in range(cx.n(400, 6000)):
        ln = rng.choice([1, 2, 3, 4, 5, 8])
        t = bytes(rng.choice(b"%%%+ aAfFgG09zZ\xff&=") for _ in range(ln))
        texts.append((t, None))
    seen = {}
    for t, s in texts:
        seen.setdefault(t, s)
    texts = list(seen.items())
    resp = vlib.yqh_parallel([{"op": "c14_dec", "fmt": "uri", "text_b64": vlib.b64e(t), "again": True} for t, _ in texts])
    cases, inputs = [], []
    for (t, s), r in zip(texts, resp):
        if r is None or r.get("panic") or r.get("timeout") or r.get("crash") or r.get("harness_error"):
            cx.viol("uridec", {"text_b64": vlib.b64e(t), "response": r}, "uri decoder crashed")
            continue
        if ok(r):
            val = sval(r["node"])
            obs = b"O" + val
        else:
            val = None
            obs = b"E" if r.get("errclass") == "uriescape" else b"?"
        cases.append((vlib.coq_str(t), obs))
        inputs.append({"text_b64": vlib.b64e(t)})
        wellformed = re.fullmatch(rb"(?:[^%]|%[0-9A-Fa-f]{2})*", t) is not None
        want = urllib.parse.unquote_to_bytes(t.replace(b"+", b" ")) if wellformed else None
        chk.count(("urid", t), nontrivial=wellformed and (b"%" in t or b"+" in t))
        if s is not None and want != s:
            cx.broken.append("generator: urllib does not read back its own text %r" % t)
        if wellformed and val != want:
            cx.viol("uridec", {"text_b64": vlib.b64e(t), "text": t.decode("latin1"), "want_b64": vlib.b64e(want), "response": r},
                    "yq's uri decoder does not return the bytes the text denotes")
        if not wellformed and val is not None:
            cx.viol("uridec", {"text_b64": vlib.b64e(t), "text": t.decode("latin1"), "response": r},
                    "yq's uri decoder accepted a malformed percent escape")
    cx.correspond("uridec", URI_IMPORTS, "uri_unescape_obs", cases, inputs, "Model/Uri.v uri_unescape vs decoder_uri.go")

    sample = data[:: 5]
    reqs = []
    for s in sample:
        reqs.append({"op": "c14_op", "expr": "@uri", "node": S(s)})
        reqs.append({"op": "c14_op", "expr": "@uri | @urid", "node": S(s)})
        reqs.append({"op": "c14_op", "expr": "@urid", "node": S(urllib.parse.quote_plus(s, safe=""))})
    resp = vlib.yqh_parallel(reqs)
    for i, s in enumerate(sample):
        want = [None, s, s]
        for j in range(3):
            r = resp[3 * i + j]
            got = sval(r["nodes"][0]) if ok(r) and len(r.get("nodes", [])) == 1 and r["nodes"][0]["k"] == "s" else None
            chk.count(("uriop", j, s), nontrivial=len(s) > 0)
            w = want[j] if j else (urllib.parse.unquote_to_bytes(got.replace(b"+", b" ")) == s and got if got is not None else b"")
            if got is None or got != w:
                cx.viol("uriop", {"expr": reqs[3 * i + j]["expr"], "node": reqs[3 * i + j]["node"], "response": r},
                        "in-expression uri operator is not the codec / not an inverse pair")
    cx.dist["uri"] = {"byte_strings": len(data), "decode_texts": len(texts)}


# --------------------------------------------------------------------------
# CSV / TSV
# --------------------------------------------------------------------------
CSV_IMPORTS = "From YQ Require Import Base.Str Model.Csv."
CSV_CH = list("abz019 ,;\t|\"\n\r'\\.:-") + ["\u00e9", "\u4e2d", "\U0001F600", "\u00a0", "\u2028", "\u3000", "\ufeff", "\u0085", " ", "\"", ",", "\n"]
CSV_FIXED = ["", " ", "a", "\"", "\"\"", ",", "\n", "\r", "\r\n", "a\r\nb", "\\.", "\\", " a", "a ", "\ta", "a,b", "a\"b", "\"a\"", "a\nb", "x\r",
             "\u00a0x", "\u2028", "\u3000y", "\ufeffk", "a;b", "a\tb", "'", "''", "#x", "a #b", "\"a\",\"b\"", "\n\n", ",,", "\"\n\","]
SEPS = {"csv": [",", ";", "|", ":"], "tsv": ["\t"]}


def gen_field(rng, fixed_p=0.35):
    if rng.random() < fixed_p:
        return rng.choice(CSV_FIXED)
    ln = rng.choice([1, 1, 2, 3, 4, 6, 10])
    return "".join(rng.choice(CSV_CH) for _ in range(ln))


def gen_rows(rng):
    ncol = rng.choice([1, 1, 2, 3, 4])
    nrow = rng.choice([1, 2, 2, 3, 5])
    return [[gen_field(rng) for _ in range(ncol)] for _ in range(nrow)]


def coq_rows(rows):
    return "[" + ";".join("[" + ";".join(vlib.coq_str(f) for f in r) + "]" for r in rows) + "]"


def py_csv_read(text, sep):
    rd = csv.reader(io.StringIO(text, newline=""), delimiter=sep, strict=True)
    return [row for row in rd]


def py_csv_write(rows, sep, term="\n", quote_all=False):
    """ground-truth RFC 4180 writer (independent of yq and of Go): a field is quoted when it holds the separator, a
    quote, CR or LF (or always), quotes are doubled; a lone empty field is written quoted"""
    lines = []
    for r in rows:
        fs = []
        for f in r:
            if quote_all or any(c in f for c in (sep, '"', "\r", "\n")) or (f == "" and len(r) == 1):
                fs.append('"' + f.replace('"', '""') + '"')
            else:
                fs.append(f)
        lines.append(sep.join(fs) + term)
    return "".join(lines)


def rows_defect(rows):
    """which documented limit of encoding/csv a row set hits (None: inside the faithful domain)"""
    return None


def ser_records(recs):
    return b"".join(b"".join(f + b"\0" for f in r) + b"\1" for r in recs)


def objs_from_dump(node):
    """decoded csv document -> list of [k, v, k, v ...] raw byte fields, or None"""
    if node["k"] != "q":
        return None
    out = []
    for m in node["c"]:
        if m["k"] != "m" or any(c["k"] != "s" for c in m["c"]):
            return None
        out.append([sval(c) for c in m["c"]])
    return out


@section
def sec_csv(cx):
    chk, rng = cx.chk, cx.rng
    # ---------- arrays of rows: yq writes, python reads; model correspondence ----------
    docs = []
    for fmt in ("csv", "tsv"):
        for f in CSV_FIXED:
            docs.append((fmt, SEPS[fmt][0], [[f, "k"], ["v", f]]))
            docs.append((fmt, SEPS[fmt][0], [[f]]))
    for _ in range(cx.n(500, 9000)):
        fmt = rng.choice(["csv", "csv", "tsv"])
        docs.append((fmt, rng.choice(SEPS[fmt]), gen_rows(rng)))
    reqs = [{"op": "c14_enc", "fmt": fmt, "sep": sep, "node": Q([Q([S(f) for f in r]) for r in rows])} for fmt, sep, rows in docs]
    resp = vlib.yqh_parallel(reqs)
    cases, inputs, texts = [], [], []
    for (fmt, sep, rows), r in zip(docs, resp):
        rp = {"fmt": fmt, "sep": sep, "rows": rows}
        if not ok(r):
            cx.viol("csvenc", dict(rp, response=r), "csv encoder failed on an array of string rows")
            continue
        out = vlib.b64d(r["out_b64"])
        if not any("\0" in f or "\1" in f for row in rows for f in row):
            cases.append(("(%d, %s)" % (ord(sep), coq_rows(rows)), b"O" + out))
            inputs.append(rp)
        special = any(c in f for row in rows for f in row for c in (sep, '"', "\n", "\r")) or any(f[:1] == " " for row in rows for f in row)
        chk.count(("csvw", fmt, sep, json.dumps(rows)), nontrivial=special,
                  sample={"fmt": fmt, "sep": sep, "rows": rows, "text": out.decode("utf-8", "replace")} if special and len(out) < 60 else None)
        try:
            back = py_csv_read(out.decode("utf-8"), sep)
        except Exception as e:
            back = "python csv reader failed: %s" % e
        if back != rows:
            cx.viol("csvenc", dict(rp, impl_out=out.decode("utf-8", "replace"), python_reads=back),
                    "python's csv reader does not map yq's %s output back to the rows" % fmt)
        texts.append((fmt, sep, out, rows))
    cx.correspond("csvwrite", CSV_IMPORTS, "(fun p => csv_write_obs (fst p) (snd p))", cases, inputs, "Model/Csv.v csv_write vs encoder_csv.go + encoding/csv Writer")

    # ---------- text -> objects: python writes (several dialects), yq reads; plus yq's own output and malformed text ----------
    dtexts = []     # (fmt, sep, text bytes, expected records or None)
    for fmt, sep, rows in docs[:: 2]:
        for term, qa in (("\n", False), ("\r\n", False), ("\n", True)):
            if rng.random() < 0.6 and (qa or rows[0][0] != "\ufeff"):     # a text that is only a byte order mark has no header
                dtexts.append((fmt, sep, py_csv_write(rows, sep, term, qa).encode(), rows))
    for fmt, sep, out, rows in texts[:: 3]:
        dtexts.append((fmt, sep, out, None))
    for _ in range(cx.n(400, 6000)):
        ln = rng.choice([1, 2, 3, 5, 8, 12])
        t = "".join(rng.choice(['"', ",", "\n", "\r", "a", "b", " ", '"', ",", "\n", "\r\n", '""']) for _ in range(ln))
        dtexts.append(("csv", ",", t.encode(), None))
    dtexts += [("csv", ",", b'a,b\n"x\r\ny",2\n', [["a", "b"], ["x\r\ny", "2"]]), ("csv", ",", b"\xef\xbb\xbfa,b\n1,2\n", [["a", "b"], ["1", "2"]]), ("csv", ",", b"", None), ("csv", ",", b"a,b\n", None),
               ("csv", ",", b"a,b\n1\n", None), ("csv", ",", b"a\n\n\n1\n", [["a"], ["1"]]), ("csv", ",", b"a,b\n1,2", [["a", "b"], ["1", "2"]])]
    resp = vlib.yqh_parallel([{"op": "c14_dec", "fmt": fmt, "sep": sep, "csv_auto": False, "text_b64": vlib.b64e(t)} for fmt, sep, t, _ in dtexts])
    cases, inputs = [], []
    for (fmt, sep, t, want), r in zip(dtexts, resp):
        rp = {"fmt": fmt, "sep": sep, "text_b64": vlib.b64e(t), "text": t.decode("utf-8", "replace")}
        if r is None or r.get("panic") or r.get("timeout") or r.get("crash") or r.get("harness_error"):
            cx.viol("csvdec", dict(rp, response=r), "csv decoder crashed")
            continue
        if ok(r):
            got = objs_from_dump(r["node"])
            obs = b"O" + ser_records(got) if got is not None else b"?"
        else:
            got = None
            obs = b"N" if r.get("errclass") == "eof" else b"E"
        if b"\0" not in t and b"\1" not in t:
            cases.append(("(%d, %s)" % (ord(sep), vlib.coq_str(t)), obs))
            inputs.append(rp)
        chk.count(("csvr", fmt, sep, t), nontrivial=want is not None and len(t) > 4)
        if want is None:
            continue
        header, body = list(want[0]), want[1:]
        if t.startswith(b"\xef\xbb\xbf") and header[0].startswith("\ufeff"):
            header[0] = header[0][1:]       # a byte order mark in front of the text is not data
        exp = [[x.encode() for pair in zip(header, row) for x in pair] for row in body]
        if got != exp:
            crlf = any("\r\n" in f for row in want for f in row)
            if crlf and got == [[x.replace(b"\r\n", b"\n") for x in row] for row in exp]:
                chk.known_finding("csv-crlf", "text %r" % t[:60])
                if chk.is_known("csv-crlf"):
                    continue
            cx.viol("csvdec", dict(rp, want=want, response=r), "yq's %s decoder does not return the records that the text (ground truth written here) denotes" % fmt)
    cx.correspond("csvread", CSV_IMPORTS, "(fun p => csv_decode_obs (fst p) (snd p))", cases, inputs, "Model/Csv.v csv_decode vs decoder_csv_object.go + encoding/csv Reader")
    cx.dist["csv"] = {"row_documents": len(docs), "decode_texts": len(dtexts)}


def coq_cnode(v):
    if isinstance(v, dict):
        return "CMap [" + ";".join("(%s, %s)" % (vlib.coq_str(k), coq_cnode(x)) for k, x in v.items()) + "]"
    if isinstance(v, list):
        return "CSeq [" + ";".join(coq_cnode(x) for x in v) + "]"
    return "CScalar " + vlib.coq_str(v)


@section
def sec_csv_objects(cx):
    """yq's header / object logic: array of objects (missing keys, extra keys, key order), array of arrays, array of scalars, errors"""
    chk, rng = cx.chk, cx.rng
    docs = []
    keys = ["a", "b", "c", "k 1", "x,y", "é"]
    for _ in range(cx.n(250, 4000)):
        hdr = rng.sample(keys, rng.randrange(1, 4))
        objs = []
        for i in range(rng.randrange(1, 4)):
            ks = list(hdr)
            if i > 0 and rng.random() < 0.35:
                ks = rng.sample(hdr, rng.randrange(0, len(hdr) + 1))          # missing keys, other order
            if i > 0 and rng.random() < 0.15:
                ks.append(rng.choice([k for k in keys if k not in hdr] or ["zz"]))   # a key the first object does not have
            objs.append({k: gen_field(rng, 0.2) for k in ks})
        if rng.random() < 0.08:
            objs[rng.randrange(len(objs))][hdr[0]] = [gen_field(rng)]               # non-scalar value: must be an error
        docs.append(objs)
    docs += [[], ["x", "y"], [["a", "b"], ["c", "d"]], [["a"], "b"], [{"a": "1"}, ["x"]], ["a", ["b"]], [{"a": "1"}, "s"], [{"a": "1"}, {"a": "2", "b": "3"}]]
    fmts = [rng.choice([("csv", ","), ("csv", ";"), ("tsv", "\t")]) for _ in docs]
    resp = vlib.yqh_parallel([{"op": "c14_enc", "fmt": f, "sep": sep, "node": to_node(d)} for d, (f, sep) in zip(docs, fmts)])
    cases, inputs = [], []
    for d, (f, sep), r in zip(docs, fmts, resp):
        rp = {"fmt": f, "sep": sep, "doc": d}
        chk.count(("csvobj", f, sep, json.dumps(d)), nontrivial=len(d) > 1)
        if r is None or r.get("panic") or r.get("timeout") or r.get("crash") or r.get("harness_error"):
            cx.viol("csvobj", dict(rp, response=r), "csv encoder crashed")
            continue
        out = vlib.b64d(r["out_b64"]) if ok(r) else None
        flat = json.dumps(d)
        if "\\u0000" not in flat and "\\u0001" not in flat:
            cases.append(("(%d, %s)" % (ord(sep), coq_cnode(d)), b"O" + out if out is not None else b"E"))
            inputs.append(rp)
        is_objs = len(d) > 0 and all(isinstance(o, dict) for o in d)
        if not is_objs:
            continue
        scalar_only = all(isinstance(v, str) for o in d for v in o.values())
        if not scalar_only:
            if out is not None:
                cx.viol("csvobj", dict(rp, impl_out=out.decode("utf-8", "replace")), "csv encoder accepted an object with a non-scalar value")
            continue
        if out is None:
            cx.viol("csvobj", dict(rp, response=r), "csv encoder failed on an array of flat objects")
            continue
        hdr = list(d[0].keys())
        want = [hdr] + [[o.get(k, "") for k in hdr] for o in d]
        try:
            back = py_csv_read(out.decode("utf-8"), sep)
        except Exception as ex:
            back = "python csv reader failed: %s" % ex
        extra = any(k not in hdr for o in d for k in o)
        if back != want:
            cx.viol("csvobj", dict(rp, impl_out=out.decode("utf-8", "replace"), python_reads=back, want=want),
                    "python's csv reader does not find header = keys of the first object and one row per object (missing keys empty) in yq's output")
        elif extra:
            chk.known_finding("csv-extra-keys", "doc %r" % (d,))
            if not chk.is_known("csv-extra-keys"):
                cx.viol("csvobj", dict(rp, impl_out=out.decode("utf-8", "replace")), "a key that the first object lacks was dropped silently")
    cx.correspond("csvobj", CSV_IMPORTS, "(fun p => csv_encode_obs (fst p) (snd p))", cases, inputs, "Model/Csv.v csv_encode vs encoder_csv.go (header / object logic)")
    cx.dist["csv_objects"] = {"documents": len(docs)}


# --------------------------------------------------------------------------
# properties
# --------------------------------------------------------------------------
PROPS_IMPORTS = "From YQ Require Import Base.Str Model.Props."
WS = " \t\f"


def java_props_read(text):
    """independent reader: java.util.Properties.load semantics (ordered list of (key, value))"""
    lines = re.split(r"\r\n|\n|\r", text)
    out, i = [], 0
    while i < len(lines):
        line = lines[i].lstrip(WS)
        i += 1
        if line == "" or line[0] in "#!":
            continue
        while (len(line) - len(line.rstrip("\\"))) % 2 == 1:
            line = line[:-1]
            if i < len(lines):
                line += lines[i].lstrip(WS)
                i += 1
            else:
                break
        k, j = [], 0
        while j < len(line):
            c = line[j]
            if c == "\\":
                j += 1
                k.append("\\" + (line[j] if j < len(line) else ""))
                if j < len(line) and line[j] == "u":
                    k[-1] = "\\" + line[j:j + 5]
                    j += 4
            elif c in "=:" + WS:
                break
            else:
                k.append(c)
            j += 1
        while j < len(line) and line[j] in WS:
            j += 1
        if j < len(line) and line[j] in "=:":
            j += 1
            while j < len(line) and line[j] in WS:
                j += 1
        out.append((_java_unesc("".join(k)), _java_unesc(line[j:])))
    return out


def _java_unesc(s):
    out, j = [], 0
    while j < len(s):
        c = s[j]
        if c == "\\" and j + 1 < len(s):
            d = s[j + 1]
            j += 2
            if d == "u":
                out.append(chr(int(s[j:j + 4], 16)))
                j += 4
            else:
                out.append({"t": "\t", "n": "\n", "f": "\f", "r": "\r"}.get(d, d))
        elif c == "\\":
            j += 1
        else:
            out.append(c)
            j += 1
    return "".join(out)


def java_props_write(kvs, sep="=", rng=None):
    """independent writer: java.util.Properties.store escaping (UTF-8 kept as is)"""
    def esc(s, key):
        out = []
        for i, c in enumerate(s):
            if c == " " and (key or i == 0):
                out.append("\\ ")
            elif c in "\t\n\r\f":
                out.append({"\t": "\\t", "\n": "\\n", "\r": "\\r", "\f": "\\f"}[c])
            elif c in "=:#!\\":
                out.append("\\" + c)
            elif rng is not None and ord(c) > 127 and ord(c) < 0x10000 and rng.random() < 0.3:
                out.append("\\u%04X" % ord(c))
            else:
                out.append(c)
        return "".join(out)
    return "".join(esc(k, True) + sep + esc(v, False) + "\n" for k, v in kvs)


def props_flatten(doc, path="", brackets=False):
    """the property's reading of a tree as properties: paths joined with '.', sequence indices as path elements"""
    if isinstance(doc, dict):
        out = []
        for k, v in doc.items():
            out += props_flatten(v, k if path == "" else path + "." + k, brackets)
        return out
    if isinstance(doc, list):
        out = []
        for i, v in enumerate(doc):
            out += props_flatten(v, str(i) if path == "" else (path + "[%d]" % i if brackets else path + "." + str(i)), brackets)
        return out
    return [(path, doc)]


def props_unflatten(kvs):
    """expected tree for keys made of '.'-separated segments (decimal segments are sequence indices)"""
    root = {}
    for key, val in kvs:
        parts = [int(x) if re.fullmatch(r"[0-9]+", x) else x for x in key.split(".")]
        cur, parent, pk = root, None, None
        for idx, part in enumerate(parts):
            last = idx == len(parts) - 1
            nxt = None if last else ([] if isinstance(parts[idx + 1], int) else {})
            if isinstance(part, int):
                if not isinstance(cur, list):
                    return None
                while len(cur) <= part:
                    cur.append(None)
                if last:
                    cur[part] = val
                else:
                    if cur[part] is None:
                        cur[part] = nxt
                    cur = cur[part]
            else:
                if not isinstance(cur, dict):
                    return None
                if last:
                    cur[part] = val
                else:
                    if part not in cur:
                        cur[part] = nxt
                    cur = cur[part]
    return root


PROP_CH = list("abkz09 =:#!\\.\t-_/$u{}") + ["é", "中", "\U0001F600", "\n", "\r", "\f", " ", "=", ":"]
PROP_FIXED = ["a", "a b", "a=b", "a:b", "#a", "!a", " a", "a ", "\\", "a\\", "\\u0041", "a.b", "1", "x1", "é", "\ta", "a\nb", "tr\\u", "${", "${a}", "$", "a#b", "a!b", "-", ""]


def gen_prop_str(rng, key):
    if rng.random() < 0.3:
        s = rng.choice(PROP_FIXED)
    else:
        s = "".join(rng.choice(PROP_CH) for _ in range(rng.choice([1, 2, 3, 5, 8])))
    if key:
        s = s.replace(".", "") or "k"
        if re.fullmatch(r"[+-]?[0-9]+", s):
            s = "n" + s
    return s


def prop_defect(kvs):
    """known limits of the magiconair writer/loader that a flat map can hit (None: inside the faithful domain)"""
    for k, v in kvs:
        if "=" in k or k[:1] in "#!":
            return "props-key-escape"
    for k, v in kvs:
        if v[:1] == " ":
            return "props-leading-space"
    return None


def gen_prop_tree(rng, depth=0):
    r = rng.random()
    if depth >= 3 or r < 0.45:
        return gen_prop_str(rng, False)
    if r < 0.65:
        return [gen_prop_tree(rng, depth + 1) for _ in range(rng.randrange(1, 4))]
    d = {}
    for _ in range(rng.randrange(1, 4)):
        d[gen_prop_str(rng, True)] = gen_prop_tree(rng, depth + 1)
    return d


def coq_pnode(doc):
    if isinstance(doc, dict):
        return "PMap [" + ";".join("(%s, %s)" % (vlib.coq_str(k), coq_pnode(v)) for k, v in doc.items()) + "]"
    if isinstance(doc, list):
        return "PSeq [" + ";".join(coq_pnode(v) for v in doc) + "]"
    return "PScalar " + vlib.coq_str(doc)


def ser_kvs(kvs):
    return b"".join(k + b"\0" + v + b"\1" for k, v in kvs)


@section
def sec_props(cx):
    chk, rng = cx.chk, cx.rng
    # ---------- encode: flat string maps and nested trees ----------
    docs = []
    for k in PROP_FIXED:
        k2 = k.replace(".", "") or "k"
        if not re.fullmatch(r"[+-]?[0-9]+", k2):
            docs.append(({k2: "v", "z": k}, " = ", False))
    for _ in range(cx.n(350, 6000)):
        d = {}
        for _ in range(rng.randrange(1, 5)):
            d[gen_prop_str(rng, True)] = gen_prop_str(rng, False)
        docs.append((d, rng.choice([" = ", " = ", "=", ":", " : ", " ="]), False))
    for _ in range(cx.n(250, 4000)):
        t = gen_prop_tree(rng)
        if isinstance(t, dict):      # a top-level sequence has no properties form that reads back as a sequence
            docs.append((t, " = ", rng.random() < 0.25))
    resp = vlib.yqh_parallel([{"op": "c14_enc", "fmt": "props", "props_sep": sep, "props_brackets": br, "node": to_node(d)} for d, sep, br in docs])
    cases, inputs, texts = [], [], []
    for (d, sep, br), r in zip(docs, resp):
        rp = {"doc": d, "sep": sep, "brackets": br}
        want = props_flatten(d, "", br)
        defect = prop_defect(want)
        flat = isinstance(d, dict) and all(isinstance(v, str) for v in d.values())
        chk.count(("propsw", json.dumps(d), sep, br), nontrivial=any(c in k + v for k, v in want for c in " =:#!\\\n\t") or not flat,
                  sample={"doc": d, "text": vlib.b64d(r["out_b64"]).decode("utf-8", "replace")} if ok(r) and not flat and len(json.dumps(d)) < 70 else None)
        if not ok(r):
            cx.viol("propsenc", dict(rp, response=r), "properties encoder failed on a tree of strings")
            continue
        out = vlib.b64d(r["out_b64"])
        if not any("\0" in k + v or "\1" in k + v for k, v in want):
            cases.append(("(%s, %s, %s)" % (vlib.coq_str(sep), "true" if br else "false", coq_pnode(d)), b"O" + out))
            inputs.append(rp)
        try:
            back = java_props_read(out.decode("utf-8"))
        except Exception as e:
            back = "reader failed: %s" % e
        dedup = {}
        for k, v in want:
            dedup[k] = v
        if back != [(k, v) for k, v in dedup.items() if k != ""]:
            if defect:
                chk.known_finding(defect, "doc %r" % (d,))
                if chk.is_known(defect):
                    continue
            cx.viol("propsenc", dict(rp, impl_out=out.decode("utf-8", "replace"), reader=back, want=want),
                    "a java.util.Properties-style reader does not map yq's properties output back to the path/value pairs of the document")
        elif not br and defect is None:
            texts.append((out, d))
    cx.correspond("propsenc", PROPS_IMPORTS, "(fun p => props_encode_obs (fst (fst p)) (snd (fst p)) (snd p))", cases, inputs,
                  "Model/Props.v props_encode vs encoder_properties.go + magiconair writer")

    # ---------- decode: ground truth written java-style; yq's own output; adversarial text ----------
    dtexts = []
    for d, sep, br in docs:
        if br:
            continue
        want = props_flatten(d)
        if any(k == "" for k, _ in want):
            continue
        sep2 = rng.choice(["=", " = ", ":", " : ", " ", "\t=\t", "= "])
        if sep2.strip(WS) == "" and any(v[:1] in "=:" for _, v in want):
            sep2 = "="
        dtexts.append((java_props_write(want, sep2, rng).encode(), want))
    for out, d in texts[:: 3]:
        dtexts.append((out, props_flatten(d)))
    for _ in range(cx.n(300, 5000)):
        t = "".join(rng.choice(["a", "b", " ", "=", ":", "\\", "\n", "\r", "#", "!", "\t", "u0041", "\\u00e9", "\\n", "\\ ", "\\\n", "1", "."]) for _ in range(rng.choice([1, 2, 3, 5, 8, 13])))
        dtexts.append((t.encode(), None))
    dtexts += [(b"# c\na = 1\n! d\n\nb : 2\nc 3\nd\n", [("a", "1"), ("b", "2"), ("c", "3"), ("d", "")]), (b"a = l1 \\\n    l2\n", [("a", "l1 l2")]),
               (b"", None), (b"a=${a}\n", [("a", "${a}")]), (b"a=${\nb = ${a} ${x\n", [("a", "${"), ("b", "${a} ${x")]), (b"k=v", [("k", "v")]), (b"a.b=1\na.c=2\n", [("a.b", "1"), ("a.c", "2")])]
    resp = vlib.yqh_parallel([{"op": "c14_dec", "fmt": "props", "text_b64": vlib.b64e(t)} for t, _ in dtexts])
    cases, inputs = [], []
    for (t, want), r in zip(dtexts, resp):
        rp = {"text_b64": vlib.b64e(t), "text": t.decode("utf-8", "replace")}
        if r is None or r.get("panic") or r.get("timeout") or r.get("crash") or r.get("harness_error"):
            cx.viol("propsdec", dict(rp, response=r), "properties decoder crashed")
            continue
        got = from_node(r["node"], typed=False) if ok(r) else None
        try:
            jr = java_props_read(t.decode("utf-8"))
        except Exception:
            jr = None
        simple = jr is not None and all(k != "" and "." not in k and not re.fullmatch(r"[+-]?[0-9]+", k) for k, _ in jr)
        if simple and b"\0" not in t and b"\1" not in t and b"\\u" not in t.replace(b"\\\\", b""):
            # flat result: compare the ordered key/value list with the model's lexer + ordered-map semantics
            if ok(r) and isinstance(got, dict) and all(isinstance(v, str) for v in got.values()):
                obs = b"O" + ser_kvs([(k.encode(), v.encode()) for k, v in got.items()])
            elif ok(r):
                obs = b"?"
            else:
                obs = b"N" if r.get("errclass") == "eof" else b"E"
            cases.append((vlib.coq_str(t), obs))
            inputs.append(rp)
        chk.count(("propsr", t), nontrivial=want is not None and len(t) > 3)
        if want is None:
            continue
        if jr != [(k, v) for k, v in want]:
            dd = {}
            for k, v in want:
                dd[k] = v
            if jr is None or dict(jr) != dd:
                cx.broken.append("generator: the java-style reader does not read back the java-style writer on %r" % t[:80])
                continue
        exp = props_unflatten(want)
        if got != exp:
            cx.viol("propsdec", dict(rp, want=exp, got=got, response=r), "yq's properties decoder does not build the tree that the text (written java-style here) denotes")
    cx.correspond("propsdec", PROPS_IMPORTS, "props_decode_obs", cases, inputs, "Model/Props.v props_parse vs decoder_properties.go + magiconair lexer")
    cx.dist["props"] = {"documents": len(docs), "decode_texts": len(dtexts)}


# --------------------------------------------------------------------------
# XML (library contract: encoding/xml tokenizer / escaper; yq's tree mapping is tested both ways)
# --------------------------------------------------------------------------
import xml.etree.ElementTree as ET

XML_TXT = list("abz09 <>&\"'=/;:!?-.,") + ["é", "中", "\U0001F600", "\n", "\t", "]]>", "&amp;", "<!--", " "]
XML_NAMES = ["a", "b", "c", "item", "x1", "a-b", "a.b", "a_b", "Élan", "n0", "data", "row"]


def gen_xml_text(rng):
    s = "".join(rng.choice(XML_TXT) for _ in range(rng.choice([1, 2, 3, 5, 9])))
    s = s.strip(" \n\t ")
    return s if s else "t"


def interleave_elem(rng, e):
    """same element tree with the children of every element shuffled, so that same-named siblings are separated by others
    (a b a, a b b a, at every depth): the text then denotes the grouping by first occurrence"""
    tag, attrs, text, kids = e
    kids = [interleave_elem(rng, k) for k in kids]
    rng.shuffle(kids)
    return (tag, attrs, text, kids)


def gen_elem(rng, depth=0, name=None):
    """(tag, [(attr, value)], text or None, [children]); same-named children adjacent; no mixed content"""
    tag = name or rng.choice(XML_NAMES)
    attrs = []
    for a in rng.sample(XML_NAMES, rng.choice([0, 0, 1, 2])):
        attrs.append((a, "".join(rng.choice(XML_TXT) for _ in range(rng.choice([0, 1, 3, 6])))))
    r = rng.random()
    if depth >= 3 or r < 0.4:
        return (tag, attrs, gen_xml_text(rng) if rng.random() < 0.8 else None, [])
    kids = []
    for nm in rng.sample(XML_NAMES, rng.choice([1, 2, 3])):
        for _ in range(rng.choice([1, 1, 2, 3])):
            kids.append(gen_elem(rng, depth + 1, nm))
    return (tag, attrs, None, kids)


def xml_value_node(e, ap, cn):
    """the yq document for an element, as the property describes the mapping"""
    tag, attrs, text, kids = e
    if not attrs and not kids:
        return S(text) if text is not None else S("", "!!null")
    pairs = [(ap + a, S(v)) for a, v in attrs]
    if text is not None:
        pairs.append((cn, S(text)))
    groups = {}
    for k in kids:
        groups.setdefault(k[0], []).append(k)
    for nm, g in groups.items():
        pairs.append((nm, xml_value_node(g[0], ap, cn) if len(g) == 1 else Q([xml_value_node(x, ap, cn) for x in g])))
    return M(pairs)


def xml_value_py(e, ap, cn):
    tag, attrs, text, kids = e
    if not attrs and not kids:
        return text
    d = {ap + a: v for a, v in attrs}
    if text is not None:
        d[cn] = text
    groups = {}
    for k in kids:
        groups.setdefault(k[0], []).append(k)
    for nm, g in groups.items():
        d[nm] = xml_value_py(g[0], ap, cn) if len(g) == 1 else [xml_value_py(x, ap, cn) for x in g]
    return d


def et_to_elem(x):
    kids = [et_to_elem(c) for c in x]
    text = x.text if not kids else None
    if text is not None and text == "":
        text = None
    return (x.tag, sorted(x.attrib.items()), text, kids)


def elem_norm(e):
    return (e[0], sorted(e[1]), e[2], [elem_norm(k) for k in e[3]])


def xml_esc(s, attr, rng):
    out = []
    for c in s:
        if c == "&":
            out.append("&amp;")
        elif c == "<":
            out.append("&lt;")
        elif c == ">":
            out.append(rng.choice(["&gt;", ">"]) if not attr else "&gt;")
        elif c == '"' and attr:
            out.append("&quot;")
        elif c in "\n\t" and attr:
            out.append("&#%d;" % ord(c))
        elif ord(c) > 127 and rng.random() < 0.3:
            out.append(rng.choice(["&#%d;", "&#x%X;"]) % ord(c))
        else:
            out.append(c)
    return "".join(out).replace("]]>", "]]&gt;")


def xml_write(e, rng, indent="", pretty=True):
    """ground-truth XML 1.0 text for an element tree (independent of yq / Go)"""
    tag, attrs, text, kids = e
    a = "".join(' %s="%s"' % (k, xml_esc(v, True, rng)) for k, v in attrs)
    nl = "\n" if pretty else ""
    if not kids and text is None:
        return indent + (("<%s%s/>" % (tag, a)) if rng.random() < 0.5 else "<%s%s></%s>" % (tag, a, tag)) + nl
    if not kids:
        if "]]>" not in text and rng.random() < 0.2:
            body = "<![CDATA[" + text + "]]>"
        else:
            body = xml_esc(text, False, rng)
        return indent + "<%s%s>%s</%s>" % (tag, a, body, tag) + nl
    inner = "".join(xml_write(k, rng, indent + "  " if pretty else "", pretty) for k in kids)
    return indent + "<%s%s>%s%s%s</%s>" % (tag, a, nl, inner, indent, tag) + nl


@section
def sec_xml(cx):
    chk, rng = cx.chk, cx.rng
    elems = [gen_elem(rng) for _ in range(cx.n(300, 6000))]
    prefs = [rng.choice([("+@", "+content"), ("+@", "+content"), ("_", "#text"), ("@", "+content"), ("+", "+content"), ("+c", "+content"), ("#", "#text")]) for _ in elems]
    # ---------- encode: yq writes, xml.etree reads ----------
    reqs = [{"op": "c14_enc", "fmt": "xml", "xml_attr": ap, "xml_content": cn, "indent": rng.choice([0, 2, 2, 4]),
             "node": M([(e[0], xml_value_node(e, ap, cn))])} for e, (ap, cn) in zip(elems, prefs)]
    resp = vlib.yqh_parallel(reqs)
    for e, (ap, cn), rq, r in zip(elems, prefs, reqs, resp):
        rp = {"elem": e, "attr_prefix": ap, "content_name": cn, "node": rq["node"], "indent": rq["indent"]}
        chk.count(("xmlw", json.dumps(e), ap), nontrivial=bool(e[1] or e[3]),
                  sample={"elem": e, "xml": vlib.b64d(r["out_b64"]).decode("utf-8", "replace")} if ok(r) and e[3] and len(json.dumps(e)) < 120 else None)
        if not ok(r):
            cx.viol("xmlenc", dict(rp, response=r), "xml encoder failed on an element tree")
            continue
        out = vlib.b64d(r["out_b64"])
        try:
            back = et_to_elem(ET.fromstring(out.decode("utf-8")))
        except Exception as ex:
            back = "xml.etree failed: %s" % ex
        if back != elem_norm(e):
            cx.viol("xmlenc", dict(rp, impl_out=out.decode("utf-8", "replace"), etree_reads=back), "xml.etree does not map yq's XML output back to the element tree")
    # ---------- decode: python writes, yq reads ----------
    texts = [(xml_write(e, rng, "", rng.random() < 0.7), e, pf) for e, pf in zip(elems, prefs)]
    decl = '<?xml version="1.0" encoding="UTF-8"?>\n'
    texts += [(decl + "<!-- c -->\n" + xml_write(e, rng), e, pf) for e, pf in list(zip(elems, prefs))[:: 10]]
    # repeated names separated by other elements: decoded as one sequence at the place of the first occurrence
    fixed = [("r", [], None, [("b", [], "1", []), ("c", [], "2", []), ("b", [], "3", [])]),
             ("r", [], None, [("a", [], "1", []), ("b", [], "2", []), ("b", [], "3", []), ("a", [], "4", [])]),
             ("r", [], None, [("a", [], None, [("x", [], "1", []), ("y", [], "2", []), ("x", [], "3", [])]), ("b", [], "2", []), ("a", [("k", "v")], "t", [])])]
    inter = fixed + [interleave_elem(rng, e) for e in elems if len(e[3]) > 2]
    texts += [(xml_write(e, rng, "", rng.random() < 0.7), e, ("+@", "+content")) for e in inter]
    resp = vlib.yqh_parallel([{"op": "c14_dec", "fmt": "xml", "xml_attr": ap, "xml_content": cn, "text_b64": vlib.b64e(t)} for t, e, (ap, cn) in texts])
    for (t, e, (ap, cn)), r in zip(texts, resp):
        rp = {"text": t, "text_b64": vlib.b64e(t), "elem": e, "attr_prefix": ap, "content_name": cn}
        try:
            sane = et_to_elem(ET.fromstring(t)) == elem_norm(e)
        except Exception:
            sane = False
        if not sane:
            cx.broken.append("generator: xml.etree does not read back the generated XML %r" % t[:80])
            continue
        chk.count(("xmlr", t, ap), nontrivial=bool(e[1] or e[3]))
        want = {e[0]: xml_value_py(e, ap, cn)}
        if t.startswith("<?xml"):
            want = dict([("+p_xml", 'version="1.0" encoding="UTF-8"')] + list(want.items()))
        got = from_node(r["node"], typed=True) if ok(r) else None
        if got != want:
            cx.viol("xmldec", dict(rp, want=want, got=got, response=r if not ok(r) else None), "yq's xml decoder does not build the document the XML text denotes")
    # ---------- both ways through the in-expression operators ----------
    sample = list(zip(elems, prefs))[:: 6]
    resp = vlib.yqh_parallel([{"op": "c14_op", "expr": "to_xml | from_xml", "xml_attr": ap, "xml_content": cn, "node": M([(e[0], xml_value_node(e, ap, cn))])} for e, (ap, cn) in sample])
    for (e, (ap, cn)), r in zip(sample, resp):
        want = {e[0]: xml_value_py(e, ap, cn)}
        got = from_node(r["nodes"][0]) if ok(r) and len(r.get("nodes", [])) == 1 else None
        chk.count(("xmlop", json.dumps(e), ap), nontrivial=True)
        if got != want:
            cx.viol("xmlop", {"elem": e, "attr_prefix": ap, "content_name": cn, "want": want, "got": got}, "to_xml | from_xml is not the identity on an element-tree document")
    # ---------- YAML input with leading --- / comments / several documents through -o=xml (leading content of the printer) ----------
    ycases = []
    for _ in range(cx.n(40, 600)):
        ndocs = rng.choice([1, 1, 2, 3])
        text, keys, words = "", [], []
        for di in range(ndocs):
            if rng.random() < 0.5:
                w = "c%dx" % len(words)
                words.append(w)
                text += "# %s\n" % w
            if di > 0 or rng.random() < 0.6:
                text += "---\n"
            for _ in range(rng.choice([0, 1, 1, 2])):
                w = "c%dx" % len(words)
                words.append(w)
                text += "# %s\n" % w
            k = "k%d" % di
            keys.append(k)
            text += "%s: v%d\n" % (k, di)
        ycases.append((text, keys, words))
    ycases += [("---\n# c0x\na: 1\n", ["a"], ["c0x"]), ("# c0x\n---\n# c1x\na: 1\n", ["a"], ["c0x", "c1x"])]
    from concurrent.futures import ThreadPoolExecutor
    with ThreadPoolExecutor(vlib.NCPU) as ex:
        yres = list(ex.map(lambda c: vlib.run_yq(["-p=yaml", "-o=xml", "."], stdin=c[0].encode()), ycases))
    for (text, keys, words), (rc, out, err) in zip(ycases, yres):
        chk.count(("xmlyaml", text), nontrivial=bool(words))
        o = out.decode("utf-8", "replace")
        try:
            roots = [c.tag for c in ET.fromstring("<w>" + o + "</w>")]
        except Exception as ex_:
            roots = "not well-formed: %s" % ex_
        ctext = " ".join(re.findall(r"<!--(.*?)-->", o, re.S)).split()
        if rc != 0 or roots != keys or sorted(ctext) != sorted(words) or "$yq" in o:
            cx.viol("cli", {"label": "yaml -> xml leading content", "args": ["-p=yaml", "-o=xml", "."], "stdin_b64": vlib.b64e(text), "stdin": text, "reader": "xmlyaml",
                            "expected": [keys, words], "rc": rc, "stdout": o[:1000]},
                    "yq -o=xml of YAML with leading ---/comments: the comments of the output are not exactly the comments of the input (or the XML is malformed)")
    # ---------- probe: one text delivered as several character data tokens (CDATA section / comment inside the text) ----------
    for t, want in (("<a>t<![CDATA[<x>]]>u</a>", {"a": "t<x>u"}), ("<a>x<!-- c -->y</a>", {"a": "xy"})):
        r = vlib.yqh_batch([{"op": "c14_dec", "fmt": "xml", "text_b64": vlib.b64e(t)}])[0]
        got = from_node(r["node"]) if ok(r) else None
        chk.count(("xmlsplit", t), nontrivial=True)
        if got != want:
            if isinstance(got, dict) and isinstance(got.get("a"), list) and "".join(got["a"]) == want["a"]:
                chk.known_finding("xml-chardata-split", "text %r" % t)
                if chk.is_known("xml-chardata-split"):
                    continue
            cx.viol("xmldec", {"text": t, "text_b64": vlib.b64e(t), "elem": None, "attr_prefix": "+@", "content_name": "+content", "want": want, "got": got},
                    "yq's xml decoder does not build the document the XML text denotes")
    # ---------- probe: character data with surrounding white space (recorded limit of the decoder) ----------
    probes = [" x ", "x ", "\tx", "x\n"]
    resp = vlib.yqh_parallel([{"op": "c14_op", "expr": "to_xml | from_xml", "node": M([("a", S(v))])} for v in probes])
    for v, r in zip(probes, resp):
        got = from_node(r["nodes"][0]) if ok(r) and len(r.get("nodes", [])) == 1 else None
        chk.count(("xmltrim", v), nontrivial=True)
        if got != {"a": v}:
            if got == {"a": v.strip()}:
                chk.known_finding("xml-text-trim", "value %r" % v)
                if chk.is_known("xml-text-trim"):
                    continue
            cx.viol("xmlop", {"elem": ("a", [], v, []), "attr_prefix": "+@", "content_name": "+content", "want": {"a": v}, "got": got}, "to_xml | from_xml changes a string value")
    cx.dist["xml"] = {"element_trees": len(elems), "decode_texts": len(texts)}


# --------------------------------------------------------------------------
# XML, model on tokens: Model/Xml.v (yq's fold over the token stream, the grouping, the encoder as a token writer) against
# the implementation, with encoding/xml itself (harness op c14_xmltok, no yqlib) as the tokenizer on both sides
# --------------------------------------------------------------------------
XML_IMPORTS = "From YQ Require Import Base.Str Model.Xml."


def coq_prefs(ap, cn, keep_ns=True, skip_proc=False, skip_dir=False, proc="+p_", directive="+directive"):
    b = lambda x: "true" if x else "false"
    return "(mkXprefs %s %s %s %s %s true %s %s)" % (vlib.coq_str(ap), vlib.coq_str(cn), vlib.coq_str(proc), vlib.coq_str(directive), b(keep_ns), b(skip_proc), b(skip_dir))


# preferences whose names overlap: one is a prefix of, or equal to, another (the order of the tests in the encoder and the
# exclusions in isAttribute decide what a key is)
XML_OVERLAP_PREFS = [
    {"xml_attr": "+", "xml_content": "+content"}, {"xml_attr": "+c", "xml_content": "+content"}, {"xml_attr": "+@", "xml_content": "+@"},
    {"xml_attr": "+", "xml_content": "+content", "xml_proc": "+p_", "xml_directive": "+directive"}, {"xml_attr": "+p", "xml_proc": "+p_"},
    {"xml_attr": "+p_", "xml_proc": "+p"}, {"xml_attr": "+d", "xml_directive": "+directive"}, {"xml_attr": "+directive", "xml_directive": "+directive"},
    {"xml_content": "+directive", "xml_directive": "+directive"}, {"xml_content": "+p_c", "xml_proc": "+p_"}, {"xml_proc": "+", "xml_attr": "+a"},
    {"xml_attr": "x", "xml_content": "xc", "xml_proc": "xp", "xml_directive": "xd"}, {"xml_attr": "x_", "xml_content": "x_c", "xml_proc": "x_", "xml_directive": "x_c"},
]


def prefs_names(pf):
    return pf.get("xml_attr", "+@"), pf.get("xml_content", "+content"), pf.get("xml_proc", "+p_"), pf.get("xml_directive", "+directive")


def gen_overlap_doc(rng, pf):
    """one root element whose map uses every special key of the preferences (attribute, content, proc-inst, directive) and plain children"""
    ap, cn, pp, dn = prefs_names(pf)
    def body(depth):
        d = {}
        for k in rng.sample([ap + "id", ap + "k", cn, pp + "pi", dn, "a", "b", "c"], rng.randrange(1, 6)):
            if k in ("a", "b", "c") and depth < 2 and rng.random() < 0.4:
                d[k] = body(depth + 1)
            elif k in ("a", "b", "c") and rng.random() < 0.3:
                d[k] = [rng.choice(["t", "u v"]), rng.choice(["w", "1"])]
            else:
                d[k] = rng.choice(["t", "x y", "1", "DOCTYPE z"])
        return d
    return {"r": body(0)}


def tok_fields(t):
    return {k: (vlib.b64d(v) if isinstance(v, str) and k != "t" else v) for k, v in t.items()}


def coq_tok(t):
    t = tok_fields(t)
    nm = lambda sp, lo: "(%s, %s)" % (vlib.coq_str(sp), vlib.coq_str(lo))
    if t["t"] == "S":
        attrs = ";".join("(%s, %s)" % (nm(vlib.b64d(a[0]), vlib.b64d(a[1])), vlib.coq_str(vlib.b64d(a[2]))) for a in t["a"])
        return "TStart %s [%s]" % (nm(t["sp"], t["lo"]), attrs)
    if t["t"] == "C":
        return "TChar " + vlib.coq_str(t["v"])
    if t["t"] == "E":
        return "TEnd " + nm(t["sp"], t["lo"])
    if t["t"] == "M":
        return "TComment " + vlib.coq_str(t["v"])
    if t["t"] == "P":
        return "TProcInst %s %s" % (vlib.coq_str(t["target"]), vlib.coq_str(t["v"]))
    return "TDirective " + vlib.coq_str(t["v"])


def ser_tok(t):
    t = tok_fields(t)
    z = lambda b: b + b"\0"
    if t["t"] == "S":
        return b"<" + z(t["sp"]) + z(t["lo"]) + b"".join(z(vlib.b64d(a[0])) + z(vlib.b64d(a[1])) + z(vlib.b64d(a[2])) for a in t["a"]) + b">"
    if t["t"] == "C":
        return b"C" + z(t["v"])
    if t["t"] == "E":
        return b"/" + z(t["sp"]) + z(t["lo"])
    if t["t"] == "M":
        return b"M" + z(t["v"])
    if t["t"] == "P":
        return b"P" + z(t["target"]) + z(t["v"])
    return b"D" + z(t["v"])


def tok_blank(t):
    return t["t"] == "C" and all(c <= 32 for c in vlib.b64d(t["v"]))


def ser_dump(d):
    """the decoded document of the implementation in the serialisation of Model/Xml.v ser_xval (None: outside the value type)"""
    if d["k"] == "s":
        if d["t"] == "!!null":
            return b"N" if sval(d) == b"" else None
        return b"S" + sval(d) + b"\0" if d["t"] == "!!str" else None
    if d["k"] == "q":
        parts = [ser_dump(c) for c in d["c"]]
        return None if any(p is None for p in parts) else b"[" + b"".join(parts) + b"]"
    if d["k"] == "m":
        out = b"{"
        for i in range(0, len(d["c"]), 2):
            v = ser_dump(d["c"][i + 1])
            if v is None or d["c"][i]["k"] != "s":
                return None
            out += sval(d["c"][i]) + b"\0" + v
        return out + b"}"
    return None


def coq_xval(v):
    """python document (None, str, list, dict) -> Coq xval"""
    if v is None:
        return "XNull"
    if isinstance(v, str):
        return "XStr " + vlib.coq_str(v)
    if isinstance(v, list):
        return "XSeq [" + ";".join(coq_xval(x) for x in v) + "]"
    return "XMap [" + ";".join("(%s, %s)" % (vlib.coq_str(k), coq_xval(x)) for k, x in v.items()) + "]"


def xval_node(v):
    if v is None:
        return S("", "!!null")
    if isinstance(v, str):
        return S(v)
    if isinstance(v, list):
        return Q([xval_node(x) for x in v])
    return M([(k, xval_node(x)) for k, x in v.items()])


XML_ADV = [
    "<a>1</a>", "<r><b>1</b><c>2</c><b>3</b></r>", "<a>x<b>1</b>y</a>", "<a>t<![CDATA[<x>]]>u</a>", "<a>x<!-- c -->y</a>", "<a> x </a>", "</z><a>1</a>", "<a><b>",
    "<a>1</a><b>2</b><a>3</a>", "<?xml version=\"1.0\"?><!DOCTYPE r><r p:q=\"1\" q=\"2\"><?pi do it?><p:e>1</p:e><e>2</e></r>", "<r +content=\"x\"/>", "text<a/>", "<!-- c --><a/>",
    "<a><b/><b/></a>", "<a x=\"\"></a>", "<a><x>1</x>t<x>2</x></a>", " \n<a>1</a>\n", "<a>1</a>trailing", "<a><b>1</b></a></a><c>2</c>", "<r><k>1</k><k><k>2</k></k></r>",
]
XDOC_KEYS = ["a", "b", "item", "+@id", "+@x", "+content", "+p_pi", "+directive", "+p_xml", "_u", "c-d"]


def gen_xdoc(rng, depth=0):
    """documents for the encoder: strings, nulls, sequences, maps over key classes (attributes, content, elements, proc-insts, directives)"""
    r = rng.random()
    if depth >= 3 or r < 0.4:
        return None if rng.random() < 0.15 else gen_xml_text(rng) + rng.choice(["", "", " "])
    if r < 0.55:
        return [gen_xdoc(rng, depth + 1) for _ in range(rng.randrange(0, 4))]
    d = {}
    for k in rng.sample(XDOC_KEYS, rng.randrange(0, 5)):
        if k.startswith(("+@", "+content", "+p_", "+directive")) and rng.random() < 0.85:
            d[k] = (re.sub(r"[^a-z0-9 =.]", "", gen_xml_text(rng)) or "x") if k.startswith(("+p_", "+directive")) else gen_xml_text(rng)
        else:
            d[k] = gen_xdoc(rng, depth + 1)
    return d


def xdoc_safe(v, top=True):
    """keep clear of what the printer of encoding/xml rejects or rewrites (library contract, not yq's logic)"""
    if isinstance(v, dict):
        for k, x in v.items():
            if k.startswith("+p_xml") and not (top and isinstance(x, str)):
                return False
            if k.startswith("+p_") and (k == "+p_" or not isinstance(x, str)):
                return False
            if k == "+directive" and not isinstance(x, str):
                return False
            if (k == "+directive" or k.startswith("+p_")) and (x != x.strip() or x == "" or not re.fullmatch(r"[A-Za-z0-9 =.\"]*", x)):
                return False
            if k in ("+@",) or not xdoc_safe(x, False):
                return False
        return True
    if isinstance(v, list):
        return all(xdoc_safe(x, False) for x in v)
    return True


def xdoc_rekey(v):
    """the same document under attribute prefix _ and content name #text"""
    if isinstance(v, dict):
        return {("_" + k[2:] if k.startswith("+@") else "#text" if k == "+content" else "u" if k in ("_u", "#text") else k): xdoc_rekey(x) for k, x in v.items()}
    if isinstance(v, list):
        return [xdoc_rekey(x) for x in v]
    return v


@section
def sec_xml_model(cx):
    chk, rng = cx.chk, cx.rng
    # ---------------- decoder: text -> tokens (encoding/xml) -> model  ==  yq -p=xml ----------------
    texts = []
    elems = [gen_elem(rng) for _ in range(cx.n(120, 4000))]
    for e in elems:
        t = xml_write(interleave_elem(rng, e) if rng.random() < 0.5 else e, rng, "", rng.random() < 0.6)
        if rng.random() < 0.3:
            t = rng.choice(['<?xml version="1.0"?>\n', "<!DOCTYPE r>\n", "<!-- head -->", "<?pi x?>"]) + t
        texts.append(t)
    for _ in range(cx.n(100, 3000)):       # token soup: unbalanced tags, mixed content, CDATA, comments, namespaces
        t = "".join(rng.choice(["<a>", "</a>", "<b>", "</b>", "<b/>", "<n:c k=\"v\" n:k=\"w\">", "</n:c>", "x", " y ", "<![CDATA[z]]>", "<!--c-->", "<?p i?>", "&amp;", "\n"])
                    for _ in range(rng.randrange(1, 9)))
        texts.append(t)
    texts += XML_ADV
    prefs = [rng.choice([{}, {}, {"xml_attr": "_", "xml_content": "#text"}, {"xml_keep_ns": False}, {"xml_skip_proc": True, "xml_skip_dir": True}] + XML_OVERLAP_PREFS[:4])
             for _ in texts]
    treq = vlib.yqh_parallel([{"op": "c14_xmltok", "text_b64": vlib.b64e(t)} for t in texts])
    dreq = vlib.yqh_parallel([dict({"op": "c14_dec", "fmt": "xml", "text_b64": vlib.b64e(t)}, **pf) for t, pf in zip(texts, prefs)])
    cases, inputs = [], []
    for t, pf, tr, dr in zip(texts, prefs, treq, dreq):
        rp = {"text": t, "text_b64": vlib.b64e(t), "prefs": pf}
        if dr is None or dr.get("panic") or dr.get("timeout") or dr.get("crash") or dr.get("harness_error"):
            cx.viol("xmltok", dict(rp, response=dr), "xml decoder crashed")
            continue
        chk.count(("xmlmodel-dec", t, json.dumps(pf)), nontrivial=ok(dr))
        if tr is None or tr.get("err") or b"\0" in t.encode():
            continue           # the tokenizer rejects the text: library side (yq returns its error)
        toks = tr["toks"]
        if any(ord(ch) > 127 for ch in t) and False:
            continue
        if ok(dr):
            obs = ser_dump(dr["node"]) if dr.get("node") else None
            obs = b"O" + obs if obs is not None else b"?"
        else:
            obs = b"E"
        p = coq_prefs(pf.get("xml_attr", "+@"), pf.get("xml_content", "+content"), pf.get("xml_keep_ns", True), pf.get("xml_skip_proc", False), pf.get("xml_skip_dir", False),
                      pf.get("xml_proc", "+p_"), pf.get("xml_directive", "+directive"))
        cases.append(("(%s, [%s])" % (p, ";".join(coq_tok(x) for x in toks)), obs))
        inputs.append(rp)
    cx.correspond("xmldecode", XML_IMPORTS, "(fun c => xml_decode_obs (fst c) (snd c))", cases, inputs, "Model/Xml.v decode_toks vs decoder_xml.go (tokens from encoding/xml)")

    # ---------------- encoder: document -> yq -o=xml -> tokens (encoding/xml)  ==  model token list ----------------
    docs = []
    for e in elems[:: 2]:
        docs.append(({e[0]: xml_value_py(e, "+@", "+content")}, {}))
    for _ in range(cx.n(120, 4000)):
        d = {k: (gen_xdoc(rng, 1) if not k.startswith("+") else "DOCTYPE x" if k == "+directive" else rng.choice(["version=\"1.0\"", "a b"]))
             for k in rng.sample(["r", "a", "+p_xml", "+directive", "+p_top", "b"], rng.randrange(1, 4))}
        if xdoc_safe(d):
            if rng.random() < 0.3:
                docs.append((xdoc_rekey(d), {"xml_attr": "_", "xml_content": "#text"}))
            else:
                docs.append((d, {}))
    for pf in XML_OVERLAP_PREFS:
        for _ in range(cx.n(6, 60)):
            docs.append((gen_overlap_doc(rng, pf), pf))
    docs += [({"a": {"+@x": ["v"]}}, {}), ({"a": [["x", "y"], "z"]}, {}), ({"a": {"+content": ["x", "y"], "b": "1"}}, {}), ({"a": {"b": "1", "+content": "t", "+@k": "v"}}, {}),
             ("scalar", {}), (None, {}), ({"a": {}}, {}), ({"a": []}, {})]
    ereq = vlib.yqh_parallel([dict({"op": "c14_enc", "fmt": "xml", "indent": 0, "node": xval_node(d)}, **pf) for d, pf in docs])
    outs = [vlib.b64d(r["out_b64"]) if ok(r) else None for r in ereq]
    treq = vlib.yqh_parallel([{"op": "c14_xmltok", "text_b64": vlib.b64e(o or b"")} for o in outs])
    cases, inputs = [], []
    for (d, pf), r, o, tr in zip(docs, ereq, outs, treq):
        rp = {"doc": d, "prefs": pf}
        chk.count(("xmlmodel-enc", json.dumps(d), json.dumps(pf)), nontrivial=isinstance(d, dict))
        if r is None or r.get("panic") or r.get("timeout") or r.get("crash") or r.get("harness_error"):
            cx.viol("xmltok", dict(rp, response=r), "xml encoder crashed")
            continue
        if "\\u0000" in json.dumps(d):
            continue
        if o is None:
            obs = b"E"
        elif tr is None or tr.get("err"):
            cx.viol("xmltok", dict(rp, impl_out=o.decode("utf-8", "replace"), tokenizer=tr), "encoding/xml cannot tokenise yq's own XML output")
            continue
        else:
            obs = b"O" + b"".join(ser_tok(x) for x in tr["toks"] if not tok_blank(x))
        p = coq_prefs(pf.get("xml_attr", "+@"), pf.get("xml_content", "+content"), proc=pf.get("xml_proc", "+p_"), directive=pf.get("xml_directive", "+directive"))
        cases.append(("(%s, %s)" % (p, coq_xval(d)), obs))
        inputs.append(rp)
    cx.correspond("xmlencode", XML_IMPORTS, "(fun c => xml_encode_obs (fst c) (snd c))", cases, inputs, "Model/Xml.v encode_toks vs encoder_xml.go (output re-tokenised by encoding/xml)")
    cx.dist["xml_model"] = {"decode_texts": len(texts), "encode_docs": len(docs)}


# --------------------------------------------------------------------------
# TOML (decoder only: the encoder is scalar-only in the code; tokenizer is go-toml's, library contract)
# --------------------------------------------------------------------------
import tomllib, math, datetime

TOML_KEYS = ["a", "b", "c", "key", "k-1", "k_2", "x", "y", "name", "id", "t", "1", "é", "a b", "q.r"]
TOML_STR_CH = list("abz09 \"'\\=#[]{},.") + ["é", "中", "\U0001F600", "\n", "\t"]
TOML_DT = ["1979-05-27T07:32:00Z", "1979-05-27T00:32:00-07:00", "1979-05-27T00:32:00.999999-07:00"]
TOML_LOCAL = ["1979-05-27T07:32:00", "1979-05-27", "07:32:00"]
SQ3 = "'" * 3
DQ3 = '"' * 3


def toml_key(k):
    if re.fullmatch(r"[A-Za-z0-9_-]+", k):
        return k
    return json.dumps(k, ensure_ascii=False)


def toml_str(rng, s):
    r = rng.random()
    if r < 0.2 and "'" not in s and "\n" not in s and "\t" not in s:
        return "'" + s + "'"
    if r < 0.3 and SQ3 not in s and not s.endswith("'"):
        return SQ3 + "\n" + s + SQ3
    if r < 0.4 and DQ3 not in s and "\\" not in s and not s.endswith('"'):
        return DQ3 + "\n" + s + DQ3
    out = []
    for c in s:
        if c == '"':
            out.append('\\"')
        elif c == "\\":
            out.append("\\\\")
        elif c == "\n":
            out.append("\\n")
        elif c == "\t":
            out.append(rng.choice(["\\t", "\t"]))
        elif ord(c) > 127 and rng.random() < 0.3:
            out.append("\\u%04X" % ord(c) if ord(c) < 0x10000 else "\\U%08X" % ord(c))
        else:
            out.append(c)
    return '"' + "".join(out) + '"'


def gen_toml_scalar(rng, allow_local=False):
    r = rng.random()
    if r < 0.35:
        return toml_str(rng, "".join(rng.choice(TOML_STR_CH) for _ in range(rng.choice([0, 1, 3, 6]))))
    if r < 0.55:
        return rng.choice(["0", "42", "-17", "+5", "1_000", "0xDEAD_beef", "0o755", "0b1101", "9223372036854775807", "-9223372036854775808", str(rng.randrange(-10 ** 6, 10 ** 6))])
    if r < 0.7:
        return rng.choice(["1.5", "-0.01", "+1.0", "5e+22", "1e06", "-2E-2", "6.626e-34", "9_224.5", "inf", "-inf", "+inf", "nan", "3.14159"])
    if r < 0.85:
        return rng.choice(["true", "false"])
    if allow_local and rng.random() < 0.5:
        return rng.choice(TOML_LOCAL)
    return rng.choice(TOML_DT)


def gen_toml_value(rng, depth=0, allow_local=False):
    """TOML source text of a value (inline)"""
    r = rng.random()
    if depth >= 2 or r < 0.6:
        return gen_toml_scalar(rng, allow_local)
    if r < 0.8:
        return "[" + ", ".join(gen_toml_value(rng, depth + 1, allow_local) for _ in range(rng.randrange(0, 4))) + "]"
    ks = rng.sample(TOML_KEYS, rng.randrange(0, 3))
    items = ["%s = %s" % (toml_key(k), gen_toml_value(rng, depth + 1, allow_local)) for k in ks]
    if rng.random() < 0.3:      # dotted keys that share a prefix inside the inline table
        items += ["dk.%s = %s" % (sub, gen_toml_scalar(rng, allow_local)) for sub in rng.sample(["p", "q", "r.s", "r.t"], rng.randrange(1, 4))]
    return "{" + ", ".join(items) + "}"


def gen_toml_doc(rng, allow_local=False):
    lines = []
    for k in rng.sample(TOML_KEYS, rng.randrange(0, 4)):
        if rng.random() < 0.15:
            lines.append("%s.%s = %s" % (toml_key(k), toml_key(rng.choice(["p", "q"])), gen_toml_value(rng, 0, allow_local)))
        else:
            lines.append("%s = %s" % (toml_key(k), gen_toml_value(rng, 0, allow_local)))
        if rng.random() < 0.1:
            lines.append("# comment")
    used = set()
    for _ in range(rng.randrange(0, 4)):
        t = rng.choice(["t1", "t2", "srv", "owner"])
        if rng.random() < 0.3:
            t = t + "." + rng.choice(["sub", "x"])
        if t in used or any(u.startswith(t + ".") or t.startswith(u + ".") for u in used):
            continue
        used.add(t)
        if rng.random() < 0.35:
            for _ in range(rng.randrange(1, 4)):
                lines.append("")
                lines.append("[[%s]]" % t)
                for k in rng.sample(TOML_KEYS, rng.randrange(1, 3)):
                    lines.append("%s = %s" % (toml_key(k), gen_toml_value(rng, 1, allow_local)))
        else:
            lines.append("")
            lines.append("[%s]" % t)
            for k in rng.sample(TOML_KEYS, rng.randrange(0 if rng.random() < 0.1 else 1, 3)):
                lines.append("%s = %s" % (toml_key(k), gen_toml_value(rng, 1, allow_local)))
    return "\n".join(lines) + "\n"


TOML_TREE = ["a", "a.b", "a.b.c", "a.d", "e", "e.f", "g"]


def gen_toml_headers_doc(rng):
    """table headers in every order: a parent after its child, empty tables, super-tables re-opened by a sub-table header,
    array tables interleaved; each table defined once (TOML), keys of a table never collide with its sub-tables"""
    paths = rng.sample(TOML_TREE, rng.randrange(2, len(TOML_TREE) + 1))
    rng.shuffle(paths)
    arrays = rng.sample(["q", "w"], rng.randrange(0, 3))
    items = [("t", p) for p in paths]
    for q in arrays:
        for _ in range(rng.randrange(1, 4)):
            items.insert(rng.randrange(0, len(items) + 1), ("a", q))
    lines = []
    if rng.random() < 0.4:
        lines.append("top = %s" % gen_toml_scalar(rng))
    for kind, p in items:
        lines.append("[%s]" % p if kind == "t" else "[[%s]]" % p)
        if rng.random() < 0.55:
            for k in rng.sample(["x", "y", "z1"], rng.randrange(1, 3)):
                lines.append("%s = %s" % (k, gen_toml_value(rng, 1)))
    return "\n".join(lines) + "\n"


def toml_same(got, want):
    """yq's decoded tree (python value via from_node) against tomllib's value"""
    if isinstance(want, dict):
        return isinstance(got, dict) and list(got.keys()) == list(want.keys()) and all(toml_same(got[k], want[k]) for k in want)
    if isinstance(want, list):
        return isinstance(got, list) and len(got) == len(want) and all(toml_same(g, w) for g, w in zip(got, want))
    if isinstance(want, bool) or isinstance(got, bool):
        return got is want
    if isinstance(want, float):
        if isinstance(got, (int, float)) and not isinstance(got, bool):
            return (math.isnan(want) and isinstance(got, float) and math.isnan(got)) or float(got) == want
        return False
    if isinstance(want, int):
        return isinstance(got, int) and got == want
    if isinstance(want, (datetime.datetime, datetime.date, datetime.time)):
        if not (isinstance(got, tuple) and len(got) == 2):
            return False
        txt = got[1].replace(" ", "T")
        return txt.upper().replace("Z", "+00:00") == want.isoformat().upper()
    return got == want


def toml_empty_headers(t):
    """paths of [table] headers that are directly followed by another header or the end of the text"""
    lines = [ln.strip() for ln in t.split("\n")]
    lines = [ln for ln in lines if ln and not ln.startswith("#")]
    out = []
    for i, ln in enumerate(lines):
        m = re.fullmatch(r"\[([A-Za-z0-9_.-]+)\]", ln)
        if m and i + 1 < len(lines) and lines[i + 1].startswith("["):
            out.append(m.group(1).split("."))
    return out


def toml_prune(want, path):
    if not path or not isinstance(want, dict) or path[0] not in want:
        return
    if len(path) == 1:
        if want[path[0]] == {}:
            del want[path[0]]
        return
    toml_prune(want[path[0]], path[1:])
    if want[path[0]] == {}:
        del want[path[0]]


def toml_defect(t, want, got, r):
    """signatures of the recorded TOML defects; None for anything else"""
    heads = re.findall(r"^\[\[([A-Za-z0-9_.-]+)\]\]\s*$", t, re.M)
    if not ok(r) and any(re.search(r"^\[\[?" + re.escape(h) + r"\.", t, re.M) for h in heads):
        return "toml-array-subtable"
    if not ok(r):
        if any(re.search(r"(?<![0-9T:-])" + re.escape(tok) + r"(?![0-9:Z+-])", t) for tok in ("1979-05-27T07:32:00", "1979-05-27", "07:32:00")):
            return "toml-local-datetime"
        return None
    return None


@section
def sec_toml(cx):
    chk, rng = cx.chk, cx.rng
    texts = [gen_toml_doc(rng) for _ in range(cx.n(400, 8000))] + [gen_toml_headers_doc(rng) for _ in range(cx.n(150, 3000))]
    texts += ["[a.b]\nx = 1\n[a]\n", "[a.b]\nx = 1\n[a]\n[c]\n", "[a.b.c]\n[a.b]\n[a]\n", "[[q]]\nn = 1\n[t]\n[[q]]\n[t.u]\ny = 2\n[[q]]\nn = 3\n", 'a = 1\nb = "x"\n[t]\nc = true\n[[arr]]\nn = 1\n[[arr]]\nn = 2\n', 'p = { x = 1, y = { z = "w" } }\nq = [1, 2.5, "s", [true]]\n', "a.b.c = 1\na.b.d = 2\n",
              '[a]\nx = 1\n[a.b]\ny = 2\n[c]\n', '[[a]]\nx = 1\n[a.b]\ny = 2\n', '[[a]]\nn = 1\n[[a.b]]\nx = 1\n[[a.b]]\nx = 2\n[[a]]\nn = 2\n', '[[a]]\n[[a]]\nx = 1\n',
              'a = 0b1101\n', 'x = {a.b = 1, a.c = 2, d = {e.f = "s", e.g = [1]}}\n', '[a]\nb.c = 1\nb.d = 2\n', '[a.b.c]\nx = 1\n[a]\ny = 2\n', 'a = [ {x = 1}, {x = 2} ]\n', "s = " + SQ3 + "\nl1\nl2" + SQ3 + "\n"]
    local = [gen_toml_doc(rng, True) for _ in range(cx.n(60, 600))] + ["d = 1979-05-27\n", "t = 07:32:00\n", "dt = 1979-05-27T07:32:00\n"]
    allt = [(t, False) for t in texts] + [(t, True) for t in local]
    resp = vlib.yqh_parallel([{"op": "c14_dec", "fmt": "toml", "text_b64": vlib.b64e(t)} for t, _ in allt])
    nbad = 0
    for (t, loc), r in zip(allt, resp):
        try:
            want = tomllib.loads(t)
        except Exception:
            nbad += 1
            continue
        rp = {"text": t, "text_b64": vlib.b64e(t)}
        chk.count(("toml", t), nontrivial=len(want) > 0, sample={"toml": t, "json": json.dumps(want, default=str)} if 30 < len(t) < 120 and "[" in t else None)
        if r is None or r.get("panic") or r.get("timeout") or r.get("crash") or r.get("harness_error"):
            cx.viol("tomldec", dict(rp, response=r), "toml decoder crashed")
            continue
        if not want:
            continue            # an empty document is io.EOF for the decoder
        got = from_node(r["node"]) if ok(r) and r.get("node") is not None else None
        if not toml_same(got, want):
            sig = toml_defect(t, want, got, r)
            if sig:
                chk.known_finding(sig, "text %r" % t[:80])
                if chk.is_known(sig):
                    continue
            cx.viol("tomldec", dict(rp, want=json.loads(json.dumps(want, default=str)), got=json.loads(json.dumps(got, default=str)), response=r if not ok(r) else None),
                    "yq's toml decoder does not build the value that the TOML text denotes (per python's tomllib)")
    if nbad > len(allt) // 10:
        cx.broken.append("generator: tomllib rejects %d of %d generated TOML documents" % (nbad, len(allt)))
    # encoder: scalars only, anything else is an explicit error
    docs = [S("x"), S("12", "!!int"), M([("a", S("b"))]), Q([S("a")]), M([])]
    resp = vlib.yqh_parallel([{"op": "c14_enc", "fmt": "toml", "node": n} for n in docs])
    for n, r in zip(docs, resp):
        chk.count(("tomlenc", json.dumps(n)), nontrivial=True)
        good = (ok(r) and vlib.b64d(r["out_b64"]) == sval(n) + b"\n") if n["k"] == "s" else failed_cleanly(r)
        if not good:
            cx.viol("tomlenc", {"node": n, "response": r}, "toml encoder: a scalar must print as its text, a collection must be rejected")
    cx.dist["toml"] = {"documents": len(allt), "rejected_by_tomllib": nbad}


# --------------------------------------------------------------------------
# TOML, model on expressions: Model/Toml.v (the decoder's control flow, DeeplyAssign / arrayAppend on TOML-shaped documents)
# against the implementation, with go-toml's unstable parser itself (harness op c14_tomlexpr, no yqlib) as the front end
# --------------------------------------------------------------------------
TOML_IMPORTS = "From YQ Require Import Base.Str Model.Toml."
TKIND = {"String": "KString", "Bool": "KBool", "Integer": "KInteger", "Float": "KFloat", "DateTime": "KDateTime",
         "LocalDate": "KLocalDate", "LocalTime": "KLocalTime", "LocalDateTime": "KLocalDateTime"}


def coq_path(p):
    return "[" + ";".join(vlib.coq_str(vlib.b64d(x)) for x in p) + "]"


def coq_tval(v):
    if v["k"] == "Array":
        return "TVArray [" + ";".join(coq_tval(c) for c in v["c"]) + "]"
    if v["k"] == "InlineTable":
        return "TVInline [" + ";".join("(%s, %s)" % (coq_path(c["path"]), coq_tval(c["v"])) for c in v["c"]) + "]"
    return "TVScalar %s %s" % (TKIND[v["k"]], vlib.coq_str(vlib.b64d(v["v"])))


def coq_texpr(e):
    if e["k"] == "kv":
        return "EKeyVal %s (%s)" % (coq_path(e["path"]), coq_tval(e["v"]))
    return ("ETable " if e["k"] == "table" else "EArrayTable ") + coq_path(e["path"])


def ser_tdump(d):
    tags = {"!!str": b"s", "!!bool": b"b", "!!int": b"i", "!!float": b"f", "": b"n"}
    if d["k"] == "s":
        return tags.get(d["t"], b"?") + sval(d) + b"\0"
    if d["k"] == "q":
        return b"[" + b"".join(ser_tdump(c) for c in d["c"]) + b"]"
    out = b"{"
    for i in range(0, len(d["c"]), 2):
        out += sval(d["c"][i]) + b"\0" + ser_tdump(d["c"][i + 1])
    return out + b"}"


@section
def sec_toml_model(cx):
    chk, rng = cx.chk, cx.rng
    texts = [gen_toml_doc(rng, rng.random() < 0.1) for _ in range(cx.n(300, 6000))] + [gen_toml_headers_doc(rng) for _ in range(cx.n(150, 3000))]
    texts += ["[a.b]\nx = 1\n[a]\n", "[a.b]\nx = 1\n[a]\n[c]\n", "[a.b.c]\n[a.b]\n[a]\n", "[[q]]\nn = 1\n[t]\n[[q]]\n[t.u]\ny = 2\n[[q]]\nn = 3\n", 'a = 1\nb = "x"\n[t]\nc = true\n[[arr]]\nn = 1\n[[arr]]\nn = 2\n', "[t]\n[u]\nx = 1\n", "[[a]]\n[[a]]\nx = 1\n", "[[a]]\nx = 1\n[[a]]\n", "[[a]]\nx = 1\n[a.b]\ny = 2\n",
              "[a.b.c]\nx = 1\n[a]\ny = 2\n", "x = {a.b = 1, a.c = 2}\n", "a = 0b1_01\n", "[a]\nb.c = 1\nb.d = 2\n[a.e]\nf = [1, [2, {g = 3}]]\n", "", "# only a comment\n", "[t]\n",
              "a.b = 1\n[a]\nc = 2\n", "d = 1979-05-27\n", "[x.y]\n[x]\nz = 1\n[[x.w]]\nq = 1\n[[x.w]]\n"]
    ereq = vlib.yqh_parallel([{"op": "c14_tomlexpr", "text_b64": vlib.b64e(t)} for t in texts])
    dreq = vlib.yqh_parallel([{"op": "c14_dec", "fmt": "toml", "text_b64": vlib.b64e(t)} for t in texts])
    cases, inputs = [], []
    for t, er, dr in zip(texts, ereq, dreq):
        rp = {"text": t, "text_b64": vlib.b64e(t)}
        chk.count(("tomlmodel", t), nontrivial="[" in t)
        if dr is None or dr.get("panic") or dr.get("timeout") or dr.get("crash") or dr.get("harness_error"):
            cx.viol("tomldec", dict(rp, response=dr), "toml decoder crashed")
            continue
        if er is None or er.get("err") or "\0" in t:
            continue           # the parser rejects the text: library side
        try:
            tomllib.loads(t)
        except Exception:
            continue           # not a TOML document (the unstable parser checks syntax only): outside the domain of the model
        if ok(dr) and dr.get("node"):
            obs = b"O" + ser_tdump(dr["node"])
        elif dr.get("errclass") == "eof":
            obs = b"N"
        else:
            obs = b"E"
        cases.append(("[" + ";".join(coq_texpr(e) for e in er["exprs"]) + "]", obs))
        inputs.append(rp)
    cx.correspond("tomldecode", TOML_IMPORTS, "toml_decode_obs", cases, inputs, "Model/Toml.v toml_decode vs decoder_toml.go (expressions from go-toml's unstable parser)")
    cx.dist["toml_model"] = {"documents": len(texts)}


# --------------------------------------------------------------------------
# Lua (encoder's own escaping / key syntax is modelled: Model/LuaStr.v; the decoder runs gopher-lua: library contract)
# --------------------------------------------------------------------------
LUA_IMPORTS = "From YQ Require Import Base.Str Model.LuaStr."
LUA_KEYWORDS = ["do", "and", "else", "break", "if", "end", "goto", "false", "in", "for", "then", "local", "or", "nil", "true", "until",
                "elseif", "function", "not", "repeat", "return", "while"]


class LuaSyntax(Exception):
    pass


def lua_read(src):
    """independent reader for the subset of Lua a data file uses: `return <value>;` or global assignments.
    Returns python values; tables become list (keys 1..n in order) or dict."""
    pos = 0
    n = len(src)

    def ws():
        nonlocal pos
        while pos < n:
            if src[pos:pos + 1] in (b" ", b"\t", b"\n", b"\r"):
                pos += 1
            elif src[pos:pos + 2] == b"--":
                while pos < n and src[pos:pos + 1] != b"\n":
                    pos += 1
            else:
                break

    def expect(tok):
        nonlocal pos
        ws()
        if src[pos:pos + len(tok)] != tok:
            raise LuaSyntax("expected %r at %d" % (tok, pos))
        pos += len(tok)

    def string():
        nonlocal pos
        q = src[pos:pos + 1]
        pos += 1
        out = bytearray()
        while True:
            if pos >= n:
                raise LuaSyntax("unterminated string")
            c = src[pos]
            if src[pos:pos + 1] == q:
                pos += 1
                return bytes(out)
            if c == 10:
                raise LuaSyntax("newline in string")
            if c == 92:
                pos += 1
                d = src[pos:pos + 1]
                simple = {b"a": 7, b"b": 8, b"f": 12, b"n": 10, b"r": 13, b"t": 9, b"v": 11, b"\\": 92, b'"': 34, b"'": 39, b"\n": 10}
                if d in simple:
                    out.append(simple[d])
                    pos += 1
                elif d.isdigit():
                    j = pos
                    while j < pos + 3 and src[j:j + 1].isdigit():
                        j += 1
                    v = int(src[pos:j])
                    if v > 255:
                        raise LuaSyntax("decimal escape too large")
                    out.append(v)
                    pos = j
                elif d == b"x":
                    out.append(int(src[pos + 1:pos + 3], 16))
                    pos += 3
                else:
                    raise LuaSyntax("bad escape %r" % d)
            else:
                out.append(c)
                pos += 1

    def longstring():
        nonlocal pos
        m = re.match(rb"\[(=*)\[", src[pos:])
        lvl = m.group(1)
        pos += len(m.group(0))
        if src[pos:pos + 2] == b"\r\n":
            pos += 2
        elif src[pos:pos + 1] in (b"\n", b"\r"):
            pos += 1
        end = src.find(b"]" + lvl + b"]", pos)
        if end < 0:
            raise LuaSyntax("unterminated long string")
        v = src[pos:end]
        pos = end + len(lvl) + 2
        return v

    def value():
        nonlocal pos
        ws()
        c = src[pos:pos + 1]
        if c in (b'"', b"'"):
            return string()
        if re.match(rb"\[=*\[", src[pos:]):
            return longstring()
        if c == b"{":
            return table()
        for tok, v in ((b"(1/0)", float("inf")), (b"(-1/0)", float("-inf")), (b"(0/0)", float("nan"))):
            if src[pos:pos + len(tok)] == tok:
                pos += len(tok)
                return v
        m = re.match(rb"-?(0[xX][0-9a-fA-F]+|[0-9]+\.?[0-9]*([eE][+-]?[0-9]+)?|\.[0-9]+([eE][+-]?[0-9]+)?)", src[pos:])
        if m:
            pos += len(m.group(0))
            t = m.group(0).decode()
            if re.fullmatch(r"-?[0-9]+", t):
                return int(t)
            if "x" in t.lower():
                return int(t, 16)
            return float(t)
        m = re.match(rb"[A-Za-z_][A-Za-z0-9_]*", src[pos:])
        if m:
            w = m.group(0)
            pos += len(w)
            if w == b"nil":
                return None
            if w == b"true":
                return True
            if w == b"false":
                return False
            raise LuaSyntax("unexpected name %r" % w)
        raise LuaSyntax("unexpected %r at %d" % (src[pos:pos + 10], pos))

    def table():
        nonlocal pos
        expect(b"{")
        arr, rec = [], []
        while True:
            ws()
            if src[pos:pos + 1] == b"}":
                pos += 1
                break
            if src[pos:pos + 1] == b"[" and not re.match(rb"\[=*\[", src[pos:]):
                pos += 1
                k = value()
                expect(b"]")
                expect(b"=")
                rec.append((k, value()))
            else:
                m = re.match(rb"([A-Za-z_][A-Za-z0-9_]*)\s*=(?!=)", src[pos:])
                if m and m.group(1).decode() not in LUA_KEYWORDS:
                    pos += len(m.group(0))
                    rec.append((m.group(1), value()))
                else:
                    arr.append(value())
            ws()
            if src[pos:pos + 1] in (b",", b";"):
                pos += 1
        if rec and arr:
            raise LuaSyntax("mixed table (outside the reader's subset)")
        if rec:
            d = {}
            for k, v in rec:
                if k in d:
                    raise LuaSyntax("duplicate key")
                d[k] = v
            return d
        return arr

    ws()
    if src[pos:pos + 6] == b"return":
        pos += 6
        v = value()
        ws()
        if src[pos:pos + 1] == b";":
            pos += 1
        ws()
        if pos != n:
            raise LuaSyntax("trailing text")
        return v
    glob = {}
    while True:
        ws()
        if pos >= n:
            return glob
        m = re.match(rb"_ENV\s*\[", src[pos:])
        if m:
            pos += len(m.group(0))
            k = value()
            expect(b"]")
        else:
            m = re.match(rb"[A-Za-z_][A-Za-z0-9_]*", src[pos:])
            if not m or m.group(0).decode() in LUA_KEYWORDS:
                raise LuaSyntax("bad statement at %d" % pos)
            k = m.group(0)
            pos += len(k)
        expect(b"=")
        glob[k] = value()
        ws()
        if src[pos:pos + 1] == b";":
            pos += 1


LUA_STR_CH = [bytes([b]) for b in list(range(0, 40)) + [92, 127, 128, 255, 34, 39, 93, 91, 61]] + [b"a", b"z", b"0", b"9", b" ", "é".encode(), "中".encode()]
LUA_KEYS = ["a", "b", "key", "_x", "x1", "end", "nil", "while", "a b", "1a", "a-b", "", "é", "\n", "true", "K_9"]


def gen_lua_bytes(rng):
    return b"".join(rng.choice(LUA_STR_CH) for _ in range(rng.choice([0, 1, 2, 3, 5, 8])))


def gen_lua_tree(rng, depth=0):
    """python value: bytes (strings), int, float, bool, list, dict with bytes keys (non-empty containers below the root)"""
    r = rng.random()
    if depth >= 3 or r < 0.5:
        k = rng.random()
        if k < 0.5:
            return gen_lua_bytes(rng)
        if k < 0.7:
            return rng.choice([0, 1, -1, 42, 2 ** 31, -(2 ** 40), 9007199254740991, rng.randrange(-10 ** 9, 10 ** 9)])
        if k < 0.8:
            return rng.choice([1.5, -0.25, 1e+100, 3.14159, 1e-07])
        return rng.choice([True, False])
    if r < 0.72:
        return [gen_lua_tree(rng, depth + 1) for _ in range(rng.randrange(1, 4))]
    d = {}
    for k in rng.sample(LUA_KEYS, rng.randrange(1, 4)):
        d[k.encode()] = gen_lua_tree(rng, depth + 1)
    return d


def lua_node(v):
    if isinstance(v, dict):
        return M([(S(k), lua_node(x)) for k, x in v.items()])
    if isinstance(v, list):
        return Q([lua_node(x) for x in v])
    if isinstance(v, bytes):
        return S(v)
    if v is True or v is False:
        return S("true" if v else "false", "!!bool")
    if isinstance(v, int):
        return S(str(v), "!!int")
    if isinstance(v, float):
        return S(repr(v), "!!float")
    raise ValueError(v)


def lua_from_node(d):
    """decoded tree -> python value with bytes strings; dict keys bytes (int keys as ints)"""
    if d["k"] == "s":
        raw, t = sval(d), d["t"]
        if t == "!!str":
            return raw
        if t == "!!null":
            return None
        if t == "!!bool":
            return raw == b"true"
        if t == "!!int":
            try:
                return int(raw)
            except ValueError:
                return float(raw)
        if t == "!!float":
            return float(raw.decode().replace(".inf", "inf").replace(".nan", "nan"))
        return (t, raw)
    if d["k"] == "q":
        return [lua_from_node(c) for c in d["c"]]
    out = {}
    for i in range(0, len(d["c"]), 2):
        out[lua_from_node(d["c"][i])] = lua_from_node(d["c"][i + 1])
    return out


def lua_same(got, want):
    if isinstance(want, (dict, list)) and not want:
        return isinstance(got, (dict, list)) and not got        # the empty table is both
    if isinstance(want, dict):
        return isinstance(got, dict) and set(got.keys()) == set(want.keys()) and all(lua_same(got[k], want[k]) for k in want)
    if isinstance(want, list):
        return isinstance(got, list) and len(got) == len(want) and all(lua_same(g, w) for g, w in zip(got, want))
    if isinstance(want, bool) or isinstance(got, bool):
        return got is want
    if isinstance(want, (int, float)):
        if not isinstance(got, (int, float)):
            return False
        if isinstance(want, float) and want != want:
            return got != got
        return float(got) == float(want)
    return got == want


def lua_str_lit(rng, b):
    """ground-truth Lua string literal for bytes b"""
    q = rng.choice(['"', "'"])
    out = []
    for i, c in enumerate(b):
        ch = chr(c)
        nxt_digit = i + 1 < len(b) and chr(b[i + 1]).isdigit()
        if ch == q or ch == "\\":
            out.append("\\" + ch)
        elif c == 10:
            out.append(rng.choice(["\\n", "\\10" if not nxt_digit else "\\010"]))
        elif c < 32 or c == 127 or (c >= 128 and rng.random() < 0.3):
            out.append("\\%03d" % c if nxt_digit or rng.random() < 0.5 else "\\%d" % c)
        else:
            out.append(ch)
    return (q + "".join(out) + q).encode("latin1")


def lua_write(rng, v, indent=""):
    if isinstance(v, dict):
        items = []
        for k, x in v.items():
            ks = k.decode("latin1")
            if re.fullmatch(r"[A-Za-z_][A-Za-z0-9_]*", ks) and ks not in LUA_KEYWORDS and rng.random() < 0.5:
                items.append(k + b" = " + lua_write(rng, x, indent + "  "))
            else:
                items.append(b"[" + lua_str_lit(rng, k) + b"] = " + lua_write(rng, x, indent + "  "))
        sep = rng.choice([b", ", b";\n" + indent.encode(), b",\n"])
        return b"{" + sep.join(items) + rng.choice([b"", b",", b";"]) + b"}"
    if isinstance(v, list):
        return b"{" + b", ".join(lua_write(rng, x, indent + "  ") for x in v) + b"}"
    if isinstance(v, bytes):
        return lua_str_lit(rng, v)
    if v is True:
        return b"true"
    if v is False:
        return b"false"
    if isinstance(v, int):
        return (hex(v) if v >= 0 and rng.random() < 0.15 else str(v)).encode()
    return repr(v).encode()


def lua_has_empty_key(v):
    if isinstance(v, dict):
        return b"" in v or any(lua_has_empty_key(x) for x in v.values())
    if isinstance(v, list):
        return any(lua_has_empty_key(x) for x in v)
    return False


@section
def sec_lua(cx):
    chk, rng = cx.chk, cx.rng
    trees = [gen_lua_tree(rng) for _ in range(cx.n(300, 6000))]
    trees += [bytes([b]) for b in range(256)] + [b"\\n", b"]]", b"a]]b]=]", b"\0001", b"\x1f9", {b"end": b"x", b"ok": [1, 2]}, [], {}]
    # ---------- encode: yq writes, the lua reader above reads; string literals against the model ----------
    cfgs = [rng.choice([{}, {}, {"lua_unquoted": True}, {"lua_globals": True}]) for _ in trees]
    trees.append({b"": 1, b"k": 2})
    cfgs.append({"lua_unquoted": True})
    reqs = []
    for v, cfg in zip(trees, cfgs):
        if cfg.get("lua_globals") and not isinstance(v, dict):
            cfg.clear()
        reqs.append(dict({"op": "c14_enc", "fmt": "lua", "node": lua_node(v)}, **cfg))
    resp = vlib.yqh_parallel(reqs)
    cases, inputs = [], []
    for v, cfg, r in zip(trees, cfgs, resp):
        rp = {"tree": lua_node(v), "cfg": cfg}
        chk.count(("luaw", json.dumps(lua_node(v)), json.dumps(cfg)), nontrivial=not isinstance(v, bytes) or any(c < 32 or c in (34, 39, 92, 127) for c in v),
                  sample={"lua": vlib.b64d(r["out_b64"]).decode("latin1")} if ok(r) and isinstance(v, dict) and len(r["out_b64"]) < 160 else None)
        if not ok(r):
            cx.viol("luaenc", dict(rp, response=r), "lua encoder failed on a tree")
            continue
        out = vlib.b64d(r["out_b64"])
        if isinstance(v, bytes) and not cfg:
            cases.append((vlib.coq_str(v), out))
            inputs.append(rp)
        try:
            back = lua_read(out)
        except LuaSyntax as ex:
            back = "not readable as Lua data: %s" % ex
        want = v
        if cfg.get("lua_globals"):
            want = dict(v)
        if not lua_same(back, want if not (isinstance(want, dict) and not want) else []):
            cx.viol("luaenc", dict(rp, impl_out=out.decode("latin1"), reads=repr(back)), "a Lua reader does not map yq's Lua output back to the tree")
    cx.correspond("luastr", LUA_IMPORTS, "lua_document", cases, inputs, "Model/LuaStr.v lua_quote vs encoder_lua.go")
    # unquoted-key predicate against the model
    keys = [k.encode() for k in LUA_KEYS + LUA_KEYWORDS + ["a1", "A", "_", "9", "a.b", "aé"]]
    resp = vlib.yqh_parallel([{"op": "c14_enc", "fmt": "lua", "lua_unquoted": True, "node": M([(S(k), S("v"))])} for k in keys])
    cases, inputs = [], []
    for k, r in zip(keys, resp):
        if ok(r):
            cases.append((vlib.coq_str(k), vlib.b64d(r["out_b64"])))
            inputs.append({"key_b64": vlib.b64e(k)})
    cx.correspond("luakey", LUA_IMPORTS, "lua_unquoted_doc", cases, inputs, "Model/LuaStr.v lua_needs_quoting vs encoder_lua.go needsQuoting")
    # ---------- decode: ground truth written here, yq (gopher-lua) reads ----------
    srcs = []
    for v in trees:
        if isinstance(v, dict) and not v:
            continue
        body = lua_write(rng, v)
        srcs.append((b"return " + body + rng.choice([b"", b";", b";\n", b"\n-- end\n"]), v))
    resp = vlib.yqh_parallel([{"op": "c14_dec", "fmt": "lua", "text_b64": vlib.b64e(t)} for t, _ in srcs])
    for (t, v), r in zip(srcs, resp):
        rp = {"src": t.decode("latin1"), "text_b64": vlib.b64e(t)}
        try:
            sane = lua_same(lua_read(t), v)
        except LuaSyntax:
            sane = False
        if not sane:
            cx.broken.append("generator: the lua reader does not read back the generated source %r" % t[:80])
            continue
        chk.count(("luar", t), nontrivial=not isinstance(v, (int, float, bool)))
        got = lua_from_node(r["node"]) if ok(r) and r.get("node") else None
        if not lua_same(got, v):
            cx.viol("luadec", dict(rp, want=repr(v), got=repr(got), response=r if not ok(r) else None), "yq's lua decoder does not build the value the Lua source denotes")
    cx.dist["lua"] = {"trees": len(trees), "sources": len(srcs)}


# --------------------------------------------------------------------------
# in-expression pairs (operator_encoder_decoder.go: encodeOperator / decodeOperator incl. the newline chomping)
# --------------------------------------------------------------------------
SAFE_CH = list("ghjkmpqwz") + ["é", "中", " ", "_", "/"]


def gen_safe_str(rng):
    """a string that no YAML / CSV scalar re-typing can turn into another type (contains a letter outside hex / inf / nan / true / false / null)"""
    body = "".join(rng.choice(SAFE_CH + list("ab019")) for _ in range(rng.choice([0, 1, 2, 4, 7])))
    return (rng.choice("ghjkmpqwz") + body).rstrip(" ") or "g"


def gen_json_tree(rng, depth=0):
    r = rng.random()
    if depth >= 3 or r < 0.5:
        k = rng.random()
        if k < 0.5:
            return gen_safe_str(rng)
        if k < 0.7:
            return rng.choice([0, 1, -7, 42, 123456789, -2 ** 31])
        if k < 0.85:
            return rng.choice([True, False])
        return None
    if r < 0.72:
        return [gen_json_tree(rng, depth + 1) for _ in range(rng.randrange(0, 4))]
    return {gen_safe_str(rng): gen_json_tree(rng, depth + 1) for _ in range(rng.randrange(0, 4))}


@section
def sec_ops(cx):
    chk, rng = cx.chk, cx.rng
    trees = [gen_json_tree(rng) for _ in range(cx.n(150, 3000))]
    reqs, meta = [], []
    for t in trees:
        for expr in ("to_json | from_json", "@json | from_json", "to_yaml | from_yaml", "to_json(0)", "@yaml | from_yaml"):
            reqs.append({"op": "c14_op", "expr": expr, "node": to_node(t)})
            meta.append((expr, t))
    # flat maps through properties, rows / objects through csv and tsv
    flats = [{gen_safe_str(rng).replace(" ", "_"): gen_safe_str(rng) for _ in range(rng.randrange(1, 4))} for _ in range(cx.n(80, 1500))]
    for d in flats:
        reqs.append({"op": "c14_op", "expr": "to_props | from_props", "node": to_node(d)})
        meta.append(("to_props | from_props", d))
    objs = []
    for _ in range(cx.n(80, 1500)):
        hdr = list(dict.fromkeys(gen_safe_str(rng) for _ in range(rng.randrange(1, 4))))
        objs.append([{h: rng.choice([gen_safe_str(rng), rng.randrange(-99, 99), True, False, gen_safe_str(rng) + rng.choice([",", "\t", '"', "\n", ""])]) for h in hdr}
                     for _ in range(rng.randrange(1, 4))])
    for o in objs:
        for expr in ("to_csv | from_csv", "to_tsv | from_tsv", "@csv | @csvd"):
            reqs.append({"op": "c14_op", "expr": expr, "node": to_node(o)})
            meta.append((expr, o))
    resp = vlib.yqh_parallel(reqs)
    for (expr, t), rq, r in zip(meta, reqs, resp):
        chk.count(("op", expr, json.dumps(t)), nontrivial=isinstance(t, (dict, list)) and len(t) > 0)
        res = r["nodes"][0] if ok(r) and len(r.get("nodes", [])) == 1 else None
        if expr == "to_json(0)":
            try:
                good = res is not None and res["t"] == "!!str" and json.loads(sval(res)) == t and not sval(res).endswith(b"\n")
            except Exception:
                good = False
        else:
            good = res is not None and from_node(res) == t
        if not good:
            cx.viol("pairop", {"expr": expr, "node": rq["node"], "want": t, "got": from_node(res) if res else None, "response": r if not ok(r) else None},
                    "in-expression pair %s is not the identity on a value of the format's domain" % expr)
    # @csv / @tsv of one row: the record without its line end (chomped), byte-exact against the model and python's reader
    rows = [[gen_field(rng) for _ in range(rng.choice([1, 2, 3, 4]))] for _ in range(cx.n(200, 4000))]
    rows.append([""])
    cfg = [rng.choice([("@csv", ","), ("@tsv", "\t"), ("to_csv", ",")]) for _ in rows]
    resp = vlib.yqh_parallel([{"op": "c14_op", "expr": e, "node": Q([S(f) for f in row])} for row, (e, _) in zip(rows, cfg)])
    cases, inputs = [], []
    for row, (e, sep), r in zip(rows, cfg, resp):
        res = sval(r["nodes"][0]) if ok(r) and len(r.get("nodes", [])) == 1 and r["nodes"][0]["k"] == "s" else None
        chk.count(("csvop", e, json.dumps(row)), nontrivial=True)
        try:
            back = py_csv_read(res.decode("utf-8"), sep) if res is not None else None
        except Exception:
            back = None
        if back != [row] or res.endswith(b"\n") and not row[-1].endswith("\n"):
            cx.viol("csvop", {"expr": e, "row": row, "got": res.decode("utf-8", "replace") if res is not None else None, "response": r if not ok(r) else None},
                    "%s of a row is not that row as one CSV record without a trailing line end" % e)
        elif not any("\0" in f or "\1" in f for f in row):
            cases.append(("(%d, %s)" % (ord(sep), "[" + ";".join(vlib.coq_str(f) for f in row) + "]"), res))
            inputs.append({"expr": e, "row": row})
    cx.correspond("csvop", CSV_IMPORTS, "(fun p => chomp (csv_write_record (fst p) (snd p)))", cases, inputs, "Model/Csv.v chomp o csv_write_record vs encodeOperator(@csv)")
    cx.dist["ops"] = {"json_trees": len(trees), "flat_maps": len(flats), "object_arrays": len(objs), "rows": len(rows)}


# --------------------------------------------------------------------------
# the real binary (command line flags -> preferences -> the same codecs): a sample per format
# --------------------------------------------------------------------------
def jnorm(x):
    return json.loads(json.dumps(x))


def cli_check(reader, expected, out):
    """independent reading of the binary's stdout, compared with the ground truth"""
    if reader == "json":
        return json.loads(out) == expected
    if reader == "json_close":
        return _json_close(json.loads(out), expected)
    if reader == "json_unordered":
        return _json_sorted(json.loads(out)) == _json_sorted(expected)
    if reader == "b64":
        return base64.b64decode(out, validate=True) == expected.encode()
    if reader == "uri":
        return urllib.parse.unquote_plus(out.decode()) == expected
    if reader.startswith("csv:"):
        return py_csv_read(out.decode(), reader[4:]) == expected
    if reader == "props":
        return jnorm(java_props_read(out.decode())) == expected
    if reader == "xml":
        return jnorm(et_to_elem(ET.fromstring(out.decode()))) == expected
    if reader == "lua":
        return lua_same(lua_read(out), _to_bytes(expected))
    if reader == "xmlyaml":
        o = out.decode("utf-8", "replace")
        roots = [c.tag for c in ET.fromstring("<w>" + o + "</w>")]
        return roots == expected[0] and sorted(" ".join(re.findall(r"<!--(.*?)-->", o, re.S)).split()) == sorted(expected[1]) and "$yq" not in o
    return False


def cli_run(job):
    label, args, stdin, reader, expected = job
    rc, out, err = vlib.run_yq(args, stdin=stdin)
    try:
        good = rc == 0 and bool(cli_check(reader, expected, out))
    except Exception:
        good = False
    return good, rc, out, err


@section
def sec_cli(cx):
    chk, rng = cx.chk, cx.rng
    from concurrent.futures import ThreadPoolExecutor
    jobs = []      # (label, args, stdin bytes, reader, expected)

    def add(*job):
        jobs.append(job)

    for _ in range(cx.n(6, 60)):
        s = gen_safe_str(rng) + rng.choice(["", " &=+", "/é中", "%", "\t"])
        add("base64 -p (unpadded)", ["-p=base64", "-o=json", "."], base64.b64encode(s.encode()).rstrip(b"="), "json", s)
        add("uri -p", ["-p=uri", "-o=json", "."], urllib.parse.quote_plus(s, safe="").encode(), "json", s)
        add("base64 -o", ["-p=json", "-o=base64", "."], json.dumps(s).encode(), "b64", s)
        add("uri -o", ["-p=json", "-o=uri", "."], json.dumps(s).encode(), "uri", s)
        add("@base64 | @base64d", ["-p=json", "-o=json", ". | @base64 | @base64d"], json.dumps(s).encode(), "json", s)
        add("@uri | @urid", ["-p=json", "-o=json", ". | @uri | @urid"], json.dumps(s).encode(), "json", s)
    for _ in range(cx.n(8, 80)):
        sep = rng.choice([",", ";", "|"])
        hdr = list(dict.fromkeys(gen_safe_str(rng) for _ in range(rng.randrange(1, 4))))
        rows = [[gen_safe_str(rng) + rng.choice(["", sep, '"', "\n", " x"]) for _ in hdr] for _ in range(rng.randrange(1, 4))]
        objs = [dict(zip(hdr, r)) for r in rows]
        trows = [[c.replace(sep, "\t") for c in r] for r in rows]
        add("csv -o", ["-p=json", "-o=csv", "--csv-separator", sep, "."], json.dumps(objs).encode(), "csv:" + sep, [hdr] + rows)
        add("csv -p", ["-p=csv", "-o=json", "--csv-separator", sep, "."], py_csv_write([hdr] + rows, sep, rng.choice(["\n", "\r\n"])).encode(), "json", objs)
        add("tsv -o", ["-p=json", "-o=tsv", "."], json.dumps(trows).encode(), "csv:\t", trows)
    for _ in range(cx.n(8, 80)):
        d = {gen_safe_str(rng).replace(" ", "_"): gen_safe_str(rng) + rng.choice(["", "=x", ": y", "\\z", "\tq", "é"]) for _ in range(rng.randrange(1, 4))}
        nested = {"top": d, "list": [gen_safe_str(rng), gen_safe_str(rng)]}
        psep = rng.choice([" = ", "=", ":"])
        add("props -o", ["-p=json", "-o=props", "--properties-separator", psep, "."], json.dumps(nested).encode(), "props", jnorm(props_flatten(nested)))
        add("props -o brackets", ["-p=json", "-o=props", "--properties-array-brackets", "."], json.dumps(nested).encode(), "props", jnorm(props_flatten(nested, "", True)))
        add("props -p", ["-p=props", "-o=json", "."], java_props_write(props_flatten(nested), rng.choice(["=", " = ", ":"]), rng).encode(), "json", nested)
    for _ in range(cx.n(8, 80)):
        e = gen_elem(rng)
        ap, cn = rng.choice([("+@", "+content"), ("_", "#text")])
        doc = {e[0]: xml_value_py(e, ap, cn)}
        flags = ["--xml-attribute-prefix", ap, "--xml-content-name", cn]
        add("xml -p", ["-p=xml", "-o=json"] + flags + ["."], xml_write(e, rng).encode(), "json", doc)
        if _no_null(doc):
            add("xml -o", ["-p=json", "-o=xml"] + flags + ["."], json.dumps(doc).encode(), "xml", jnorm(elem_norm(e)))
    for _ in range(cx.n(8, 80)):
        t = gen_toml_doc(rng)
        try:
            want = tomllib.loads(t)
        except Exception:
            continue
        if not want or "nan" in t or "inf" in t or any(x in t for x in TOML_DT):
            continue
        add("toml -p", ["-p=toml", "-o=json", "."], t.encode(), "json_close", want)
    for _ in range(cx.n(8, 80)):
        v = gen_json_tree(rng)
        if not isinstance(v, dict) or not v or not _no_null(v):
            continue
        unq = rng.random() < 0.5
        add("lua -o", ["-p=json", "-o=lua"] + (["--lua-unquoted"] if unq else []) + ["."], json.dumps(v).encode(), "lua", v)
        add("lua -p", ["-p=lua", "-o=json", "."], b"return " + lua_write(rng, _to_bytes(v)) + b";\n", "json_unordered", v)
    with ThreadPoolExecutor(vlib.NCPU) as ex:
        results = list(ex.map(cli_run, jobs))
    for (label, args, stdin, reader, expected), (good, rc, out, err) in zip(jobs, results):
        chk.count(("cli", label, stdin), nontrivial=True)
        if not good:
            cx.viol("cli", {"label": label, "args": args, "stdin_b64": vlib.b64e(stdin), "stdin": stdin.decode("utf-8", "replace"), "reader": reader, "expected": expected,
                            "rc": rc, "stdout": out.decode("utf-8", "replace")[:2000], "stderr": err.decode("utf-8", "replace")[:500]},
                    "real binary, %s: the output is not what an independent reader / the ground truth gives" % label)
    cx.dist["cli"] = {"runs": len(jobs)}


def _utf8(b):
    try:
        b.decode("utf-8")
        return True
    except UnicodeDecodeError:
        return False


def _no_null(v):
    if isinstance(v, dict):
        return all(_no_null(x) for x in v.values()) and len(v) > 0
    if isinstance(v, list):
        return all(_no_null(x) for x in v) and len(v) > 0
    return v is not None


def _to_bytes(v):
    if isinstance(v, dict):
        return {k.encode(): _to_bytes(x) for k, x in v.items()}
    if isinstance(v, list):
        return [_to_bytes(x) for x in v]
    if isinstance(v, str):
        return v.encode()
    return v


def _lua_expect(v):
    return v


def _json_sorted(v):
    if isinstance(v, dict):
        return sorted((k, _json_sorted(x)) for k, x in v.items())
    if isinstance(v, list):
        return [_json_sorted(x) for x in v]
    return v


def _json_close(got, want):
    if isinstance(want, dict):
        return isinstance(got, dict) and list(got) == list(want) and all(_json_close(got[k], want[k]) for k in want)
    if isinstance(want, list):
        return isinstance(got, list) and len(got) == len(want) and all(_json_close(g, w) for g, w in zip(got, want))
    if isinstance(want, float):
        return isinstance(got, (int, float)) and not isinstance(got, bool) and float(got) == want
    return type(got) == type(want) and got == want


# --------------------------------------------------------------------------
# decoder reuse: one decoder object serves every element of an expression and every file of a run
# (decodeOperator calls Init per element, the stream evaluator per file): each input must decode as it does alone
# --------------------------------------------------------------------------
REUSE_OPS = {
    "@base64d": {"valid": ["aGk=", "YQ", "YWJj", "eA==\n"], "invalid": ["a*b", "Y"]},
    "@urid": {"valid": ["a+b", "%41%2F", "x", "100%25"], "invalid": ["%zz", "%4"]},
    "from_json": {"valid": ['{"a":1}', "[1,2]", '"s"', "null"], "invalid": ['{"a":', "[1,"]},
    "from_yaml": {"valid": ["a: 1", "- x\n- y", "s", "# c\nk: v\n"], "invalid": ["a: [", "{a"]},
    "from_props": {"valid": ["a = 1", "a.b = x\na.c = y\n", "k:v"], "invalid": ["a = \\u00g1"]},
    "from_csv": {"valid": ["a,b\n1,2\n", "h\nx\n", "a,b\n"], "invalid": ['a,b\n"x,2\n', "a,b\n1\n"]},
    "from_tsv": {"valid": ["a\tb\n1\t2\n", "h\nx\n"], "invalid": ['a\tb\n"x\t2\n']},
    "from_xml": {"valid": ["<a>1</a>", "<r><b>1</b><c>2</c><b>3</b></r>", '<a x="1"/>'], "invalid": ["<a>", "x<a/>"]},
}
REUSE_BLANK = ["", " ", "\n", "  \n"]
REUSE_FILES = {
    "base64": ["aGk=", "YQ"], "uri": ["a+b", "%41"], "json": ['{"a":1}\n', "[1]\n"], "yaml": ["a: 1\n", "- x\n"],
    "props": ["a = 1\n", "b.c = x\n"], "csv": ["a,b\n1,2\n", "h\nx\n"], "tsv": ["a\tb\n1\t2\n", "h\nx\n"],
    "xml": ["<a>1</a>\n", "<r><b>1</b><c>2</c><b>3</b></r>\n"], "toml": ["a = 1\n", "[t]\nb = 2\n"], "lua": ["return {a = 1}\n", 'return {"x", "y"}\n'],
}


def reuse_op_case(op, elems):
    """(good, detail): [.[] | op] on the elements against op on each element alone"""
    reqs = [{"op": "c14_op", "expr": op, "node": S(e)} for e in elems] + [{"op": "c14_op", "expr": "[.[] | %s]" % op, "node": Q([S(e) for e in elems])}]
    resp = vlib.yqh_batch(reqs)
    return reuse_op_judge(resp[:-1], resp[-1])


def reuse_op_judge(alone, comb):
    for r in alone + [comb]:
        if r is None or r.get("panic") or r.get("timeout") or r.get("crash") or r.get("harness_error"):
            return False, "crash: %r" % (r,)
    if all(ok(r) for r in alone):
        want = [n for r in alone for n in r["nodes"]]
        if not (ok(comb) and len(comb["nodes"]) == 1 and comb["nodes"][0]["k"] == "q"):
            return False, "every element decodes alone, the combined expression fails: %r" % (comb.get("err"),)
        if comb["nodes"][0]["c"] != want:
            return False, "combined result differs from the results of the elements alone"
        return True, ""
    if ok(comb):
        return False, "an element fails alone but the combined expression succeeds"
    return True, ""


def reuse_files_case(fmt, texts, workdir):
    d = tempfile.mkdtemp(prefix="c14f_", dir=workdir)
    try:
        names = []
        for i, t in enumerate(texts):
            p = os.path.join(d, "f%d.%s" % (i, "txt"))
            with open(p, "wb") as f:
                f.write(t.encode())
            names.append(p)
        base = ["-p=" + fmt, "-o=json", "-I=0", "."]
        alone = [vlib.run_yq(base + [n]) for n in names]
        comb = vlib.run_yq(base + names)
        if all(a[0] == 0 for a in alone):
            if comb[0] != 0:
                return False, "every file decodes alone, the run over all files fails: %s" % comb[2][:200].decode("utf-8", "replace")
            # a run that reads no document at all prints one null: that is a rule of the run, not of a blank file
            # (whether a blank text is a document of the format is asked of a fresh decoder in the harness: xml says null, json says none)
            blank = [t for t in dict.fromkeys(texts) if t.strip() == ""]
            hr = vlib.yqh_batch([{"op": "eval", "in": fmt, "out": "json", "indent": 0, "expr": ".", "input": t} for t in blank]) if blank else []
            nodoc = {t for t, r in zip(blank, hr) if r is not None and not r.get("err") and vlib.b64d(r.get("out_b64", "")) == b""}
            parts = [b"" if (t in nodoc and a[1] == b"null\n") else a[1] for t, a in zip(texts, alone)]
            want = b"".join(parts) or (b"null\n" if any(a[1] == b"null\n" for a in alone) else b"")
            if comb[1] != want:
                return False, "output of the run over all files %r differs from the outputs of the files alone %r" % (comb[1][:200], want[:200])
            return True, ""
        if comb[0] == 0:
            return False, "a file fails alone but the run over all files succeeds"
        return True, ""
    finally:
        shutil.rmtree(d, ignore_errors=True)


@section
def sec_reuse(cx):
    chk, rng = cx.chk, cx.rng
    from concurrent.futures import ThreadPoolExecutor
    # ---------- in-expression decoders over several elements ----------
    cases = []
    for op, pool in REUSE_OPS.items():
        v = pool["valid"]
        fixed = [["", v[0]], [v[0], "", v[1 % len(v)]], [" ", v[0]], ["\n", v[0], ""], [v[0], v[1 % len(v)]], [v[0], v[0]], [pool["invalid"][0], v[0]], [v[0], pool["invalid"][0], v[0]], ["", ""]]
        for seq in fixed:
            cases.append((op, seq))
        for _ in range(cx.n(6, 80)):
            seq = [rng.choice(v + v + REUSE_BLANK + pool["invalid"][:1]) for _ in range(rng.randrange(2, 5))]
            cases.append((op, seq))
    reqs, index = [], []
    for op, seq in cases:
        start = len(reqs)
        reqs += [{"op": "c14_op", "expr": op, "node": S(e)} for e in seq]
        reqs.append({"op": "c14_op", "expr": "[.[] | %s]" % op, "node": Q([S(e) for e in seq])})
        index.append((start, len(seq)))
    resp = vlib.yqh_parallel(reqs)
    for (op, seq), (start, n) in zip(cases, index):
        good, why = reuse_op_judge(resp[start:start + n], resp[start + n])
        chk.count(("reuseop", op, json.dumps(seq)), nontrivial=any(e.strip() == "" for e in seq) or len(set(seq)) > 1)
        if not good:
            cx.viol("reuseop", {"expr_op": op, "elems": seq, "why": why}, "[.[] | %s] does not decode each element as %s decodes it alone: %s" % (op, op, why))
    # ---------- several files in one run of the real binary ----------
    jobs = []
    for fmt, v in REUSE_FILES.items():
        for seq in ([ "", v[0]], [v[0], "", v[1]], [v[0], v[1]], [v[1], v[0], v[0]], ["\n", v[0]], ["", "", v[1]]):
            jobs.append((fmt, seq))
    with ThreadPoolExecutor(vlib.NCPU) as ex:
        results = list(ex.map(lambda j: reuse_files_case(j[0], j[1], chk.workdir), jobs))
    for (fmt, seq), (good, why) in zip(jobs, results):
        chk.count(("reusefiles", fmt, json.dumps(seq)), nontrivial=True)
        if not good:
            cx.viol("reusefiles", {"fmt": fmt, "files": seq, "why": why}, "yq -p=%s over several files does not decode each file as it does alone: %s" % (fmt, why))
    cx.dist["reuse"] = {"expression_sequences": len(cases), "multi_file_runs": len(jobs)}


def _rp_reuseop(rp):
    return reuse_op_case(rp["expr_op"], rp["elems"])[0]


def _rp_reusefiles(rp):
    os.makedirs(os.path.join(vlib.WORK, "C14"), exist_ok=True)
    return reuse_files_case(rp["fmt"], rp["files"], os.path.join(vlib.WORK, "C14"))[0]


# --------------------------------------------------------------------------
# anchors, aliases and merge keys in the YAML input of every non-YAML encoder: the output must be the output for the
# exploded document, with -o=<fmt> and with the to_<fmt> / @<fmt> operators
# --------------------------------------------------------------------------
def gen_alias_map_doc(rng):
    """a mapping document with anchored maps / scalars / sequences, plain aliases and merge keys (single and list)"""
    lines = ["base: &b", "  restart: always", "  level: %d" % rng.randrange(9)]
    if rng.random() < 0.5:
        lines += ["  env: &e [x, y]"]
    lines += ["other: &c", "  mode: fast", "  level: 7"]
    lines.append("name: &n %s" % rng.choice(["hello", "a b", "v1"]))
    for i in range(rng.randrange(1, 5)):
        kind = rng.choice(["merge", "merge", "mergelist", "alias", "scalar", "nested", "seq"])
        if kind == "merge":
            lines += ["svc%d:" % i, "  <<: *%s" % rng.choice("bc"), "  image: img%d" % i]
        elif kind == "mergelist":
            lines += ["svc%d:" % i, "  <<: [*b, *c]", "  image: img%d" % i]
        elif kind == "alias":
            lines += ["svc%d: *%s" % (i, rng.choice("bc"))]
        elif kind == "scalar":
            lines += ["svc%d: *n" % i]
        elif kind == "nested":
            lines += ["svc%d:" % i, "  inner:", "    <<: *c", "    tag: *n"]
        else:
            lines += ["svc%d: [*n, plain, *n]" % i]
    return "\n".join(lines) + "\n"


def gen_alias_rows_doc(rng):
    """an array of flat objects / of scalar rows using anchors, aliases and merge keys"""
    if rng.random() < 0.6:
        lines = ["- &r {a: 1, b: x}", "- *r"]
        for i in range(rng.randrange(1, 4)):
            lines.append(rng.choice(["- {<<: *r, b: y%d}" % i, "- *r", "- {a: %d, b: &s%d z}" % (i, i)]))
        return "\n".join(lines) + "\n"
    return "- [&s v, *s, w]\n- &row [p, q, r]\n- *row\n"


ALIAS_FMTS = ["props", "xml", "lua", "shell", "json", "toml"]
ALIAS_OPS = ["to_props", "to_xml", "to_json", "@json"]      # (the YAML encoder keeps anchors and aliases by design)
ALIAS_ROW_FMTS = ["csv", "tsv", "json"]
ALIAS_ROW_OPS = ["to_csv", "@csv", "to_tsv", "@tsv", "to_json"]
ALIAS_SCALAR_OPS = ["@base64", "@uri", "@sh", "to_json"]


def alias_pair(text, fmt, pre, op):
    """two requests whose outputs must coincide: the document as it is, and exploded first"""
    suffix = (" | " + op) if op else ""
    mk = lambda e: {"op": "eval", "in": "yaml", "out": fmt, "expr": e, "input": text}
    return mk(pre + suffix if pre != "." or not op else op), mk(("explode(.) | " + pre if pre != "." else "explode(.)") + suffix)


def alias_judge(r1, r2):
    for r in (r1, r2):
        if r is None or r.get("panic") or r.get("timeout") or r.get("crash") or r.get("harness_error"):
            return False, "crash: %r" % (r,)
    if bool(r1.get("err")) != bool(r2.get("err")):
        return False, "one of the two fails: as is %r, exploded first %r" % (r1.get("err"), r2.get("err"))
    if not r1.get("err") and r1.get("out_b64") != r2.get("out_b64"):
        return False, "as is: %r; exploded first: %r" % (vlib.b64d(r1["out_b64"])[:300], vlib.b64d(r2["out_b64"])[:300])
    return True, ""


@section
def sec_alias(cx):
    chk, rng = cx.chk, cx.rng
    cases = []      # (text, fmt, pre, op)
    for _ in range(cx.n(25, 400)):
        t = gen_alias_map_doc(rng)
        for f in ALIAS_FMTS:
            cases.append((t, f, ".", ""))
        for op in ALIAS_OPS:
            cases.append((t, "yaml", ".", op))
        for op in ALIAS_SCALAR_OPS:
            cases.append((t, "yaml", ".svc0 // .name", op))
        cases.append((t, "props", ".svc0 // .base", ""))
    for _ in range(cx.n(15, 200)):
        t = gen_alias_rows_doc(rng)
        for f in ALIAS_ROW_FMTS:
            cases.append((t, f, ".", ""))
        for op in ALIAS_ROW_OPS:
            cases.append((t, "yaml", ".", op))
    cases.append(("common: &common\n  restart: always\nservices:\n  web:\n    <<: *common\n    image: nginx\n", "props", ".", ""))
    cases.append(("common: &common\n  restart: always\nservices:\n  web:\n    <<: *common\n    image: nginx\n", "yaml", ".", "to_props | from_props"))
    reqs = []
    for t, f, pre, op in cases:
        reqs += list(alias_pair(t, f, pre, op))
    resp = vlib.yqh_parallel(reqs)
    for i, (t, f, pre, op) in enumerate(cases):
        good, why = alias_judge(resp[2 * i], resp[2 * i + 1])
        chk.count(("alias", t, f, pre, op), nontrivial=True)
        if not good:
            cx.viol("alias", {"text": t, "fmt": f, "pre": pre, "op_expr": op, "exprs": [reqs[2 * i]["expr"], reqs[2 * i + 1]["expr"]], "why": why},
                    "YAML with anchors / aliases / merge keys: -o=%s %s does not give what it gives for the exploded document: %s" % (f, reqs[2 * i]["expr"], why))
    cx.dist["alias"] = {"cases": len(cases)}


def _rp_alias(rp):
    a, b = alias_pair(rp["text"], rp["fmt"], rp["pre"], rp["op_expr"])
    r = vlib.yqh_batch([a, b])
    return alias_judge(r[0], r[1])[0]


# --------------------------------------------------------------------------
# replay / run
# --------------------------------------------------------------------------
def replay(rp):
    """re-run the one recorded request against the current tree; True when it no longer fails"""
    class _Chk:
        pass
    kind = rp.get("kind", "")
    try:
        if kind == "b64enc":
            s = vlib.b64d(rp["s_b64"])
            r = vlib.yqh_batch([{"op": "c14_enc", "fmt": "base64", "node": S(s)}])[0]
            return ok(r) and base64.b64decode(vlib.b64d(r["out_b64"]), validate=True) == s
        if kind == "b64dec":
            t = vlib.b64d(rp["text_b64"])
            r = vlib.yqh_batch([{"op": "c14_dec", "fmt": "base64", "text_b64": rp["text_b64"]}])[0]
            k, want = b64_text_kind(t)
            return k != "other" and ok(r) and sval(r["node"]) == want
        if kind == "urienc":
            s = vlib.b64d(rp["s_b64"])
            r = vlib.yqh_batch([{"op": "c14_enc", "fmt": "uri", "node": S(s)}])[0]
            return ok(r) and urllib.parse.unquote_to_bytes(vlib.b64d(r["out_b64"]).replace(b"+", b" ")) == s
        if kind == "uridec":
            t = vlib.b64d(rp["text_b64"])
            r = vlib.yqh_batch([{"op": "c14_dec", "fmt": "uri", "text_b64": rp["text_b64"]}])[0]
            if "want_b64" in rp:
                return ok(r) and sval(r["node"]) == vlib.b64d(rp["want_b64"])
            return not ok(r)
        if kind == "nonstring":
            r = vlib.yqh_batch([{"op": "c14_enc", "fmt": rp["fmt"], "node": rp["node"]}])[0]
            return failed_cleanly(r)
        if kind in ("b64op", "uriop"):
            r = vlib.yqh_batch([{"op": "c14_op", "expr": rp["expr"], "node": rp["node"]}])[0]
            if "want_b64" in rp:
                return ok(r) and len(r["nodes"]) == 1 and sval(r["nodes"][0]) == vlib.b64d(rp["want_b64"])
            return ok(r)
        f = REPLAYERS.get(kind)
        if f:
            return f(rp)
    except Exception:
        return False
    return False


def _one(req):
    return vlib.yqh_batch([req])[0]


def _rp_csvenc(rp):
    r = _one({"op": "c14_enc", "fmt": rp["fmt"], "sep": rp["sep"], "node": Q([Q([S(f) for f in row]) for row in rp["rows"]])})
    return ok(r) and py_csv_read(vlib.b64d(r["out_b64"]).decode("utf-8"), rp["sep"]) == rp["rows"]


def _rp_csvdec(rp):
    r = _one({"op": "c14_dec", "fmt": rp["fmt"], "sep": rp["sep"], "csv_auto": False, "text_b64": rp["text_b64"]})
    if "want" not in rp:
        return r is not None and not r.get("panic") and not r.get("crash") and not r.get("timeout")
    want = rp["want"]
    header, body = list(want[0]), want[1:]
    if vlib.b64d(rp["text_b64"]).startswith(b"\xef\xbb\xbf") and header[0].startswith("\ufeff"):
        header[0] = header[0][1:]
    exp = [[x.encode() for pair in zip(header, row) for x in pair] for row in body]
    return ok(r) and objs_from_dump(r["node"]) == exp


def _rp_csvobj(rp):
    d = rp["doc"]
    r = _one({"op": "c14_enc", "fmt": rp["fmt"], "sep": rp["sep"], "node": to_node(d)})
    if not (len(d) > 0 and all(isinstance(o, dict) for o in d)):
        return r is not None and not r.get("panic") and not r.get("crash")
    if not all(isinstance(v, str) for o in d for v in o.values()):
        return failed_cleanly(r)
    hdr = list(d[0].keys())
    want = [hdr] + [[o.get(k, "") for k in hdr] for o in d]
    if any(k not in hdr for o in d for k in o):
        return False            # the recorded extra-key loss still stands unless the encoder reports it
    return ok(r) and py_csv_read(vlib.b64d(r["out_b64"]).decode("utf-8"), rp["sep"]) == want


def _rp_csvop(rp):
    sep = "\t" if "tsv" in rp["expr"] else ","
    r = _one({"op": "c14_op", "expr": rp["expr"], "node": Q([S(f) for f in rp["row"]])})
    return ok(r) and len(r["nodes"]) == 1 and py_csv_read(sval(r["nodes"][0]).decode("utf-8"), sep) == [rp["row"]]


def _rp_propsenc(rp):
    d = rp["doc"]
    r = _one({"op": "c14_enc", "fmt": "props", "props_sep": rp["sep"], "props_brackets": rp["brackets"], "node": to_node(d)})
    want = {}
    for k, v in props_flatten(d, "", rp["brackets"]):
        want[k] = v
    return ok(r) and java_props_read(vlib.b64d(r["out_b64"]).decode("utf-8")) == [(k, v) for k, v in want.items() if k != ""]


def _rp_propsdec(rp):
    r = _one({"op": "c14_dec", "fmt": "props", "text_b64": rp["text_b64"]})
    if "want" not in rp:
        return r is not None and not r.get("panic") and not r.get("crash")
    return ok(r) and from_node(r["node"], typed=False) == rp["want"]


def _rp_xmlenc(rp):
    r = _one({"op": "c14_enc", "fmt": "xml", "xml_attr": rp["attr_prefix"], "xml_content": rp["content_name"], "indent": rp.get("indent", 2), "node": rp["node"]})
    return ok(r) and jnorm(et_to_elem(ET.fromstring(vlib.b64d(r["out_b64"]).decode("utf-8")))) == jnorm(elem_norm(rp["elem"]))


def _rp_xmldec(rp):
    r = _one({"op": "c14_dec", "fmt": "xml", "xml_attr": rp["attr_prefix"], "xml_content": rp["content_name"], "text_b64": rp["text_b64"]})
    return ok(r) and from_node(r["node"]) == rp["want"]


def _rp_xmlop(rp):
    e = rp["elem"]
    ap, cn = rp["attr_prefix"], rp["content_name"]
    r = _one({"op": "c14_op", "expr": "to_xml | from_xml", "xml_attr": ap, "xml_content": cn, "node": M([(e[0], xml_value_node(e, ap, cn))])})
    return ok(r) and len(r["nodes"]) == 1 and from_node(r["nodes"][0]) == rp["want"]


def _rp_tomldec(rp):
    t = vlib.b64d(rp["text_b64"]).decode("utf-8")
    r = _one({"op": "c14_dec", "fmt": "toml", "text_b64": rp["text_b64"]})
    want = tomllib.loads(t)
    return ok(r) and r.get("node") is not None and toml_same(from_node(r["node"]), want)


def _rp_tomlenc(rp):
    r = _one({"op": "c14_enc", "fmt": "toml", "node": rp["node"]})
    return (ok(r) and vlib.b64d(r["out_b64"]) == sval(rp["node"]) + b"\n") if rp["node"]["k"] == "s" else failed_cleanly(r)


def _rp_luaenc(rp):
    r = _one(dict({"op": "c14_enc", "fmt": "lua", "node": rp["tree"]}, **rp.get("cfg", {})))
    return ok(r) and lua_same(lua_read(vlib.b64d(r["out_b64"])), lua_from_node(rp["tree"]))


def _rp_luadec(rp):
    t = vlib.b64d(rp["text_b64"])
    r = _one({"op": "c14_dec", "fmt": "lua", "text_b64": rp["text_b64"]})
    return ok(r) and r.get("node") is not None and lua_same(lua_from_node(r["node"]), lua_read(t))


def _rp_pairop(rp):
    r = _one({"op": "c14_op", "expr": rp["expr"], "node": rp["node"]})
    if not (ok(r) and len(r.get("nodes", [])) == 1):
        return False
    if rp["expr"] == "to_json(0)":
        return json.loads(sval(r["nodes"][0])) == rp["want"]
    return from_node(r["nodes"][0]) == rp["want"]


def _rp_cli(rp):
    good, rc, out, err = cli_run((rp["label"], rp["args"], vlib.b64d(rp["stdin_b64"]), rp["reader"], rp["expected"]))
    return good


REPLAYERS = {"csvenc": _rp_csvenc, "csvdec": _rp_csvdec, "csvobj": _rp_csvobj, "csvop": _rp_csvop, "propsenc": _rp_propsenc, "propsdec": _rp_propsdec,
             "xmlenc": _rp_xmlenc, "xmldec": _rp_xmldec, "xmlop": _rp_xmlop, "tomldec": _rp_tomldec, "tomlenc": _rp_tomlenc, "luaenc": _rp_luaenc,
             "luadec": _rp_luadec, "pairop": _rp_pairop, "cli": _rp_cli, "reuseop": _rp_reuseop, "reusefiles": _rp_reusefiles, "alias": _rp_alias}


def run(chk):
    cx = Ctx(chk)
    proved, plog = chk.prove("Props/C14.v", clean=False)
    if not proved:
        cx.broken.append("proof obligations of Props/C14.v do not check: " + plog[-800:])
    import time
    for sec in sections:
        try:
            t0 = time.time()
            sec(cx)
            cx.dist.setdefault("wall_s", {})[sec.__name__] = round(time.time() - t0, 1)
            vlib.log("  %s: %.1fs" % (sec.__name__, time.time() - t0))
        except Exception as e:      # a crash of the checker itself is a broken tie, never silence
            import traceback
            cx.broken.append("section %s raised %s: %s" % (sec.__name__, type(e).__name__, traceback.format_exc()[-600:]))
    if cx.disagree and not chk.violations:
        d = cx.disagree[0]
        chk.violation({"kind": "correspondence", "broken": d[0], "input": d[1], "impl": repr(d[2]), "model": repr(d[3]), "count": len(cx.disagree),
                       "all": sorted(set(x[0] for x in cx.disagree))},
                      False, "model and implementation disagree (%d cases, first: %s) but every independent reader still agrees with yq" % (len(cx.disagree), d[0]))
    if cx.broken and not chk.violations:
        chk.violation({"kind": "obligation", "broken": cx.broken}, False, "; ".join(cx.broken)[:600])
    chk.extra["distribution"] = cx.dist
    chk.extra["correspondence_disagreements"] = len(cx.disagree)
    chk.extra["violations_by_kind"] = cx.nviol
    return chk.finish(
        checker_cmd="make -C coq Props/C14.vo (coqc 8.16.1, full .vo) + coqc work/C14/*_N.v (vm_compute)",
        rule=RULE,
        trusted=vlib.COMMON_TRUSTED + TRUSTED,
        assumptions=ASSUMPTIONS)


RULE = ("base64/URI: every single byte, all short lengths, boundary patterns and seeded random byte strings, both directions (ground truth written by "
        "python's base64 / urllib, incl. unpadded, line-wrapped and malformed text); CSV/TSV: rows and objects over fields with separators, quotes, CR, LF, "
        "leading blanks, unicode, 5 separators, ground truth written by an RFC 4180 writer here (LF / CRLF / quote-all), yq's output read by python's csv; "
        "properties: flat maps and nested trees with = : # ! blanks backslashes unicode, java.util.Properties-style reader and writer written here; "
        "XML: element trees with attributes, text, repeated children, 3 attribute-prefix / content-name settings, xml.etree as reader, own writer (entities, CDATA, "
        "character references); TOML: generated documents (typed scalars, dotted keys, tables, arrays of tables, inline tables) with tomllib as the reference reader; "
        "Lua: trees with all byte values in strings and keyword / non-identifier keys, a Lua data reader and writer written here; in-expression pairs; "
        "decoder reuse: every in-expression decoder over several elements of one expression (blank, invalid-then-valid) and multi-file runs of the binary "
        "with blank files, each input judged against its decoding alone; XML texts with same-named siblings separated by other elements at every depth; a sample "
        "of each through the real binary with its command line flags. A case is non-trivial when the codec had to quote / escape / nest (per section); distinct by input.")
TRUSTED = [
    "Spec/Codecs.v (hand-written: form-urlencoded grammar and denotation, RFC 4180 field denotation, Lua short-string lexer and Name, the stated domains)",
    "python3 stdlib readers used as independent oracles (base64, urllib.parse, csv, xml.etree, tomllib) and the small java.util.Properties / RFC 4180 / Lua "
    "data readers and writers in checks/props/c14.py",
    "strings are byte lists: exact for valid UTF-8; Go substitutes U+FFFD on invalid UTF-8 in the properties writer (outside the model and the generators)",
    "Go's stream base64 decoder works in blocks of the buffered text; the model follows the block structure for one read (texts below 680 characters); "
    "longer malformed texts with interior pad characters are outside the model",
    "library contracts, tested not proved: encoding/xml tokenizer and escaper, go-toml/v2 unstable parser, gopher-lua VM, "
    "the YAML snippet parser that re-types CSV / properties scalars, utfbom for UTF-16/32 marks, trimNonGraphic's unicode tables (ASCII trimming in the XML model runs)",
    "modelled, not verified: the CSV separator is one byte below 128; properties comments, UnwrapScalar=false quoting and unicode literals above U+FFFF are not modelled",
]
ASSUMPTIONS = ["correspondence is sampled; the unbounded claims are the Coq theorems over the models",
               "XML and TOML are modelled above the library tokenizer / parser (token and expression streams come from encoding/xml and go-toml themselves); "
               "the Lua decoder has no Coq model: for it the result rests on the differential tests against independent readers only"]
