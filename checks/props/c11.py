"""C11 — every input is answered with a result or an error, never a crash or a hang.

PARTIAL by design.  Decided by:
 * theorems Props/C11.v over Model/Bounds.v: for yq's own index/bounds logic
   (slice bounds, index padding, collect-object rotation, repeat limits,
   first-result accesses) `guard -> no panic` with the guard the
   exact complement of the panic condition, termination of the glob matcher on
   explicit fuel with a sufficiency lemma, termination of alias following on
   acyclic graphs, and one `_refuted` witness per site the model shows reachable;
 * checks/props/c11_sites.json: inventory of the syntactically possible panic
   sites of pkg/yqlib (reachable with input / believed unreachable with reason),
   tied to the source on every run;
 * correspondence of outcome class (ok / err / panic site) and value between the
   model and the implementation for every modelled function;
 * search (the direct oracle): three expression streams x generated documents
   and, per input format, valid/truncated/corrupted/deep/arbitrary inputs x
   output formats through the yqh op `c11` (the `eval` op under recover(), a
   deadline and a memory watchdog).  Any panic / timeout / crash that is not a
   recorded finding is a violation with the input as replay.
"""
import base64, json, os, re, resource, shutil, subprocess, tempfile
from concurrent.futures import ThreadPoolExecutor
import vlib

# ----------------------------------------------------------------------------
# expressions
# ----------------------------------------------------------------------------
KEYS = ["a", "b", "c", "x", "k", "name", "a b", "0", "<<", "*", "a*", "?", ""]
SMALL_INTS = [0, 1, 2, 3, -1, -2, -3, 5, -5, 7, 10, -10, 100, -100]
STRS = ['"!!null"', '"!!seq"', '"x"', '""', '"a"', '"b"', '"a b"', '"0"', '"1"', '"x*"', '"*"', '"a,b"', '"2001-01-01"', '"[1,2"', '"a: 1"', '"<a>1</a>"',
        '"YQ=="', '"%zz"', '"(a"', '"(?P<n>a)"', '"\\\\"', '"\\n"', '"true"', '"null"', '"!!int"', '"!!str"', '"!!map"', '"!x"',
        '"flow"', '"double"', '"single"', '"literal"', '"folded"', '"tagged"', '"bogus"', '"g"', '"1e400"', '"0x1G"', '"9223372036854775808"']
NUMS = ["0", "1", "2", "-1", "-2", "3", "5", "-5", "1.5", "-0.5", "1e3", "1e400", "0x10", "0xFF", "0", "7", "100", "-100",
        "9223372036854775807", "-9223372036854775808", "4294967296", "0.0", "-0"]

# operators that take no argument (used as  e | op)
NULLARY = ["((.x | select(false)), .)", "alias = \"x\"", "tag = \"!!null\"", ". - .", "eval(.a)", ".a = 1", ".b = .d", "length", "keys", "sort", "reverse", "unique", "flatten", "flatten(0)", "flatten(1)", "flatten(2)", "to_entries",
           "from_entries", "explode(.)", "not", "tag", "type", "kind", "style", "anchor", "alias", "key", "path", "parent",
           "parent(0)", "parent(2)", "parent(9)", "line", "column", "to_number", "to_string", "trim", "upcase", "downcase",
           "ascii_downcase", "to_json", "to_json(0)", "@json", "from_json", "to_yaml", "to_yaml(3)", "@yaml", "from_yaml",
           "@base64", "@base64d", "@uri", "@urid", "@sh", "@csv", "@tsv", "to_csv", "to_tsv", "@xml", "to_xml", "to_xml(1)",
           "@props", "to_props", "from_xml", "@xmld", "from_props", "@propsd", "from_csv", "@csvd", "from_tsv", "@tsvd",
           "sort_keys(.)", "sort_keys(..)", "min", "max", "any", "all", "split_doc", "document_index", "di", "file_index", "fi",
           "filename", "collect", "pivot", "envsubst", "envsubst(ne)", "envsubst(nu,ff)", "to_unix", "from_unix", "line_comment",
           "head_comment", "foot_comment", "array_to_map", "is_key", "..", "...", ".[]", ".[]?", "[.]", "{}", "[]", "keys | .[0]",
           "to_entries | .[0]", "first", "strenv(HOME)", "env(HOME)", "env(C11_UNSET)", "del(.[0])", "del(.a)", "del(..)",
           "with_entries(.)", "map(.)", "map_values(.)", "splitDoc", "sortKeys(.)", "tz(\"UTC\")", "format_datetime(\"2006\")",
           "kind", "ascii_upcase", "to_entries | from_entries", "comments = \"c\"", "comments |= .", "eval(.)", "error(.)"]
# operators taking one expression argument:  op(e)
UNARY_FN = ["select", "map", "map_values", "filter", "pick", "omit", "has", "unique_by", "group_by", "sort_by", "any_c", "all_c",
            "contains", "split", "join", "match", "capture", "test", "del", "delpaths", "del_paths", "with_entries", "eval", "path",
            "explode", "sort_keys", "tz", "format_datetime", "error", "from_unix | tz", "min | has", "flatten | select", "keys | map",
            "to_entries | map", "collect", "sort_by", "group_by"]
# two arguments separated by ;
BINARY_FN = ["sub", "with", "setpath", "set_path", "match", "test", "capture", "with_dtf", "ireduce_dummy"]
INFIX = ["|", "|", "|", ",", "+", "-", "*", "/", "%", "==", "!=", "<", "<=", ">", ">=", "and", "or", "//", "=", "|=", "+=", "-=",
         "*=", "*+", "*d", "*n", "*?", "*c", "*+d?", "=c", "|=c", "*=+"]
ASSIGNABLE = ["style", "tag", "type", "anchor", "alias", "line_comment", "head_comment", "foot_comment"]


NUMPARAM_FNS = ["flatten", "parent", "to_json", "to_yaml", "to_xml", "tojson", "toyaml", "toxml"]
NUMPARAM_WS = ["", " ", "\t", "\n", "  ", " \t "]
NUMPARAM_NUMS = ["0", "1", "2", "7", "", "-1", "+1", "007", "1.5", "1e3", "0x1", "1_0", "99999999999", "99999999999999999999", "18446744073709551616", "1 2", "a"]


def g_numparam(rng):
    """name(<blanks>number<blanks>) : the lexer rules with an embedded number."""
    return "%s(%s%s%s)" % (rng.choice(NUMPARAM_FNS), rng.choice(NUMPARAM_WS), rng.choice(NUMPARAM_NUMS), rng.choice(NUMPARAM_WS))


def numparam_all():
    out = []
    for fn in NUMPARAM_FNS[:5]:
        for a in NUMPARAM_WS[:4]:
            for n in NUMPARAM_NUMS:
                for b in NUMPARAM_WS[:4]:
                    out.append("%s(%s%s%s)" % (fn, a, n, b))
    return out


def g_key(rng):
    return rng.choice(KEYS)


def g_num(rng):
    if rng.random() < 0.7:
        return str(rng.choice(SMALL_INTS))
    return rng.choice(NUMS)


def g_path(rng):
    parts = []
    for _ in range(rng.choice([1, 1, 1, 2, 2, 3])):
        r = rng.random()
        if r < 0.35:
            k = g_key(rng)
            if not k.isalnum():
                parts.append('.["%s"]' % k)
            else:
                parts.append("." + k)
        elif r < 0.45:
            parts.append('.["%s"]' % g_key(rng))
        elif r < 0.62:
            parts.append(".[%s]" % g_num(rng))
        elif r < 0.72:
            parts.append(".[]")
        elif r < 0.86:
            a = g_num(rng) if rng.random() < 0.8 else ""
            b = g_num(rng) if rng.random() < 0.8 else ""
            parts.append(".[%s:%s]" % (a, b))
        elif r < 0.90:
            parts.append(".[%s, %s]" % (g_num(rng), g_num(rng)))
        elif r < 0.94:
            parts.append(".%s?" % rng.choice(["a", "b", "x"]))
        elif r < 0.97:
            parts.append("..")
        else:
            parts.append("...")
    s = "".join(parts)
    # a[...] directly after a name is also legal (.a[0]); make it appear
    if rng.random() < 0.3:
        s = s.replace(".[", "[", 1) if not s.startswith(".[") else s
    return s


def g_literal(rng, depth):
    r = rng.random()
    if r < 0.3:
        return g_num(rng)
    if r < 0.55:
        return rng.choice(STRS)
    if r < 0.65:
        return rng.choice(["true", "false", "null", "~", "True", "NULL"])
    if r < 0.72:
        return rng.choice(["[]", "{}"])
    if r < 0.86:
        return "[" + ", ".join(g_expr(rng, depth + 1) for _ in range(rng.randrange(1, 4))) + "]"
    n = rng.randrange(1, 3)
    items = []
    for _ in range(n):
        kr = rng.random()
        if kr < 0.4:
            k = rng.choice(["a", "b", "c"])
        elif kr < 0.6:
            k = rng.choice(STRS)
        elif kr < 0.8:
            k = "(" + g_expr(rng, depth + 1) + ")"
        else:
            k = g_path(rng)
        if rng.random() < 0.1:
            items.append(k)
        else:
            items.append(k + ": " + g_expr(rng, depth + 1))
    return "{" + ", ".join(items) + "}"


def g_expr(rng, depth=0):
    r = rng.random()
    if depth >= 4:
        r = r * 0.45
    if r < 0.22:
        return g_path(rng)
    if r < 0.36:
        return g_literal(rng, depth)
    if r < 0.43:
        return rng.choice(NULLARY)
    if r < 0.45:
        return g_numparam(rng)
    if r < 0.52:
        return rng.choice(["$x", "$i", ".", ".", "$__yq_undefined"])
    if r < 0.66:
        return "%s | %s" % (g_expr(rng, depth + 1), rng.choice(NULLARY))
    if r < 0.76:
        fn = rng.choice(UNARY_FN)
        return "%s(%s)" % (fn, g_expr(rng, depth + 1))
    if r < 0.80:
        fn = rng.choice(BINARY_FN)
        if fn == "ireduce_dummy":
            return "%s as $i ireduce (%s; %s)" % (g_expr(rng, depth + 1), g_expr(rng, depth + 1), g_expr(rng, depth + 1))
        return "%s(%s; %s)" % (fn, g_expr(rng, depth + 1), g_expr(rng, depth + 1))
    if r < 0.93:
        op = rng.choice(INFIX)
        return "%s %s %s" % (g_expr(rng, depth + 1), op, g_expr(rng, depth + 1))
    if r < 0.95:
        return "(%s)" % g_expr(rng, depth + 1)
    if r < 0.97:
        return "%s %s $x | %s" % (g_expr(rng, depth + 1), rng.choice(["as", "ref"]), g_expr(rng, depth + 1))
    if r < 0.985:
        return "%s | %s %s %s" % (g_path(rng), rng.choice(ASSIGNABLE), rng.choice(["=", "|="]), g_expr(rng, depth + 1))
    return "%s | %s" % (g_path(rng), rng.choice(ASSIGNABLE))


TOKENS = ([".", "..", "...", "[", "]", "]?", ".[", "{", "}", "(", ")", ":", ";", ",", "|", "|=", "=", "+=", "-=", "*=", "+", "-", "*",
           "/", "%", "//", "==", "!=", "<", ">", "<=", ">=", "?", "$x", "as", "ref", "\"", "'", "#", " ", "\t", "\n", "!", "@", "~",
           "and", "or", "not", ".a", ".b", ".[0]", ".[-1]", ".[1:]", ".[:1]", "*+", "*d", "0", "1", "-1", "0x", "1e", "1.", "e9"]
          + [n.split("(")[0] for n in NULLARY if n.isidentifier() or "(" in n] + UNARY_FN[:24] + BINARY_FN[:8])


def mutate(rng, s):
    """1-4 edits: drop/duplicate/replace/insert a character or a token, splice, truncate."""
    for _ in range(rng.choice([1, 1, 2, 3, 4])):
        if not s:
            s = rng.choice(TOKENS)
            continue
        k = rng.randrange(9)
        i = rng.randrange(len(s))
        j = min(len(s), i + rng.choice([1, 1, 2, 3, 5]))
        if k == 0:
            s = s[:i] + s[j:]
        elif k == 1:
            s = s[:i] + s[i:j] + s[i:]
        elif k == 2:
            s = s[:i] + rng.choice(TOKENS) + s[j:]
        elif k == 3:
            s = s[:i] + rng.choice(TOKENS) + s[i:]
        elif k == 4:
            s = s[:i]
        elif k == 5:
            s = s[i:]
        elif k == 6:
            s = s[:i] + chr(rng.choice([0, 9, 10, 13, 32, 34, 39, 40, 41, 46, 58, 91, 92, 93, 123, 125, 127, 0xe9, 0x4e2d])) + s[i:]
        elif k == 7:
            t = g_expr(rng, 3)
            s = s[:i] + t + s[j:]
        else:
            a, b = sorted((i, rng.randrange(len(s))))
            s = s[:a] + s[b:] + s[a:b]
    return s


def arbitrary_expr(rng):
    r = rng.random()
    n = rng.choice([0, 1, 2, 3, 5, 8, 13, 21, 40])
    if r < 0.35:
        return bytes(rng.randrange(256) for _ in range(n))
    if r < 0.6:
        return bytes(rng.randrange(32, 127) for _ in range(n))
    return "".join(rng.choice(TOKENS) for _ in range(n)).encode()


# expressions that read files / the clock / the random generator are outside the
# deterministic search (they cannot make the outcome class reproducible)
EXCLUDED_WORDS = ("load", "shuffle", "now", "split_doc_to_file")


def excluded(expr_bytes):
    low = expr_bytes.lower()
    return any(w.encode() in low for w in EXCLUDED_WORDS)


# ----------------------------------------------------------------------------
# YAML documents
# ----------------------------------------------------------------------------
SCALARS = ["1", "2", "0", "-3", "1.5", "0x10", "0o7", "1e3", "true", "false", "null", "~", "a", "b", "cat", "a b", "''", '"q"',
           "2001-01-01", "2001-12-14T21:59:43Z", ".inf", ".nan", "1_000", "!!int abc", "!!float x", "!!str 1", "!!bool maybe",
           "!custom 5", "!custom str", "!!timestamp nope", "!!null x", "!!binary YQ==", "9223372036854775808", "<<", "'*'", "",
           "!!int 0x1G", "!!int 1.5", "'x y'", "|\n%s  lit\n", ">\n%s  fold\n", "!!merge x"]


def y_node(rng, depth, ind, anchors):
    """Returns YAML block text for a node at indentation ind (text starts inline after 'key: ' or '- ')."""
    r = rng.random()
    pad = "  " * ind
    if depth >= 3 or r < 0.4:
        if anchors and rng.random() < 0.15:
            return "*" + rng.choice(anchors) + "\n"
        s = rng.choice(SCALARS)
        if "%s" in s:
            s = s % pad
            return s
        if rng.random() < 0.12:
            a = "n%d" % len(anchors)
            anchors.append(a)
            s = "&" + a + " " + s
        if rng.random() < 0.1:
            s += " # lc"
        return s + "\n"
    pre = ""
    if rng.random() < 0.15:
        a = "n%d" % len(anchors)
        pre = "&" + a + " "
    if rng.random() < 0.08:
        pre += rng.choice(["!!map ", "!!seq ", "!t ", "!!set ", "!!omap "])
    if r < 0.48:
        out = pre + rng.choice(["[]", "{}", "[1, 2]", "{a: 1}", "[[1], [2, 3]]", "[a, {b: c}]", "{a: [1], b: {c: d}}"]) + "\n"
        if pre.startswith("&"):
            anchors.append(a)
        return out
    if r < 0.72:
        n = rng.randrange(1, 4)
        out = pre + "\n"
        for _ in range(n):
            if rng.random() < 0.1:
                out += pad + "# hc\n"
            out += pad + "- " + y_node(rng, depth + 1, ind + 1, anchors)
        if pre.startswith("&"):
            anchors.append(a)
        return out
    n = rng.randrange(1, 4)
    out = pre + "\n"
    used = set()
    for _ in range(n):
        k = rng.choice(["a", "b", "c", "x", "k", "name", "0", "1", "'a b'", "? [1]\n" + pad + "", "1.5", "true", "null", "!!str 5"])
        if k in used and rng.random() < 0.8:
            continue
        used.add(k)
        if anchors and rng.random() < 0.12:
            tgt = rng.choice(anchors)
            if rng.random() < 0.5:
                out += pad + "<<: *" + tgt + "\n"
            else:
                out += pad + "<<: [*" + tgt + ", *" + rng.choice(anchors) + "]\n"
            continue
        if k.startswith("?"):
            out += pad + "? [1]\n" + pad + ": " + y_node(rng, depth + 1, ind + 1, anchors)
        else:
            out += pad + k + ": " + y_node(rng, depth + 1, ind + 1, anchors)
    if pre.startswith("&"):
        anchors.append(a)
    return out


FIXED_DOCS = ["!!null [1]\n", "!!null [1,2,3]\n", "- !!map [1]\n", "!!map [1]\n", "a: &a [*a, *a]\n", "b: &x {c: 1}\nd: *x\n", "a: &a {<<: *a}\n",
              "b: &x {c: {<<: *x}}\n", "a: eval(.a)\n", "!!null [\"<<\"]\n", "- &a [1]\n- <<: *a\n", "", "\n", "null\n", "~\n", "[]\n", "{}\n", "[1,2]\n", "a: 1\n", "a: {b: [1, 2, {c: 3}]}\n", "- 1\n- [2, 3]\n- a: b\n",
              "a: &x {b: 1}\nc: *x\nd:\n  <<: *x\n  e: 2\n", "a: &x [1,2]\nb:\n  <<: *x\n", "a: &x 1\nb:\n  <<: *x\n",
              "a: &x {b: 1}\nl:\n  <<: [*x, *x]\n", "--- 1\n--- 2\n", "---\n---\n", "# only a comment\n", "a: 1\n---\nb: 2\n...\n",
              "[!!int abc, 1]\n", "[0x10, 1.5]\n", "[!!int 1.5, 2]\n", "[1, !!float x]\n", "[[1,2],[3]]\n", "[{a: 1, b: 2}, {a: 3}]\n",
              "? [a, b]\n: 1\n", "a: !!binary YQ==\n", "- &a [*a]\n", "a: &a\n  b: *a\n", "\"\\x00\"\n", "'a': \"b\"\n", "a: |\n  x\n  y\n",
              "a: 2001-01-01\nb: 2001-12-14T21:59:43.10-05:00\n", "k: v\nk: w\n", "[1, [2, [3, [4, [5]]]]]\n", "9223372036854775807\n",
              "-9223372036854775808\n", "x: .inf\ny: -.inf\nz: .nan\n", "%YAML 1.1\n---\na: 1\n", "\ufeffa: 1\n", "a: 1 # c\n# foot\n"]


def yaml_doc(rng):
    if rng.random() < 0.25:
        return rng.choice(FIXED_DOCS)
    anchors = []
    ndocs = rng.choice([1, 1, 1, 1, 2])
    out = ""
    for i in range(ndocs):
        if ndocs > 1 or rng.random() < 0.1:
            out += "---\n"
        if rng.random() < 0.1:
            out += "# head\n"
        body = y_node(rng, 0, 0, anchors)
        if body.startswith("\n"):
            body = body[1:]
        out += body
    return out


# ----------------------------------------------------------------------------
# inputs per format
# ----------------------------------------------------------------------------
def _j(rng, depth=0):
    import json
    r = rng.random()
    if depth >= 3 or r < 0.4:
        return rng.choice([0, 1, -1, 1.5, 1e300, True, False, None, "", "a", "a b", "\u00e9", "<x>", "a,b", "a\tb", "a\nb", 2**53 + 1, -2**63,
                           "=", "#", "[", "é", "1", "true"])
    if r < 0.7:
        return [_j(rng, depth + 1) for _ in range(rng.randrange(0, 4))]
    return {rng.choice(["a", "b", "c", "+@x", "+content", "+p_x", "+directive", "a.b", "a b", "", "0", "k[0]", "<", "x:y"]): _j(rng, depth + 1)
            for _ in range(rng.randrange(0, 4))}


LONG_TEXTS = ["Les élèves étudient déjà à l'école où ça a été créé, près de la forêt âgée.",
              "Die Größe der Straße überrascht die Mädchen, während Äpfel über die Brücke rollen.",
              "これは十二文字以上の日本語のテキストですよ", "中文字符测试一二三四五六七八九十百千", "é" * 40, "日本" * 20, "ü" + "a" * 60 + "ß",
              "\u200b\u00a0 Überraschung für alle Mädchen und Söhne \u200b\t", "\x01\x02 ça marche très bien, n'est-ce pas mon ami ? \x7f\x00",
              "😀😀😀😀😀😀😀😀😀😀😀😀", "\ufeffÅngström ǅ ﬁ ﬂ ẞ ΐ — long dash text here, enough bytes"]


def multibyte_input(fmt, t):
    """A valid input of the format whose character data is the (long, multi-byte) text t."""
    import json
    t2 = t.replace("\x00", "").replace("\x01", "").replace("\x02", "")
    if fmt == "xml":
        esc = t2.replace("&", "&amp;").replace("<", "&lt;")
        return ("<a x=\"%s\">\n  %s\n<b>%s</b><!-- %s --></a>" % (esc.replace('"', ""), esc, esc, esc.replace("--", ""))).encode()
    if fmt == "json":
        return json.dumps({"k": t, t2[:20]: [t]}, ensure_ascii=False).encode()
    if fmt == "yaml":
        return ("k: %s\n# %s\n" % (json.dumps(t2, ensure_ascii=False), t2.replace("\n", " "))).encode()
    if fmt == "toml":
        return ("k = %s\n" % json.dumps(t2, ensure_ascii=False)).encode()
    if fmt in ("csv", "tsv"):
        sep = "," if fmt == "csv" else "\t"
        return ("a%sb\n%s%s1\n" % (sep, t2.replace(",", " ").replace("\t", " ").replace('"', ""), sep)).encode()
    if fmt == "props":
        return ("k = %s\n%s = 1\n" % (t2, t2[:12].replace(" ", "_").replace("=", ""))).encode()
    if fmt == "lua":
        return ("return {k = %s}" % json.dumps(t2, ensure_ascii=True)).encode()
    if fmt == "base64":
        return base64.b64encode(t.encode()) 
    if fmt == "uri":
        import urllib.parse
        return urllib.parse.quote(t).encode()
    return t.encode()


def valid_input(rng, fmt):
    import json
    if fmt == "yaml":
        return yaml_doc(rng).encode()
    if fmt == "json":
        if rng.random() < 0.2:
            return rng.choice([b"", b" ", b"1 2 3", b"{}\n[]\n", b"[1e999]", b"[-0]", b"\"\\ud800\"", b"{\"a\":1,\"a\":2}", b"[1.0000000000000000000001]",
                               b"123456789012345678901234567890", b"{\"a\":{\"b\":{\"c\":[]}}}", b"null", b"\xef\xbb\xbf{}"])
        return json.dumps(_j(rng)).encode()
    if fmt == "xml":
        return rng.choice([
            b"<a>1</a>", b"<a x=\"1\"><b>2</b><b>3</b></a>", b"<?xml version=\"1.0\"?><a/>", b"<a><!-- c --><b/></a>", b"<a>t<b/>u</a>",
            b"<!DOCTYPE a><a/>", b"<a xmlns:x=\"u\"><x:b x:c=\"1\"/></a>", b"<a><![CDATA[x]]></a>", b"<a>&amp;&#65;</a>", b"<a/><b/>", b"",
            b"<!-- only --> ", b"<?pi x?>", b"<a x=\"1\" x=\"2\"/>", b"<a><b><c><d>1</d></c></b></a>", b"<a> </a>", b"text", b"<a>1</a><!-- after -->",
            b"<?xml version=\"1.0\"?>\n<!-- before -->\n<a>1</a>", b"<a b=\"\"></a>", b"<a><b/>x<!-- c -->y</a>"])
    if fmt == "toml":
        return rng.choice([
            b"a = 1\n", b"[t]\na = 1\nb = \"x\"\n", b"[[arr]]\na = 1\n[[arr]]\na = 2\n", b"a.b.c = 1\n", b"a = [1, [2, 3]]\n", b"a = {b = 1, c = {d = 2}}\n",
            b"d = 1979-05-27T07:32:00Z\n", b"d = 1979-05-27\nt = 07:32:00\n", b"f = 1.5\ni = 0x10\nb = true\n", b"s = '''\nx\n'''\n", b"", b"# c\n",
            b"[a]\n[a.b]\n[a.b.c]\nx = 1\n", b"a = 1\na = 2\n", b"[a]\nx = 1\n[a]\ny = 2\n", b"a = []\n", b"a = [{b = 1}, {b = 2}]\n", b"[[a.b]]\nc = 1\n",
            b"a = inf\nb = nan\n", b"\"a b\" = 1\n", b"[t]\n[[t.u]]\nv = 1\n", b"a = 1\n[a]\nb = 2\n", b"[[a]]\n[a.b]\nc = 1\n[[a]]\n", b"x = [ ]\ny = { }\n"])
    if fmt in ("csv", "tsv"):
        sep = b"," if fmt == "csv" else b"\t"
        rows = rng.choice([
            [[b"a", b"b"], [b"1", b"2"]], [[b"a"], [b"1"], [b"2"]], [[b"a", b"a"], [b"1", b"2"]], [[b"a", b"b"]], [], [[b""]],
            [[b"a", b"b"], [b"1"]], [[b"a"], [b"1", b"2"]], [[b"\"q\"\"q\"", b"b"], [b"\"x\ny\"", b"2"]], [[b"a", b"b"], [b"true", b"null"]],
            [[b"a", b"b"], [b"1.5", b"0x10"]], [[b"a.b", b"a"], [b"1", b"2"]], [[b"a", b""], [b"1", b"2"]], [[b"\xef\xbb\xbfa"], [b"1"]]])
        return b"\n".join(sep.join(r) for r in rows) + (b"\n" if rng.random() < 0.7 else b"")
    if fmt == "props":
        return rng.choice([
            b"a = 1\n", b"a.b = 1\na.c = 2\n", b"a.0 = x\na.1 = y\n", b"a[0] = x\na[1] = y\n", b"# c\na = 1\n", b"a = ${b}\nb = 1\n", b"a = ${a}\n", b"",
            b"a\n", b"= 1\n", b"a.b = 1\na = 2\n", b"a = 1\na.b = 2\n", b"a.1 = x\n", b"a.-1 = x\n", b"a.9999 = x\n", b"a..b = 1\n", b". = 1\n", b"a. = 1\n",
            b"a[ = 1\n", b"a[9999999] = 1\n", b"a\\ b = 1\n", b"a = \\u00e9\n", b"a : 1\n", b"a.b.0.c = 1\na.b.1 = 2\n", b"0 = a\n1 = b\n", b"a.0 = x\na.b = y\n",
            b"a[0].b = 1\n", b"a[-1] = 1\n", b"a[x] = 1\n", b"a.[0] = 1\n"])
    if fmt == "lua":
        return rng.choice([
            b"return {a = 1}", b"return {1, 2, 3}", b"return {a = {b = {1, 2}}}", b"return nil", b"return 1", b"return \"x\"", b"", b"return", b"return {}",
            b"return {[1] = 2, [3] = 4}", b"return {[\"a b\"] = true}", b"return function() end", b"return {f = function() end}", b"x = 1", b"return 1, 2",
            b"return {[1.5] = 1}", b"return {[true] = 1}", b"return 0/0", b"return 1/0", b"return {{}, {}}", b"return {1, nil, 3}", b"error(\"x\")",
            b"return {[{}] = 1}", b"return setmetatable({}, {__index = function() return 1 end})", b"return {n = nil}", b"return -0.0", b"return 9007199254740993",
            b"local t = {} t.t = t return t", b"return {[-1] = 1, [0] = 2}", b"return string.rep(\"x\", 10)", b"return coroutine.create(function() end)",
            b"return {[2] = 1}", b"return {[1]=1,[2]=2,a=3}"])
    if fmt == "base64":
        return rng.choice([b"YQ==", b"YQ", b"", b"YWJj", b"YWJj\n", b"!!!!", b"YQ==YQ==", b"Y", b"====", b" YQ== ", b"YWJjZGVmZ2g=", b"/+/+", b"_-_-", b"YQ=\n="])
    if fmt == "uri":
        return rng.choice([b"a%20b", b"a+b", b"%", b"%zz", b"%2", b"", b"%00", b"%ff%fe", b"a=b&c=d", b"\n", b"%E4%B8%AD"])
    return b""


class _Spy:
    """Stands in for the rng to enumerate the fixed samples of valid_input: choice() returns the i-th element."""

    def __init__(self, i):
        self.i, self.n = i, 0

    def choice(self, lst):
        self.n = max(self.n, len(lst))
        return lst[self.i % len(lst)]

    def random(self):
        return 0.0

    def randrange(self, *a):
        return a[0] if len(a) > 1 else 0


def fixed_samples(fmt):
    out, i, n = [], 0, 1
    while i < n:
        spy = _Spy(i)
        b = valid_input(spy, fmt)
        n = max(n, spy.n)
        if b not in out:
            out.append(b)
        i += 1
    return out


def corrupt(rng, b):
    """truncate or corrupt: cut at a random point, flip/insert/delete bytes, duplicate a slice, deep-nest."""
    b = bytes(b)
    k = rng.randrange(7)
    if not b:
        return bytes(rng.randrange(256) for _ in range(rng.randrange(1, 6)))
    i = rng.randrange(len(b))
    if k == 0:
        return b[:i]
    if k == 1:
        return b[i:]
    if k == 2:
        return b[:i] + bytes([rng.randrange(256)]) + b[i + 1:]
    if k == 3:
        return b[:i] + bytes([rng.choice(b"\x00\"'<>[]{}&*!:#-,=\\\n\t %")]) + b[i:]
    if k == 4:
        j = min(len(b), i + rng.randrange(1, 4))
        return b[:i] + b[j:]
    if k == 5:
        j = min(len(b), i + rng.randrange(1, 8))
        return b[:j] + b[i:j] * rng.randrange(1, 4) + b[j:]
    a, c = sorted((i, rng.randrange(len(b))))
    return b[:a] + b[c:] + b[a:c]


def deep_input(fmt, n):
    if fmt == "json":
        return b"[" * n + b"]" * n
    if fmt == "yaml":
        return b"[" * n + b"]" * n
    if fmt == "xml":
        return b"<a>" * n + b"</a>" * n
    if fmt == "toml":
        return b"a = " + b"[" * n + b"]" * n + b"\n"
    if fmt == "lua":
        return b"return " + b"{" * n + b"}" * n
    if fmt == "props":
        return b".".join([b"a"] * n) + b" = 1\n"
    return None


IN_FORMATS = ["yaml", "json", "xml", "toml", "csv", "tsv", "props", "lua", "base64", "uri"]
OUT_FORMATS = ["yaml", "json", "xml", "toml", "csv", "tsv", "props", "lua", "base64", "uri", "shell", "sh"]

# ----------------------------------------------------------------------------
# implementation side: the c11 op (contained eval) through our own batch runner
# ----------------------------------------------------------------------------
SITES_FILE = os.path.join(os.path.dirname(os.path.abspath(__file__)), "c11_sites.json")
IMPORTS = "From Coq Require Import ZArith.\nFrom YQ Require Import Base.Str Model.Bounds."


def _b64(b):
    if isinstance(b, str):
        b = b.encode("utf-8", "surrogatepass")
    return base64.b64encode(b).decode()


def _parse_fatal(stderr):
    """Outcome of a yqh process that died while answering a request."""
    m = re.search(r"C11-(TIMEOUT|MEMORY)[^\n]*\nC11-STACK ([^\n]*)", stderr)
    if m:
        return {"class": "timeout" if m.group(1) == "TIMEOUT" else "memory",
                "funcs": [f.strip() for f in m.group(2).split(" < ") if f.strip()]}
    funcs = []
    for fn in re.findall(r"/pkg/yqlib\.((?:\(\*?\w+\)\.)?[\w.]+)\(", stderr):
        fn = re.sub(r"\.func\d+(\.\d+)*$", "", fn)
        if fn not in funcs:
            funcs.append(fn)
    m = re.search(r"^(fatal error: [^\n]*|panic: [^\n]*|runtime: [^\n]*)", stderr, re.M)
    return {"class": "crash", "funcs": funcs[:16], "msg": (m.group(1) if m else stderr[-300:])[:300]}


def c11_batch(reqs, timeout=1200):
    out = [None] * len(reqs)
    start = 0
    while start < len(reqs):
        data = "".join(json.dumps(r) + "\n" for r in reqs[start:]).encode()
        try:
            p = subprocess.run([vlib.YQH], input=data, stdout=subprocess.PIPE, stderr=subprocess.PIPE, timeout=timeout)
            lines = [x.decode("utf-8", "replace") for x in p.stdout.split(b"\n") if x.strip()]
            err = p.stderr.decode("utf-8", "replace")
        except subprocess.TimeoutExpired as e:
            lines = [x.decode("utf-8", "replace") for x in (e.stdout or b"").split(b"\n") if x.strip()]
            err = "C11-TIMEOUT batch\nC11-STACK \n"
        n = 0
        for ln in lines:
            try:
                out[start + n] = json.loads(ln)
            except Exception:
                break
            n += 1
        if start + n >= len(reqs):
            break
        out[start + n] = _parse_fatal(err)
        start = start + n + 1
    return out


def c11_parallel(reqs, shards=None):
    shards = shards or max(1, min(vlib.NCPU, 12, len(reqs) // 20))
    if shards <= 1:
        return c11_batch(reqs)
    # round-robin so that slow cases spread over the shards
    parts = [reqs[i::shards] for i in range(shards)]
    with ThreadPoolExecutor(len(parts)) as ex:
        res = list(ex.map(c11_batch, parts))
    out = [None] * len(reqs)
    for k, part in enumerate(res):
        for j, r in enumerate(part):
            out[k + j * shards] = r
    return out


def mk_req(expr, inp, fin="yaml", fout="yaml", all_=False, deadline_ms=8000, mem_mb=900, **flags):
    return dict(flags, **_mk_req(expr, inp, fin, fout, all_, deadline_ms, mem_mb))


def _mk_req(expr, inp, fin="yaml", fout="yaml", all_=False, deadline_ms=8000, mem_mb=900):
    return {"op": "c11", "expr_b64": _b64(expr), "input_b64": _b64(inp), "in": fin, "out": fout, "all": bool(all_),
            "c11_deadline_ms": deadline_ms, "c11_mem_mb": mem_mb, "deadline_ms": deadline_ms + 20000}


def describe(req):
    return {"kind": "eval", "expr_b64": req["expr_b64"], "input_b64": req["input_b64"], "in": req["in"], "out": req["out"],
            "all": req["all"], "flags": {k: req[k] for k in ("nulsep", "unwrap", "nosep", "indent") if k in req}, "expr": base64.b64decode(req["expr_b64"]).decode("utf-8", "replace"),
            "input": base64.b64decode(req["input_b64"]).decode("utf-8", "replace")[:2000]}


# ----------------------------------------------------------------------------
# the panic-site inventory and the known findings
# ----------------------------------------------------------------------------
def load_sites():
    with open(SITES_FILE) as f:
        sites = json.load(f)
    for s in sites:
        if "stdin_b64" in s:
            s["stdin_bytes"] = base64.b64decode(s["stdin_b64"])
    return sites


def site_stdin(s):
    if "stdin_bytes" in s:
        return s["stdin_bytes"]
    return s.get("stdin", "").encode("utf-8", "surrogatepass")


def msg_class(msg):
    msg = msg or ""
    for pat, c in (("index out of range", "index"), ("slice bounds out of range", "index"), ("nil pointer", "nil"),
                   ("interface conversion", "assert"), ("strconv.", "explicit"), ("divide by zero", "div0"),
                   ("makeslice", "alloc"), ("out of memory", "alloc"), ("stack overflow", "stack")):
        if pat in msg:
            return c
    return "other"


class Known:
    """Matching of an observed failure against the recorded findings.
    A panic is matched by (file, function, kind of runtime error) — the line
    number in the key is the line at the time of recording and is allowed to
    drift when unrelated edits move the code.  A fatal outcome (timeout /
    memory blow-up / process death) is matched by a yqlib function on the stack
    of the evaluating goroutine."""

    def __init__(self, chk, sites):
        self.chk = chk
        self.panic_rules, self.fatal_rules = [], []
        for s in sites:
            if s.get("status") != "reachable" or "key" not in s:
                continue
            if not chk.is_known(s["key"]):
                continue
            if s["key"].startswith("panic-"):
                self.panic_rules.append((s["file"], s["func"], s.get("msg_class"), s["key"]))
            else:
                self.fatal_rules.append((s.get("stack_funcs") or [s["func"]], s["key"]))

    def match(self, resp):
        c = resp.get("class")
        if c == "panic":
            site = resp.get("site", "")
            m = re.match(r"(\S+?):(\d+)\s+(\S+)", site)
            if not m:
                return None
            file, fn = m.group(1), re.sub(r"^yqlib\.", "", m.group(3))
            fn = re.sub(r"\.func\d+(\.\d+)*$", "", fn)
            mc = msg_class(resp.get("msg"))
            for f, fu, k, key in self.panic_rules:
                if f == file and fu == fn and (k is None or k == mc):
                    return key
            return None
        if c in ("timeout", "memory", "crash"):
            funcs = (resp.get("funcs") or [])[:6]
            for fl, key in self.fatal_rules:
                if any(f in funcs for f in fl):
                    return key
        return None


def site_key(resp):
    c = resp.get("class")
    if c == "panic":
        return "panic-" + resp.get("site", "unknown").split(" ")[0]
    return "fatal-" + ((resp.get("funcs") or ["unknown"])[0])


def real_binary(argv, stdin, timeout=10, mem_mb=3000):
    """Run the real yq; returns (class, first yqlib frame or '', stderr head)."""
    def lim():
        resource.setrlimit(resource.RLIMIT_AS, (mem_mb << 20, mem_mb << 20))
    try:
        p = subprocess.run([vlib.YQ] + argv, input=stdin, stdout=subprocess.PIPE, stderr=subprocess.PIPE, timeout=timeout,
                           preexec_fn=lim, env=dict(os.environ, C11_UNSET_GUARD="1"))
    except subprocess.TimeoutExpired:
        return "timeout", "", ""
    err = p.stderr.decode("utf-8", "replace")
    if p.returncode == 2 and ("goroutine " in err):
        m = re.search(r"/pkg/yqlib/([\w.]+\.go:\d+)", err)
        return ("fatal" if err.startswith(("fatal error", "runtime:")) or "fatal error" in err[:400] else "panic"), (m.group(1) if m else ""), err[:300]
    return ("ok" if p.returncode == 0 else "err"), "", err[:300]


def inventory_tie(sites):
    """The inventory must describe the source that is being checked: the code
    fragment of every site that is only *believed* unreachable still occurs in
    its file (a reachable site may disappear: that is a fix), and every explicit
    panic( of pkg/yqlib is listed."""
    problems = []
    cache = {}

    def src(f):
        for cand in (os.path.join(vlib.REPO, "pkg/yqlib", f), os.path.join(vlib.REPO, "cmd", f), os.path.join(vlib.REPO, f)):
            if os.path.exists(cand):
                if cand not in cache:
                    cache[cand] = open(cand, encoding="utf-8", errors="replace").read()
                return cache[cand]
        return None
    for s in sites:
        f = s.get("inv_file") or s.get("file")
        if not f or not s.get("code") or s.get("status") != "believed-unreachable":
            continue
        text = src(f)
        if text is None:
            problems.append("inventory names a missing file: " + f)
        elif re.sub(r"\s+", "", s["code"]) not in re.sub(r"\s+", "", text):
            problems.append("inventory entry %s:%s `%s` (believed unreachable) no longer occurs in the file" % (f, s.get("line"), s["code"]))
    listed = {}
    for s in sites:
        f = s.get("inv_file") or s.get("file")
        if s.get("kind") == "explicit" and "/" not in f and (s.get("code") or s.get("desc") or "").startswith("panic("):
            listed.setdefault(f, set()).add(s.get("line"))
    d = os.path.join(vlib.REPO, "pkg/yqlib")
    for fn in sorted(os.listdir(d)):
        if fn.endswith(".go") and not fn.endswith("_test.go"):
            n = len(re.findall(r"(?<![\w.])panic\(", open(os.path.join(d, fn), encoding="utf-8", errors="replace").read()))
            if n > len(listed.get(fn, ())):
                problems.append("%s has %d explicit panic( calls, the inventory lists %d" % (fn, n, len(listed.get(fn, ()))))
    return problems


# ----------------------------------------------------------------------------
# correspondence with Model/Bounds.v
# ----------------------------------------------------------------------------
def cstr(t):
    """Coq term of type list N (typed even when empty)."""
    r = vlib.coq_str(t)
    return "(@nil N)" if r == "[]" else r


def zc(z):
    return "(%d)%%Z" % z


def canon(resp, ok_text):
    """Outcome class of an implementation answer in the model's vocabulary."""
    c = resp.get("class")
    if c == "ok":
        return b"ok " + ok_text(base64.b64decode(resp.get("out_b64", "")).decode("utf-8", "replace")).encode()
    if c == "err":
        return b"err"
    if c == "panic":
        site = resp.get("site", "").split(" ")[0]
        fn = resp.get("site", "").split(" ")[-1]
        if "sliceArrayOperator" in fn:
            return b"panic operator_slice.go:56"
        if "sortableNodeArray.compare" in fn:
            return b"panic operator_sort.go:" + (b"int" if "ParseInt" in resp.get("msg", "") else b"float")
        return b"panic " + site.encode()
    return b"fatal"


INT_TEXTS = ["0", "5", "19", "-1", "-3", "-20", "-21", "20", "33", "+5", "0x10", "0X1f", "0x1F", "0o17", "0o8", "1_0", "_7", "7_", "0x_a", "0x", "0o",
             "", "_", "-", "+", "--1", "+-1", "-+1", "1e1", "1.0", " 1", "1 ", "a", "0b11", "017", "0x-5", "-0x5", "0x+5", "0o-7", "9223372036854775808",
             "-9223372036854775809", "0x8000000000000000", "99999999999999999999", "1_2_3x", "0xg", "0O7", "०", "1٠", "00", "-0", "+0", "0_0"]


def correspondence(chk, thorough):
    rng = chk.rng
    groups = []  # (name, model_fn, [(coq_input, req, ok_text)])

    # --- slice
    cs = []
    big = [9223372036854775807, -9223372036854775808, 4294967296, -4294967297]
    pairs = set()
    for ln in range(0, 5):
        for f in range(-6, 7):
            for s in range(-6, 7):
                pairs.add((ln, f, s))
    for _ in range(4000 if thorough else 300):
        ln = rng.randrange(0, 9)
        pick = lambda: rng.choice(big) if rng.random() < 0.15 else rng.randrange(-12, 13)
        pairs.add((ln, pick(), pick()))
    for ln, f, s in sorted(pairs):
        doc = "[" + ",".join(str(i) for i in range(ln)) + "]"
        req = mk_req(".[%d:%d]" % (f, s), doc, "yaml", "json")
        cs.append(("(%s, (%s, %s))" % (zc(ln), zc(f), zc(s)), req,
                   lambda t: ",".join(re.findall(r"-?\d+", t))))
    groups.append(("slice", "c_slice", cs))

    # --- index with padding
    cs = []
    for ln in range(0, 5):
        for i in range(-8, 12):
            doc = "[" + ",".join(str(k) for k in range(ln)) + "]"
            req = mk_req("[.[%d], length]" % i, doc, "yaml", "json")
            cs.append(("(%s, %s)" % (zc(ln), zc(i)), req,
                       lambda t: " ".join(x if x != "null" else "-1" for x in re.findall(r"-?\d+|null", t))))
    groups.append(("index", "c_index", cs))

    # --- glob
    cs = []
    alpha = "ab*?."
    pats = set()
    for n in range(0, 3):
        for p in range(0, 4):
            for _ in range(60 if thorough else 12):
                pats.add(("".join(rng.choice("ab.") for _ in range(n)), "".join(rng.choice(alpha) for _ in range(p))))
    for _ in range(6000 if thorough else 500):
        pats.add(("".join(rng.choice("aab.") for _ in range(rng.randrange(0, 9))),
                  "".join(rng.choice("aab**?.") for _ in range(rng.randrange(0, 8)))))
    pats |= {("", ""), ("", "*"), ("a", ""), ("", "?"), ("aaaaaaaaab", "*a*a*a*a*b"), ("aaaaaaaaaa", "*a*a*a*a*b"), ("abc", "a**c"), ("*", "*"), ("a*", "a*")}
    for name, pat in sorted(pats):
        req = mk_req('"%s" == "%s"' % (name, pat), "0\n", "yaml", "json", deadline_ms=8000)
        cs.append(("(%s, %s)" % (cstr(name), cstr(pat)), req, lambda t: "t" if t.strip() == "true" else "f"))
    groups.append(("glob", "c_match", cs))

    # --- parseInt through an index in quotes
    cs = []
    doc20 = "[" + ",".join(str(k) for k in range(20)) + "]"
    texts = list(INT_TEXTS)
    for _ in range(2000 if thorough else 200):
        t = "".join(rng.choice(["0", "1", "7", "9", "x", "X", "o", "_", "-", "+", "a", "F", "e", ".", " "]) for _ in range(rng.randrange(0, 6)))
        texts.append(t)
    seen = set()
    for t in texts:
        if t in seen or '"' in t or "\\" in t:
            continue
        seen.add(t)
        req = mk_req('.["%s"]' % t, doc20, "yaml", "json")
        cs.append((cstr(t), req, lambda x: x.strip()))
    groups.append(("parseint", "c_parse_int_obs", cs))

    # --- repeat
    cs = []
    for n in [0, 1, 2, 3, 10, 1000, -1, -5, 10000000, 10000001, 9999999, 4294967296, -9223372036854775808, 9223372036854775807] + \
             [rng.randrange(-50, 3000) for _ in range(300 if thorough else 40)]:
        req = mk_req('"ab" * %d | length' % n, "0\n", "yaml", "json")
        cs.append(("(%s, %s)" % (zc(2), zc(n)), req, lambda x: x.strip()))
    groups.append(("repeat", "c_repeat", cs))

    allreqs = [c[1] for g in groups for c in g[2]]
    resp = c11_parallel(allreqs)
    k = 0
    disagreements, model_errors = [], []
    dist = {}
    for name, fn, cs in groups:
        cases = []
        for (ci, req, okt) in cs:
            r = resp[k]
            k += 1
            impl = canon(r, okt)
            cases.append((ci, impl, req, r))
            chk.count(("corr", name, ci), nontrivial=True,
                      sample={"model_fn": fn, "expr": describe(req)["expr"], "input": describe(req)["input"][:60], "impl": impl.decode("utf-8", "replace")}
                      if (impl.startswith(b"panic") and len(chk.cov["samples"]) < 4) else None)
            cl = impl.split(b" ")[0].decode()
            dist.setdefault(name, {}).setdefault(cl, 0)
            dist[name][cl] += 1
        mism, err = vlib.coq_mismatches(chk.workdir, "corr_" + name, IMPORTS, fn, [(c[0], c[1]) for c in cases])
        if err:
            model_errors.append(err[-600:])
            continue
        for i, mo in mism:
            disagreements.append({"function": fn, "coq_input": cases[i][0], "case": describe(cases[i][2]),
                                  "impl": cases[i][1].decode("utf-8", "replace"),
                                  "model": mo.decode("utf-8", "replace") if isinstance(mo, bytes) else repr(mo), "impl_response": cases[i][3]})
    return disagreements, model_errors, dist


# ----------------------------------------------------------------------------
# search
# ----------------------------------------------------------------------------
FMT_EXPRS = [".", ".", ".", "..", ".[]", ".a", "... comments=\"\"", ".. style=\"flow\"", "explode(.)", "to_entries", "[.. | select(tag == \"!!str\")]",
             "sort_keys(..)", ".[0]", "keys", "length", "to_json", "@yaml", "[paths]" if False else "[.. | path]", "del(.a)", ".a = 1", ". * {\"a\": 1}"]


OUT_VALUES = ["[]\n", "{}\n", "''\n", "~\n", "[{a: 1, b: 2}, {b: 3}]\n", "[{a: 1}, {}]\n", "[{a: 1}, {a: 2, b: 3}]\n", "[{}, {a: 1}]\n", "[{a: 1, b: 2}, {c: 3}]\n",
              "[{a: 1, b: 2}, 3]\n", "[{a: 1}, [2]]\n", "[{a: 1}, null]\n", "[[1, 2], [3]]\n", "[[], [1]]\n", "[[1], []]\n", "[1, null]\n", "[null]\n", "[[]]\n", "[{}]\n",
              "{a: null}\n", "{a: [], b: {}}\n", "a: ''\n", "items: []\n", "- {a: {b: 1}, c: 2}\n- {c: 3}\n", "a,b\n", "--- []\n--- {}\n", "[{a: 1, b: 2}, {a: 3, b: 4, c: 5}, {a: 6}]\n"]
OUT_EXPRS = [".", ".[]", ".[0]", ".a", ".items", ".[1]"]
OUT_FLAGS = [{}, {"nulsep": True}, {"unwrap": True}, {"nulsep": True, "unwrap": True}, {"nosep": True}, {"indent": 0}, {"indent": 4, "nulsep": True}]


def search_cases(chk, thorough):
    rng = chk.rng
    reqs, streams = [], []
    n_expr = 100000 if thorough else 1500
    for stream in ("grammar", "mutated", "bytes"):
        made = 0
        while made < n_expr:
            if stream == "grammar":
                e = g_expr(rng).encode()
            elif stream == "mutated":
                e = mutate(rng, g_expr(rng)).encode("utf-8", "surrogatepass")
            else:
                e = arbitrary_expr(rng)
            if excluded(e):
                continue
            made += 1
            d = yaml_doc(rng)
            reqs.append(mk_req(e, d, "yaml", rng.choice(["yaml", "yaml", "json", "props", "xml", "csv"]) if rng.random() < 0.5 else "yaml", rng.random() < 0.2))
            streams.append("expr-" + stream)
    # every spelling of the operators that carry a number in their token (blanks at every position, signs, huge, empty)
    for e in numparam_all():
        d = rng.choice(["[[1, [2]], [3]]\n", "a: {b: [1, {c: 2}]}\n", "[1, 2]\n"])
        reqs.append(mk_req(e, d, "yaml", "yaml", False))
        streams.append("expr-numparam")
        reqs.append(mk_req(".. | " + e, d, "yaml", "json", False))
        streams.append("expr-numparam")
    # operators that take a list of keys / indices: lists longer than the container, repeated and absent members, every small container
    klists = ['[]', '["a"]', '["a", "b"]', '["a", "a", "a"]', '["x", "y", "z"]', '["a", "x", "y", "z"]', '[0]', '[0, 1, 2, 3]', '[5, 5]', '[0, 0, 0]', '[-1, -1]', '["a", 0]']
    kdocs = ["{}\n", "{a: 1}\n", "{a: 1, b: 2}\n", "{a: 1, b: 2, c: 3}\n", "[]\n", "[1]\n", "[1, 2]\n", "m: {a: 1}\nl: [1]\n"]
    for op in ("omit", "pick"):
        for kl in klists:
            for d in kdocs:
                for e in ("%s(%s)" % (op, kl), ".m |= %s(%s)" % (op, kl), ".l |= %s(%s)" % (op, kl), ".[] |= %s(%s)" % (op, kl)):
                    reqs.append(mk_req(e, d, "yaml", "yaml", False))
                    streams.append("expr-keylists")
    n_fmt = 20000 if thorough else 300
    for fmt in IN_FORMATS:
        for i in range(n_fmt):
            b = valid_input(rng, fmt)
            kind = ("valid", "truncated", "corrupted")[i % 3]
            if kind == "truncated" and b:
                b = b[:rng.randrange(len(b))]
            elif kind == "corrupted":
                for _ in range(rng.choice([1, 1, 2, 3])):
                    b = corrupt(rng, b)
            out = OUT_FORMATS[(i // 3) % len(OUT_FORMATS)] if rng.random() < 0.7 else rng.choice(OUT_FORMATS)
            e = rng.choice(FMT_EXPRS)
            reqs.append(mk_req(e, b, fmt, out, rng.random() < 0.2))
            streams.append("fmt-%s-%s" % (fmt, kind))
        for n in ((100, 800, 5000) if thorough else (100, 800)):
            b = deep_input(fmt, n)
            if b is not None:
                reqs.append(mk_req(".", b, fmt, rng.choice(["yaml", "json"]), False))
                streams.append("fmt-%s-deep" % fmt)
    # long multi-byte character data (with non-graphic characters around it) in every input format, and through the decode operators
    for fmt in IN_FORMATS:
        for t in LONG_TEXTS:
            b = multibyte_input(fmt, t)
            for out in ("yaml", "json", "xml" if fmt != "xml" else "props"):
                reqs.append(mk_req(".", b, fmt, out, False))
                streams.append("fmt-%s-multibyte" % fmt)
    for t in LONG_TEXTS:
        x = multibyte_input("xml", t).decode("utf-8", "replace")
        for e in ("from_xml", "@xmld", "from_xml | to_xml", "from_xml | .. | select(tag == \"!!str\") | length"):
            reqs.append(mk_req(e, json.dumps(x, ensure_ascii=False) + "\n", "yaml", "yaml", False))
            streams.append("fmt-xml-multibyte")
        for e in ("trim", "upcase", "@base64 | @base64d", "@uri | @urid", "split(\" \") | join(\"-\")", "sub(\"[a-z]+\"; \"é\")", "test(\"é\")", "length", "@sh", "to_json | from_json"):
            reqs.append(mk_req(e, json.dumps(t, ensure_ascii=False) + "\n", "yaml", "yaml", False))
            streams.append("expr-multibyte")
    # results that encode to nothing or to ragged rows x every output format x printer flags
    # (-0/--nul-output, unwrap -r, -N/no separators, indent)
    for d in OUT_VALUES:
        for e in OUT_EXPRS:
            for out in OUT_FORMATS:
                for fl in OUT_FLAGS:
                    reqs.append(mk_req(e, d, "yaml", out, False, **fl))
                    streams.append("out-matrix")
    for d in OUT_VALUES:
        for e in ("@csv", "@tsv", "to_csv", "to_tsv", ".[] | @csv", "@json", "to_props", "@xml", "to_yaml", "@sh", "@base64", "@uri", "[.[] | @csv]", "map(@tsv)"):
            reqs.append(mk_req(e, d, "yaml", "yaml", False))
            streams.append("out-matrix")
    # every prefix of every fixed sample (an input cut off at any byte, with and without its last newline)
    for fmt in IN_FORMATS:
        seen = set()
        for b in fixed_samples(fmt):
            for k in range(0, min(len(b), 160)):
                pre = b[:k]
                if pre in seen:
                    continue
                seen.add(pre)
                reqs.append(mk_req(".", pre, fmt, "json" if len(seen) % 2 else "yaml", False))
                streams.append("fmt-%s-prefix" % fmt)
    # arbitrary bytes as input of every format
    for fmt in IN_FORMATS:
        for _ in range(2000 if thorough else 40):
            b = bytes(rng.randrange(256) for _ in range(rng.choice([1, 2, 3, 5, 8, 13, 40])))
            reqs.append(mk_req(".", b, fmt, rng.choice(OUT_FORMATS), False))
            streams.append("fmt-%s-bytes" % fmt)
    return reqs, streams


# ----------------------------------------------------------------------------
# command-line flag combinations on the real binary
# ----------------------------------------------------------------------------
CLI_FILES = {"fm.md": "---\nname: post\ntitle: x\n---\nbody text\n", "d.yml": "name: doc\ntitle: t\nitems: [1, 2]\n---\nname: second\n",
             "e.yml": "", "split.yq": ".name", "split_index.yq": "$index", "expr.yq": ".title = \"y\"", "bad.yq": ".[", "empty.yq": ""}


def cli_cases(thorough):
    """Every flag that has a `-file` twin in both spellings, crossed with the flags that change where input comes
    from or where output goes."""
    import itertools
    cases = []
    fronts = [[], ["--front-matter=process"], ["--front-matter=extract"], ["-f", "process"]]
    splits = [[], ["-s", ".name"], ["-s", "$index"], ["--split-exp-file", "split.yq"], ["--split-exp-file", "split_index.yq"], ["--split-exp-file", "empty.yq"],
              ["--split-exp-file", "missing.yq"]]
    exprs = [[".title = \"y\""], ["--from-file", "expr.yq"], ["--expression", ".title = \"y\""], ["--from-file", "bad.yq"], ["--from-file", "missing.yq"], ["."]]
    places = [[], ["-i"], ["-n"], ["-0"], ["-N"], ["-e"]]
    cmds = [[], ["ea"]]
    files = [["fm.md"], ["d.yml"], ["e.yml"], ["d.yml", "fm.md"], []]
    for cmd, fr, sp, ex, pl in itertools.product(cmds, fronts, splits, exprs, places):
        # keep the product small: at most two of the four flag groups are non-default unless thorough
        nondefault = sum(1 for g in (fr, sp, pl) if g) + (1 if ex[0].startswith("--") else 0)
        if not thorough and nondefault > 2 and not (fr and sp):
            continue
        for fl in (files if thorough else files[:2] + files[4:]):
            cases.append(cmd + fr + sp + pl + ex + fl)
    if not thorough:
        # all combinations of a front-matter flag with a split flag, every third of the rest
        cases = [c for i, c in enumerate(cases) if i % 3 == 0 or (any(x in c for x in ("--front-matter=process", "--front-matter=extract", "-f"))
                                                                  and any(x in c for x in ("-s", "--split-exp-file")))]
    return cases


def run_cli(argv, timeout=10):
    d = tempfile.mkdtemp(prefix="c11cli_", dir=vlib.WORK)
    try:
        for fn, txt in CLI_FILES.items():
            with open(os.path.join(d, fn), "w") as f:
                f.write(txt)

        def lim():
            resource.setrlimit(resource.RLIMIT_AS, (2000 << 20, 2000 << 20))
        try:
            p = subprocess.run([vlib.YQ] + argv, cwd=d, stdin=subprocess.DEVNULL, stdout=subprocess.PIPE, stderr=subprocess.PIPE, timeout=timeout, preexec_fn=lim)
        except subprocess.TimeoutExpired:
            return "timeout", ""
        err = p.stderr.decode("utf-8", "replace")
        if p.returncode not in (0, 1) or "goroutine " in err or err.startswith(("panic:", "fatal error:")):
            m = re.search(r"/(?:pkg/yqlib|cmd)/([\w.]+\.go:\d+)", err)
            return "panic", (m.group(1) if m else "") + " rc=%s %s" % (p.returncode, err[:200])
        return ("ok" if p.returncode == 0 else "err"), ""
    finally:
        shutil.rmtree(d, ignore_errors=True)


def classify(chk, known, req, resp, stream, stats, unknown):
    c = (resp or {}).get("class")
    if resp is None or c is None:
        resp = {"class": "crash", "funcs": [], "msg": "no answer: %r" % (resp,)}
        c = "crash"
    stats.setdefault(stream, {}).setdefault(c, 0)
    stats[stream][c] += 1
    if c in ("ok", "err"):
        return
    key = known.match(resp)
    if key:
        chk.known_finding(key, {"input": describe(req), "observed": site_key(resp)})
        stats.setdefault("known_hits", {}).setdefault(key, 0)
        stats["known_hits"][key] += 1
        return
    unknown.append((req, resp, stream))


def replay(rp):
    if rp.get("kind") == "cli-matrix":
        return run_cli(rp["argv"])[0] in ("ok", "err")
    if rp.get("kind") == "cli":
        cls, _, _ = real_binary(rp["argv"], rp.get("stdin", "").encode("utf-8", "surrogatepass"))
        return cls in ("ok", "err")
    if rp.get("kind") != "eval":
        return False
    req = {"op": "c11", "expr_b64": rp["expr_b64"], "input_b64": rp["input_b64"], "in": rp.get("in", "yaml"), "out": rp.get("out", "yaml"),
           "all": rp.get("all", False), **rp.get("flags", {}), "c11_deadline_ms": 20000, "c11_mem_mb": 2500, "deadline_ms": 60000}
    r = c11_batch([req])[0]
    return (r or {}).get("class") in ("ok", "err")


def run(chk):
    thorough = chk.tier == "thorough"
    proved, plog = chk.prove("Props/C11.v", clean=False)
    broken = []
    if not proved:
        broken.append("proof obligations of Props/C11.v do not check: " + plog[-800:])

    sites = load_sites()
    known = Known(chk, sites)
    inv_problems = inventory_tie(sites)
    for p in inv_problems:
        broken.append("panic-site inventory out of date: " + p)
    chk.extra["inventory"] = {"entries": len(sites),
                              "reachable": sum(1 for s in sites if s.get("status") == "reachable"),
                              "believed_unreachable": sum(1 for s in sites if s.get("status") == "believed-unreachable"),
                              "by_kind": {k: sum(1 for s in sites if s.get("kind") == k) for k in sorted({s.get("kind", "?") for s in sites})}}

    stats, unknown = {}, []

    # ---- 1. recorded inputs of the reachable sites: harness and real binary
    # (sites with status "fixed" are replayed too: their inputs must keep answering with a result or an error)
    rec = [s for s in sites if s.get("status") in ("reachable", "fixed") and s.get("expr") is not None and not s.get("cli_heavy")]
    rreqs = [mk_req(s["expr"], site_stdin(s), s.get("in", "yaml"), s.get("out", "yaml"), s.get("all", False),
                    deadline_ms=s.get("deadline_ms", 3000), mem_mb=s.get("mem_mb", 600)) for s in rec]
    rresp = c11_parallel(rreqs, shards=min(len(rreqs), 10) or 1)
    for s, req, r in zip(rec, rreqs, rresp):
        skey = s.get("key") or s.get("witness_of")
        c = (r or {}).get("class")
        chk.count(("recorded", skey, s["expr"], s.get("stdin", ""), s.get("stdin_b64")), nontrivial=True,
                  sample={"recorded": skey, "expr": s["expr"], "input": s.get("stdin", "")[:80], "outcome": c} if "key" in s else None)
        if c in ("ok", "err"):
            if s.get("status") == "fixed":
                chk.extra["fixed_sites_still_fixed"] = chk.extra.get("fixed_sites_still_fixed", 0) + 1
            else:
                # the recorded input no longer fails: not an alarm (a fix removes a finding)
                chk.extra.setdefault("recorded_no_longer_failing", []).append(skey)
            continue
        stats.setdefault("recorded", {}).setdefault(c, 0)
        stats["recorded"][c] += 1
        if known.match(r) is not None and chk.is_known(skey):
            chk.known_finding(skey, {"input": describe(req), "observed": site_key(r)})
        else:
            classify(chk, known, req, r, "recorded", stats, unknown)
    # the same inputs on the real binary (exit status 2 + goroutine dump, or no answer)
    cli = [s for s in sites if s.get("status") in ("reachable", "fixed") and s.get("argv") and "key" in s and (thorough or not s.get("cli_heavy"))]

    def real_one(s):
        stdin = site_stdin(s)
        if s.get("stdin_gen_python"):
            stdin = eval(s["stdin_gen_python"], {"__builtins__": {}}, {})
        if s.get("files"):
            return None
        return real_binary(s["argv"], stdin.encode("utf-8", "surrogatepass") if isinstance(stdin, str) else stdin,
                           timeout=s.get("real_timeout", 5) if not s.get("cli_heavy") else 60, mem_mb=2000 if not s.get("cli_heavy") else 6000)
    with ThreadPoolExecutor(6) as ex:
        real = list(ex.map(real_one, cli))
    real_checked = 0
    for s, rr in zip(cli, real):
        if rr is None:
            continue
        cls, frame, head = rr
        real_checked += 1
        chk.extra.setdefault("real_binary", {})[s["key"]] = cls + (" " + frame if frame else "")
        if s.get("status") == "fixed":
            if cls not in ("ok", "err"):
                chk.violation({"kind": "cli", "argv": s["argv"], "stdin": s.get("stdin", ""), "site": s["key"], "observed": cls + " " + frame}, True,
                              "the real binary fails again (%s) on the input of the fixed site %s" % (cls, s["key"]))
            continue
        if cls in ("ok", "err"):
            if s.get("cli_only"):
                chk.extra.setdefault("recorded_no_longer_failing", []).append(s["key"])
            elif s["key"] not in chk.extra.get("recorded_no_longer_failing", []):
                broken.append("recorded finding %s fails in the harness but the real binary answers %s for %r" % (s["key"], cls, s["argv"]))
        elif s.get("cli_only"):
            chk.count(("recorded-cli", s["key"]), nontrivial=True)
            chk.known_finding(s["key"], {"argv": s["argv"], "observed": cls + " " + frame})
    chk.extra["real_binary_replays"] = real_checked

    # ---- 2. correspondence model <-> implementation
    disagreements, model_errors, dist = correspondence(chk, thorough)
    for e in model_errors:
        broken.append("model evaluation failed: " + e)
    chk.extra["correspondence_distribution"] = dist
    chk.extra["correspondence_disagreements"] = len(disagreements)

    # ---- 3. search
    reqs, streams = search_cases(chk, thorough)
    resp = c11_parallel(reqs)
    for req, r, st in zip(reqs, resp, streams):
        c = (r or {}).get("class")
        chk.count((st.split("-")[0], req["expr_b64"], req["input_b64"], req["in"], req["out"], req["all"]), nontrivial=(c != "err" or st.startswith("fmt")),
                  sample=None)
        classify(chk, known, req, r, st, stats, unknown)
    # summary per stream group
    summ = {}
    for st, d in stats.items():
        if st == "known_hits":
            continue
        g = st if st.startswith("expr") or st == "recorded" else "fmt-" + st.split("-")[1]
        for k, v in d.items():
            summ.setdefault(g, {}).setdefault(k, 0)
            summ[g][k] += v
    chk.extra["distribution"] = summ
    chk.extra["known_hits"] = stats.get("known_hits", {})

    # ---- 3b. command-line flag combinations on the real binary
    cases = cli_cases(thorough)
    with ThreadPoolExecutor(8) as ex:
        cres = list(ex.map(run_cli, cases))
    cstat, shown = {}, 0
    for argv, (cls, detail) in zip(cases, cres):
        chk.count(("cli", tuple(argv)), nontrivial=(cls != "err"))
        cstat[cls] = cstat.get(cls, 0) + 1
        if cls in ("panic", "timeout") and shown < 4:
            shown += 1
            chk.violation({"kind": "cli-matrix", "argv": argv, "files": CLI_FILES, "observed": cls + " " + detail}, True,
                          "yq %s : %s %s" % (" ".join(argv), cls, detail[:160]))
    chk.extra["cli_matrix"] = dict(cstat, cases=len(cases))

    # ---- 4. unknown failures: confirm alone (no load), then report
    reported = {}
    for req, r, st in unknown:
        k = site_key(r)
        if k in reported:
            reported[k]["count"] += 1
            continue
        if r.get("class") in ("timeout", "memory", "crash"):
            r2 = c11_batch([dict(req, c11_deadline_ms=20000, c11_mem_mb=2500, deadline_ms=60000)])[0]
            if (r2 or {}).get("class") in ("ok", "err"):
                chk.extra.setdefault("slow_but_finite", []).append({"case": describe(req), "first": r.get("class")})
                continue
            kk = known.match(r2 or {})
            if kk:
                chk.known_finding(kk, {"input": describe(req)})
                continue
            r = r2 or r
            k = site_key(r)
            if k in reported:
                reported[k]["count"] += 1
                continue
        reported[k] = {"count": 1, "req": req, "resp": r, "stream": st}
    for k, v in list(reported.items())[:8]:
        rp = describe(v["req"])
        rp.update({"site": k, "outcome": {x: y for x, y in v["resp"].items() if x not in ("out_b64",)}, "stream": v["stream"], "same_site_cases": v["count"]})
        chk.violation(rp, True, "%s on this input (%s), not a recorded finding" % (v["resp"].get("class"), k))

    if disagreements and not chk.violations:
        # a disagreement whose implementation side is a panic is itself a failing input
        d = disagreements[0]
        is_fail = d["impl"].startswith(("panic", "fatal"))
        rp = dict(d["case"], function=d["function"], model=d["model"], impl=d["impl"], count=len(disagreements))
        if is_fail:
            chk.violation(rp, True, "implementation fails where the model of %s says %s" % (d["function"], d["model"]))
        else:
            chk.violation(dict(rp, kind="correspondence", broken="Model/Bounds.v %s vs implementation" % d["function"]), False,
                          "model and implementation disagree on %d cases (first: %s impl=%r model=%r)" % (len(disagreements), d["case"]["expr"], d["impl"], d["model"]))
    if broken and not chk.violations:
        chk.violation({"kind": "obligation", "broken": broken}, False, "; ".join(broken)[:700])

    return chk.finish(
        checker_cmd="make -C coq Props/C11.vo (coqc 8.16.1, full .vo) + coqc work/C11/corr_*_*.v (vm_compute)",
        rule="recorded inputs of every reachable panic site (harness + real binary); correspondence of outcome class and value for "
             "slice bounds (all (len,first,second) in [0,4]x[-6,6]^2 + seeded incl. int64 extremes), index padding, glob matching, parseInt texts, "
             "repeat counts; search: three expression streams (grammar over the lexer's operator vocabulary, mutated, "
             "arbitrary bytes) x generated YAML documents (tags that lie, anchors/aliases/merge keys, multi-doc), and for each of %d input formats "
             "valid/truncated/corrupted/deep/arbitrary-byte inputs x %d output formats. A search case is non-trivial when it got past parsing "
             "(class ok, or any class for format inputs); distinct by (expression, input, formats)." % (len(IN_FORMATS), len(OUT_FORMATS)),
        trusted=vlib.COMMON_TRUSTED + [
            "PARTIAL: the theorems are about Model/Bounds.v (yq's own bounds, restart and alias-following logic restated by hand, tied by sampled correspondence); "
            "the evaluator as a whole, the third-party parsers (yaml.v3, goccy/go-json, encoding/xml, go-toml, gopher-lua, properties, encoding/csv), "
            "regexp/time and the Go runtime (stack, allocator) are searched, not modelled",
            "harness op c11 (recover + deadline + memory watchdog, process exit on runaway) and the python classification of panic sites",
            "checks/props/c11_sites.json: hand-made inventory of syntactically possible panic sites; 'believed-unreachable' entries are reading, not proof, "
            "except those with a theorem (slice number Front, traverse RHS Front, traverse index)"],
        assumptions=["expressions that load files, read the clock or shuffle are excluded from the search (outcome would not be reproducible)",
                     "a timeout is 8 s (20 s when re-run alone) with <= 0.9 GB (2.5 GB) of heap+stack; slower-but-finite evaluations are listed, not reported",
                     "known findings are matched by (file, function, kind of runtime error) resp. a function on the stack, so an unrelated edit that moves lines does not raise an alarm",
                     "correspondence is sampled; the unbounded claims are the Coq theorems over the model"])
