"""C07 — an update leaves the presentation of everything it did not touch intact.

PARTIAL by design (node attributes -> bytes is yaml.v3).  Decided by:
 * theorems Props/C07.v over Model/Present.v: frame theorems for every in-place
   update at a position path (attributes and whole subtrees outside the target
   cone are unchanged; delete keeps earlier siblings in place and shifts later
   ones unchanged, in order), and the attribute policy of UpdateFrom at the target;
 * direct oracle on the implementation: commented/styled YAML documents x an
   update at a random node (PATH = v, PATH |= f, del(PATH), PATH += [..], new key);
   the per-path attribute table (comments, style, anchor, tag, sibling order) is
   extracted from `yq .` and from `yq u` with an independent reader (yaml.v3
   called directly by the harness op `ynodes`) and must agree outside the target
   cone; document count, document-level comments and separators must be kept;
 * correspondence: the model's update applied to the tree read from `yq .` must
   give the table read from `yq u` (scalar replace, delete, append, key creation).
"""
import base64, json, os, re
import vlib

IMPORTS = "From YQ Require Import Base.Str Model.Present."
KIND = {1: "doc", 2: "seq", 4: "map", 8: "scalar", 16: "alias"}


# ----------------------------------------------------------------------------
# generator of commented / styled documents
# ----------------------------------------------------------------------------
class Gen:
    def __init__(self, rng):
        self.rng = rng
        self.n = 0
        self.anchors = []

    def fresh(self, p):
        self.n += 1
        return "%s%d" % (p, self.n)

    def scalar(self):
        r = self.rng
        k = r.random()
        if k < 0.3:
            return {"t": "s", "text": r.choice(["cat", "dog", "some words", "x-y", "v1.2"])}
        if k < 0.45:
            return {"t": "s", "text": str(r.choice([0, 1, 7, 42, -3, 1000]))}
        if k < 0.52:
            return {"t": "s", "text": r.choice(["true", "false", "null", "~", "1.5"])}
        if k < 0.62:
            return {"t": "s", "text": "'%s'" % r.choice(["single", "it''s", "5", "a: b"])}
        if k < 0.72:
            return {"t": "s", "text": '"%s"' % r.choice(["double", "tab\\there", "5", "a # b"])}
        if k < 0.78:
            return {"t": "s", "text": r.choice(["!!str 5", "!custom thing", "!!int '7'", "!t 12"])}
        if k < 0.84:
            return {"t": "block", "ind": r.choice(["|", ">", "|-"]), "lines": ["line one", "line two"]}
        if k < 0.9 and self.anchors:
            return {"t": "s", "text": "*" + r.choice(self.anchors), "alias": True}
        if k < 0.95:
            return {"t": "s", "text": r.choice(["[1, 2]", "{x: 1, y: 2}", "[]", "{}", "[a, [b, c]]"]), "flow": True}
        return {"t": "s", "text": r.choice(["cat", "7"])}

    def node(self, depth):
        r = self.rng
        k = r.random()
        if depth >= 3 or k < 0.35:
            n = self.scalar()
        elif k < 0.7:
            n = {"t": "map", "items": []}
            for _ in range(r.randrange(1, 4)):
                key = self.fresh("k")
                if r.random() < 0.12:
                    key = r.choice(["? [x, y]\n%s", "? {k: v}\n%s", "? &%s [p, q]\n%%s" % self.fresh("a")])
                n["items"].append([key, self.deco(self.node(depth + 1))])
        else:
            n = {"t": "seq", "items": [self.deco(self.node(depth + 1)) for _ in range(r.randrange(1, 4))]}
        if r.random() < 0.12 and not n.get("alias"):
            a = self.fresh("a")
            n["anchor"] = a
            n["_pending_anchor"] = a
        return n

    def foot_lines(self, v, pad, out):
        out.append(pad + "# " + v["foot"])
        if not v.get("foot_tight"):
            out.append("")

    def deco(self, n):
        r = self.rng
        if r.random() < 0.3:
            n["head"] = self.fresh("hc")
        if r.random() < 0.3 and n["t"] == "s":
            n["line"] = self.fresh("lc")
        if r.random() < 0.22:
            n["foot"] = self.fresh("fc")
            n["foot_tight"] = r.random() < 0.5
        # an anchor becomes usable once its node is complete
        if "_pending_anchor" in n:
            self.anchors.append(n.pop("_pending_anchor"))
        return n

    def render(self, n, ind, out, first_prefix):
        """first_prefix: text already on the current line (e.g. 'key: ' or '- ')."""
        pad = "  " * ind
        anc = ("&%s " % n["anchor"]) if n.get("anchor") else ""
        if n["t"] == "s":
            out.append(first_prefix + anc + n["text"] + ((" # " + n["line"]) if n.get("line") else ""))
        elif n["t"] == "block":
            out.append(first_prefix + anc + n["ind"])
            for ln in n["lines"]:
                out.append(pad + "  " + ln)
        elif n["t"] == "map":
            if first_prefix.strip():
                out.append((first_prefix + anc).rstrip())
                for k, v in n["items"]:
                    self.entry(k, v, ind + 1, out)
            else:
                if anc:
                    out.append(first_prefix + anc.rstrip())
                for k, v in n["items"]:
                    self.entry(k, v, ind, out)
        else:
            if first_prefix.strip() or anc:
                out.append((first_prefix + anc).rstrip())
            sub = ind + 1 if first_prefix.strip() else ind
            spad = "  " * sub
            for v in n["items"]:
                if v.get("head"):
                    out.append(spad + "# " + v["head"])
                if v["t"] in ("map", "seq"):
                    out.append(spad + "-")
                    self.render(v, sub + 1, out, "  " * (sub + 1) if False else "")
                    # children rendered one level deeper
                else:
                    self.render(v, sub, out, spad + "- ")
                if v.get("foot"):
                    out.append(spad + "# " + v["foot"])
                    out.append("")

    def entry(self, k, v, ind, out):
        pad = "  " * ind
        if v.get("head"):
            out.append(pad + "# " + v["head"])
        if k.startswith("?"):
            # complex key: "? key" on its own line, then ": value"
            k = k % pad
        if v["t"] in ("map", "seq"):
            anc = ("&%s" % v["anchor"]) if v.get("anchor") else ""
            out.append(pad + k + ":" + ((" " + anc) if anc else ""))
            v2 = dict(v)
            v2.pop("anchor", None)
            if v["t"] == "map":
                for kk, vv in v["items"]:
                    self.entry(kk, vv, ind + 1, out)
            else:
                self.seq_items(v2, ind + 1, out)
        else:
            self.render(v, ind, out, pad + k + ": ")
        if v.get("foot"):
            self.foot_lines(v, pad, out)

    def seq_items(self, n, ind, out):
        pad = "  " * ind
        for v in n["items"]:
            if v.get("head"):
                out.append(pad + "# " + v["head"])
            if v["t"] == "map":
                anc = ("&%s" % v["anchor"]) if v.get("anchor") else ""
                first = True
                if anc:
                    out.append(pad + "- " + anc)
                    first = False
                for kk, vv in v["items"]:
                    if first:
                        sub = []
                        self.entry(kk, vv, ind + 1, sub)
                        # put "- " in front of the first key line (after its head comment lines)
                        done = False
                        for ln in sub:
                            if not done and not ln.strip().startswith("#"):
                                out.append(pad + "- " + ln[len(pad) + 2:])
                                done = True
                            else:
                                out.append(ln)
                        first = False
                    else:
                        self.entry(kk, vv, ind + 1, out)
            elif v["t"] == "seq":
                anc = ("&%s" % v["anchor"]) if v.get("anchor") else ""
                out.append((pad + "- " + anc).rstrip())
                self.seq_items(v, ind + 1, out)
            else:
                self.render(v, ind, out, pad + "- ")
            if v.get("foot"):
                self.foot_lines(v, pad, out)

    def document(self):
        r = self.rng
        root = self.node(0)
        while root["t"] not in ("map", "seq"):
            root = self.node(0)
        root.pop("anchor", None)
        root.pop("_pending_anchor", None)
        out = []
        hv = r.random()
        if hv < 0.35:
            out.append("# " + self.fresh("lead"))
            if r.random() < 0.5:
                out.append("")
            if r.random() < 0.25:
                out.append("---")
        elif hv < 0.55:
            # explicit document start first, then the header (directly above the first node, or a blank line apart)
            out.append("---")
            out.append("# " + self.fresh("lead"))
            if r.random() < 0.4:
                out.append("")
        elif hv < 0.65:
            out.append("---")
        if root["t"] == "map":
            for k, v in root["items"]:
                self.entry(k, v, 0, out)
        else:
            self.seq_items(root, 0, out)
        if r.random() < 0.15:
            out.append("# " + self.fresh("tail"))
        return "\n".join(out) + "\n", root


def overwrite_updates(P, key, newv='"new"', tag="!!str", val="new"):
    """`+=` / `|= . +` with a map whose key already exists: only the VALUE of that entry is the target."""
    pe = expr_of(P) if P else "."
    tgt = tuple(P) + (key,)
    lit = '{"%s": %s}' % (key, newv)
    forms = ["%s += %s" % (pe, lit), "%s |= . + %s" % (pe, lit)]
    return [{"kind": "assign", "path": tgt, "expr": f, "value": (newv, tag, val), "overwrite": True, "selected": True} for f in forms]


def directed_docs():
    """Seed-independent family: every presentation a map entry's KEY can carry (head comment, foot comment with and
    without blank line, line comment, quoted / single-quoted key, anchor on the value) x an overwrite through += ."""
    docs = []
    n = [0]

    def c(p):
        n[0] += 1
        return "%s%d" % (p, n[0])
    for keytext in ("x", '"x"', "'x'"):
        for head in (False, True):
            for foot in ("", "tight", "blank"):
                for pos in ("first", "middle", "last"):
                    n[0] = 0
                    ent = []
                    if head:
                        ent.append("  # " + c("hc"))
                    ent.append("  %s: one # %s" % (keytext, c("lc")))
                    if foot:
                        ent.append("  # " + c("fc"))
                        if foot == "blank":
                            ent.append("")
                    others = ["  # " + c("hc"), "  y: 2", "  z: 'q' # " + c("lc")]
                    body = {"first": ent + others, "middle": others[:2] + ent + others[2:], "last": others + ent}[pos]
                    text = "\n".join(["a:"] + body + ["b: keep # " + c("lc")]) + "\n"
                    docs.append((text, overwrite_updates(("a",), "x")))
    docs.append(("# lead1\n\nx: one # lc2\n# fc3\n\n# hc4\ny: 2\n", overwrite_updates((), "x")))
    docs.append(("m:\n  - # hc1\n    \"x\": one\n    # fc2\n\n    y: 2\n  - x: other # lc3\n", overwrite_updates(("m", 0), "x")))
    return docs


def gen_selection_doc(rng):
    """A document and updates whose target is SELECTED (by value, by a test on the key, through a splat inside
    select) rather than addressed by a path.  Two shapes: a list of groups in which the key that the
    selection splats is null / empty / missing in the entries that are not targeted, and maps whose keys contain
    the glob characters * and ? next to keys those patterns would match."""
    n = [0]

    def c(p):
        n[0] += 1
        return "%s%d" % (p, n[0])
    out, ups = [], []
    if rng.random() < 0.5:
        out.append("# " + c("lead"))
        out.append("")
    if rng.random() < 0.5:
        people = ["alice", "bob", "carol", "dave"]
        hit = rng.randrange(0, 3)
        out.append("groups:")
        for i in range(3):
            if rng.random() < 0.4:
                out.append("  # " + c("hc"))
            out.append("  - name: g%d%s" % (i, (" # " + c("lc")) if rng.random() < 0.4 else ""))
            if i == hit:
                mem = rng.choice(["[alice, bob]", "[bob]", "\n      - bob\n      - dave"])
            else:
                mem = rng.choice(["~", "", "null", "[]", "[alice]", "[carol, dave]", "~ # " + c("lc"), "MISSING"])
            if mem != "MISSING":
                out.append("    members:" + ((" " + mem) if mem and not mem.startswith("\n") else mem))
            out.append("    active: true%s" % ((" # " + c("lc")) if rng.random() < 0.3 else ""))
            if rng.random() < 0.3:
                out.append("    # " + c("fc"))
                out.append("")
        out.append("other: 'kept' # " + c("lc"))
        P = ["groups", hit, "active"]
        sel = '.groups[] | select(.members[] == "bob")'
        ups.append({"kind": "assign", "path": P, "expr": "(%s).active = false" % sel, "value": ("false", "!!bool", "false"), "selected": True})
        ups.append({"kind": "assign", "path": P, "expr": "(%s | .active) |= false" % sel, "value": ("false", "!!bool", "false"), "selected": True})
        ups.append({"kind": "delete", "path": P, "expr": "del(%s | .active)" % sel, "selected": True})
        ups.append({"kind": "delete", "path": ["groups", hit], "expr": "del(%s)" % sel, "selected": True})
    else:
        glob, sibs = rng.choice([("*.example.com", ["www.example.com", "api.example.com"]), ("a?", ["ab", "ac", "a"]), ("*", ["x", "y"]),
                                 ("k*", ["k1", "key", "ok"]), ("?", ["a", "b", "cc"]), ("a*c", ["abc", "ac", "abd"])])
        entries = [(glob, "legacy")] + [(k, "v%d" % i) for i, k in enumerate(sibs)]
        rng.shuffle(entries)
        out.append("hosts:")
        for k, v in entries:
            if rng.random() < 0.4:
                out.append("  # " + c("hc"))
            out.append('  "%s": %s%s' % (k, v, (" # " + c("lc")) if rng.random() < 0.5 else ""))
            if rng.random() < 0.25:
                out.append("  # " + c("fc"))
                out.append("")
        out.append("other: 'kept'")
        P = ["hosts", glob]
        ups.append({"kind": "delete", "path": P, "expr": 'del(.hosts[] | select(. == "legacy"))', "selected": True})
        ups.append({"kind": "delete", "path": P, "expr": 'del(.hosts.[] | select(. == "legacy"))', "selected": True})
        ups.append({"kind": "delete", "path": P, "expr": 'del(.hosts | .. | select(. == "legacy"))', "selected": True})
        ups.append({"kind": "assign", "path": P, "expr": '(.hosts[] | select(. == "legacy")) = "zed"', "value": ('"zed"', "!!str", "zed"), "selected": True})
    return "\n".join(out) + "\n", ups


def gen_case_doc(rng):
    g = Gen(rng)
    text, root = g.document()
    if rng.random() < 0.12:
        g2 = Gen(rng)
        g2.n = g.n + 100
        t2, _ = g2.document()
        if not t2.startswith("---"):
            t2 = "---\n" + t2
        text = text + t2
    return text


# ----------------------------------------------------------------------------
# tables from the independent reader
# ----------------------------------------------------------------------------
def attrs(n):
    style = n["style"]
    if KIND.get(n["kind"]) in ("seq", "map") and not n.get("content"):
        style = 0   # an empty collection can only be printed as [] / {}: its style is not observable
    return (KIND.get(n["kind"], n["kind"]), style, n["tag"], n["anchor"])


def comments_of(n):
    return [c for c in (n["head"], n["line"], n["foot"]) if c]


def _flat(n):
    """Value of a node with everything below it (a map key may be a collection)."""
    if not n.get("content"):
        return n["value"]
    return json.dumps([KIND.get(n["kind"]), n["style"], n["tag"], [_flat(c) for c in n["content"]]])


def build_table(node, path, table, order):
    """table[path] = {'a': attrs, 'shape': ..}; map keys get path + ('#k',)."""
    k = KIND.get(node["kind"])
    ent = {"a": attrs(node), "pos": (node["l"], node["c"]), "cm": comments_of(node)}
    content = node.get("content", [])
    if k == "map":
        keys = []
        for i in range(0, len(content) - 1, 2):
            kn, vn = content[i], content[i + 1]
            key = kn["value"] if KIND.get(kn["kind"]) == "scalar" else "?" + _flat(kn)
            if key in keys:
                key = key + "#dup%d" % sum(1 for k in keys if k == key or k.startswith(key + "#dup"))
            keys.append(key)
            table[path + (key, "#k")] = {"a": attrs(kn), "shape": _flat(kn), "pos": (kn["l"], kn["c"]), "cm": comments_of(kn)}
            build_table(vn, path + (key,), table, order)
        ent["shape"] = tuple(keys)
    elif k == "seq":
        for i, c in enumerate(content):
            build_table(c, path + (i,), table, order)
        ent["shape"] = len(content)
    elif k == "alias":
        ent["shape"] = "*" + node.get("alias", "")
    else:
        ent["shape"] = node["value"]
    table[path] = ent


def tables(docs):
    res = []
    for d in docs:
        t = {}
        t[("$doc",)] = {"a": attrs(d), "shape": len(d.get("content", [])), "pos": (0, 0), "cm": comments_of(d)}
        if d.get("content"):
            build_table(d["content"][0], (), t, None)
        res.append(t)
    return res


def targets(table):
    """Value nodes that can be addressed by a simple path expression."""
    out = []
    for p, e in table.items():
        if p == ("$doc",) or (p and p[-1] == "#k") or p == ():
            continue
        if any(isinstance(x, str) and not re.match(r"^[a-z][a-z0-9]*$", x) for x in p):
            continue
        out.append(p)
    return sorted(out, key=repr)


def expr_of(p):
    s = ""
    for x in p:
        s += "[%d]" % x if isinstance(x, int) else "." + x
    return s if s.startswith(".") else "." + s


def is_under(p, q):
    return q[:len(p)] == p


# ----------------------------------------------------------------------------
# the property on two tables
# ----------------------------------------------------------------------------
def compare(t0, t1, upd):
    """Returns a list of differences outside the target cone."""
    kind, P = upd["kind"], upd["path"]
    diffs = []
    parent = P[:-1]

    def mapq(q):
        if kind == "delete" and isinstance(P[-1], int) and is_under(parent, q) and len(q) > len(parent) and isinstance(q[len(parent)], int):
            j = q[len(parent)]
            if j > P[-1]:
                return parent + (j - 1,) + q[len(parent) + 1:]
        return q

    grows = kind in ("create", "append", "appendone", "mapappend", "padassign")   # P is a collection that receives new children: every old node stays
    expected = {}
    for q, e in t0.items():
        if is_under(P, q) and not grows:
            if q == P + ("#k",) and kind != "delete":
                # key node of the target entry: not part of the target, but comments on it are
                # attributed by position; style/tag/anchor must stay
                e1 = t1.get(q)
                if e1 is None or e1["a"] != e["a"] or e1["shape"] != e["shape"]:
                    diffs.append(("key-of-target", q, e, e1))
            continue
        expected[mapq(q)] = (q, e)
    for q1, (q, e) in expected.items():
        e1 = t1.get(q1)
        if e1 is None:
            diffs.append(("missing", q, e, None))
            continue
        if e1["a"] != e["a"]:
            diffs.append(("attrs", q, e, e1))
            continue
        anc = is_under(q, P)
        if grows and q == P:
            # the old children first, in their order
            old = e["shape"]
            ok = (e1["shape"][:len(old)] == old) if isinstance(old, tuple) and isinstance(e1["shape"], tuple) else \
                 (isinstance(old, int) and isinstance(e1["shape"], int) and e1["shape"] >= old)
            if not ok:
                diffs.append(("sibling-order", q, e, e1))
        elif not anc and e1["shape"] != e["shape"]:
            diffs.append(("shape", q, e, e1))
        elif anc and q == parent and kind == "delete":
            exp = tuple(k for k in e["shape"] if k != P[-1]) if isinstance(e["shape"], tuple) else e["shape"] - 1
            if e1["shape"] != exp:
                diffs.append(("sibling-order", q, e, e1))
        elif anc and q == parent and kind != "delete" and e1["shape"] != e["shape"]:
            diffs.append(("sibling-order", q, e, e1))
    for q1, e1 in t1.items():
        if q1 not in expected and not is_under(P, q1):
            diffs.append(("extra", q1, None, e1))
    return diffs


def comment_positions(text):
    """{comment text: (line, col)} for the generator's unique comment tokens."""
    res = {}
    for i, ln in enumerate(text.split("\n")):
        for m in re.finditer(r"# (?:hc|lc|fc|lead|tail)\d+\b", ln):
            res[m.group(0)] = (i + 1, m.start() + 1)
    return res


def compare_comments(o0, o1, t0, t1, upd):
    """Comments as text: a comment attached to a node outside the cone must
    survive, and every surviving comment must keep its place relative to the
    nodes outside the cone (which node yaml.v3 attributes it to is not looked at)."""
    kind, P = upd["kind"], upd["path"]
    parent = P[:-1]
    diffs = []

    def mapq(q):
        if kind == "delete" and isinstance(P[-1], int) and is_under(parent, q) and len(q) > len(parent) and isinstance(q[len(parent)], int):
            j = q[len(parent)]
            if j > P[-1]:
                return parent + (j - 1,) + q[len(parent) + 1:]
        return q
    # collections have no position of their own (yaml.v3 gives them the position of their first child)
    grows = kind in ("create", "append", "appendone", "mapappend", "padassign")
    frame0 = [(e["pos"], q) for q, e in t0.items() if (grows or not is_under(P, q)) and q != ("$doc",) and e["a"][0] in ("scalar", "alias")]
    frame1 = [(t1[mapq(q)]["pos"], q) for _, q in frame0 if mapq(q) in t1]
    c0, c1 = comment_positions(o0), comment_positions(o1)
    for q, e in t0.items():
        if (is_under(P, q) and not grows) or q == P or q == P + ("#k",):
            continue   # (the target's own comments are the target's business)
        for c in e.get("cm", []):
            for tok in re.findall(r"# (?:hc|lc|fc|lead|tail)\d+\b", c):
                if tok not in c1:
                    diffs.append(("comment-lost", q, tok, None))
    for tok, pos0 in c0.items():
        if tok not in c1:
            continue
        n0 = sum(1 for (p, q) in frame0 if p < pos0)
        n1 = sum(1 for (p, q) in frame1 if p < c1[tok])
        if n0 != n1:
            diffs.append(("comment-moved", tok, "was after %d nodes outside the target" % n0, "is after %d" % n1))
    if grows and P != ():   # (comments at the very end of a document are kept by yq as trailing content of the document)
        new_pos = [e1["pos"] for q1, e1 in t1.items() if is_under(P, q1) and q1 not in t0 and q1 != P and e1["a"][0] in ("scalar", "alias")]
        if new_pos:
            first_new = min(new_pos)
            for q, e in t0.items():
                if not is_under(P, q) or q == P or q == P + ("#k",):
                    continue
                for c in e.get("cm", []):
                    for tok in re.findall(r"# (?:hc|lc|fc|lead|tail)\d+\b", c):
                        if tok in c1 and c1[tok] > first_new and not diffs:
                            diffs.append(("comment-moved", tok, "on an existing child, in front of the new entries", "after a new entry"))
    if upd.get("overwrite"):
        # the key node of the overwritten entry is not part of the target (its value is): the comments yaml.v3 keeps
        # on the key (above and below the entry) survive; the value's own line comment goes with the value
        for q in (P + ("#k",),):
            for c in t0.get(q, {}).get("cm", []):
                for tok in re.findall(r"# (?:hc|lc|fc|lead|tail)\d+\b", c):
                    if tok not in c1:
                        diffs.append(("comment-lost", q, tok, None))
    # a comment that shares its line with content stays on a line that starts the same way
    l0, l1 = o0.split("\n"), o1.split("\n")

    def lead_of(lines, pos):
        txt = re.sub(r"^(-\s+|-$)+", "", lines[pos[0] - 1][:pos[1] - 1].strip())
        return txt.split(" ")[0] if txt else ""
    for tok, pos0 in c0.items():
        if tok in c1 and not diffs:
            a, b = lead_of(l0, pos0), lead_of(l1, c1[tok])
            if a != b and re.match(r"^[a-z][a-z0-9]*:$", a) and b != "":
                diffs.append(("comment-moved", tok, "on the line of `%s`" % a, "on the line of `%s`" % b))
    # the surviving comments keep their order among themselves
    both0 = sorted((p, t) for t, p in c0.items() if t in c1)
    both1 = sorted((c1[t], t) for t in c0 if t in c1)
    if [t for _, t in both0] != [t for _, t in both1] and not diffs:
        moved = [t for (_, t), (_, t1) in zip(both0, both1) if t != t1]
        # report the comments of the cone among the displaced ones first
        for t in moved[:2]:
            diffs.append(("comment-moved", t, "comment order " + " ".join(x for _, x in both0), "comment order " + " ".join(x for _, x in both1)))
    return diffs


def short(e):
    if e is None:
        return None
    return {"attrs(kind,style,tag,anchor)": list(e["a"]), "comments": e.get("cm"), "shape": e["shape"] if not isinstance(e["shape"], tuple) else list(e["shape"])}


# ----------------------------------------------------------------------------
# model side
# ----------------------------------------------------------------------------
def cs(s):
    return vlib.coq_str(s)


def coq_kind(k):
    return {"scalar": "KScalar", "seq": "KSeq", "map": "KMap", "alias": "KAlias"}[k]


def coq_node(n):
    k = KIND[n["kind"]]
    val = n["value"] if k != "alias" else n.get("alias", "")
    # a comment field that holds several comment lines is handed over with the model's separator between them
    j = lambda c: "\x1e".join(_toks(c))
    return "(PNode %s (mkAttrs %s %s %s %d %s %s) %s [%s])" % (
        coq_kind(k), cs(j(n["head"])), cs(j(n["line"])), cs(j(n["foot"])), n["style"], cs(n["anchor"]), cs(n["tag"]), cs(val),
        "; ".join(coq_node(c) for c in n.get("content", [])))


def coq_scalar(tag, val):
    return "(PNode KScalar (mkAttrs [] [] [] 0 [] %s) %s [])" % (cs(tag), cs(val))


def _tree_lines(n, prefix=()):
    k = KIND[n["kind"]]
    val = n["value"] if k != "alias" else n.get("alias", "")
    out = "".join("/%d" % i for i in prefix) + "\x1f" + {"scalar": "s", "seq": "q", "map": "m", "alias": "a"}[k] + "\x1f" + \
        "\x1f".join([str(n["style"] if (k not in ("seq", "map") or n.get("content")) else 0), n["anchor"], n["tag"], val]) + "\n"
    for i, c in enumerate(n.get("content", [])):
        out += _tree_lines(c, prefix + (i,))
    return out


def _toks(c):
    return re.findall(r"#[^\n]*", c)


def _cmt(c):
    return "".join(t + "\x1e" for t in _toks(c))


def _comments(n):
    k = KIND[n["kind"]]
    out = _cmt(n["head"]) + _cmt(n["line"])
    c = n.get("content", [])
    if k == "map":
        for i in range(0, len(c) - 1, 2):
            out += _cmt(c[i]["head"]) + _cmt(c[i]["line"]) + _comments(c[i + 1]) + _cmt(c[i]["foot"])
    else:
        for x in c:
            out += _comments(x)
    return out + _cmt(n["foot"])


def show_tree_py(n):
    return _tree_lines(n) + "#" + _comments(n)


def content_path(root, P):
    """Semantic path -> indices into Content (value nodes)."""
    idx = []
    n = root
    for x in P:
        k = KIND[n["kind"]]
        c = n.get("content", [])
        if k == "map":
            found = None
            for i in range(0, len(c) - 1, 2):
                if c[i]["value"] == x:
                    found = i + 1
                    break
            if found is None:
                return None
            idx.append(found)
            n = c[found]
        elif k == "seq":
            if not isinstance(x, int) or x >= len(c):
                return None
            idx.append(x)
            n = c[x]
        else:
            return None
    return idx


def coq_path(p):
    return "[" + "; ".join("%d%%nat" % i for i in p) + "]"


# ----------------------------------------------------------------------------
VALUES = [("5", "!!int", "5"), ('"zed"', "!!str", "zed"), ("true", "!!bool", "true")]


def make_updates(rng, table, root):
    """One update of each applicable kind at random nodes of the first document."""
    ts = targets(table)
    ups = []
    if not ts:
        return ups
    for kind in ("assign", "relassign", "delete", "deletefirst", "append", "appendone", "padassign", "twostep", "mapappend", "mapoverwrite", "create", "subtree"):
        P = rng.choice(ts)
        e = table[P]
        k = e["a"][0]
        if kind == "assign":
            v = rng.choice(VALUES)
            ups.append({"kind": "assign", "path": P, "expr": "%s = %s" % (expr_of(P), v[0]), "value": v})
        elif kind == "relassign":
            if k == "scalar" and e["a"][2] == "!!int" and re.match(r"^-?\d+$", str(e["shape"])):
                ups.append({"kind": "assign", "path": P, "expr": "%s |= . + 1" % expr_of(P), "rel": True})
            elif k == "scalar" and e["a"][2] == "!!str":
                ups.append({"kind": "assign", "path": P, "expr": '%s |= . + "s"' % expr_of(P), "rel": True})
            else:
                v = rng.choice(VALUES)
                ups.append({"kind": "assign", "path": P, "expr": "%s |= %s" % (expr_of(P), v[0]), "value": v})
        elif kind == "delete":
            ups.append({"kind": "delete", "path": P, "expr": "del(%s)" % expr_of(P)})
        elif kind == "deletefirst":
            firsts = [p for p in ts if len(p) == 1 and (p[0] == 0 or (isinstance(table[()]["shape"], tuple) and table[()]["shape"] and p[0] == table[()]["shape"][0]))]
            if firsts:
                ups.append({"kind": "delete", "path": firsts[0], "expr": "del(%s)" % expr_of(firsts[0])})
        elif kind == "appendone":
            # += of ONE value (not a list) on a sequence, preferring sequences whose items differ in style
            seqs = [p for p in ts if table[p]["a"][0] == "seq" and table[p]["shape"] > 0]
            mixed = [p for p in seqs if len({table[p + (i,)]["a"][1] for i in range(table[p]["shape"]) if p + (i,) in table}) > 1]
            if seqs:
                P = rng.choice(mixed) if mixed and rng.random() < 0.8 else rng.choice(seqs)
                v = rng.choice(['"443:443"', '{"n": 1}', "5", '"plain"', "true", '{"a": {"b": 1}}', "[[1]]"])
                ups.append({"kind": "appendone", "path": P, "expr": "%s += %s" % (expr_of(P), v)})
        elif kind == "mapoverwrite":
            # += on a map with a key that exists already (scalar value, simple key): the entry keeps its key node
            maps = [p for p in ts if table[p]["a"][0] == "map"] + ([()] if table[()]["a"][0] == "map" else [])
            cands = [(p, k) for p in maps for k in table[p]["shape"] if re.match(r"^[a-z][a-z0-9]*$", str(k))
                     and table.get(p + (k,), {"a": [None]})["a"][0] == "scalar" and table[p + (k,)]["a"][2] == "!!str" and not table[p + (k,)]["a"][3]]
            if cands:
                P, k = rng.choice(cands)
                ups.append(rng.choice(overwrite_updates(P, k)))
        elif kind == "padassign":
            # assignment beyond the end of a non-empty sequence (flow ones first): nulls are padded in
            seqs = [p for p in ts if table[p]["a"][0] == "seq" and table[p]["shape"] > 0]
            flow = [p for p in seqs if table[p]["a"][1] & 32]
            if seqs:
                P = rng.choice(flow) if flow and rng.random() < 0.7 else rng.choice(seqs)
                idx = table[P]["shape"] + rng.choice([1, 2, 3])
                ups.append({"kind": "padassign", "path": P, "expr": "%s[%d] = 5" % (expr_of(P), idx)})
        elif kind == "twostep":
            # two steps in one expression: copy a keyed value into a sequence, then delete in front of it
            seqs = [p for p in ts if table[p]["a"][0] == "seq" and table[p]["shape"] > 0]
            vals = [p for p in ts if isinstance(p[-1], str) and table[p]["a"][0] == "scalar"]
            if seqs and vals:
                P = rng.choice(seqs)
                # (a value without comments of its own: the copy would carry them along and print them twice)
                cands = [q for q in vals if not is_under(P, q) and not table[q]["cm"]]
                if cands:
                    Q = rng.choice(cands)
                    k = rng.randrange(3)
                    if k == 0:
                        expr = "%s += %s | del(%s[0])" % (expr_of(P), expr_of(Q), expr_of(P))
                    elif k == 1:
                        expr = "%s += [%s] | del(%s[0])" % (expr_of(P), expr_of(Q), expr_of(P))
                    else:
                        expr = "%s = %s + [%s] | del(%s[0])" % (expr_of(P), expr_of(P), expr_of(Q), expr_of(P))
                    ups.append({"kind": "assign", "path": P, "expr": expr, "subtree": True, "twostep": True})
        elif kind == "mapappend":
            maps = [p for p in ts if table[p]["a"][0] == "map"]
            if maps:
                P = rng.choice(maps)
                form = rng.choice(['%s += {"zz": 1}', '%s |= . + {"zz": 1}'])
                ups.append({"kind": "mapappend", "path": P, "expr": form % expr_of(P)})
        elif kind == "append":
            seqs = [p for p in ts if table[p]["a"][0] == "seq"]
            if seqs:
                P = rng.choice(seqs)
                ups.append({"kind": "append", "path": P, "expr": '%s += [7, "w"]' % expr_of(P)})
        elif kind == "create":
            maps = [p for p in ts if table[p]["a"][0] == "map"] + ([()] if table[()]["a"][0] == "map" else [])
            if maps:
                P = rng.choice(maps)
                ups.append({"kind": "create", "path": P, "expr": "%s.newkey = 5" % (expr_of(P) if P else "")})
        else:
            ups.append({"kind": "assign", "path": P, "expr": '%s = {"n": [1, 2], "m": "x"}' % expr_of(P), "subtree": True})
    return ups


def other_device_tmp():
    """A writable directory on another file system than the work dir (so that -i cannot rename its temp file), or None."""
    try:
        here = os.stat(vlib.WORK).st_dev
    except OSError:
        return None
    for cand in ("/dev/shm", "/tmp", "/run/shm", "/var/tmp"):
        try:
            if os.path.isdir(cand) and os.access(cand, os.W_OK) and os.stat(cand).st_dev != here:
                return cand
        except OSError:
            pass
    return None


def inplace_one(doc, expr, tmpdir):
    import shutil, subprocess, tempfile
    d = tempfile.mkdtemp(prefix="c07i_", dir=vlib.WORK)
    try:
        f = os.path.join(d, "f.yml")
        with open(f, "w") as fh:
            fh.write(doc)
        want = subprocess.run([vlib.YQ, expr, f], stdout=subprocess.PIPE, stderr=subprocess.PIPE, timeout=20)
        env = dict(os.environ, TMPDIR=tmpdir) if tmpdir else dict(os.environ)
        got = subprocess.run([vlib.YQ, "-i", expr, f], stdout=subprocess.PIPE, stderr=subprocess.PIPE, timeout=20, env=env)
        if want.returncode != 0 or got.returncode != 0:
            return None
        content = open(f, "rb").read()
        return content == want.stdout, want.stdout.decode("utf-8", "replace"), content.decode("utf-8", "replace")
    finally:
        shutil.rmtree(d, ignore_errors=True)


def inplace_cases(chk, pairs):
    tmpdir = other_device_tmp()
    stat = {"other_device_tmpdir": tmpdir, "cases": 0, "skipped": 0}
    shown = 0
    for doc, u in pairs:
        for td in ([tmpdir, None] if tmpdir else [None]):
            r = inplace_one(doc, u["expr"], td)
            if r is None:
                stat["skipped"] += 1
                continue
            stat["cases"] += 1
            chk.count(("c07-inplace", doc, u["expr"], td), nontrivial=True)
            if not r[0] and shown < 2:
                shown += 1
                chk.violation({"kind": "c07-inplace", "doc": doc, "expr": u["expr"], "tmpdir": td, "expected_file": r[1], "file_after_-i": r[2]}, True,
                              "`yq -i '%s'` (TMPDIR=%s) leaves a file that differs from what `yq '%s'` prints" % (u["expr"], td, u["expr"]))
    return stat


def replay(rp):
    if rp.get("kind") == "c07-inplace":
        r = inplace_one(rp["doc"], rp["expr"], rp.get("tmpdir"))
        return r is None or r[0]
    if rp.get("kind") != "c07":
        return False
    r = run_pair(rp["doc"], [rp["upd"]])
    if r is None:
        return True
    return not r[0]


def run_pair(doc, ups):
    """For one document and a list of updates: list of (diffs per update) or None if the document is unusable."""
    reqs = [{"op": "eval", "expr": ".", "input": doc, "in": "yaml", "out": "yaml"}] + \
           [{"op": "eval", "expr": u["expr"], "input": doc, "in": "yaml", "out": "yaml"} for u in ups]
    resp = vlib.yqh_batch(reqs)
    if resp[0] is None or resp[0].get("err") or "out_b64" not in resp[0]:
        return None
    outs = [vlib.b64d(r["out_b64"]).decode("utf-8", "replace") if r and "out_b64" in r and not r.get("err") and not r.get("panic") else None for r in resp]
    preq = [{"op": "ynodes", "input": o} for o in outs if o is not None]
    presp = vlib.yqh_batch(preq)
    it = iter(presp)
    parsed = [next(it) if o is not None else None for o in outs]
    if parsed[0] is None or parsed[0].get("err"):
        return None
    t0 = tables(parsed[0]["docs"])
    res = []
    for u, o, pr in zip(ups, outs[1:], parsed[1:]):
        if o is None or pr is None or pr.get("err"):
            res.append([("no-output", u["expr"], None, None)])
            continue
        t1 = tables(pr["docs"])
        u2 = dict(u, path=tuple(u["path"]))
        dd = doc_level(outs[0], o, t0, t1) + (compare(t0[0], t1[0], u2) if t0 and t1 and len(t0) == len(t1) and () in t1[0] else [])
        if len(t0) == 1 and len(t1) == 1 and () in t1[0]:
            dd += compare_comments(outs[0], o, t0[0], t1[0], u2)
        res.append(dd)
    return res


def doc_level(o0, o1, t0, t1):
    d = []
    if len(t0) != len(t1):
        d.append(("document-count", len(t0), len(t1), None))
        return d
    if len(re.findall(r"^---", o0, re.M)) != len(re.findall(r"^---", o1, re.M)):
        d.append(("separators", o0[:200], o1[:200], None))
    lead = lambda o: re.findall(r"# lead\d+", re.match(r"((?:[ \t]*#[^\n]*\n|[ \t]*\n|---[ \t]*\n)*)", o).group(1))
    if lead(o0) != lead(o1):
        d.append(("leading-comment", lead(o0), lead(o1), None))
    for i in range(1, len(t0)):
        # documents the update does not address at all... the expression runs on every document;
        # only document 0 is compared node by node
        pass
    return d


def run(chk):
    thorough = chk.tier == "thorough"
    proved, plog = chk.prove("Props/C07.v", clean=False)
    broken = []
    if not proved:
        broken.append("proof obligations of Props/C07.v do not check: " + plog[-800:])
    rng = chk.rng
    ndocs = 4000 if thorough else 220
    docs = []
    corpus = os.path.join(vlib.VERIF, "corpus", "C07.jsonl")
    fixed = []
    if os.path.exists(corpus):
        for ln in open(corpus):
            if ln.strip():
                fixed.append(json.loads(ln))
    for _ in range(ndocs):
        docs.append(gen_case_doc(rng))
    # documents built around one kind of selection (updates addressed by value / select(...), see gen_selection_doc)
    special = {}
    for text, ups in directed_docs():
        special[len(docs)] = ups
        docs.append(text)
    for _ in range(max(30, ndocs // 5)):
        text, ups = gen_selection_doc(rng)
        special[len(docs)] = ups
        docs.append(text)

    # normalise once through yq so that `yq .` is the identity on the documents we use
    r0 = vlib.yqh_parallel([{"op": "eval", "expr": ".", "input": d, "in": "yaml", "out": "yaml"} for d in docs])
    norm = []
    norm_special = []
    unusable = 0
    for i, (d, r) in enumerate(zip(docs, r0)):
        if r is None or r.get("err") or r.get("panic") or "out_b64" not in r:
            unusable += 1
            continue
        norm.append(vlib.b64d(r["out_b64"]).decode("utf-8", "replace"))
        norm_special.append(special.get(i))
    r1 = vlib.yqh_parallel([{"op": "eval", "expr": ".", "input": d, "in": "yaml", "out": "yaml"} for d in norm])
    p1 = vlib.yqh_parallel([{"op": "ynodes", "input": d} for d in norm])
    cases = []
    not_idem = 0
    for d, r, p, sp in zip(norm, r1, p1, norm_special):
        if r is None or r.get("err") or vlib.b64d(r.get("out_b64", "")).decode("utf-8", "replace") != d or p is None or p.get("err") or not p.get("docs"):
            not_idem += 1
            continue
        tb = tables(p["docs"])
        if () not in tb[0]:
            continue
        if sp is not None:
            for u in sp:
                if tuple(u["path"]) in tb[0]:
                    cases.append((d, dict(u, path=tuple(u["path"])), p["docs"]))
            continue
        for u in make_updates(rng, tb[0], p["docs"][0]["content"][0]):
            cases.append((d, u, p["docs"]))
    for f in fixed:
        cases.insert(0, (f["doc"], dict(f["upd"], path=tuple(f["upd"]["path"])), None))
    chk.extra["documents"] = {"generated": ndocs, "rejected_by_yq": unusable, "not_idempotent_under_yq_dot": not_idem, "used": len(norm) - not_idem}

    resp = vlib.yqh_parallel([{"op": "eval", "expr": u["expr"], "input": d, "in": "yaml", "out": "yaml"} for d, u, _ in cases])
    outs = []
    for r in resp:
        outs.append(vlib.b64d(r["out_b64"]).decode("utf-8", "replace") if r and "out_b64" in r and not r.get("err") and not r.get("panic") else None)
    parsed = vlib.yqh_parallel([{"op": "ynodes", "input": o if o is not None else ""} for o in outs])
    by_kind, viol, known_hits = {}, [], {}
    corr_cases, corr_meta = [], []
    for (d, u, docs0), r, o, pr in zip(cases, resp, outs, parsed):
        kind = u["kind"] + ("-rel" if u.get("rel") else "") + ("-twostep" if u.get("twostep") else "-subtree" if u.get("subtree") else "")
        by_kind.setdefault(kind, {"cases": 0, "errors": 0, "diffs": 0})
        by_kind[kind]["cases"] += 1
        if o is None or pr is None or pr.get("err"):
            by_kind[kind]["errors"] += 1
            chk.count(("c07", d, u["expr"]), nontrivial=False)
            continue
        if docs0 is None:
            p0 = vlib.yqh_batch([{"op": "ynodes", "input": d}])[0]
            docs0 = p0["docs"]
        t0 = tables(docs0)
        t1 = tables(pr["docs"])
        diffs = doc_level(d, o, t0, t1) + (compare(t0[0], t1[0], u) if len(t0) == len(t1) and t1 and () in t1[0] else [])
        if len(t0) == 1 and len(t1) == 1 and () in t1[0]:
            diffs += compare_comments(d, o, t0[0], t1[0], u)
        chk.count(("c07", d, u["expr"]), nontrivial=(o != d),
                  sample={"expr": u["expr"], "doc": d[:160], "out": o[:160]} if len(d) > 60 and o != d else None)
        sig = None
        if diffs:
            by_kind[kind]["diffs"] += 1
            sig = classify(diffs, u, t0[0], d)
            if sig and chk.is_known(sig):
                chk.known_finding(sig, {"doc": d, "expr": u["expr"], "diff": [(x[0], list(x[1]) if isinstance(x[1], tuple) else x[1]) for x in diffs[:3]]})
                known_hits[sig] = known_hits.get(sig, 0) + 1
            else:
                viol.append((d, u, o, diffs, sig))
        # correspondence with the model for the update kinds it covers
        if len(docs0) == 1 and len(pr["docs"]) == 1 and not u.get("rel") and not u.get("subtree") and not u.get("selected") and u["kind"] not in ("mapappend", "padassign", "appendone") \
                and docs0[0].get("content") and pr["docs"][0].get("content"):
            root0 = docs0[0]["content"][0]
            cp = content_path(root0, u["path"])
            if cp is None:
                continue
            tgt = t0[0].get(u["path"])
            if tgt is None or not tgt["a"][2].startswith("!!"):
                continue
            if u["kind"] == "assign":
                term = "UAssign %s %s" % (coq_path([0] + cp), coq_scalar(u["value"][1], u["value"][2]))
            elif u["kind"] == "delete":
                pk = KIND[_node_at(root0, cp[:-1])["kind"]]
                term = "UDelete %s %d%%nat %d%%nat" % (coq_path([0] + cp[:-1]), cp[-1] - 1 if pk == "map" else cp[-1], 2 if pk == "map" else 1)
            elif u["kind"] == "append":
                term = "UAppend %s [%s; %s]" % (coq_path([0] + cp), coq_scalar("!!int", "7"), coq_scalar("!!str", "w"))
            else:
                term = "UCreate %s %s %s" % (coq_path([0] + cp), coq_scalar("!!str", "newkey"), coq_scalar("!!int", "5"))
            if diffs and sig:
                continue   # a recorded finding: the implementation is known to deviate here
            if u["kind"] in ("append", "create") and (_node_at(root0, cp)["line"] or (_node_at(root0, cp)["foot"] and not _node_at(root0, cp).get("content"))):
                # yaml.v3 does not print the line comment of a block collection: what happens to the
                # target's own comment when `[] # c` gets content is outside the node-level model
                chk.extra["skipped_target_line_comment"] = chk.extra.get("skipped_target_line_comment", 0) + 1
                continue
            first_line = next((ln for ln in d.split("\n") if ln.strip() and ln.strip() != "---"), "")
            if first_line.lstrip().startswith("#") and cp and cp[0] <= 1:
                continue   # yq keeps comments at the top of a document as leading content, not on the first node
            if u["kind"] == "delete" and _blank_separated_comments_near(d, t0[0], u["path"]):
                chk.extra["skipped_delete_ambiguous_comment_block"] = chk.extra.get("skipped_delete_ambiguous_comment_block", 0) + 1
                continue
            last_line = next((ln for ln in reversed(d.split("\n")) if ln.strip()), "")
            nroot = len(root0.get("content", []))
            if last_line.lstrip().startswith("#") and cp and cp[0] >= nroot - 1:
                continue   # ... and comments at the end of a document as trailing content of the document
            corr_cases.append(("(%s, %s)" % (term, coq_node(_wrap(docs0[0]))), show_tree_py(_wrap(pr["docs"][0])).encode()))
            corr_meta.append((d, u, o))
    chk.extra["distribution"] = by_kind
    chk.extra["known_hits"] = known_hits

    limit = 40000 if thorough else 500
    corr_cases, corr_meta = corr_cases[:limit], corr_meta[:limit]
    mism, err = vlib.coq_mismatches(chk.workdir, "c07_cases", IMPORTS, "c_apply", corr_cases, shard=60)
    disagreements = []
    if err:
        broken.append("model evaluation failed: " + err[-600:])
    else:
        for i, mo in mism:
            disagreements.append((corr_meta[i], mo, corr_cases[i][1]))
    chk.extra["correspondence_cases"] = len(corr_cases)
    chk.extra["correspondence_disagreements"] = len(disagreements)

    classes = {}
    for d, u, o, diffs, sig in viol:
        k = "%s/%s" % (u["kind"] + ("-subtree" if u.get("subtree") else ""), diffs[0][0])
        classes.setdefault(k, {"count": 0, "example": {"doc": d, "expr": u["expr"], "out": o, "diff": repr(diffs[0])[:300]}})
        classes[k]["count"] += 1
    chk.extra["unexplained_difference_classes"] = classes
    # ---- the same updates written back with -i through the copy fallback (temp dir on another file system):
    # the file must hold exactly what the update prints, nothing of the old content after it
    inplace = inplace_cases(chk, [(d, u) for (d, u, _), o in zip(cases, outs) if o is not None and u["kind"] == "delete"][:40 if not thorough else 400])
    chk.extra["inplace_cross_device"] = inplace

    seen_sig = set()
    for d, u, o, diffs, sig in viol:
        s = (sig, diffs[0][0])
        if s in seen_sig or len(seen_sig) >= 6:
            continue
        seen_sig.add(s)
        chk.violation({"kind": "c07", "doc": d, "upd": dict(u, path=list(u["path"])), "yq_dot": d, "yq_update": o, "signature": sig,
                       "differences": [{"what": x[0], "path": list(x[1]) if isinstance(x[1], tuple) else x[1], "before": short(x[2]) if isinstance(x[2], dict) else x[2],
                                        "after": short(x[3]) if isinstance(x[3], dict) else x[3]} for x in diffs[:5]]},
                      True, "`yq '%s'` changes the presentation outside its target: %s at %s" % (u["expr"], diffs[0][0], diffs[0][1]))
    dclasses = {}
    for (d, u, o), mo, impl in disagreements:
        m = (mo.decode("utf-8", "replace") if isinstance(mo, bytes) else repr(mo)).split("\n")
        i = impl.decode("utf-8", "replace").split("\n")
        first = next(((a, b) for a, b in zip(m + [""] * len(i), i + [""] * len(m)) if a != b), ("", ""))
        k = u["kind"] + (": comments" if first[0].startswith("#") else ": node line")
        dclasses.setdefault(k, {"count": 0, "example": {"doc": d, "expr": u["expr"], "out": o, "model": first[0][:200], "impl": first[1][:200]}})
        dclasses[k]["count"] += 1
    chk.extra["correspondence_disagreement_classes"] = dclasses
    if disagreements and not chk.violations:
        (d, u, o), mo, impl = disagreements[0]
        chk.violation({"kind": "correspondence", "broken": "Model/Present.v apply_upd vs yq", "doc": d, "expr": u["expr"], "yq_update": o,
                       "model_table": mo.decode("utf-8", "replace") if isinstance(mo, bytes) else repr(mo), "impl_table": impl.decode("utf-8", "replace"),
                       "count": len(disagreements)}, False,
                      "model and implementation disagree on %d of %d update cases, yet the frame oracle holds on them" % (len(disagreements), len(corr_cases)))
    if broken and not chk.violations:
        chk.violation({"kind": "obligation", "broken": broken}, False, "; ".join(broken)[:600])
    return chk.finish(
        checker_cmd="make -C coq Props/C07.vo (coqc 8.16.1, full .vo) + coqc work/C07/c07_cases_*.v (vm_compute)",
        rule="seeded commented/styled YAML documents (head/line/foot comments with unique texts, quoting styles, block scalars, flow collections, "
             "tags, anchors/aliases, leading comments, separators, second documents), normalised once by yq; per document one update of each kind "
             "(= scalar, |= scalar or arithmetic, del, += on a sequence, new key, = subtree) at a random node; a case is non-trivial when the "
             "update changed the output; distinct by (document, expression).",
        trusted=vlib.COMMON_TRUSTED + [
            "PARTIAL: theorems are about node attributes (Model/Present.v); how yaml.v3 prints attributes and attributes comments when it reads them back is the library's contract, exercised by the oracle only",
            "the independent reader is gopkg.in/yaml.v3 called directly by the harness op ynodes (same library yq prints with, but none of yq's code)",
            "guessTagFromCustomType (YAML snippet parser) is a Section variable in update_from; targets with custom tags are excluded from the correspondence",
            "python table extraction and cone/renumbering logic of checks/props/c07.py"],
        assumptions=["comments on the key node of the target entry are treated as part of the target (yaml.v3 attributes a comment by position, so it moves between key and value when the value changes shape)",
                     "only the first document of a stream is compared node by node; document count, separators and leading comments are compared for the whole stream",
                     "correspondence is sampled; the unbounded claim is the Coq theorem over the model"])


def _blank_separated_comments_near(doc, t0, P):
    """A run of comment lines containing a blank line touches the entry: yaml.v3 gives the whole run to one
    of the two neighbours, and which one depends on what else is in the text (leading comments)."""
    lines = doc.split("\n")
    span = [e["pos"][0] for q, e in t0.items() if is_under(P, q) and e["a"][0] in ("scalar", "alias")]
    if not span:
        return False
    strip = lambda b: re.sub(r"^(-\s*)+", "", b.strip())
    for rng_ in (range(min(span) - 2, -1, -1), range(max(span), len(lines))):
        run = []
        for i in rng_:
            if strip(lines[i]) == "" or strip(lines[i]).startswith("#"):
                run.append(strip(lines[i]))
            else:
                break
        if any(r == "" for r in run) and sum(1 for r in run if r.startswith("#")) >= 1:
            txt = [r for r in run]
            # blank line strictly between two comment lines, or between a comment and the entry
            if any(r.startswith("#") for r in txt):
                return True
    return False


def _wrap(doc):
    """The document node as a one-element sequence, so that comments yaml.v3 attributes to the document are part of the tree."""
    return dict(doc, kind=2, tag="", value="", style=0, anchor="")


def _node_at(root, cp):
    n = root
    for i in cp:
        n = n["content"][i]
    return n


def classify(diffs, u, t0, doc):
    """Signature of a difference, used as the key of a known finding (narrow:
    anything that does not fit exactly is reported)."""
    P = tuple(u["path"])
    kinds = {x[0] for x in diffs}
    if kinds == {"comment-moved"} and (u.get("subtree") or u["kind"] in ("append", "create", "mapappend", "padassign")):
        own = (lambda q: q == P or q == P + ("#k",)) if u["kind"] in ("append", "create", "mapappend", "padassign") else (lambda q: is_under(P, q))
        cone_comments = " ".join(c for q, e in t0.items() if own(q) for c in e.get("cm", []))
        if any(re.search(re.escape(x[1]) + r"\b", cone_comments) for x in diffs):
            return "foot-comment-moves-past-next-sibling"
    if kinds == {"comment-lost"} and (u["kind"] == "delete" or (u["kind"] == "assign" and t0[P]["a"][0] in ("map", "seq"))):
        lines = doc.split("\n")
        span = [e["pos"][0] for q, e in t0.items() if is_under(P, q) and e["pos"][0] > 0]
        ok = bool(span)
        strip = lambda b: re.sub(r"^(-\s*)+", "", b.strip())
        for x in diffs:
            pos = comment_positions(doc).get(x[2])
            if not ok or pos is None:
                ok = False
                break
            if pos[0] < min(span):
                between = lines[pos[0]:min(span) - 1]
            elif pos[0] > max(span):
                between = lines[max(span):pos[0] - 1]
            else:
                ok = False
                break
            # only blank and comment lines, at least one blank, lie between the lost comment and the deleted entry
            if not any(b.strip() == "" for b in between) or any(strip(b) and not strip(b).startswith("#") for b in between):
                ok = False
        if ok:
            return "comment-before-deleted-entry-lost"
    return None
