"""C13 — aliases and merge keys read as the YAML specification resolves them.

Decided by: theorems Props/C13.v over Model/Alias.v (traversal through the
un-exploded document with doTraverseMap/traverseMergeAnchor, whole-document
explode with reconstructAliasedMap/applyAlias/overrideEntry including its
index arithmetic, JSON encoding) and Spec/YamlMergeSpec.v (YAML 1.1 merge key
resolution).  Tie: correspondence of the three modelled routes with the
implementation (yqh `multi` op, YAML input) on generated documents x read
paths.  Direct oracle: the three routes of the implementation against an
independent resolution, in Python, of the generator's ground truth; explode
must leave no `&`, `*`, `<<` behind.  Deviations that fall in a recorded
defect class (KNOWN_FINDINGS.txt) are reported as KNOWN-FINDING, everything
else is a VIOLATION.
"""
import json, re
import vlib

IMPORTS = "From YQ Require Import Base.Str Spec.YamlMergeSpec Model.Alias."
FUEL = 60
KEYS = ["x", "y", "z", "w", "k1", "k2", "q"]
WORDS = ["va", "vb", "vc", "vd"]


# --------------------------------------------------------------------------
# documents
# --------------------------------------------------------------------------
QK = "<<\x00"          # an ORDINARY string key spelled << (written quoted: "<<" or '<<'), as opposed to the merge key


def kj(k):
    """the key as the resolved document / JSON shows it"""
    return "<<" if k == QK else k


def sc(text, a=None):
    return {"t": "sc", "a": a, "s": str(text)}


def sq(items, a=None):
    return {"t": "sq", "a": a, "items": items}


def mp(es, a=None):
    return {"t": "mp", "a": a, "es": es}


def al(name, target):
    return {"t": "al", "name": name, "target": target}


def yaml_of(n):
    t = n["t"]
    pre = ("&%s " % n["a"]) if n.get("a") else ""
    if n.get("tag"):
        pre += n["tag"] + " "          # a custom tag on an anchored / merged / aliased container
    if t == "sc":
        return pre + n["s"]
    if t == "al":
        return "*" + n["name"]
    if t == "sq":
        return pre + "[" + ", ".join(yaml_of(x) for x in n["items"]) + "]"
    ka = n.get("ka") or {}             # anchors on KEYS: {&k name: web}
    qs = n.get("qstyle", '"')
    return pre + "{" + ", ".join("%s%s: %s" % (("&%s " % ka[k]) if k in ka else "", (qs + "<<" + qs) if k == QK else k, yaml_of(v)) for k, v in n["es"]) + "}"


def coq_of(n):
    t = n["t"]
    a = "true" if n.get("a") else "false"
    if t == "sc":
        return "Sc %s %s" % (a, vlib.coq_str(n["s"]))
    if t == "al":
        return "Al (%s)" % coq_of(n["target"])
    if t == "sq":
        return "Sq %s [%s]" % (a, "; ".join(coq_of(x) for x in n["items"]))
    return "Mp %s [%s]" % (a, "; ".join("(%s, %s)" % (vlib.coq_str(k), coq_of(v)) for k, v in n["es"]))


def coq_path(p):
    # in a resolved document the only key spelled << is the ordinary (quoted) one: the model knows it as QK
    return "[" + "; ".join(("PKey %s" % vlib.coq_str(QK if s == "<<" else s)) if isinstance(s, str) else ("PIdx %d" % s) for s in p) + "]"


def expr_of(p):
    if not p:
        return "."
    return "".join(('["<<"]' if s == "<<" else ".%s" % s) if isinstance(s, str) else ("[%d]" % s) for s in p)


class Malformed(Exception):
    pass


def resolve(n):
    """Independent YAML 1.1 merge-key resolution of the ground truth (explicit keys win; earlier merge sources win)."""
    t = n["t"]
    if t == "sc":
        s = n["s"]
        if re.fullmatch(r"-?\d+", s):
            return int(s)
        return None if s == "null" else s
    if t == "al":
        return resolve(n["target"])
    if t == "sq":
        return [resolve(x) for x in n["items"]]
    out = {}
    for k, v in n["es"]:
        if k != "<<":
            out[kj(k)] = resolve(v)
    explicit = set(out)
    for k, v in n["es"]:
        if k == "<<":
            srcs = v["items"] if v["t"] == "sq" else [v]
            for s in srcs:
                if s["t"] != "al":
                    raise Malformed()
                m = resolve(s)
                if not isinstance(m, dict):
                    raise Malformed()
                for k2, v2 in m.items():
                    if k2 not in out:
                        out[k2] = v2
    return out


def all_paths(v, prefix=()):
    yield prefix
    if isinstance(v, dict):
        for k, x in v.items():
            yield from all_paths(x, prefix + (k,))
    elif isinstance(v, list):
        for i, x in enumerate(v):
            yield from all_paths(x, prefix + (i,))


def get_path(v, p):
    for s in p:
        if isinstance(s, str):
            if not isinstance(v, dict) or s not in v:
                return ("missing",)
            v = v[s]
        else:
            if not isinstance(v, list) or s >= len(v):
                return ("missing",)
            v = v[s]
    return ("ok", v)


def maps_in(n, seen=None):
    """every map node object of the document (targets are shared objects, visited once)"""
    if seen is None:
        seen = set()
    if id(n) in seen:
        return
    seen.add(id(n))
    t = n["t"]
    if t == "mp":
        yield n
        for _, v in n["es"]:
            yield from maps_in(v, seen)
    elif t == "sq":
        for x in n["items"]:
            yield from maps_in(x, seen)
    elif t == "al":
        yield from maps_in(n["target"], seen)


def has_merge_inside(n, seen=None):
    """does the subtree (following aliases) contain a merge key"""
    if seen is None:
        seen = set()
    if id(n) in seen:
        return False
    seen.add(id(n))
    t = n["t"]
    if t == "mp":
        return any(k == "<<" or has_merge_inside(v, seen) for k, v in n["es"])
    if t == "sq":
        return any(has_merge_inside(x, seen) for x in n["items"])
    if t == "al":
        return has_merge_inside(n["target"], seen)
    return False


def alias_targets(n, seen=None):
    if seen is None:
        seen = set()
    t = n["t"]
    if t == "al":
        if id(n["target"]) not in seen:
            seen.add(id(n["target"]))
            yield n["target"]
            yield from alias_targets(n["target"], seen)
    elif t == "mp":
        for _, v in n["es"]:
            yield from alias_targets(v, seen)
    elif t == "sq":
        for x in n["items"]:
            yield from alias_targets(x, seen)


def unexploded_target_with_merge(root):
    """some alias (value or merge source) points at a target that itself still needs merging"""
    return any(has_merge_inside(t) for t in alias_targets(root))


def has_quoted_key(root):
    return any(k == QK for m in maps_in(root) for k, _ in m["es"])


def has_real_merge(root):
    return any(k == "<<" for m in maps_in(root) for k, _ in m["es"])


def doc_classes(root):
    """Defect classes of KNOWN_FINDINGS.txt that the document can trigger (computed from ground truth)."""
    out = set()
    for m in maps_in(root):
        es = m["es"]
        for i, (k, v) in enumerate(es):
            if k != "<<":
                continue
            srcs = v["items"] if v["t"] == "sq" else [v]
            keysets = []
            for s in srcs:
                try:
                    r = resolve(s)
                except Malformed:
                    r = {}
                keysets.append(set(r) if isinstance(r, dict) else set())
            merged = set().union(*keysets) if keysets else set()
            for j, (k2, _) in enumerate(es):
                if j < i and k2 != "<<" and kj(k2) in merged:
                    out.add("explicit-before-merge")
            for a in range(len(keysets)):
                for b in range(a + 1, len(keysets)):
                    if keysets[a] & keysets[b]:
                        out.add("mergelist-overlap")
    return out


# --------------------------------------------------------------------------
# generator
# --------------------------------------------------------------------------
def names_in(n):
    """anchor names defined or referenced (by an alias) inside the node, the node's own anchor excluded"""
    t = n["t"]
    out = set()
    if t == "al":
        return {n["name"]}
    if t == "mp":
        out |= set((n.get("ka") or {}).values())
    for c in (n["items"] if t == "sq" else [v for _, v in n["es"]] if t == "mp" else []):
        if c.get("a"):
            out.add(c["a"])
        out |= names_in(c)
    return out


class Gen:
    def __init__(self, rng, adversarial, redef=False):
        self.rng, self.adv, self.redef = rng, adversarial, redef
        self.anchors = []     # (name, node)
        self.n = 0

    def fresh(self):
        self.n += 1
        return "a%d" % self.n

    def scalar(self):
        r = self.rng.random()
        if r < 0.55:
            return str(self.rng.randrange(0, 10))
        if r < 0.6:
            return "null"
        if self.adv and r < 0.75:
            return self.rng.choice(KEYS)      # a value whose text is also a key name
        return self.rng.choice(WORDS)

    def map_anchors(self):
        return [(n, t) for n, t in self.anchors if t["t"] == "mp"]

    def value(self, depth):
        rng = self.rng
        r = rng.random()
        if self.anchors and r < 0.2:
            n, t = rng.choice(self.anchors)
            return al(n, t)
        mas0 = self.map_anchors()
        if mas0 and r < 0.27:
            # a sequence of aliases to anchored maps (merge-bearing ones included), itself anchored and aliased later
            items = [al(*rng.choice(mas0)) for _ in range(rng.randrange(1, 4))]
            return self.reg(sq(items), 0.8)
        if depth >= 3 or r < 0.55:
            return self.reg(sc(self.scalar()), 0.3)
        if r < 0.7:
            items = [self.value(depth + 1) for _ in range(rng.randrange(0, 4))]
            node = sq(items)
            if rng.random() < 0.2:
                node["tag"] = "!lst"
            return self.reg(node, 0.3)
        return self.map(depth + 1)

    def reg(self, node, p):
        """give the finished node an anchor with probability p; aliases can refer to it from now on.
        With self.redef the name may be one that is already defined: anchors need not be unique, an alias
        refers to the most recent preceding definition, so the name is re-pointed for everything generated later
        (aliases generated earlier keep their own target object)."""
        if self.rng.random() < p:
            name = None
            if self.redef and self.anchors and self.rng.random() < 0.5:
                used = names_in(node)       # a name defined or referenced inside the node would change meaning
                cand = [n for n, _ in self.anchors if n not in used]
                if cand:
                    name = self.rng.choice(cand)
            if name is None:
                name = self.fresh()
            node["a"] = name
            self.anchors = [(n, t) for n, t in self.anchors if n != name] + [(name, node)]
        return node

    def map(self, depth, force_merge=False):
        rng = self.rng
        nkeys = rng.randrange(0, 4)
        keys = rng.sample(KEYS, nkeys)
        mas = self.map_anchors()          # only anchors defined before this map starts can be merged anywhere in it
        es = [[k, self.value(depth)] for k in keys]
        # a name re-defined inside these entries no longer means the snapshot's target at every position of the map
        redefined = set()
        for _, v in es:
            redefined |= names_in(v) | ({v["a"]} if v.get("a") else set())
        mas = [(n, t) for n, t in mas if n not in redefined]
        if mas and (force_merge or rng.random() < 0.6):
            r = rng.random()
            if r < 0.5:
                n, t = rng.choice(mas)
                mv = al(n, t)
            else:
                cnt = rng.choice([1, 2, 2, 3])
                picks = [rng.choice(mas) for _ in range(cnt)]
                if not self.adv:
                    # inside the domain: the sources of one list have pairwise disjoint key sets
                    chosen, used = [], set()
                    for n, t in picks:
                        try:
                            ks = set(resolve(t))
                        except Malformed:
                            continue
                        if not (ks & used) and all(n != c[0] for c in chosen):
                            chosen.append((n, t))
                            used |= ks
                    picks = chosen or picks[:1]
                mv = sq([al(n, t) for n, t in picks])
            pos = rng.randrange(0, len(es) + 1) if self.adv else 0
            es.insert(pos, ["<<", mv])
        if rng.random() < 0.1:
            # an ordinary string key spelled <<, beside (or instead of) a real merge key: it merges nothing
            qv = sc(self.scalar())
            if mas and rng.random() < 0.6:        # only anchors defined before this map: the entry may stand anywhere in it
                n2, t2 = rng.choice(mas)
                qv = al(n2, t2) if rng.random() < 0.6 else sq([al(n2, t2)])
            es.insert(rng.randrange(0, len(es) + 1), [QK, qv])
        node = mp(es)
        if rng.random() < 0.5:
            node["qstyle"] = "'"
        # anchors on keys: a later alias to one stands for the key's text
        for k, _ in es:
            if k != "<<" and k != QK and rng.random() < 0.12:
                nm = self.fresh()
                node.setdefault("ka", {})[k] = nm
                self.anchors.append((nm, sc(k)))
        if rng.random() < 0.2:
            node["tag"] = rng.choice(["!cfg", "!t"])     # custom-tagged map (also as merge / alias target)
        return self.reg(node, 0.5)

    def document(self):
        rng = self.rng
        top = []
        names = ["t%d" % i for i in range(rng.randrange(2, 7))]
        for i, nm in enumerate(names):
            r = rng.random()
            if r < 0.55:
                v = self.map(1, force_merge=(i >= 2 and rng.random() < 0.5))
            else:
                v = self.value(1)
            top.append([nm, v])
        return mp(top)


def fixed_docs():
    a = mp([["x", sc(1)], ["y", sc(2)]], "a")
    b = mp([["x", sc(10)], ["w", sc(3)]], "b")
    d1 = mp([["a", a], ["b", b], ["m", mp([["<<", sq([al("a", a), al("b", b)])], ["q", sc(0)]])],
             ["n", mp([["x", sc(5)], ["<<", al("a", a)]])], ["o", mp([["<<", al("a", a)], ["x", sc(5)]])]])
    c = mp([["z", sc(9)]], "c")
    d = sc(5, "d")
    a2 = mp([["<<", al("c", c)], ["x", al("d", d)]], "a")
    d2 = mp([["c", c], ["d", d], ["a", a2], ["b", al("a", a2)], ["e", mp([["<<", al("a", a2)], ["y", sc(1)]])]])
    a3 = mp([["x", sc(1)]], "a")
    b3 = mp([["x", sc(2)], ["w", sc(3)]], "b")
    d3 = mp([["a", a3], ["b", b3], ["m", mp([["<<", sq([al("a", a3), al("b", b3)])], ["z", sc("w")]])]])
    s = sq([sc(1, "s1"), sc("va")], "s")
    d4 = mp([["s", s], ["t", al("s", s)], ["u", al("s1", s["items"][0])], ["v", sq([al("s", s), al("s1", s["items"][0])])]])
    # the same anchor name defined twice: every alias / merge refers to the most recent preceding definition
    e1 = mp([["x", sc(1)], ["y", sc(2)]], "d")
    s1 = sc("one", "s")
    e2 = mp([["x", sc(10)], ["z", sc(3)]], "d")
    s2 = sc("two", "s")
    d5 = mp([["base", e1], ["first", mp([["<<", al("d", e1)], ["v", s1], ["w", al("s", s1)]])],
             ["other", e2], ["second", mp([["<<", al("d", e2)], ["v", s2], ["w", al("s", s2)]])],
             ["l", sq([al("d", e2), al("s", s2)])]])
    # anchors on keys, and a custom-tagged anchored map as merge and alias target
    kn, kp = sc("name"), sc("port")
    dflt = mp([["retries", sc(3)]], "d")
    base = mp([["host", sc("db")], ["port", sc(5432)]], "base"); base["tag"] = "!cfg"
    svc = mp([["name", sc("web")], ["label", al("k", kn)], ["conf", mp([["<<", al("d", dflt)], ["port", sc(80)]])], ["expose", al("p", kp)],
              ["one", mp([["<<", al("base", base)], ["port", sc(6000)]])], ["same", al("base", base)]])
    svc["ka"] = {"name": "k"}
    svc["es"][2][1]["ka"] = {"port": "p"}
    d6 = mp([["defaults", dflt], ["base", base], ["svc", svc]])
    b7 = mp([["x", sc(1)], ["y", sc(2)]], "base")
    svc7 = mp([["<<", al("base", b7)], ["y", sc(20)]], "svc")
    all7 = sq([al("svc", svc7), al("base", b7)], "all")
    d7 = mp([["base", b7], ["svc", svc7], ["all", all7], ["copy", al("all", all7)], ["user", mp([["targets", al("all", all7)]])]])
    df8 = mp([["x", sc(1)], ["y", sc(2)]], "defaults")
    d8 = mp([["defaults", df8], ["real", mp([["<<", al("defaults", df8)], ["y", sc(5)]])],
             ["ops", mp([[QK, al("defaults", df8)], ["y", sc(5)]])],
             ["list", mp([[QK, sq([al("defaults", df8)])], ["z", sc(3)]])],
             ["both", mp([["<<", al("defaults", df8)], [QK, sc(7)], ["z", sc(3)]])]])
    d8["es"][3][1]["qstyle"] = "'"
    # the same anchor used twice, read by iterating paths
    b9 = mp([["x", sc(1)], ["y", sq([sc(2), sc(3)])]], "base")
    d9 = mp([["base", b9], ["items", sq([al("base", b9), al("base", b9)])],
             ["m1", mp([["<<", al("base", b9)], ["k", sc(1)]])], ["m2", mp([["<<", al("base", b9)], ["k", sc(2)]])]])
    # an anchor name redefined INSIDE the node that first carries it; aliases after the inner definition mean the inner node
    lv = sc(3, "x")
    d10 = mp([["defaults", mp([["level", lv], ["copy", al("x", lv)]], "x")], ["other", al("x", lv)]])
    inner = mp([["port", sc(80)], ["tls", sc("va")]], "cfg")
    d11 = mp([["base", mp([["inner", inner], ["svc", mp([["<<", al("cfg", inner)], ["name", sc("vb")], ["tls", sc("vc")]])],
                           ["list", sq([al("cfg", inner)])]], "cfg")]])
    s12 = sq([sc(1, "q"), al("q", None)], "q")
    s12["items"][1]["target"] = s12["items"][0]
    d12 = mp([["s", s12], ["t", al("q", s12["items"][0])]])
    return [d1, d2, d3, d4, d5, d6, d7, d8, d9, d10, d11, d12, mp([]), mp([["k", sc("null")]])]


# --------------------------------------------------------------------------
# implementation
# --------------------------------------------------------------------------
def multi(items, out="json"):
    reqs = [{"op": "multi", "input": inp, "exprs": exprs, "out": out, "indent": 0 if out == "json" else 2, "deadline_ms": 60000} for inp, exprs in items]
    resp = vlib.yqh_parallel(reqs)
    res = []
    for (inp, exprs), r in zip(items, resp):
        res.append(r["results"] if r and "results" in r else [None] * len(exprs))
    return res


def obs(r):
    """-> ('ok', text) | ('err', msg) | ('panic', site) | ('crash', None)"""
    if r is None:
        return ("crash", None)
    if r.get("panic"):
        return ("panic", r["panic"])
    if r.get("err"):
        return ("err", r["err"])
    return ("ok", r.get("out", "").rstrip("\n"))


def as_bytes(o):
    k, v = o
    if k == "ok":
        # a "<<" member in JSON output can only be the ordinary string key (the model's QK)
        return v.encode("utf-8").replace(b'"<<"', b'"' + QK.encode() + b'"')
    if k == "err":
        return b"\xfb"
    return b"\xff"


def parse_json(o):
    k, v = o
    if k != "ok":
        return ("fail", o)
    if v == "":
        return ("empty",)
    try:
        return ("ok", json.loads(v))
    except Exception:
        return ("fail", o)


def want_of(truth, p):
    g = get_path(truth, p)
    return ("ok", None) if g[0] == "missing" else g      # a missing key reads null (created on the fly)


def judge_doc(doc, truth, paths, rs, ryaml):
    """Direct oracle for one document.  rs: results of [p1, explode|p1, p2, explode|p2, ..., '.'];
    -> list of (verdict, class, detail, path)"""
    out = []
    classes = doc_classes(doc)
    whole = parse_json(obs(rs[2 * len(paths)]))
    if whole[0] != "ok":
        out.append(("violation", None, "-o=json . failed: %r" % (whole,), None))
        whole = None
    else:
        whole = whole[1]
        if whole != truth:
            out.append(("deviation", None, "-o=json . differs from the resolved document", None))
    for i, p in enumerate(paths):
        want = want_of(truth, p)
        r1 = parse_json(obs(rs[2 * i]))
        r2 = parse_json(obs(rs[2 * i + 1]))
        r3 = want_of(whole, p) if whole is not None else None
        wv = want[1]
        container = isinstance(wv, (dict, list))
        np_ = len(paths)
        r4 = parse_json(obs(rs[2 * np_ + 1 + i]))
        r5 = parse_json(obs(rs[3 * np_ + 1 + i]))
        r6 = parse_json(obs(rs[4 * np_ + 1 + i]))
        if container and not has_quoted_key(doc):
            pk, pv = obs(rs[5 * np_ + 1 + i])
            if pk == "ok" and "<<" in pv:
                out.append(("deviation", None, "%s | to_props still shows a merge key: %s" % (expr_of(p), pv[:120]), p))
        for name, r in (("traverse", r1), ("explode-then-read", r2), ("json-then-read", r3), ("explode-of-the-node-then-read", r4),
                        ("traverse-then-to_json", r5), ("traverse-then-@json", r6)):
            if r is None:
                continue
            if r[0] == "ok" and r[1] == wv:
                continue
            if name in ("traverse", "explode-of-the-node-then-read", "traverse-then-to_json", "traverse-then-@json") and "<<" in p and has_real_merge(doc):
                # asking for the key spelled << is special-cased by the traversal (merge keys match it directly and are not followed)
                out.append(("deviation", "quoted-merge-read", "%s of %s gives %r, the resolved document has %r" % (name, expr_of(p), r[1:] if r[0] == "ok" else r, wv), p))
                continue
            out.append(("deviation", None, "%s of %s gives %r, the resolved document has %r" % (name, expr_of(p), r[1:] if r[0] == "ok" else r, wv), p))
    ky, vy = obs(ryaml)
    if ky != "ok":
        out.append(("violation", None, "explode(.) failed: %r" % (vy,), None))
    elif re.search(r"[&*]|<<", re.sub(r"""["']<<["']""", "", vy)):
        out.append(("violation", None, "explode(.) left an anchor, alias or merge key behind: %s" % vy[:200], None))
    res = []
    for verdict, cls, detail, p in out:
        if verdict == "deviation":
            if cls:
                res.append(("known", {cls}, detail, p))
            elif classes:
                res.append(("known", classes, detail, p))
            else:
                res.append(("violation", None, detail, p))
        else:
            res.append((verdict, None, detail, p))
    return res


def iter_exprs(truth, limit=6):
    """iterating reads: [P[].k] over sequences of maps, [(P1, P2) | .k] over sibling maps; -> [(expr, expected)]"""
    out = []
    for p in all_paths(truth):
        v = get_path(truth, p)[1]
        if isinstance(v, list) and len(v) >= 2 and all(isinstance(e, dict) for e in v):
            # a key every element has (reading a missing key would create it in the shared target: not this property's business)
            ks = [k for k in v[0] if k != "<<" and all(k in e for e in v)]
            if ks:
                k = ks[0]
                out.append(("[%s[].%s]" % (expr_of(p) if p else "", k), [e[k] for e in v]))
        if isinstance(v, dict):
            subs = [(k, x) for k, x in v.items() if isinstance(x, dict) and k != "<<"]
            for i in range(len(subs) - 1):
                (k1, x1), (k2, x2) = subs[i], subs[i + 1]
                common = [k for k in x1 if k in x2 and k != "<<"]
                if common:
                    k = common[0]
                    out.append(("[(%s, %s) | .%s]" % (expr_of(p + (k1,)), expr_of(p + (k2,)), k), [x1[k], x2[k]]))
    out = out[:limit]
    return out + [("explode(.) | " + e, w) for e, w in out]


def doc_exprs(paths):
    ex = []
    for p in paths:
        ex.append(expr_of(p))
        ex.append("explode(.) | " + expr_of(p))
    ex.append(".")
    # explode applied to a non-root node only, then read back (after the three routes of every path and ".")
    for p in paths:
        ex.append("explode(%s) | %s" % (expr_of(p), expr_of(p)))
    # the encode operators on the node a path reaches: they must explode merge keys like the printer does
    for p in paths:
        ex.append("%s | to_json(0) | from_json" % expr_of(p))
    for p in paths:
        ex.append("%s | @json | from_json" % expr_of(p))
    for p in paths:
        ex.append("%s | to_props" % expr_of(p))
    return ex


def yq_json(doc_text, expr):
    rc, o, e = vlib.run_yq(["-o=json", "-I0", expr], stdin=doc_text.encode())
    return rc, o.decode("utf-8", "replace").strip(), e.decode("utf-8", "replace")


def replay_known(chk):
    dq = "a: &a {x: 1}\nq: {\"<<\": 7, <<: *a, z: 3}\n"
    if yq_json(dq, '.q["<<"]')[1] == '{"x":1}' and yq_json(dq, 'explode(.) | .q["<<"]')[1] == "7":
        chk.known_finding("quoted-merge-read", '.q["<<"] reads {"x":1}, explode(.) | .q["<<"] reads 7')
    d = "a: &a {x: 1, y: 2}\nb: &b {x: 10, w: 3}\nm: {<<: [*a, *b], q: 0}\nn: {x: 5, <<: *a}\n"
    r1 = yq_json(d, ".m.x")
    r2 = yq_json(d, "explode(.) | .m.x")
    r3 = yq_json(d, ".")
    if r1[1] == "10" and r2[1] == "1" and '"m":{"x":1' in r3[1]:
        chk.known_finding("mergelist-overlap", ".m.x reads 10, explode(.) | .m.x reads 1")
    if yq_json(d, ".n.x")[1] == "1" and yq_json(d, "explode(.) | .n.x")[1] == "1" and '"n":{"x":1' in r3[1]:
        chk.known_finding("explicit-before-merge", ".n.x reads 1 on all three routes")


def stream_path(e):
    e = e.replace("explode(.) | ", "")
    if e in (".", "explode(.)"):
        return ()
    return tuple(x for x in e.strip(".").split(".") if x)


def replay(rp):
    if rp.get("kind") == "stream":
        e = rp["expr"]
        r = multi([(rp["yaml"], [e])])[0][0]
        k, v = obs(r)
        p = stream_path(e)
        want = [want_of(t, p)[1] for t in rp["truths"]]
        try:
            return k == "ok" and [json.loads(x) for x in v.split("\n")] == want
        except Exception:
            return False
    if rp.get("kind") == "iter":
        got = parse_json(obs(multi([(rp["yaml"], [rp["expr"]])])[0][0]))
        return got[0] == "ok" and got[1] == rp["want"]
    if rp.get("kind") != "doc":
        return False
    # the document is rebuilt from its YAML text only for the implementation; ground truth travels with the replay
    text, truth, paths = rp["yaml"], rp["truth"], [tuple(p) for p in rp["paths"]]
    rs = multi([(text, doc_exprs(paths))])[0]
    ry = multi([(text, ["explode(.)"])], out="yaml")[0][0]
    whole = parse_json(obs(rs[2 * len(paths)]))
    if whole[0] != "ok" or whole[1] != truth:
        return False
    for i, p in enumerate(paths):
        want = want_of(truth, p)[1]
        for r in (parse_json(obs(rs[2 * i])), parse_json(obs(rs[2 * i + 1])), parse_json(obs(rs[2 * len(paths) + 1 + i])),
                  parse_json(obs(rs[3 * len(paths) + 1 + i])), parse_json(obs(rs[4 * len(paths) + 1 + i]))):
            if r[0] != "ok" or r[1] != want:
                return False
    ky, vy = obs(ry)
    return ky == "ok" and not re.search(r"[&*]|<<", re.sub(r"""["']<<["']""", "", vy))


# --------------------------------------------------------------------------
def run(chk):
    thorough = chk.tier == "thorough"
    rng = chk.rng
    proved, plog = chk.prove("Props/C13.v", clean=False)
    broken = []
    if not proved:
        broken.append("proof obligations of Props/C13.v do not check: " + plog[-800:])
    replay_known(chk)

    docs = [(d, "fixed") for d in fixed_docs()]
    n_docs = 6000 if thorough else 450
    for i in range(n_docs):
        adv = rng.random() < 0.45
        redef = rng.random() < 0.35
        g = Gen(rng, adv, redef)
        docs.append((g.document(), ("adversarial" if adv else "simple") + ("+redef" if redef else "")))
    cases = []
    stats = {"docs": 0, "docs_clean": 0, "docs_malformed": 0, "paths": 0, "route1_unmodelled": 0, "known_class_hits": {},
             "with_merge": 0, "with_merge_list": 0, "with_alias_value": 0}
    for doc, prof in docs:
        try:
            truth = resolve(doc)
        except Malformed:
            stats["docs_malformed"] += 1
            continue
        ps = list(all_paths(truth))
        leaves = [p for p in ps if not isinstance(get_path(truth, p)[1], (dict, list))]
        inner = [p for p in ps if p and isinstance(get_path(truth, p)[1], (dict, list))]
        ps = [()] + (rng.sample(leaves, 10) if len(leaves) > 10 else leaves) + (rng.sample(inner, 4) if len(inner) > 4 else inner)
        # a few paths that do not exist
        if isinstance(truth, dict) and truth and rng.random() < 0.5:
            k = rng.choice(list(truth))
            ps.append((k, "nokey") if isinstance(truth[k], dict) else ("nokey",))
        cases.append((doc, truth, ps, prof))
    texts = [yaml_of(d) for d, _, _, _ in cases]
    res = multi([(t, doc_exprs(ps)) for t, (_, _, ps, _) in zip(texts, cases)])
    resy = multi([(t, ["explode(.)"]) for t in texts], out="yaml")
    iters = [iter_exprs(truth) for _, truth, _, _ in cases]
    resi = multi([(t, [e for e, _ in it] or ["."]) for t, it in zip(texts, iters)])
    stats["iterating_reads"] = sum(len(it) for it in iters)
    nviol = 0
    c1, c2, c3, cdom = [], [], [], []
    for (doc, truth, ps, prof), text, it, ri in zip(cases, texts, iters, resi):
        cl = doc_classes(doc)
        for (e, want), r in zip(it, ri):
            got = parse_json(obs(r))
            if got[0] == "ok" and got[1] == want:
                continue
            detail = "iterating read %s gives %r, the resolved document has %r" % (e, got[1:] if got[0] == "ok" else got, want)
            rp = {"kind": "iter", "yaml": text, "expr": e, "want": want, "detail": detail}
            cls = set(cl)
            if '["<<"]' in e and not e.startswith("explode(.)") and has_real_merge(doc):
                cls.add("quoted-merge-read")       # asking for the key spelled << through the un-exploded document
            unknown = [c for c in cls if not chk.is_known(c)]
            if cls and not unknown:
                for c in cls:
                    stats["known_class_hits"][c] = stats["known_class_hits"].get(c, 0) + 1
            else:
                nviol += 1
                if nviol <= 6:
                    chk.violation(rp, True, detail + "  [" + text[:200] + "]")
    for (doc, truth, ps, prof), text, rs, ry in zip(cases, texts, res, resy):
        stats["docs"] += 1
        cl = doc_classes(doc)
        stats["docs_clean"] += 0 if cl else 1
        stats["with_merge"] += 1 if "<<:" in text else 0
        stats["with_merge_list"] += 1 if "<<: [" in text else 0
        stats["with_alias_value"] += 1 if re.search(r"[a-z0-9]: \*", text) else 0
        stats["with_key_anchor"] = stats.get("with_key_anchor", 0) + (1 if re.search(r"[{,] ?&\w+ \w+:", text) else 0)
        stats["with_custom_tag"] = stats.get("with_custom_tag", 0) + (1 if re.search(r"!(cfg|t|lst) ", text) else 0)
        defs = re.findall(r"&(a\d+|[ds]) ", text)
        stats["with_anchor_redefined"] = stats.get("with_anchor_redefined", 0) + (1 if len(defs) != len(set(defs)) else 0)
        if any(r is None for r in rs):
            broken.append("harness gave no answer for a document")
            continue
        rp = {"kind": "doc", "yaml": text, "truth": truth, "paths": [list(p) for p in ps]}
        for verdict, classes, detail, p in judge_doc(doc, truth, ps, rs, ry[0]):
            if verdict == "violation":
                nviol += 1
                if nviol <= 6:
                    chk.violation(dict(rp, detail=detail, path=list(p) if p else None), True, detail + "  [" + text[:200] + "]")
            else:
                unknown = [c for c in classes if not chk.is_known(c)]
                if unknown:
                    nviol += 1
                    if nviol <= 6:
                        chk.violation(dict(rp, detail=detail, classes=sorted(classes)), True, detail + " (class %s not a recorded finding)  [%s]" % (unknown, text[:200]))
                else:
                    for c in classes:
                        stats["known_class_hits"][c] = stats["known_class_hits"].get(c, 0) + 1
        cd = coq_of(doc)
        for i, p in enumerate(ps):
            stats["paths"] += 1
            chk.count(("path", text, p), nontrivial=("*" in text),
                      sample={"doc": text, "path": expr_of(p), "traverse": obs(rs[2 * i])[1], "exploded": obs(rs[2 * i + 1])[1]} if (len(text) < 90 and "<<" in text and len(p) == 2) else None)
            if "<<" in p and has_real_merge(doc):
                stats["quoted_merge_reads_not_modelled"] = stats.get("quoted_merge_reads_not_modelled", 0) + 1
                c2.append(("(%s, %s)" % (cd, coq_path(p)), as_bytes(obs(rs[2 * i + 1])), (text, p)))
                continue
            c1.append(("(%s, %s)" % (cd, coq_path(p)), as_bytes(obs(rs[2 * i])), (text, p)))
            c2.append(("(%s, %s)" % (cd, coq_path(p)), as_bytes(obs(rs[2 * i + 1])), (text, p)))
            c1.append(("(%s, %s)" % (cd, coq_path(p)), as_bytes(obs(rs[2 * len(ps) + 1 + i])), (text, p)))
        c3.append((cd, as_bytes(obs(rs[2 * len(ps)])), (text, ())))
        cdom.append((cd, b"\x00" if cl else b"\x01", (text, ())))

    # ---------------- multi-document streams: every document re-uses the same anchor names ----------------
    # (the anchor table - yaml.v3 and yq's anchorMap - is tested here, not modelled: oracle only)
    streams = []
    for i in range(1500 if thorough else 120):
        k = rng.choice([2, 2, 3])
        ds = []
        for _ in range(k):
            g = Gen(rng, False, rng.random() < 0.5)
            d = g.document()
            try:
                ds.append((d, resolve(d)))
            except Malformed:
                pass
        if len(ds) >= 2:
            streams.append(ds)
    sm1 = mp([["d", mp([["x", sc(1)]], "d")], ["r", mp([["<<", None], ["w", sc("one", "s")], ["u", None]])]])
    sm1["es"][1][1]["es"][0][1] = al("d", sm1["es"][0][1]); sm1["es"][1][1]["es"][2][1] = al("s", sm1["es"][1][1]["es"][1][1])
    sm2 = mp([["d", mp([["x", sc(10)]], "d")], ["r", mp([["<<", None], ["w", sc("two", "s")], ["u", None]])]])
    sm2["es"][1][1]["es"][0][1] = al("d", sm2["es"][0][1]); sm2["es"][1][1]["es"][2][1] = al("s", sm2["es"][1][1]["es"][1][1])
    streams.insert(0, [(sm1, resolve(sm1)), (sm2, resolve(sm2))])
    SEXPRS = [".", "explode(.)", ".t0", ".t1", "explode(.) | .t1", ".r", ".r.u"]

    stexts = ["\n---\n".join(yaml_of(d) for d, _ in ds) + "\n" for ds in streams]
    sres = multi([(t, SEXPRS) for t in stexts])
    stats["streams"] = len(streams)
    for ds, text, rs in zip(streams, stexts, sres):
        classes = set()
        for d, _ in ds:
            classes |= doc_classes(d)
        chk.count(("stream", text), nontrivial=True)
        for e, r in zip(SEXPRS, rs):
            k, v = obs(r)
            lines = v.split("\n") if k == "ok" else None
            p = stream_path(e)
            want = [want_of(t, p)[1] for _, t in ds]
            got = None
            if lines is not None and len(lines) == len(ds):
                try:
                    got = [json.loads(x) for x in lines]
                except Exception:
                    got = None
            if got != want:
                detail = "stream: %s gives %r, the resolved documents have %r" % (e, v if got is None else got, want)
                rp = {"kind": "stream", "yaml": text, "truths": [t for _, t in ds], "expr": e, "detail": detail}
                unknown = [c for c in classes if not chk.is_known(c)]
                if classes and not unknown:
                    for c in classes:
                        stats["known_class_hits"][c] = stats["known_class_hits"].get(c, 0) + 1
                else:
                    nviol += 1
                    if nviol <= 6:
                        chk.violation(rp, True, detail + "  [" + text[:200].replace("\n", " / ") + "]")

    disagreements = []
    for name, fn, cs in (("route1 (PATH)", "(fun c => show_res (route1 %d (fst c) (snd c)))" % FUEL, c1),
                         ("route2 (explode(.) | PATH)", "(fun c => show_res (route2 %d (fst c) (snd c)))" % FUEL, c2),
                         ("route3 (-o=json .)", "(fun c => show_res (route3 %d c))" % FUEL, c3),
                         # the decidable domain of the theorems (merge_simple_doc) = "no defect class" as the oracle computes it
                         ("domain (merge_simple_doc)", "(fun c => [if merge_simple_doc %d c then 1 else 0]%%N)" % FUEL, cdom)):
        mism, err = vlib.coq_mismatches(chk.workdir, "r%s" % name[5].replace("n", "d"), IMPORTS, fn, [(c, e) for c, e, _ in cs], shard=250)
        if err:
            broken.append("model evaluation failed (%s): %s" % (name, err[-600:]))
            continue
        for i, mo in mism:
            if mo == b"\xfc":      # a key applied to a sequence / an index to a map: not modelled
                stats["route1_unmodelled"] += 1
                continue
            disagreements.append((name, cs[i][2][0], expr_of(cs[i][2][1]), repr(cs[i][1]), repr(mo)))

    chk.extra["distribution"] = stats
    chk.extra["disagreements"] = len(disagreements)
    if disagreements and not chk.violations:
        d = disagreements[0]
        chk.violation({"kind": "correspondence", "broken": "Model/Alias.v vs operator_traverse_path.go / operator_anchors_aliases.go / printer.go",
                       "route": d[0], "yaml": d[1], "path": d[2], "impl": d[3], "model": d[4], "count": len(disagreements),
                       "more": [x[:3] for x in disagreements[1:6]]},
                      False, "model and implementation disagree (%d cases, first on %s of %s in %s) but the direct oracle found no failing input" % (len(disagreements), d[0], d[2], d[1][:160]))
    if broken and not chk.violations:
        chk.violation({"kind": "obligation", "broken": broken}, False, "; ".join(broken)[:600])
    return chk.finish(
        checker_cmd="make -C coq Props/C13.vo (coqc 8.16.1, full .vo) + coqc work/C13/r*_*.v (vm_compute)",
        rule="seeded flow-style YAML documents: anchors on scalars, maps and sequences, aliases in value position, `<<` with one alias or a list of 1-3 "
             "aliases, merged maps that themselves merge, explicit keys overlapping merged keys; a 'simple' profile inside the domain merge_simple "
             "(`<<` first, disjoint list sources) and an adversarial one (`<<` anywhere, overlapping sources, scalar values spelled like key names); "
             "for each document up to 14 read paths drawn from the independently resolved ground truth (leaves and containers) plus missing keys, "
             "each read by PATH, by explode(.) | PATH, from -o=json . , by explode(PATH) | PATH, by PATH | to_json(0) | from_json and PATH | @json | from_json (and PATH | to_props scanned for <<); explode(.) is also printed as YAML and scanned for & * <<. "
             "Anchors also sit on map KEYS (an alias to one reads the key's text) and anchored maps / sequences carry custom tags (!cfg ...) as merge and alias targets. "
             "Iterating reads ([P[].k] over sequences of maps, [(P1, P2) | .k] over sibling maps, before and after explode) are compared with the resolved document; "
             "directed fixed documents use one anchor twice and redefine an anchor name inside the node that first carries it. "
             "About a third of the documents define an anchor name more than once (aliases and merges after each definition), and streams of 2-3 "
             "documents re-use the same anchor names in every document (oracle only: the anchor table of yaml.v3 / yq's anchorMap is tested, not modelled). "
             "A case is one (document, path); non-trivial when the document contains an alias; distinct by text.",
        trusted=vlib.COMMON_TRUSTED + [
            "Spec/YamlMergeSpec.v (hand-written YAML 1.1 merge-key resolution) and the independent python resolution used by the oracle",
            "documents enter the model as trees whose alias nodes carry a copy of their anchored target (the YAML decoder's anchor map is not modelled); "
            "keys are plain scalars, the merge key is the key spelled <<",
            "explode is modelled on trees (an alias reads the exploded target), for the whole document and for a single printed result alike",
            "scalars are decimal integers, null and short words, so the JSON scalar encoder is not exercised here (C06)"],
        assumptions=["correspondence is sampled; the unbounded claims are the Coq theorems over the model"])
