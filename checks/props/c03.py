"""C03 — delete removes exactly the selected nodes and nothing else."""
import json
import vlib, evalgen, evalcheck
from evalgen import lit, path_expr

STALE_OPS = ["sort", "sort_by", "reverse", "slice", "map", "filter", "add", "collect", "unique", "flatten"]


def selection(g, d):
    rng = g.rng
    r = rng.random()
    seqs = [p for p in evalgen.doc_paths(d) if isinstance(evalgen._get(d, p), list) and len(evalgen._get(d, p)) >= 2]
    if r < 0.25:
        return path_expr(g.simple_path(allow_new=False))
    if r < 0.45 and seqs:
        p = rng.choice(seqs)
        n = len(evalgen._get(d, p))
        idx = rng.sample(range(n), min(n, rng.choice([2, 2, 3])))
        e = None
        for i in idx:
            s = ("index", path_expr(p), lit(i if rng.random() < 0.8 else i - n))
            e = s if e is None else ("union", e, s)
        if rng.random() < 0.3:
            # an index beyond the end selects nothing: the other victims are still deleted, wherever it stands in the union
            oob = ("index", path_expr(p), lit(n + rng.choice([0, 1, 5])))
            e = ("union", e, oob) if rng.random() < 0.5 else ("union", oob, e)
        return e
    if r < 0.65:
        base = path_expr(rng.choice(seqs)) if seqs and rng.random() < 0.7 else ("self",)
        return ("pipe", ("index", base, None), ("select", (rng.choice(["lt", "gt", "eq", "ne"]), ("self",), lit(rng.choice([0, 1, 2, "a", "cat"])))))
    if r < 0.78:
        return ("pipe", ("recurse",), ("select", (rng.choice(["eq", "lt", "gt"]), ("self",), lit(rng.choice([0, 1, 2, 3, "a", "b"])))))
    if r < 0.88:
        # the predicate reads below the candidate (an index at or beyond the end, a missing key): looking is not touching
        allseqs = [p for p in evalgen.doc_paths(d) if isinstance(evalgen._get(d, p), list)]
        if allseqs and rng.random() < 0.7:
            p = rng.choice(allseqs)
            ln = len(evalgen._get(d, p))
            step = ("index", ("self",), lit(ln + rng.choice([0, 0, 0, 1, -1])))
            if rng.random() < 0.3 and ln >= 1:
                return ("pipe", ("index", path_expr(p), lit(ln)), ("getkey", rng.choice(evalgen.KEYS)))
        else:
            step = ("getkey", rng.choice(evalgen.KEYS))
        base = rng.choice([("recurse",), ("index", ("self",), None)])
        return ("pipe", base, ("select", (rng.choice(["eq", "ne"]), step, lit(rng.choice([0, 1, 2, None, "a"])))))
    return ("union", path_expr(g.simple_path(allow_new=False)), path_expr(g.simple_path(allow_new=False)))


def op_of(f):
    k = f[2][0]
    return {"sort": "sort", "sort_by": "sort_by", "reverse": "reverse", "slice": "slice", "map": "map", "filter": "filter",
            "add": "add", "collect": "collect", "unique": "unique", "flatten": "flatten"}.get(k, k)


def run(chk):
    thorough = chk.tier == "thorough"
    proved, plog = chk.prove("Props/C03.v")
    broken = []
    if not proved:
        broken.append("proof obligations of Props/C03.v do not check: " + plog[-800:])
    g = evalgen.Gen(chk.rng)
    n = 20000 if thorough else 8000
    fresh, derived = [], []
    for _ in range(n):
        d = evalgen.gen_doc(chk.rng)
        if chk.rng.random() < 0.15 and isinstance(d, dict):
            # keys that look like glob patterns must be deleted literally, never as patterns
            d = dict(list(d.items()) + [(chk.rng.choice(["*", "a*", "?", "*b", "??"]), chk.rng.choice(evalgen.INTS[:4]))])
            items = list(d.items()); chk.rng.shuffle(items); d = dict(items)
        if chk.rng.random() < 0.25:
            import c16
            d = c16.numkeys(d, chk.rng)      # string keys that look like numbers are deleted as strings
        g.set_doc(d)
        globk = [k for k in d if any(c in k for c in "*?")] if isinstance(d, dict) else []
        if globk and chk.rng.random() < 0.6:
            # select the pattern-keyed entry by its value: only that entry may disappear
            d[globk[0]] = "uniq"
            fresh.append((("pipe", ("index", ("self",), None), ("select", ("eq", ("self",), lit("uniq")))), d))
            continue
        fresh.append((selection(g, d), d))
    for _ in range(n // 2):
        d = evalgen.gen_doc(chk.rng)
        g.set_doc(d)
        f = g.derive()
        sel = chk.rng.choice([("index", ("self",), lit(chk.rng.choice([0, 1, 2, -1]))),
                              ("pipe", ("index", ("self",), None), ("select", (chk.rng.choice(["lt", "gt", "eq"]), ("self",), lit(chk.rng.choice([1, 2, 5]))))),
                              ("union", ("index", ("self",), lit(0)), ("index", ("self",), lit(2)))])
        derived.append((f, sel, d))
    for _ in range(n // 6):
        # containers created by an assignment (no tag yet), then a delete inside them
        d = evalgen.gen_doc(chk.rng)
        g.set_doc(d)
        base = g.simple_path(allow_new=False) if chk.rng.random() < 0.5 else ()
        newp = tuple(base) + (chk.rng.choice(["x", "y"]),) + tuple(chk.rng.choice([("k",), (2,), ("k", 1), (1, "k")]))
        f = ("assign", path_expr(newp), lit(chk.rng.choice([1, "v"])))
        sel = path_expr(newp[:len(base) + 1] + ((0,) if isinstance(newp[len(base) + 1], int) else (newp[len(base) + 1],)))
        derived.append((f, sel, d))
    # ---- fresh documents: oracle = reference removal of the paths the selection reports
    reqs = []
    for s, d in fresh:
        reqs.append((("del", s), d))
        # the selection is evaluated read-only, as del evaluates it (a writable `[s | path]` would pad sequences for
        # indices beyond the end and shift what negative indices mean)
        reqs.append((("collect", ("as", ("pipe", s, ("path",)), "p", ("var", "p"))), d))
    for s, d in fresh[: len(fresh) // 3]:
        if s[0] == "union":
            reqs.append((("del", ("union", s[2], s[1])), d))
    cases = [(("del", s), d) for s, d in fresh] + [(("pipe", f, ("del", sel)), d) for f, sel, d in derived]
    impl, mm, unsup, err = evalcheck.correspondence(chk, cases, "c03_cases")
    if err:
        broken.append("model evaluation failed: " + err[-600:])
    out = evalcheck.impl_eval(reqs)
    nviol = 0
    k = 0
    swapped = {}
    for i, (s, d) in enumerate(fresh):
        got, paths = out[2 * i], out[2 * i + 1]
        key = (evalgen.render(s), json.dumps(d))
        rp = evalcheck.results_of(paths)
        if not got.startswith(b"OK\n") or rp is None or len(rp) != 1:
            chk.count(key, nontrivial=False)
            continue
        victims = [evalcheck.unser_paths(x) for x in split_items(rp[0])]
        # deleting the root yields no result at all
        if () in victims:
            chk.count(key, nontrivial=False)
            continue
        want = b"OK\n" + evalcheck.ser(evalcheck.jremove(d, victims)) + b"\n"
        chk.count(key, nontrivial=len(victims) > 0, sample={"expr": "del(%s)" % evalgen.render(s), "doc": d, "victims": [list(v) for v in victims]} if len(victims) > 1 else None)
        if got != want:
            nviol += 1
            if nviol <= 5:
                chk.violation({"kind": "eval", "expr": evalgen.render(("del", s)), "doc": d, "impl": got.decode("utf-8", "replace"),
                               "expect": want.decode("utf-8", "replace"), "victims": [list(v) for v in victims]}, True,
                              "del() did not remove exactly the selected nodes: " + evalgen.render(("del", s)))
    base = 2 * len(fresh)
    j = 0
    for i, (s, d) in enumerate(fresh[: len(fresh) // 3]):
        if s[0] == "union":
            a, b = out[2 * i], out[base + j]
            j += 1
            if a.startswith(b"OK") and b.startswith(b"OK") and a != b:
                chk.violation({"kind": "eval", "expr": evalgen.render(("del", ("union", s[2], s[1]))), "doc": d, "impl": b.decode("utf-8", "replace"),
                               "expect": a.decode("utf-8", "replace")}, True, "del(s1, s2) differs from del(s2, s1)")
    # ---- derived containers: `f | del(s)` must equal del(s) applied to the value f produces
    fvals = evalcheck.impl_eval([(f, d) for f, sel, d in derived])
    reqs2, idx2 = [], []
    for i, (f, sel, d) in enumerate(derived):
        res = evalcheck.results_of(fvals[i])
        if res is None or len(res) != 1:
            continue
        try:
            import c02
            val = c02.unser_json(res[0])
        except Exception:
            continue
        reqs2.append((("del", sel), val))
        idx2.append(i)
    out2 = evalcheck.impl_eval(reqs2)
    stale = {}
    off = len(fresh)
    for (e2, val), i, want in zip(reqs2, idx2, out2):
        f, sel, d = derived[i]
        got = impl[off + i]
        key = (evalgen.render(("pipe", f, ("del", sel))), json.dumps(d))
        if want.startswith(b"OK") and got.startswith(b"ERR") and isinstance(mm.get(off + i), bytes) and mm[off + i].startswith(b"OK") \
                and (off + i) not in evalcheck.LAST_UNSUP:
            # the delete fails on the container as the expression left it, while the same delete on the same value decoded
            # afresh succeeds (and the reference semantics defines a result): nothing was removed
            nviol += 1
            if nviol <= 8:
                chk.violation({"kind": "eval", "expr": key[0], "doc": d, "impl": got.decode("utf-8", "replace"), "expect": want.decode("utf-8", "replace")},
                              True, "del() reports an error on a container built by the expression, but removes the selection from the same value decoded afresh: " + key[0])
            continue
        if not got.startswith(b"OK") or not want.startswith(b"OK"):
            chk.count(key, nontrivial=False)
            continue
        chk.count(key, nontrivial=True)
        if got != want:
            op = op_of(f)
            if (off + i) in evalcheck.LAST_UNSUP:
                continue
            if (off + i) not in mm and chk.is_known("stale-key-" + op):
                # the model (AddChild keeps a stale Key) predicts exactly this output: the recorded finding
                stale.setdefault(op, (evalgen.render(("pipe", f, ("del", sel))), d, got, want))
            else:
                nviol += 1
                if nviol <= 5:
                    chk.violation({"kind": "eval", "expr": evalgen.render(("pipe", f, ("del", sel))), "doc": d, "impl": got.decode("utf-8", "replace"),
                                   "expect": want.decode("utf-8", "replace")}, True, "delete on a derived container removed the wrong element")
    for op, (expr, d, got, want) in sorted(stale.items()):
        chk.known_finding("stale-key-" + op, "%s on %s -> %s, expected %s" % (expr, json.dumps(d), got.decode("utf-8", "replace").strip(), want.decode("utf-8", "replace").strip()))
    # ---- deleting from a COPY leaves the original alone: `(copy-of-container | del(s)) as $x | .` prints the document
    copies = []
    for _ in range(1500 if thorough else 250):
        d = evalgen.gen_doc(chk.rng)
        conts = [p_ for p_ in evalgen.doc_paths(d) if isinstance(evalgen._get(d, p_), (list, dict)) and len(evalgen._get(d, p_)) >= 2]
        if not conts:
            continue
        cp = chk.rng.choice(conts)
        P = path_expr(cp) if cp else ("self",)
        f = chk.rng.choice([("pipe", P, ("map", ("self",))), ("collect", ("pipe", P, ("index", ("self",), None))), ("pipe", P, ("reverse",)) if isinstance(evalgen._get(d, cp), list) else ("pipe", P, ("map", ("self",))),
                            ("pipe", P, ("to_entries",)), ("pipe", P, ("filter", ("ne", ("self",), lit(12345))))])
        sel = chk.rng.choice([("index", ("self",), lit(0)), ("index", ("self",), lit(-1)), ("union", ("index", ("self",), lit(0)), ("index", ("self",), lit(1)))])
        copies.append((("as", ("pipe", f, ("del", sel)), "x", ("self",)), d))
        copies.append((("pipe", ("assign", ("getkey", "zz"), ("pipe", f, ("del", sel))), ("del", ("getkey", "zz"))), d))
    cout = evalcheck.impl_eval(copies)
    for (e, d), got in zip(copies, cout):
        if not got.startswith(b"OK\n"):
            chk.count(("copy", evalgen.render(e), json.dumps(d)), nontrivial=False)
            continue
        chk.count(("copy", evalgen.render(e), json.dumps(d)), nontrivial=True)
        want = b"OK\n" + evalcheck.ser(d) + b"\n"
        if got != want and len(chk.violations) < 8:
            chk.violation({"kind": "eval", "expr": evalgen.render(e), "doc": d, "impl": got.decode("utf-8", "replace"), "expect": want.decode("utf-8", "replace")}, True,
                          "deleting from a copy of a container changed the container it was copied from: " + evalgen.render(e))
    # ---- YAML documents with anchors and aliases: after explode, a delete below an expanded alias removes that node only
    #      (not the anchored original, not a sibling expansion): compared with the delete on the exploded value decoded afresh
    import c16
    yc = []
    for _ in range(300 if thorough else 40):
        yc.append(c16.gen_alias_yaml(chk.rng))
    ex = vlib.yqh_parallel([{"op": "eval", "expr": "explode(.)", "input": y, "in": "yaml", "out": "json", "indent": 0} for y in yc])
    yreq, ymeta = [], []
    for y, r in zip(yc, ex):
        if not r or r.get("err") or "out_b64" not in r:
            continue
        try:
            after = json.loads(vlib.b64d(r["out_b64"]))
        except Exception:
            continue
        ps = [p_ for p_ in evalgen.doc_paths(after) if p_]
        for p_ in chk.rng.sample(ps, min(4, len(ps))):
            sel = evalgen.render(path_expr(p_))
            yreq.append({"op": "eval", "expr": "explode(.) | del(%s)" % sel, "input": y, "in": "yaml", "out": "json", "indent": 0})
            yreq.append({"op": "eval", "expr": "del(%s)" % sel, "input": json.dumps(after), "in": "json", "out": "json", "indent": 0})
            ymeta.append((y, sel))
    yresp = vlib.yqh_parallel(yreq)
    for k, (y, sel) in enumerate(ymeta):
        a, b = yresp[2 * k], yresp[2 * k + 1]
        if not a or not b or a.get("err") or b.get("err") or "out_b64" not in a or "out_b64" not in b:
            continue
        try:
            ga, gb = json.loads(vlib.b64d(a["out_b64"])), json.loads(vlib.b64d(b["out_b64"]))
        except Exception:
            continue
        chk.count(("yamldel", sel, y), nontrivial=True)
        if ga != gb and len(chk.violations) < 8:
            chk.violation({"kind": "yamldel", "expr": "explode(.) | del(%s)" % sel, "yaml": y, "impl": json.dumps(ga), "expect": json.dumps(gb)}, True,
                          "after explode, del(%s) did not remove exactly that node" % sel)
    chk.extra["copy_frame_cases"] = len(copies)
    chk.extra["yaml_alias_delete_cases"] = len(ymeta)
    chk.extra["distribution"] = {"fresh": len(fresh), "derived": len(derived), "impl_outcomes": evalcheck.outcome_stats(impl), "outside_model_fragment(UNSUP)": unsup,
                                 "stale_key_classes_seen": sorted(stale)}
    if mm and not chk.violations:
        evalcheck.report_disagreements(chk, cases, impl, mm, "C03 correspondence")
    if broken and not chk.violations:
        chk.violation({"kind": "obligation", "broken": broken}, False, "; ".join(broken)[:600])
    return chk.finish(
        checker_cmd="make -C coq Props/C03.vo + coqc work/C03/c03_cases_*.v (vm_compute)",
        rule="del(s) on fresh JSON documents (s: simple path, several indices of one sequence in any order, splat+predicate, recursive descent+predicate, unions) checked against removal of exactly the paths `[s | path]` reports; `f | del(s)` on containers rebuilt by sort/sort_by/reverse/slice/map/filter/+/collect/unique/flatten checked against del(s) on the materialised value; non-trivial = at least one node selected",
        trusted=vlib.COMMON_TRUSTED + ["Model/Eval.v + Model/Store.v (delete by recorded key) hand-written from operator_delete.go and candidate_node.go"],
        assumptions=["JSON-model documents with unique keys, stream mode"])


def split_items(lst_bytes):
    """'L2[<n1><n2>]' -> [n1 bytes, n2 bytes] for a list of path lists"""
    b = lst_bytes
    i = b.index(b"[")
    n = int(b[1:i])
    pos = i + 1
    out = []
    for _ in range(n):
        start = pos
        assert b[pos:pos + 1] == b"L"
        j = b.index(b"[", pos)
        m = int(b[pos + 1:j])
        pos = j + 1
        for _ in range(m):
            c = b.index(b":", pos)
            ln = int(b[pos + 1:c])
            pos = c + 1 + ln
        pos += 1
        out.append(b[start:pos])
    return out


def replay_yamldel(rp):
    r = vlib.yqh_batch([{"op": "eval", "expr": rp["expr"], "input": rp["yaml"], "in": "yaml", "out": "json", "indent": 0}])[0]
    if not r or r.get("err") or "out_b64" not in r:
        return True
    return json.loads(vlib.b64d(r["out_b64"])) == json.loads(rp["expect"])


def replay(rp):
    if rp.get("kind") == "yamldel":
        return replay_yamldel(rp)
    return evalcheck.replay_eval(rp)
