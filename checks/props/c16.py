"""C16 — path, key and parent describe where a node actually is."""
import json
import vlib, evalgen, evalcheck
from evalgen import lit, path_expr
import c03


WITNESSES = [("sort", "[sort | .[] | path]", "[3,1,2]", "[[1],[2],[0]]"), ("sort_by", "[sort_by(.) | .[] | path]", "[3,1,2]", "[[1],[2],[0]]"),
             ("reverse", "[reverse | .[] | path]", "[1,2]", "[[1],[0]]"), ("slice", "[.[1:3] | .[] | path]", "[1,2,3]", "[[1],[2]]"),
             ("map", "[map(.) | .[] | path]", '{"c":1}', '[["c"]]'), ("filter", "[filter(. != 1) | .[] | path]", "[1,2,3]", "[[1],[2]]"),
             ("add", "[. + [9] | .[] | path]", "[1]", "[[0],[0]]"), ("collect", "[[.[1], .[0]] | .[] | path]", "[1,2]", "[[1],[0]]"),
             ("unique", "[unique | .[] | path]", "[1,1,2]", "[[0],[2]]"), ("flatten", "[flatten | .[] | path]", "[[1],[2]]", "[[0],[0]]")]


NUMKEYS = ["0", "1", "2", "-1", "007", "1e3", "0x10", "1.5", "true", "null", "~"]


def numkeys(d, rng):
    """rename some map keys to strings that look like numbers / other types"""
    if isinstance(d, dict):
        out = {}
        for k, v in d.items():
            nk = rng.choice(NUMKEYS) if rng.random() < 0.5 else k
            if nk in out:
                nk = k
            out[nk] = numkeys(v, rng)
        return out
    if isinstance(d, list):
        return [numkeys(x, rng) for x in d]
    return d


OTHER_FORMAT_DOCS = [
    ("xml", "<a>x<!--c-->y</a>"), ("xml", "<a>x<![CDATA[y]]>z<b/>w</a>"), ("xml", "<r id=\"1\"><i>1</i><j k=\"v\">t</j><i>2</i><i><n>3</n></i></r>"),
    ("xml", "<?xml version=\"1.0\"?><!-- lead --><r><e/><e>1</e>text<e a=\"b\"/></r>"),
    ("toml", "a = 1\n[t]\nb = [1, 2, [3]]\n[t.u]\nc = {d = 1, e = [1]}\n[[arr]]\nx = 1\n[[arr]]\nx = 2\n[arr.sub]\ny = 3\n"),
    ("props", "a.b.c = 1\na.b.d = 2\nl.0 = x\nl.1 = y\nm.0.k = v\n"), ("csv", "a,b\n1,2\n3,4\n"), ("tsv", "a\tb\n1\t2\n"),
    ("lua", "return {a = {1, 2, {b = 3}}, [\"c d\"] = {e = {}}, f = {{g = 1}, {g = 2}}}"), ("json", "{\"a\": [{\"b\": [1, {\"c\": 2}]}], \"1\": {\"0\": 3}}"),
    ("yaml", "a: [1, {b: [2, {c: 3}]}]\n\"1\": {\"2\": x}\n"),
]


def gen_alias_yaml(rng):
    """a small YAML document (flow style) with anchors on maps / sequences / scalars and aliases as map values,
    sequence elements and merge keys"""
    sc = lambda: rng.choice(["1", "2", "x", "true", "null", "\"s t\""])
    def seq(n=None):
        return "[" + ", ".join(sc() for _ in range(n if n is not None else rng.randrange(1, 4))) + "]"
    def mp():
        ks = rng.sample(["p", "q", "r", "s"], rng.randrange(1, 4))
        return "{" + ", ".join("%s: %s" % (k, rng.choice([sc(), seq(), "{r: 1}"])) for k in ks) + "}"
    lines = ["a: &x {p: %s, q: {r: %s}%s}" % (seq(2), sc(), rng.choice(["", ", s: 5"]))]
    lines.append("y: &y " + rng.choice([seq(), sc(), mp()]))
    ymap = lines[-1].startswith("y: &y {")
    lines.append("b: " + rng.choice(["*x", "*y", "{k: *x}"]))
    lines.append("c: [" + ", ".join(rng.choice(["*x", "*x", "*y", sc(), mp()]) for _ in range(rng.randrange(1, 4))) + "]")
    if rng.random() < 0.7:
        merges = rng.choice(["*x", "[*x]", "[*x, *y]" if ymap else "[*x]"])
        lines.append("d: {<<: %s, z: %s}" % (merges, rng.choice(["*y", sc()])))
    if rng.random() < 0.4:
        lines.append("e: [{<<: *x, p: 3}, *y]")
    return "\n".join(lines) + "\n"


def c02_unser(b):
    import c02
    return c02.unser_json(b)


def returns_root(u):
    return u[0] in ("assign", "update", "compound", "del") or (u[0] == "pipe" and returns_root(u[1]) and returns_root(u[2]))


def root_update(g):
    """an update whose result is the document itself (`P[] | (.k = v)` hands back the items instead)"""
    u = g.update()
    while not returns_root(u):
        u = g.update()
    return u


def compound_add(e):
    if isinstance(e, tuple):
        if len(e) > 1 and e[0] == "compound" and e[1] == "add":
            return True
        return any(compound_add(x) for x in e[1:])
    return False


def run(chk):
    thorough = chk.tier == "thorough"
    proved, plog = chk.prove("Props/C16.v")
    broken = []
    if not proved:
        broken.append("proof obligations of Props/C16.v do not check: " + plog[-800:])
    g = evalgen.Gen(chk.rng)
    n = 10000 if thorough else 3000
    docs = [evalgen.gen_doc(chk.rng, maxdepth=4) for _ in range(n)]
    # string keys that look like numbers stay strings in path / key / parent
    docs = [numkeys(d, chk.rng) if chk.rng.random() < 0.3 else d for d in docs]
    # ---- fresh documents: `.. | path` enumerates exactly the positions; key is the last element; parent holds the node
    q_paths = ("collect", ("pipe", ("recurse",), ("path",)))
    q_keys = ("collect", ("pipe", ("recurse",), ("key",)))
    q_par = ("collect", ("pipe", ("recurse",), ("pipe", ("parent",), ("path",))))
    q_ent = ("collect", ("pipe", ("recurse",), ("select", ("or", ("eq", ("pipe", ("self",), ("length",)), lit(-1)), lit(True)))))
    cases = []
    for d in docs:
        cases += [(q_paths, d), (q_keys, d), (q_par, d)]
    derived = []
    for _ in range(n):
        d = evalgen.gen_doc(chk.rng)
        g.set_doc(d)
        f = g.derive()
        derived.append((f, d))
        cases.append((("pipe", f, ("collect", ("pipe", ("index", ("self",), None), ("path",)))), d))
    # updates followed by path queries: after any sequence of assignments / deletes the document must still be well-keyed
    hist = []
    for _ in range(n):
        d = evalgen.gen_doc(chk.rng)
        g.set_doc(d)
        u = root_update(g)
        k = chk.rng.random()
        if k < 0.4:
            u = ("pipe", u, root_update(g))
        elif k < 0.6:
            # copy a container elsewhere, then delete from the original: the copy must keep its own keys
            seqs = [p for p in evalgen.doc_paths(d) if isinstance(evalgen._get(d, p), list) and len(evalgen._get(d, p)) >= 2]
            if seqs:
                sp = chk.rng.choice(seqs)
                u = ("pipe", ("assign", ("getkey", "z"), path_expr(sp)), ("del", ("index", path_expr(sp), lit(chk.rng.choice([0, 1])))))
        hist.append((u, d))
        cases.append((("pipe", u, q_paths), d))
    # a delete on a rebuilt container renumbers ALL its survivors (deleteFromArray), whatever keys they carried: judged
    # against the model (remove_item), the rebuilt container being the recorded stale-key class until then
    dd_off = len(cases)
    for _ in range(n // 2):
        d = evalgen.gen_doc(chk.rng)
        g.set_doc(d)
        f = g.derive()
        k = chk.rng.choice([0, 1, -1, 2])
        cases.append((("pipe", f, ("pipe", ("del", ("index", ("self",), lit(k))), ("collect", ("pipe", ("index", ("self",), None), ("key",))))), d))
    # to_entries on a rebuilt sequence reports positions (it numbers the elements itself, whatever keys they carry)
    te_off = len(cases)
    for _ in range(n // 3):
        d = evalgen.gen_doc(chk.rng)
        g.set_doc(d)
        f = g.derive()
        cases.append((("pipe", f, ("pipe", ("to_entries",), ("collect", ("pipe", ("index", ("self",), None), ("getkey", "key"))))), d))
    impl, mm, unsup, err = evalcheck.correspondence(chk, cases, "c16_cases")
    for i in range(te_off, len(cases)):
        res = evalcheck.results_of(impl[i])
        if res is None or len(res) != 1 or i in evalcheck.LAST_UNSUP:
            continue
        try:
            keys = c02_unser(res[0])
        except Exception:
            continue
        base = cases[i][0][1]
        # only sequences number their entries; entries of a map carry its keys
        chk.count(("to_entries", evalgen.render(cases[i][0]), json.dumps(cases[i][1])), nontrivial=isinstance(keys, list) and len(keys) > 1)
        if isinstance(keys, list) and keys and all(isinstance(k_, int) for k_ in keys) and keys != list(range(len(keys))) and len(chk.violations) < 5:
            chk.violation({"kind": "eval", "expr": evalgen.render(cases[i][0]), "doc": cases[i][1], "impl": impl[i].decode("utf-8", "replace"),
                           "expect": (b"OK\n" + evalcheck.ser(list(range(len(keys)))) + b"\n").decode()}, True,
                          "to_entries on a rebuilt sequence does not number the elements by position")
    for i in range(dd_off, len(cases)):
        res = evalcheck.results_of(impl[i])
        if res is None or len(res) != 1 or i in evalcheck.LAST_UNSUP:
            continue
        try:
            keys = c02_unser(res[0])
        except Exception:
            continue
        chk.count(("derived-del", evalgen.render(cases[i][0]), json.dumps(cases[i][1])), nontrivial=isinstance(keys, list) and len(keys) > 1)
        # (elements that came out of a map keep string-typed keys, renumbered "0", "1", ...: compared by text)
        if isinstance(keys, list) and [str(k) for k in keys] != [str(j) for j in range(len(keys))] and len(chk.violations) < 5:
            chk.violation({"kind": "eval", "expr": evalgen.render(cases[i][0]), "doc": cases[i][1], "impl": impl[i].decode("utf-8", "replace"),
                           "expect": (b"OK\n" + evalcheck.ser(list(range(len(keys)))) + b"\n").decode()}, True,
                          "after a delete the surviving elements of the sequence do not report their positions")
    if err:
        broken.append("model evaluation failed: " + err[-600:])
    nviol = 0
    for i, d in enumerate(docs):
        paths = evalgen.doc_paths(d)
        want_paths = b"OK\n" + evalcheck.ser([list(p) for p in paths]) + b"\n"
        want_keys = b"OK\n" + evalcheck.ser([p[-1] for p in paths if p]) + b"\n"
        want_par = b"OK\n" + evalcheck.ser([list(p[:-1]) for p in paths if p]) + b"\n"
        got = impl[3 * i:3 * i + 3]
        chk.count(("fresh", json.dumps(d)), nontrivial=len(paths) > 3, sample={"doc": d, "paths": [list(p) for p in paths][:6]} if 4 < len(paths) < 9 else None)
        for what, g_, w_, q in (("path", got[0], want_paths, q_paths), ("key", got[1], want_keys, q_keys), ("parent", got[2], want_par, q_par)):
            if g_ != w_:
                nviol += 1
                if nviol <= 5:
                    chk.violation({"kind": "eval", "expr": evalgen.render(q), "doc": d, "impl": g_.decode("utf-8", "replace"), "expect": w_.decode("utf-8", "replace")},
                                  True, "`%s` does not describe where the nodes are" % what)
    stale = {}
    undecided = 0
    judged_ok = {}
    # ---- history oracle
    hoff = 3 * len(docs) + len(derived)
    hdocs = evalcheck.impl_eval(hist)
    import c02
    for i, (u, d) in enumerate(hist):
        got = impl[hoff + i]
        res = evalcheck.results_of(hdocs[i])
        if not got.startswith(b"OK") or res is None or len(res) != 1:
            chk.count(("hist", evalgen.render(u), json.dumps(d)), nontrivial=False)
            continue
        try:
            after = c02.unser_json(res[0])
        except Exception:
            continue
        want = b"OK\n" + evalcheck.ser([list(p) for p in evalgen.doc_paths(after)]) + b"\n"
        chk.count(("hist", evalgen.render(u), json.dumps(d)), nontrivial=True)
        # an integer-tagged map key (created by `.[-1] = v` on a map) prints as an int in `path`: compare element texts
        def texts(b):
            try:
                r_ = evalcheck.results_of(b)
                return [[str(x) for x in evalcheck.unser_paths(y)] for y in c03.split_items(r_[0])]
            except Exception:
                return b
        if got == want or texts(got) == texts(want):
            judged_ok[i] = after
        if got != want and texts(got) != texts(want):
            # a rebuilt container written back into the document carries its stale keys with it: the recorded class,
            # provided the model (AddChild keeps a Key) predicts exactly this output
            # (`x += y` is `x = x + y`: the same addSequences -> AddChild call site as `+`)
            uops = evalgen.ops_of(u) + (["add"] if compound_add(u) else [])
            rb = [o for o in c03.STALE_OPS if o in uops]
            if rb and (hoff + i) not in mm and (hoff + i) not in evalcheck.LAST_UNSUP and chk.is_known("stale-key-" + rb[0]):
                stale.setdefault(rb[0], (evalgen.render(cases[hoff + i][0]), d, got, want))
                continue
            if rb and (hoff + i) in evalcheck.LAST_UNSUP and chk.is_known("stale-key-" + rb[0]):
                # a container-rebuilding operator is involved but the history is outside the model's fragment (an integer
                # index on a map, ...): the model cannot say whether this is exactly the recorded class, so it is not judged
                undecided += 1
                continue
            nviol += 1
            if nviol <= 5:
                chk.violation({"kind": "eval", "expr": evalgen.render(cases[hoff + i][0]), "doc": d, "impl": got.decode("utf-8", "replace"),
                               "expect": want.decode("utf-8", "replace")}, True, "after an update the nodes no longer report where they are")
    # ---- re-traversal: traversing each reported path returns the node (sampled)
    rt = []
    for d in docs[: (len(docs) // 4)]:
        ps = [p for p in evalgen.doc_paths(d) if p]
        if ps:
            p = chk.rng.choice(ps)
            rt.append((path_expr(p), d, p))
    rout = evalcheck.impl_eval([(e, d) for e, d, p in rt])
    for (e, d, p), b in zip(rt, rout):
        want = b"OK\n" + evalcheck.ser(evalgen._get(d, p)) + b"\n"
        chk.count(("retraverse", evalgen.render(e), json.dumps(d)), nontrivial=True)
        if b != want:
            chk.violation({"kind": "eval", "expr": evalgen.render(e), "doc": d, "impl": b.decode("utf-8", "replace"), "expect": want.decode("utf-8", "replace")},
                          True, "traversing a reported path does not return the node")
    # ---- derived containers: children must report container-path ++ [position]
    off = 3 * len(docs)
    fvals = evalcheck.impl_eval([(("pipe", f, ("union", ("path",), ("length",))), d) for f, d in derived])
    for i, (f, d) in enumerate(derived):
        got = impl[off + i]
        res = evalcheck.results_of(fvals[i])
        key = ("derived", evalgen.render(f), json.dumps(d))
        if not got.startswith(b"OK") or res is None or len(res) != 2 or not res[1].startswith(b"I"):
            chk.count(key, nontrivial=False)
            continue
        base = evalcheck.unser_paths(res[0])
        ln = int(res[1].split(b":")[1])
        want = b"OK\n" + evalcheck.ser([list(base) + [j] for j in range(ln)]) + b"\n"
        chk.count(key, nontrivial=ln > 1)
        if got != want:
            op = c03.op_of(f)
            if (off + i) in evalcheck.LAST_UNSUP:
                continue
            if (off + i) not in mm and chk.is_known("stale-key-" + op):
                stale.setdefault(op, (evalgen.render(("pipe", f, ("collect", ("pipe", ("index", ("self",), None), ("path",))))), d, got, want))
            else:
                nviol += 1
                if nviol <= 5:
                    chk.violation({"kind": "eval", "expr": evalgen.render(cases[off + i][0]), "doc": d, "impl": got.decode("utf-8", "replace"),
                                   "expect": want.decode("utf-8", "replace")}, True, "children of a rebuilt container report the wrong path")
    # the recorded witnesses are replayed on every run (a finding that no longer reproduces prints nothing)
    wout = evalcheck.impl_eval([(e, json.loads(d)) for op, e, d, bad in WITNESSES])
    for (op, e, d, bad), b in zip(WITNESSES, wout):
        res = evalcheck.results_of(b)
        if res and res[0] == evalcheck.ser(json.loads(bad)):
            chk.known_finding("stale-key-" + op, "%s on %s -> %s" % (e, d, bad))
    for op, (expr, d, got, want) in sorted(stale.items()):
        chk.known_finding("stale-key-" + op, "%s on %s -> %s, expected %s" % (expr, json.dumps(d), got.decode("utf-8", "replace").strip()[:120], want.decode("utf-8", "replace").strip()[:120]))
    # ---- key nodes too: `...` visits every map key before its value, and a key reports the position of its entry
    def kpaths(v, pre=()):
        out = [list(pre)]
        if isinstance(v, dict):
            for k_, x in v.items():
                out.append(list(pre + (k_,)))
                out += kpaths(x, pre + (k_,))
        elif isinstance(v, list):
            for i_, x in enumerate(v):
                out += kpaths(x, pre + (i_,))
        return out
    kq = []
    for i, (u, d) in enumerate(hist[: (3000 if thorough else 400)]):
        if judged_ok.get(i):
            kq.append((i, evalgen.render(u) + " | [... | path]", d))
    for d in docs[: (1500 if thorough else 200)]:
        kq.append((None, "[... | path]", d))
    # a map written into the document by an assignment: its key nodes live in the document, not in the copy they came from
    import copy as _copy
    for _ in range(1500 if thorough else 250):
        d = evalgen.gen_doc(chk.rng)
        if not isinstance(d, dict):
            continue
        mps = [p_ for p_ in evalgen.doc_paths(d) if p_ and isinstance(evalgen._get(d, p_), dict) and len(evalgen._get(d, p_)) >= 1]
        if not mps:
            continue
        mp = chk.rng.choice(mps)
        form = chk.rng.choice(["assign", "literal", "update", "compound"])
        after = _copy.deepcopy(d)
        after.pop("zz", None)
        if form == "assign":
            e_ = ".zz = %s" % evalgen.render(path_expr(mp))
            after["zz"] = _copy.deepcopy(evalgen._get(d, mp))
        elif form == "literal":
            e_ = ".zz = {\"k\": 1, \"j\": {\"m\": 2}}"
            after["zz"] = {"k": 1, "j": {"m": 2}}
        elif form == "update":
            e_ = ".zz |= {\"k\": 1, \"j\": [3]}"
            after["zz"] = {"k": 1, "j": [3]}
        else:
            e_ = ".zz = {\"k\": 1} | .zz += {\"j\": {\"m\": 2}}"
            after["zz"] = {"k": 1, "j": {"m": 2}}
        judged_ok[("kp", len(kq))] = after
        kq.append((("kp", len(kq)), e_ + " | [... | path]", d))
    kout = evalcheck.impl_eval([(e_, d_) for _, e_, d_ in kq])
    for (i, e_, d_), b in zip(kq, kout):
        res = evalcheck.results_of(b)
        if res is None or len(res) != 1:
            continue
        after = judged_ok[i] if i is not None else d_
        want = evalcheck.ser(kpaths(after))
        chk.count(("keypaths", e_, json.dumps(d_)), nontrivial=True)
        def ktexts(x):
            # an integer-tagged map key (made by `.[-1] = v` on a map) prints as an int in some positions: compare element texts
            try:
                return [[str(y) for y in evalcheck.unser_paths(z)] for z in c03.split_items(x)]
            except Exception:
                return x
        if res[0] != want and ktexts(res[0]) != ktexts(want) and len(chk.violations) < 6:
            chk.violation({"kind": "eval", "expr": e_, "doc": d_, "impl": b.decode("utf-8", "replace"), "expect": (b"OK\n" + want + b"\n").decode("utf-8", "replace")},
                          True, "key nodes do not report the position of their entry: " + e_)
    # ---- map + map: every node of the sum (also the values taken from the right operand) reports a position inside the sum
    addm = []
    for _ in range(1200 if thorough else 200):
        d = evalgen.gen_doc(chk.rng)
        mps = [p_ for p_ in evalgen.doc_paths(d) if p_ and isinstance(evalgen._get(d, p_), dict)]
        if len(mps) < 2:
            continue
        p1, p2 = chk.rng.sample(mps, 2)
        v1, v2 = evalgen._get(d, p1), evalgen._get(d, p2)
        merged = dict(v1)
        for k_, x in v2.items():
            merged[k_] = x
        addm.append((("pipe", ("add", path_expr(p1), path_expr(p2)), ("collect", ("pipe", ("recurse",), ("path",)))), d,
                     [list(p1) + list(q) for q in evalgen.doc_paths(merged)]))
    aout = evalcheck.impl_eval([(e_, d_) for e_, d_, _ in addm])
    for (e_, d_, w_), b in zip(addm, aout):
        res = evalcheck.results_of(b)
        if res is None or len(res) != 1:
            continue
        want = evalcheck.ser(w_)
        chk.count(("addmaps", evalgen.render(e_), json.dumps(d_)), nontrivial=True)
        if res[0] != want and len(chk.violations) < 6:
            chk.violation({"kind": "eval", "expr": evalgen.render(e_), "doc": d_, "impl": b.decode("utf-8", "replace"), "expect": (b"OK\n" + want + b"\n").decode("utf-8", "replace")},
                          True, "the nodes of a map sum do not report positions inside the sum: " + evalgen.render(e_))
    # ---- renaming an entry through its key node: `(P | key) = "nk"` renames that entry, and path / key / keys agree afterwards
    rn = []
    for _ in range(1200 if thorough else 150):
        d = evalgen.gen_doc(chk.rng)
        mps = [p_ for p_ in evalgen.doc_paths(d) if p_ and isinstance(p_[-1], str) and p_[-1].isalpha()]
        if not mps:
            continue
        tp = chk.rng.choice(mps)
        pre = ""
        if chk.rng.random() < 0.4 and len(tp) >= 2:
            # first copy the surrounding map somewhere else, so that the renamed entry lives in a copied container
            pre = ".zz = %s | " % evalgen.render(path_expr(tp[:-1]))
            tp = ("zz",) + (tp[-1],)
        rn.append((pre + "(%s | key) = \"nk\"" % evalgen.render(path_expr(tp)), d))
    rreq = []
    for e_, d_ in rn:
        rreq += [(e_, d_), (e_ + " | [.. | path]", d_), (e_ + " | [.. | key]", d_), (e_ + " | [.. | select(tag == \"!!map\") | keys]", d_)]
    rout = evalcheck.impl_eval(rreq)
    for k, (e_, d_) in enumerate(rn):
        o = rout[4 * k:4 * k + 4]
        r0 = evalcheck.results_of(o[0])
        if r0 is None or len(r0) != 1 or any(evalcheck.results_of(x) is None or len(evalcheck.results_of(x)) != 1 for x in o[1:]):
            continue
        try:
            after = c02_unser(r0[0])
        except Exception:
            continue
        ps = evalgen.doc_paths(after)
        def allmaps(v):
            out = []
            if isinstance(v, dict):
                out.append(list(v.keys()))
                for x in v.values():
                    out += allmaps(x)
            elif isinstance(v, list):
                for x in v:
                    out += allmaps(x)
            return out
        wants = [evalcheck.ser([list(p_) for p_ in ps]), evalcheck.ser([p_[-1] for p_ in ps if p_]), evalcheck.ser(allmaps(after))]
        chk.count(("rename", e_, json.dumps(d_)), nontrivial=True)
        for name, got_, w_ in zip(("path", "key", "keys"), o[1:], wants):
            if evalcheck.results_of(got_)[0] != w_ and len(chk.violations) < 6:
                chk.violation({"kind": "eval", "expr": e_ + {"path": " | [.. | path]", "key": " | [.. | key]", "keys": " | [.. | select(tag == \"!!map\") | keys]"}[name], "doc": d_,
                               "impl": got_.decode("utf-8", "replace"), "expect": (b"OK\n" + w_ + b"\n").decode("utf-8", "replace")}, True,
                              "after renaming an entry through its key node, %s does not agree with the document" % name)
    # ---- YAML documents with anchors, aliases and merge keys: after explode (and after a further update) every node
    # reports the position it has in the resulting value (decoded afresh from its JSON text)
    ycases = []
    for _ in range(600 if thorough else 60):
        y = gen_alias_yaml(chk.rng)
        for f in ("explode(.)", "explode(.) | .a.p[0] = 99", "explode(.) | del(.a)", "explode(.) | .c[0].q.r = \"changed\""):
            ycases.append(("yaml", y, f))
    # what every other decoder builds is well-keyed too (XML text split by comments / CDATA, attributes, repeated
    # siblings; TOML tables and arrays of tables; properties paths; CSV rows; Lua tables)
    for fmt, text in OTHER_FORMAT_DOCS:
        for f in (".", ".. |= .", "del(.. | select(. == \"zzz\"))"):
            ycases.append((fmt, text, f))
    yreq = []
    for fmt, y, f in ycases:
        yreq.append({"op": "eval", "expr": f, "input": y, "in": fmt, "out": "json", "indent": 0})
        for q in ("[.. | path]", "[.. | key]", "[.. | parent | path]", "[... | path]"):
            yreq.append({"op": "eval", "expr": f + " | " + q, "input": y, "in": fmt, "out": "json", "indent": 0})
    yresp = vlib.yqh_parallel(yreq)
    ny = 0
    for k, (fmt, y, f) in enumerate(ycases):
        r = yresp[5 * k:5 * k + 5]
        if any((not x) or x.get("err") or x.get("panic") or "out_b64" not in x for x in r):
            chk.count(("yaml", f, y), nontrivial=False)
            continue
        try:
            after = json.loads(vlib.b64d(r[0]["out_b64"]))
            got = [json.loads(vlib.b64d(x["out_b64"])) for x in r[1:]]
        except Exception:
            chk.count(("yaml", f, y), nontrivial=False)
            continue
        ps = evalgen.doc_paths(after)
        # the root has no key and no parent: `key` and `parent` yield nothing for it
        def kp(v, pre=()):
            o_ = [list(pre)]
            if isinstance(v, dict):
                for k_, x in v.items():
                    o_.append(list(pre + (k_,)))
                    o_ += kp(x, pre + (k_,))
            elif isinstance(v, list):
                for i_, x in enumerate(v):
                    o_ += kp(x, pre + (i_,))
            return o_
        want = [[list(p) for p in ps], [p[-1] for p in ps if p], [list(p[:-1]) for p in ps if p], kp(after)]
        ny += 1
        chk.count(("yaml", f, y), nontrivial=True)
        for name, g_, w_ in (("path", got[0], want[0]), ("key", got[1], want[1]), ("parent", got[2], want[2]), ("keypath", got[3], want[3])):
            if g_ != w_ and len(chk.violations) < 6:
                chk.violation({"kind": "yamlpath", "expr": f, "query": name, "yaml": y, "fmt": fmt, "impl": json.dumps(g_), "expect": json.dumps(w_)}, True,
                              "after %s the nodes do not report where they are (%s)" % (f, name))
    chk.extra["yaml_alias_documents_judged"] = ny
    chk.extra["histories_not_judged(outside model fragment, rebuilt container involved)"] = undecided
    chk.extra["distribution"] = {"fresh_docs": len(docs), "derived": len(derived), "retraversals": len(rt), "impl_outcomes": evalcheck.outcome_stats(impl),
                                 "outside_model_fragment(UNSUP)": unsup, "stale_key_classes_seen": sorted(stale)}
    if mm and not chk.violations:
        evalcheck.report_disagreements(chk, cases, impl, mm, "C16 correspondence")
    if broken and not chk.violations:
        chk.violation({"kind": "obligation", "broken": broken}, False, "; ".join(broken)[:600])
    return chk.finish(
        checker_cmd="make -C coq Props/C16.vo + coqc work/C16/c16_cases_*.v (vm_compute)",
        rule="fresh JSON documents (depth<=4): `[.. | path]`, `[.. | key]`, `[.. | parent | path]` against the positions enumerated independently, and re-traversal of a reported path; containers rebuilt by sort/sort_by/reverse/slice/map/filter/+/collect/unique/flatten: children must report container path ++ position; non-trivial = more than 3 nodes / more than one child",
        trusted=vlib.COMMON_TRUSTED + ["Model/Store.v path_of / key_of (recorded keys) hand-written from candidate_node.go GetPath/AddChild"],
        assumptions=["JSON-model documents with unique keys, stream mode", "key nodes (`...`, keys | .[] | path) are outside the model"])


def replay_yaml(rp):
    q = {"path": "[.. | path]", "key": "[.. | key]", "parent": "[.. | parent | path]", "keypath": "[... | path]"}[rp["query"]]
    r = vlib.yqh_batch([{"op": "eval", "expr": rp["expr"] + " | " + q, "input": rp["yaml"], "in": rp.get("fmt", "yaml"), "out": "json", "indent": 0}])[0]
    if not r or r.get("err") or "out_b64" not in r:
        return True
    return json.loads(vlib.b64d(r["out_b64"])) == json.loads(rp["expect"])


def replay(rp):
    if rp.get("kind") == "yamlpath":
        return replay_yaml(rp)
    return evalcheck.replay_eval(rp)
