"""Generators for C11 (kept apart from c11.py so that the search streams can be
read on their own).  All randomness comes from the rng passed in.

Three expression streams:  grammar (over the whole operator vocabulary of
lexer_participle.go), mutated (token/character edits of grammar output),
arbitrary bytes.  Documents: YAML texts with every node feature the
evaluator distinguishes (kinds, explicit tags incl. lying ones such as
`!!int abc`, anchors/aliases/merge keys, styles, comments, multi-document
streams, empty input).  Per input format: valid / truncated / corrupted texts.
"""

# ----------------------------------------------------------------------------
# expressions
# ----------------------------------------------------------------------------
KEYS = ["a", "b", "c", "x", "k", "name", "a b", "0", "<<", "*", "a*", "?", ""]
SMALL_INTS = [0, 1, 2, 3, -1, -2, -3, 5, -5, 7, 10, -10, 100, -100]
STRS = ['""', '"a"', '"b"', '"a b"', '"0"', '"1"', '"x*"', '"*"', '"a,b"', '"2001-01-01"', '"[1,2"', '"a: 1"', '"<a>1</a>"',
        '"YQ=="', '"%zz"', '"(a"', '"(?P<n>a)"', '"\\\\"', '"\\n"', '"true"', '"null"', '"!!int"', '"!!str"', '"!!map"', '"!x"',
        '"flow"', '"double"', '"single"', '"literal"', '"folded"', '"tagged"', '"bogus"', '"g"', '"1e400"', '"0x1G"', '"9223372036854775808"']
NUMS = ["0", "1", "2", "-1", "-2", "3", "5", "-5", "1.5", "-0.5", "1e3", "1e400", "0x10", "0xFF", "0", "7", "100", "-100",
        "9223372036854775807", "-9223372036854775808", "4294967296", "0.0", "-0"]

# operators that take no argument (used as  e | op)
NULLARY = ["length", "keys", "sort", "reverse", "unique", "flatten", "flatten(0)", "flatten(1)", "flatten(2)", "to_entries",
           "from_entries", "explode(.)", "not", "tag", "type", "kind", "style", "anchor", "alias", "key", "path", "parent",
           "parent(0)", "parent(2)", "parent(9)", "line", "column", "to_number", "to_string", "trim", "upcase", "downcase",
           "ascii_downcase", "to_json", "to_json(0)", "@json", "from_json", "to_yaml", "to_yaml(3)", "@yaml", "from_yaml",
           "@base64", "@base64d", "@uri", "@urid", "@sh", "@csv", "@tsv", "to_csv", "to_tsv", "@xml", "to_xml", "to_xml(1)",
           "@props", "to_props", "from_xml", "@xmld", "from_props", "@propsd", "from_csv", "@csvd", "from_tsv", "@tsvd",
           "sort_keys(.)", "sort_keys(..)", "min", "max", "any", "all", "split_doc", "document_index", "di", "file_index", "fi",
           "filename", "collect", "pivot", "envsubst", "envsubst(ne)", "envsubst(nu,ff)", "to_unix", "from_unix", "line_comment",
           "head_comment", "foot_comment", "array_to_map", "is_key", "..", "...", ".[]", ".[]?", "[.]", "{}", "[]", "keys | .[0]",
           "to_entries | .[0]", "first", "strenv(HOME)", "env(HOME)", "env(C11_UNSET)", "del(.[0])", "del(.a)", "del(..)",
           "with_entries(.)", "map(.)", "map_values(.)", "splitDoc", "sortKeys(.)", "tz(\"UTC\")", "format_datetime(\"2006\")",
           "kind", "ascii_upcase", "to_entries | from_entries", "comments = \"c\"", "comments |= .", "eval(.)", "error(.)"]
# operators taking one expression argument:  op(e)
UNARY_FN = ["select", "map", "map_values", "filter", "pick", "omit", "has", "unique_by", "group_by", "sort_by", "any_c", "all_c",
            "contains", "split", "join", "match", "capture", "test", "del", "delpaths", "del_paths", "with_entries", "eval", "path",
            "explode", "sort_keys", "tz", "format_datetime", "error", "from_unix | tz", "min | has", "flatten | select", "keys | map",
            "to_entries | map", "collect", "sort_by", "group_by"]
# two arguments separated by ;
BINARY_FN = ["sub", "with", "setpath", "set_path", "match", "test", "capture", "with_dtf", "ireduce_dummy"]
INFIX = ["|", "|", "|", ",", "+", "-", "*", "/", "%", "==", "!=", "<", "<=", ">", ">=", "and", "or", "//", "=", "|=", "+=", "-=",
         "*=", "*+", "*d", "*n", "*?", "*c", "*+d?", "=c", "|=c", "*=+"]
ASSIGNABLE = ["style", "tag", "type", "anchor", "alias", "line_comment", "head_comment", "foot_comment"]


def g_key(rng):
    return rng.choice(KEYS)


def g_num(rng):
    if rng.random() < 0.7:
        return str(rng.choice(SMALL_INTS))
    return rng.choice(NUMS)


def g_path(rng):
    parts = []
    for _ in range(rng.choice([1, 1, 1, 2, 2, 3])):
        r = rng.random()
        if r < 0.35:
            k = g_key(rng)
            if not k.isalnum():
                parts.append('.["%s"]' % k)
            else:
                parts.append("." + k)
        elif r < 0.45:
            parts.append('.["%s"]' % g_key(rng))
        elif r < 0.62:
            parts.append(".[%s]" % g_num(rng))
        elif r < 0.72:
            parts.append(".[]")
        elif r < 0.86:
            a = g_num(rng) if rng.random() < 0.8 else ""
            b = g_num(rng) if rng.random() < 0.8 else ""
            parts.append(".[%s:%s]" % (a, b))
        elif r < 0.90:
            parts.append(".[%s, %s]" % (g_num(rng), g_num(rng)))
        elif r < 0.94:
            parts.append(".%s?" % rng.choice(["a", "b", "x"]))
        elif r < 0.97:
            parts.append("..")
        else:
            parts.append("...")
    s = "".join(parts)
    # a[...] directly after a name is also legal (.a[0]); make it appear
    if rng.random() < 0.3:
        s = s.replace(".[", "[", 1) if not s.startswith(".[") else s
    return s


def g_literal(rng, depth):
    r = rng.random()
    if r < 0.3:
        return g_num(rng)
    if r < 0.55:
        return rng.choice(STRS)
    if r < 0.65:
        return rng.choice(["true", "false", "null", "~", "True", "NULL"])
    if r < 0.72:
        return rng.choice(["[]", "{}"])
    if r < 0.86:
        return "[" + ", ".join(g_expr(rng, depth + 1) for _ in range(rng.randrange(1, 4))) + "]"
    n = rng.randrange(1, 3)
    items = []
    for _ in range(n):
        kr = rng.random()
        if kr < 0.4:
            k = rng.choice(["a", "b", "c"])
        elif kr < 0.6:
            k = rng.choice(STRS)
        elif kr < 0.8:
            k = "(" + g_expr(rng, depth + 1) + ")"
        else:
            k = g_path(rng)
        if rng.random() < 0.1:
            items.append(k)
        else:
            items.append(k + ": " + g_expr(rng, depth + 1))
    return "{" + ", ".join(items) + "}"


def g_expr(rng, depth=0):
    r = rng.random()
    if depth >= 4:
        r = r * 0.45
    if r < 0.22:
        return g_path(rng)
    if r < 0.36:
        return g_literal(rng, depth)
    if r < 0.45:
        return rng.choice(NULLARY)
    if r < 0.52:
        return rng.choice(["$x", "$i", ".", ".", "$__yq_undefined"])
    if r < 0.66:
        return "%s | %s" % (g_expr(rng, depth + 1), rng.choice(NULLARY))
    if r < 0.76:
        fn = rng.choice(UNARY_FN)
        return "%s(%s)" % (fn, g_expr(rng, depth + 1))
    if r < 0.80:
        fn = rng.choice(BINARY_FN)
        if fn == "ireduce_dummy":
            return "%s as $i ireduce (%s; %s)" % (g_expr(rng, depth + 1), g_expr(rng, depth + 1), g_expr(rng, depth + 1))
        return "%s(%s; %s)" % (fn, g_expr(rng, depth + 1), g_expr(rng, depth + 1))
    if r < 0.93:
        op = rng.choice(INFIX)
        return "%s %s %s" % (g_expr(rng, depth + 1), op, g_expr(rng, depth + 1))
    if r < 0.95:
        return "(%s)" % g_expr(rng, depth + 1)
    if r < 0.97:
        return "%s %s $x | %s" % (g_expr(rng, depth + 1), rng.choice(["as", "ref"]), g_expr(rng, depth + 1))
    if r < 0.985:
        return "%s | %s %s %s" % (g_path(rng), rng.choice(ASSIGNABLE), rng.choice(["=", "|="]), g_expr(rng, depth + 1))
    return "%s | %s" % (g_path(rng), rng.choice(ASSIGNABLE))


TOKENS = ([".", "..", "...", "[", "]", "]?", ".[", "{", "}", "(", ")", ":", ";", ",", "|", "|=", "=", "+=", "-=", "*=", "+", "-", "*",
           "/", "%", "//", "==", "!=", "<", ">", "<=", ">=", "?", "$x", "as", "ref", "\"", "'", "#", " ", "\t", "\n", "!", "@", "~",
           "and", "or", "not", ".a", ".b", ".[0]", ".[-1]", ".[1:]", ".[:1]", "*+", "*d", "0", "1", "-1", "0x", "1e", "1.", "e9"]
          + [n.split("(")[0] for n in NULLARY if n.isidentifier() or "(" in n] + UNARY_FN[:24] + BINARY_FN[:8])


def mutate(rng, s):
    """1-4 edits: drop/duplicate/replace/insert a character or a token, splice, truncate."""
    for _ in range(rng.choice([1, 1, 2, 3, 4])):
        if not s:
            s = rng.choice(TOKENS)
            continue
        k = rng.randrange(9)
        i = rng.randrange(len(s))
        j = min(len(s), i + rng.choice([1, 1, 2, 3, 5]))
        if k == 0:
            s = s[:i] + s[j:]
        elif k == 1:
            s = s[:i] + s[i:j] + s[i:]
        elif k == 2:
            s = s[:i] + rng.choice(TOKENS) + s[j:]
        elif k == 3:
            s = s[:i] + rng.choice(TOKENS) + s[i:]
        elif k == 4:
            s = s[:i]
        elif k == 5:
            s = s[i:]
        elif k == 6:
            s = s[:i] + chr(rng.choice([0, 9, 10, 13, 32, 34, 39, 40, 41, 46, 58, 91, 92, 93, 123, 125, 127, 0xe9, 0x4e2d])) + s[i:]
        elif k == 7:
            t = g_expr(rng, 3)
            s = s[:i] + t + s[j:]
        else:
            a, b = sorted((i, rng.randrange(len(s))))
            s = s[:a] + s[b:] + s[a:b]
    return s


def arbitrary_expr(rng):
    r = rng.random()
    n = rng.choice([0, 1, 2, 3, 5, 8, 13, 21, 40])
    if r < 0.35:
        return bytes(rng.randrange(256) for _ in range(n))
    if r < 0.6:
        return bytes(rng.randrange(32, 127) for _ in range(n))
    return "".join(rng.choice(TOKENS) for _ in range(n)).encode()


# expressions that read files / the clock / the random generator are outside the
# deterministic search (they cannot make the outcome class reproducible)
EXCLUDED_WORDS = ("load", "shuffle", "now", "split_doc_to_file")


def excluded(expr_bytes):
    low = expr_bytes.lower()
    return any(w.encode() in low for w in EXCLUDED_WORDS)


# ----------------------------------------------------------------------------
# YAML documents
# ----------------------------------------------------------------------------
SCALARS = ["1", "2", "0", "-3", "1.5", "0x10", "0o7", "1e3", "true", "false", "null", "~", "a", "b", "cat", "a b", "''", '"q"',
           "2001-01-01", "2001-12-14T21:59:43Z", ".inf", ".nan", "1_000", "!!int abc", "!!float x", "!!str 1", "!!bool maybe",
           "!custom 5", "!custom str", "!!timestamp nope", "!!null x", "!!binary YQ==", "9223372036854775808", "<<", "'*'", "",
           "!!int 0x1G", "!!int 1.5", "'x y'", "|\n%s  lit\n", ">\n%s  fold\n", "!!merge x"]


def y_node(rng, depth, ind, anchors):
    """Returns YAML block text for a node at indentation ind (text starts inline after 'key: ' or '- ')."""
    r = rng.random()
    pad = "  " * ind
    if depth >= 3 or r < 0.4:
        if anchors and rng.random() < 0.15:
            return "*" + rng.choice(anchors) + "\n"
        s = rng.choice(SCALARS)
        if "%s" in s:
            s = s % pad
            return s
        if rng.random() < 0.12:
            a = "n%d" % len(anchors)
            anchors.append(a)
            s = "&" + a + " " + s
        if rng.random() < 0.1:
            s += " # lc"
        return s + "\n"
    pre = ""
    if rng.random() < 0.15:
        a = "n%d" % len(anchors)
        pre = "&" + a + " "
    if rng.random() < 0.08:
        pre += rng.choice(["!!map ", "!!seq ", "!t ", "!!set ", "!!omap "])
    if r < 0.48:
        out = pre + rng.choice(["[]", "{}", "[1, 2]", "{a: 1}", "[[1], [2, 3]]", "[a, {b: c}]", "{a: [1], b: {c: d}}"]) + "\n"
        if pre.startswith("&"):
            anchors.append(a)
        return out
    if r < 0.72:
        n = rng.randrange(1, 4)
        out = pre + "\n"
        for _ in range(n):
            if rng.random() < 0.1:
                out += pad + "# hc\n"
            out += pad + "- " + y_node(rng, depth + 1, ind + 1, anchors)
        if pre.startswith("&"):
            anchors.append(a)
        return out
    n = rng.randrange(1, 4)
    out = pre + "\n"
    used = set()
    for _ in range(n):
        k = rng.choice(["a", "b", "c", "x", "k", "name", "0", "1", "'a b'", "? [1]\n" + pad + "", "1.5", "true", "null", "!!str 5"])
        if k in used and rng.random() < 0.8:
            continue
        used.add(k)
        if anchors and rng.random() < 0.12:
            tgt = rng.choice(anchors)
            if rng.random() < 0.5:
                out += pad + "<<: *" + tgt + "\n"
            else:
                out += pad + "<<: [*" + tgt + ", *" + rng.choice(anchors) + "]\n"
            continue
        if k.startswith("?"):
            out += pad + "? [1]\n" + pad + ": " + y_node(rng, depth + 1, ind + 1, anchors)
        else:
            out += pad + k + ": " + y_node(rng, depth + 1, ind + 1, anchors)
    if pre.startswith("&"):
        anchors.append(a)
    return out


FIXED_DOCS = ["", "\n", "null\n", "~\n", "[]\n", "{}\n", "[1,2]\n", "a: 1\n", "a: {b: [1, 2, {c: 3}]}\n", "- 1\n- [2, 3]\n- a: b\n",
              "a: &x {b: 1}\nc: *x\nd:\n  <<: *x\n  e: 2\n", "a: &x [1,2]\nb:\n  <<: *x\n", "a: &x 1\nb:\n  <<: *x\n",
              "a: &x {b: 1}\nl:\n  <<: [*x, *x]\n", "--- 1\n--- 2\n", "---\n---\n", "# only a comment\n", "a: 1\n---\nb: 2\n...\n",
              "[!!int abc, 1]\n", "[0x10, 1.5]\n", "[!!int 1.5, 2]\n", "[1, !!float x]\n", "[[1,2],[3]]\n", "[{a: 1, b: 2}, {a: 3}]\n",
              "? [a, b]\n: 1\n", "a: !!binary YQ==\n", "- &a [*a]\n", "a: &a\n  b: *a\n", "\"\\x00\"\n", "'a': \"b\"\n", "a: |\n  x\n  y\n",
              "a: 2001-01-01\nb: 2001-12-14T21:59:43.10-05:00\n", "k: v\nk: w\n", "[1, [2, [3, [4, [5]]]]]\n", "9223372036854775807\n",
              "-9223372036854775808\n", "x: .inf\ny: -.inf\nz: .nan\n", "%YAML 1.1\n---\na: 1\n", "\ufeffa: 1\n", "a: 1 # c\n# foot\n"]


def yaml_doc(rng):
    if rng.random() < 0.25:
        return rng.choice(FIXED_DOCS)
    anchors = []
    ndocs = rng.choice([1, 1, 1, 1, 2])
    out = ""
    for i in range(ndocs):
        if ndocs > 1 or rng.random() < 0.1:
            out += "---\n"
        if rng.random() < 0.1:
            out += "# head\n"
        body = y_node(rng, 0, 0, anchors)
        if body.startswith("\n"):
            body = body[1:]
        out += body
    return out


# ----------------------------------------------------------------------------
# inputs per format
# ----------------------------------------------------------------------------
def _j(rng, depth=0):
    import json
    r = rng.random()
    if depth >= 3 or r < 0.4:
        return rng.choice([0, 1, -1, 1.5, 1e300, True, False, None, "", "a", "a b", "\u00e9", "<x>", "a,b", "a\tb", "a\nb", 2**53 + 1, -2**63,
                           "=", "#", "[", "é", "1", "true"])
    if r < 0.7:
        return [_j(rng, depth + 1) for _ in range(rng.randrange(0, 4))]
    return {rng.choice(["a", "b", "c", "+@x", "+content", "+p_x", "+directive", "a.b", "a b", "", "0", "k[0]", "<", "x:y"]): _j(rng, depth + 1)
            for _ in range(rng.randrange(0, 4))}


def valid_input(rng, fmt):
    import json
    if fmt == "yaml":
        return yaml_doc(rng).encode()
    if fmt == "json":
        if rng.random() < 0.2:
            return rng.choice([b"", b" ", b"1 2 3", b"{}\n[]\n", b"[1e999]", b"[-0]", b"\"\\ud800\"", b"{\"a\":1,\"a\":2}", b"[1.0000000000000000000001]",
                               b"123456789012345678901234567890", b"{\"a\":{\"b\":{\"c\":[]}}}", b"null", b"\xef\xbb\xbf{}"])
        return json.dumps(_j(rng)).encode()
    if fmt == "xml":
        return rng.choice([
            b"<a>1</a>", b"<a x=\"1\"><b>2</b><b>3</b></a>", b"<?xml version=\"1.0\"?><a/>", b"<a><!-- c --><b/></a>", b"<a>t<b/>u</a>",
            b"<!DOCTYPE a><a/>", b"<a xmlns:x=\"u\"><x:b x:c=\"1\"/></a>", b"<a><![CDATA[x]]></a>", b"<a>&amp;&#65;</a>", b"<a/><b/>", b"",
            b"<!-- only --> ", b"<?pi x?>", b"<a x=\"1\" x=\"2\"/>", b"<a><b><c><d>1</d></c></b></a>", b"<a> </a>", b"text", b"<a>1</a><!-- after -->",
            b"<?xml version=\"1.0\"?>\n<!-- before -->\n<a>1</a>", b"<a b=\"\"></a>", b"<a><b/>x<!-- c -->y</a>"])
    if fmt == "toml":
        return rng.choice([
            b"a = 1\n", b"[t]\na = 1\nb = \"x\"\n", b"[[arr]]\na = 1\n[[arr]]\na = 2\n", b"a.b.c = 1\n", b"a = [1, [2, 3]]\n", b"a = {b = 1, c = {d = 2}}\n",
            b"d = 1979-05-27T07:32:00Z\n", b"d = 1979-05-27\nt = 07:32:00\n", b"f = 1.5\ni = 0x10\nb = true\n", b"s = '''\nx\n'''\n", b"", b"# c\n",
            b"[a]\n[a.b]\n[a.b.c]\nx = 1\n", b"a = 1\na = 2\n", b"[a]\nx = 1\n[a]\ny = 2\n", b"a = []\n", b"a = [{b = 1}, {b = 2}]\n", b"[[a.b]]\nc = 1\n",
            b"a = inf\nb = nan\n", b"\"a b\" = 1\n", b"[t]\n[[t.u]]\nv = 1\n", b"a = 1\n[a]\nb = 2\n", b"[[a]]\n[a.b]\nc = 1\n[[a]]\n", b"x = [ ]\ny = { }\n"])
    if fmt in ("csv", "tsv"):
        sep = b"," if fmt == "csv" else b"\t"
        rows = rng.choice([
            [[b"a", b"b"], [b"1", b"2"]], [[b"a"], [b"1"], [b"2"]], [[b"a", b"a"], [b"1", b"2"]], [[b"a", b"b"]], [], [[b""]],
            [[b"a", b"b"], [b"1"]], [[b"a"], [b"1", b"2"]], [[b"\"q\"\"q\"", b"b"], [b"\"x\ny\"", b"2"]], [[b"a", b"b"], [b"true", b"null"]],
            [[b"a", b"b"], [b"1.5", b"0x10"]], [[b"a.b", b"a"], [b"1", b"2"]], [[b"a", b""], [b"1", b"2"]], [[b"\xef\xbb\xbfa"], [b"1"]]])
        return b"\n".join(sep.join(r) for r in rows) + (b"\n" if rng.random() < 0.7 else b"")
    if fmt == "props":
        return rng.choice([
            b"a = 1\n", b"a.b = 1\na.c = 2\n", b"a.0 = x\na.1 = y\n", b"a[0] = x\na[1] = y\n", b"# c\na = 1\n", b"a = ${b}\nb = 1\n", b"a = ${a}\n", b"",
            b"a\n", b"= 1\n", b"a.b = 1\na = 2\n", b"a = 1\na.b = 2\n", b"a.1 = x\n", b"a.-1 = x\n", b"a.9999 = x\n", b"a..b = 1\n", b". = 1\n", b"a. = 1\n",
            b"a[ = 1\n", b"a[9999999] = 1\n", b"a\\ b = 1\n", b"a = \\u00e9\n", b"a : 1\n", b"a.b.0.c = 1\na.b.1 = 2\n", b"0 = a\n1 = b\n", b"a.0 = x\na.b = y\n",
            b"a[0].b = 1\n", b"a[-1] = 1\n", b"a[x] = 1\n", b"a.[0] = 1\n"])
    if fmt == "lua":
        return rng.choice([
            b"return {a = 1}", b"return {1, 2, 3}", b"return {a = {b = {1, 2}}}", b"return nil", b"return 1", b"return \"x\"", b"", b"return", b"return {}",
            b"return {[1] = 2, [3] = 4}", b"return {[\"a b\"] = true}", b"return function() end", b"return {f = function() end}", b"x = 1", b"return 1, 2",
            b"return {[1.5] = 1}", b"return {[true] = 1}", b"return 0/0", b"return 1/0", b"return {{}, {}}", b"return {1, nil, 3}", b"error(\"x\")",
            b"return {[{}] = 1}", b"return setmetatable({}, {__index = function() return 1 end})", b"return {n = nil}", b"return -0.0", b"return 9007199254740993",
            b"local t = {} t.t = t return t", b"return {[-1] = 1, [0] = 2}", b"return string.rep(\"x\", 10)", b"return coroutine.create(function() end)",
            b"return {[2] = 1}", b"return {[1]=1,[2]=2,a=3}"])
    if fmt == "base64":
        return rng.choice([b"YQ==", b"YQ", b"", b"YWJj", b"YWJj\n", b"!!!!", b"YQ==YQ==", b"Y", b"====", b" YQ== ", b"YWJjZGVmZ2g=", b"/+/+", b"_-_-", b"YQ=\n="])
    if fmt == "uri":
        return rng.choice([b"a%20b", b"a+b", b"%", b"%zz", b"%2", b"", b"%00", b"%ff%fe", b"a=b&c=d", b"\n", b"%E4%B8%AD"])
    return b""


def corrupt(rng, b):
    """truncate or corrupt: cut at a random point, flip/insert/delete bytes, duplicate a slice, deep-nest."""
    b = bytes(b)
    k = rng.randrange(7)
    if not b:
        return bytes(rng.randrange(256) for _ in range(rng.randrange(1, 6)))
    i = rng.randrange(len(b))
    if k == 0:
        return b[:i]
    if k == 1:
        return b[i:]
    if k == 2:
        return b[:i] + bytes([rng.randrange(256)]) + b[i + 1:]
    if k == 3:
        return b[:i] + bytes([rng.choice(b"\x00\"'<>[]{}&*!:#-,=\\\n\t %")]) + b[i:]
    if k == 4:
        j = min(len(b), i + rng.randrange(1, 4))
        return b[:i] + b[j:]
    if k == 5:
        j = min(len(b), i + rng.randrange(1, 8))
        return b[:j] + b[i:j] * rng.randrange(1, 4) + b[j:]
    a, c = sorted((i, rng.randrange(len(b))))
    return b[:a] + b[c:] + b[a:c]


def deep_input(fmt, n):
    if fmt == "json":
        return b"[" * n + b"]" * n
    if fmt == "yaml":
        return b"[" * n + b"]" * n
    if fmt == "xml":
        return b"<a>" * n + b"</a>" * n
    if fmt == "toml":
        return b"a = " + b"[" * n + b"]" * n + b"\n"
    if fmt == "lua":
        return b"return " + b"{" * n + b"}" * n
    if fmt == "props":
        return b".".join([b"a"] * n) + b" = 1\n"
    return None


IN_FORMATS = ["yaml", "json", "xml", "toml", "csv", "tsv", "props", "lua", "base64", "uri"]
OUT_FORMATS = ["yaml", "json", "xml", "toml", "csv", "tsv", "props", "lua", "base64", "uri", "shell", "sh"]
