"""C04 — deep merge (*) computes the documented merge and leaves its operands untouched.

Decided by: theorems Props/C04.v over Spec/MergeSpec.v (merge by structural
recursion on b; None = the open region the property leaves undefined);
tie: `.a *FLAGS .b` and `. as $i ireduce ({}; . *FLAGS $i)` on the
implementation vs merge / merge_all evaluated inside Coq, for generated pairs /
sequences of nested JSON documents x all 16 subsets of {+ d ? n};
direct oracles on the implementation alone: identities, idempotence, key
order, `?` / `n` characterisations, fold = iterated binary merge, and operands
untouched (the operands are read again after the merge, the merge is repeated,
and the result is overwritten to expose shared nodes).
"""
import json
import vlib, evalgen, evalcheck

IMPORTS = "From YQ Require Import Base.Str Model.Node Spec.MergeSpec."
FLAG_CHARS = "+d?n"          # bit 0..3, as Spec/MergeSpec.v flags_of
NUMKEYS = ["007", "0x1F", "1_0", "+5", "-0", "0o17", "42", "1e3", "0b11", "-7", "1.50"]   # strings that spell numbers: still just keys
KEYS = ["a", "b", "c", "d", "e", "k1", "0", "1", "x y", "a*", "?", "*"] + NUMKEYS    # * and ? are ordinary characters in a merged key
SCALARS = [0, 1, 2, -1, 7, 100, "", "a", "cat", "xé", None, None, True, False, 1.5, -0.25]


def flag_text(fl):
    return "".join(c for j, c in enumerate(FLAG_CHARS) if fl >> j & 1)


def has(fl, c):
    return bool(fl >> FLAG_CHARS.index(c) & 1)


# ------------------------------------------------------------------ generators
def gen_val(rng, depth, kinds="smq"):
    if depth >= 3:
        if "s" in kinds:
            kinds = "s"
        else:
            return {} if rng.choice(kinds) == "m" else []
    k = rng.choice([c for c in "ssssqqmm" if c in kinds])
    if k == "s":
        return rng.choice(SCALARS)
    if k == "q":
        return [gen_val(rng, depth + 1) for _ in range(rng.choice([0, 1, 1, 2, 3]))]
    return gen_map(rng, depth + 1)


def gen_map(rng, depth=0):
    d = {}
    for k in rng.sample(KEYS, rng.choice([0, 1, 2, 2, 3, 4])):
        d[k] = gen_val(rng, depth)
    return d


def kind(v):
    return "m" if isinstance(v, dict) else ("q" if isinstance(v, list) else "s")


def mutate(v, rng, pconf, depth=0):
    """a value for the other operand: same kind unless a conflict is drawn (probability pconf)"""
    if depth > 0 and rng.random() < pconf:      # the operands themselves stay maps
        return gen_val(rng, depth, kinds="smq".replace(kind(v), ""))
    if isinstance(v, dict):
        out = {}
        for k in v:
            if rng.random() < 0.7:
                out[k] = mutate(v[k], rng, pconf, depth + 1)
        fresh = [k for k in KEYS if k not in v]
        for k in rng.sample(fresh, min(len(fresh), rng.choice([0, 0, 1, 1, 2]))):
            out[k] = gen_val(rng, depth + 1)
        if rng.random() < 0.5:
            ks = list(out)
            rng.shuffle(ks)
            out = {k: out[k] for k in ks}
        return out
    if isinstance(v, list):
        n = rng.choice([len(v), len(v), max(0, len(v) - 1), len(v) + 1, len(v) + 2, 0])
        return [mutate(v[i], rng, pconf, depth + 1) if i < len(v) else gen_val(rng, depth + 1) for i in range(n)]
    return v if rng.random() < 0.3 else rng.choice(SCALARS)


ADVERSARIAL = [
    ({"k": 1}, {"k": None}), ({"k": None}, {"k": 5}), ({"k": {"x": 1}}, {"k": None}), ({"k": None}, {"k": {"x": 1}}),
    ({"k": [1, 2]}, {"k": [3]}), ({}, {"k": [[1]]}), ({}, {"k": [{"x": [1]}]}), ({"k": [[1]]}, {"k": [[2, 4], 3]}),
    ({"k": [1, [2, 3], {"x": 1}]}, {"k": [None, [9], {"y": 2}, 7]}), ({"k": [1, 2]}, {"k": {"0": 5}}), ({"k": {"0": 5}}, {"k": [1, 2]}),
    ({"k": {"x": 1}}, {"k": {}}), ({"k": 1}, {"k": {}}), ({"k": {"x": 1}}, {"k": []}), ({"k": [1, 2]}, {"k": []}),
    ({"a": {"b": {"c": {"d": 1, "e": [1]}}}}, {"a": {"b": {"c": {"d": {"z": 1}, "f": 2}, "g": None}}}),
    ({"a": 1, "b": 2, "c": 3}, {"c": 30, "z": 0, "a": 10, "y": 1}), ({}, {}), ({"a": 1}, {}), ({}, {"a": {"b": {"c": 1}}}),
    ({"k": [1]}, {"k": [5, {"x": 1}], "z": 1}), ({"k": [1], "m": {"k": None}}, {"k": [5, [6]], "m": {"k": 3, "j": [4]}}),
    ({"k": [{"x": 1}, {"x": 2}]}, {"k": [{"y": 1}]}), ({"k": [1, {"x": 1}]}, {"k": [{"y": 1}, 2]}),
    ({"": 1, "x y": {"": 2}}, {"": {"q": 1}, "x y": {"": 3, "0": 1}}), ({"a": False}, {"a": True}), ({"a": "null"}, {"a": None}),
]


def gen_pair(rng):
    a = gen_map(rng)
    r = rng.random()
    if r < 0.2:
        return a, gen_map(rng)
    return a, mutate(a, rng, 0.0 if r < 0.7 else 0.2)


# ------------------------------------------------------------------ implementation side
def impl_batch(reqs):
    """reqs: list of (expr, input text, all?) -> canonical bytes"""
    rs = [{"op": "eval", "expr": e, "input": t, "in": "json", "out": "json", "indent": 0, "all": bool(al)} for e, t, al in reqs]
    return [evalgen.canon_impl(r) for r in vlib.yqh_parallel(rs)]


def pair_doc(a, b):
    return json.dumps({"a": a, "b": b})


def ok_bytes(*vals):
    return b"OK\n" + b"".join(evalcheck.ser(v) + b"\n" for v in vals)


def first_result(b):
    """canonical impl bytes -> python value of the single result (dict order kept) or (None, False)"""
    res = evalcheck.results_of(b)
    if not res or len(res) != 1:
        return None, False
    return unser(res[0]), True


def unser(b):
    """canonical bytes of one node -> python value (dict keeps order)"""
    pos = 0

    def rd_str():
        nonlocal pos
        j = b.index(b":", pos)
        ln = int(b[pos:j])
        s = b[j + 1:j + 1 + ln]
        pos = j + 1 + ln
        return s

    def rd():
        nonlocal pos
        t = b[pos:pos + 1]
        pos += 1
        if t == b"N":
            return None
        if t == b"B":
            return rd_str() == b"true"
        if t == b"I":
            s = rd_str().decode()
            try:
                return int(s)
            except ValueError:
                return float(s)
        if t == b"S":
            return rd_str().decode()
        if t in (b"L", b"M"):
            j = b.index(b"[", pos)
            n = int(b[pos:j])
            pos = j + 1
            if t == b"L":
                out = [rd() for _ in range(n)]
            else:
                out = {}
                for _ in range(n):
                    k = rd_str().decode()
                    out[k] = rd()
            pos += 1
            return out
        raise ValueError(b[pos - 1:pos + 10])
    return rd()


def same(x, y):
    return evalcheck.ser(x) == evalcheck.ser(y)


# ------------------------------------------------------------------ oracles that need no spec
def keyorder_fail(a, b, r, fl, path=()):
    """keys of the result = keys of a, then (unless `?`) the keys of b not in a in b's order; at every level where both sides are maps"""
    if not (isinstance(a, dict) and isinstance(b, dict)):
        return None
    if not isinstance(r, dict):
        return "at %r: result is not a map" % (path,)
    want = list(a) + ([] if has(fl, "?") else [k for k in b if k not in a])
    if list(r) != want:
        return "at %r: keys %r, want %r" % (path, list(r), want)
    for k in a:
        if k in b:
            f = keyorder_fail(a[k], b[k], r[k], fl, path + (k,))
            if f:
                return f
    return None


def only_new_fail(a, b, r, fl, path=()):
    """`n`: a value that exists in a is kept; returns (failure, hit_null) — an existing null that was overwritten is the recorded finding"""
    if not (isinstance(a, dict) and isinstance(b, dict) and isinstance(r, dict)):
        return None, False
    hit_null = False
    for k in a:
        if k not in r:
            return "at %r: key %r of a disappeared" % (path, k), hit_null
        if k not in b:
            if not same(r[k], a[k]):
                return "at %r: key %r not in b changed" % (path, k), hit_null
            continue
        va = a[k]
        if isinstance(va, dict) and isinstance(b[k], dict):
            f, h = only_new_fail(va, b[k], r[k], fl, path + (k,))
            hit_null = hit_null or h
            if f:
                return f, hit_null
        elif va is None:
            if not same(r[k], va):
                hit_null = True
        elif kind(va) == kind(b[k]) and not (isinstance(va, list) and has(fl, "d")):
            if not same(r[k], va):
                return "at %r: existing key %r was overwritten under n" % (path, k), hit_null
    return None, hit_null


def literal_flat_merge(a, b):
    r = dict(a)
    for k, v in b.items():
        r[k] = v
    return r


WILD_KEYS = ["ab", "ac", "abc", "b", "a*", "a?", "*", "?b", "a*c", "zz"]


def is_wild(k):
    return "*" in k or "?" in k



# ------------------------------------------------------------------ YAML documents with anchors, aliases and merge keys
class Alias:
    def __init__(self, name):
        self.name = name


class Anchored:
    def __init__(self, name, value):
        self.name, self.value = name, value


MERGE = object()      # key of a `<<` entry


BARE = set(NUMKEYS + ["0", "1"])


def yaml_flow(v, bare=False):
    """flow-style YAML; bare: keys that spell numbers are written unquoted, so they are tagged !!int / !!float"""
    if isinstance(v, Alias):
        return "*" + v.name + " "
    if isinstance(v, Anchored):
        return "&" + v.name + " " + yaml_flow(v.value, bare)
    if isinstance(v, dict):
        return "{" + ", ".join(("<<" if k is MERGE else (k if bare and k in BARE else json.dumps(k))) + ": " + yaml_flow(x, bare) for k, x in v.items()) + "}"
    if isinstance(v, list):
        return "[" + ", ".join(yaml_flow(x, bare) for x in v) + "]"
    return json.dumps(v)


def seq_paths(v, pre=""):
    """yq path text of every sequence inside v, with its length"""
    out = []
    if isinstance(v, dict):
        for k, x in v.items():
            out += seq_paths(x, pre + "[" + json.dumps(k) + "]")
    elif isinstance(v, list):
        out.append((pre, len(v)))
        for i, x in enumerate(v):
            out += seq_paths(x, pre + "[%d]" % i)
    return out


DERIVE_NESTED = ["(.. | select(kind == \"seq\")) |= reverse", "(.. | select(kind == \"seq\")) |= (. + .)", "(.. | select(kind == \"seq\")) |= .[1:]",
                 "(.. | select(kind == \"seq\")) |= [.[]]", "(.. | select(kind == \"seq\")) |= (.[1:] + .[:1])"]
DERIVE_TOP = ["reverse", ". + .", ".[1:]", "[.[]]", ".[1:] + .[:1]", "[.[] | select(. != null)]", "flatten(1)", "unique", "sort_by(tag)"]


def sub_maps(v, acc):
    if isinstance(v, dict):
        acc.append(v)
        for x in v.values():
            sub_maps(x, acc)
    elif isinstance(v, list):
        for x in v:
            sub_maps(x, acc)
    return acc


def gen_yaml_doc(rng):
    """text of a document {x: &x map, s: &s seq, v: &v scalar, a: A, b: B}: A and B a generated pair in which values are
    replaced by aliases (preferably where the other operand has a container at the same key), maps get `<<` entries,
    and a value of A carries an anchor of its own that later positions of A / B refer to"""
    a, b = gen_pair(rng)
    a, b = json.loads(json.dumps(a)), json.loads(json.dumps(b))
    bx, bs, bv = gen_map(rng, 1), [gen_val(rng, 2) for _ in range(rng.choice([0, 1, 2, 3]))], rng.choice(SCALARS)
    bare = rng.random() < 0.4
    for side, other in ((a, b), (b, a)):
        maps = sub_maps(side, [])
        for m in maps:
            for k in list(m):
                r = rng.random()
                if r < 0.12:
                    m[k] = Alias(rng.choice("xsv"))
            if rng.random() < 0.15:
                m[MERGE] = Alias("x") if rng.random() < 0.7 else [Alias("x"), Alias("x")]
    # an alias exactly where the other operand has a container
    for side, other, prob in ((a, b, 0.7), (b, a, 0.4)):
        common = [k for k in side if k in other and isinstance(other[k], (dict, list)) and k is not MERGE]
        if common and rng.random() < prob:
            k = rng.choice(common)
            if isinstance(other[k], dict):
                if isinstance(side[k], dict) and not contains_special(side[k]) and rng.random() < 0.6:
                    bx = json.loads(json.dumps(side[k]))
                side[k] = Alias("x")
            else:
                side[k] = Alias("s")
    # an anchor inside a
    ks = [k for k in a if k is not MERGE and not isinstance(a[k], Alias)]
    if ks and rng.random() < 0.5:
        k0 = ks[0]
        if not contains_special(a[k0]):
            a[k0] = Anchored("y", a[k0])
            later = [k for k in ks[1:]]
            if later and rng.random() < 0.6:
                a[rng.choice(later)] = Alias("y")
            kb = [k for k in b if k is not MERGE]
            if kb and rng.random() < 0.6:
                b[rng.choice(kb)] = Alias("y")
    return "x: &x %s\ns: &s %s\nv: &v %s\na: %s\nb: %s\n" % (yaml_flow(bx, bare), yaml_flow(bs, bare), yaml_flow(bv, bare), yaml_flow(a, bare), yaml_flow(b, bare))


def contains_special(v):
    if isinstance(v, (Alias, Anchored)):
        return True
    if isinstance(v, dict):
        return any(k is MERGE or contains_special(x) for k, x in v.items())
    if isinstance(v, list):
        return any(contains_special(x) for x in v)
    return False


YAML_FIXED = [
    "base: &x {k: 1}\na: {m: *x }\nb: {m: {k: 2, j: 3}}\n",
    "base: &x {k: null}\na: {m: *x }\nb: {m: {k: 2}}\n",
    "s: &s [1, null]\na: {q: *s }\nb: {q: [7, 8, 9]}\n",
    "base: &x {k: 1}\na: {m: {<<: *x , z: 1}}\nb: {m: {k: 2, j: 3}}\n",
    "base: &x {k: {d: 1}}\na: {m: {<<: *x }}\nb: {m: {k: {d: 2, e: 3}}}\n",
    "a: {p: &y {k: 1}, m: *y }\nb: {m: {k: 2, j: 3}, p: {j: 4}}\n",
    "base: &x {k: 1}\na: {m: {k: 0}}\nb: {m: *x , n: {<<: *x }}\n",
    "base: &x {k: [1, {u: 1}]}\na: {m: *x }\nb: {m: {k: [5, {w: 2}, 6]}}\n",
]


def impl_yaml(reqs):
    rs = [{"op": "eval", "expr": e, "input": t, "in": "yaml", "out": "yaml"} for e, t in reqs]
    out = []
    for r in vlib.yqh_parallel(rs):
        if r is None or r.get("crash") is not None:
            out.append(("CRASH", b""))
        elif r.get("panic"):
            out.append(("PANIC", b""))
        elif r.get("timeout"):
            out.append(("TIMEOUT", b""))
        elif r.get("err"):
            out.append(("ERR", b""))
        else:
            out.append(("OK", vlib.b64d(r["out_b64"])))
    return out


YAML_PROBES = ["(.a *%s .b) as $r | .", "[.a *%s .b, .a *%s .b] as $r | .", "(.a *%s .b | (.. | select(kind == \"scalar\")) |= \"Z\") as $r | ."]


# ------------------------------------------------------------------ the check
def run(chk):
    thorough = chk.tier == "thorough"
    rng = chk.rng
    proved, plog = chk.prove("Props/C04.v")
    broken = []
    if not proved:
        broken.append("proof obligations of Props/C04.v do not check: " + plog[-800:])
    nviol = [0]

    def violate(rp, what):
        nviol[0] += 1
        if nviol[0] <= 6:
            chk.violation(rp, True, what)

    # ---- pairs x 16 flag sets
    npairs = 6000 if thorough else 300
    pairs = list(ADVERSARIAL) + [gen_pair(rng) for _ in range(npairs)]
    cases = [(a, b, fl) for a, b in pairs for fl in range(16)]
    reqs = []
    for a, b, fl in cases:
        F, doc = flag_text(fl), pair_doc(a, b)
        reqs.append((".a *%s .b" % F, doc, False))
        reqs.append(("[.a *%s .b, .a, .b, .a *%s .b]" % (F, F), doc, False))
        reqs.append(("(.a *%s .b) as $m | [.a, .b]" % F, doc, False))
        reqs.append(("(.a *%s .b | (.. | select(kind == \"scalar\")) |= \"Z\") as $m | [.a, .b]" % F, doc, False))
        reqs.append(("(.a *=%s .b) | [.a, .b]" % F, doc, False))
    NR = 5
    out = impl_batch(reqs)
    impl = [out[NR * i] for i in range(len(cases))]
    coq_cases = [("(%d, %s, %s)" % (fl, evalgen.coq_node(a), evalgen.coq_node(b)), impl[i]) for i, (a, b, fl) in enumerate(cases)]
    mism, err = vlib.coq_mismatches(chk.workdir, "c04_pairs", IMPORTS, "(fun c => merge_run (fst (fst c)) (snd (fst c)) (snd c))", coq_cases, shard=300)
    model = {}
    if err:
        broken.append("spec evaluation failed: " + err[-600:])
    else:
        model = dict(mism)
    n_open = n_defined = n_err_defined = 0
    per_flag = {flag_text(fl) or "-": {"defined": 0, "open": 0} for fl in range(16)}
    null_hits = []
    for i, (a, b, fl) in enumerate(cases):
        F, doc = flag_text(fl), {"a": a, "b": b}
        o = out[NR * i:NR * i + NR]
        is_open = model.get(i) == b"OPEN"
        per_flag[F or "-"]["open" if is_open else "defined"] += 1
        r, okr = first_result(impl[i])
        chk.count((F, json.dumps(doc)), nontrivial=(not is_open) and okr and not same(r, a),
                  sample={"expr": ".a *%s .b" % F, "doc": doc, "result": impl[i].decode("utf-8", "replace")} if (i % 97 == 5 and not is_open) else None)
        if is_open:
            n_open += 1
        else:
            n_defined += 1
            if i in model and not err:
                violate({"kind": "eval", "expr": ".a *%s .b" % F, "doc": doc, "impl": impl[i].decode("utf-8", "replace"),
                         "expect": model[i].decode("utf-8", "replace") if isinstance(model[i], bytes) else repr(model[i])},
                        "`.a *%s .b` differs from the documented merge (Spec/MergeSpec.v merge)" % F)
            if not okr:
                n_err_defined += 1
        # operands untouched: holds for every input, open region included, whenever the merge itself succeeds
        if okr:
            want = ok_bytes([r, a, b, r])
            if o[1] != want:
                violate({"kind": "eval", "expr": "[.a *%s .b, .a, .b, .a *%s .b]" % (F, F), "doc": doc, "impl": o[1].decode("utf-8", "replace"),
                         "expect": want.decode("utf-8", "replace")}, "operands read differently after `.a *%s .b`, or a second merge differs" % F)
            want2 = ok_bytes([a, b])
            for j, e in ((2, "(.a *%s .b) as $m | [.a, .b]" % F), (3, "(.a *%s .b | (.. | select(kind == \"scalar\")) |= \"Z\") as $m | [.a, .b]" % F)):
                if o[j] != want2:
                    violate({"kind": "eval", "expr": e, "doc": doc, "impl": o[j].decode("utf-8", "replace"), "expect": want2.decode("utf-8", "replace")},
                            "operands changed by evaluating (or overwriting the result of) `.a *%s .b`" % F)
            want3 = ok_bytes([r, b])
            if o[4] != want3:
                violate({"kind": "eval", "expr": "(.a *=%s .b) | [.a, .b]" % F, "doc": doc, "impl": o[4].decode("utf-8", "replace"), "expect": want3.decode("utf-8", "replace")},
                        "`.a *=%s .b` does not leave `.a *%s .b` in .a with .b unchanged" % (F, F))
        if okr and not is_open:
            f = keyorder_fail(a, b, r, fl)
            if f:
                violate({"kind": "keyorder", "a": a, "b": b, "fl": fl, "why": f}, "key order of `.a *%s .b`: %s" % (F, f))
            if has(fl, "n"):
                f, hn = only_new_fail(a, b, r, fl)
                if f:
                    violate({"kind": "onlynew", "a": a, "b": b, "fl": fl, "why": f}, "`n` overwrote an existing value: " + f)
                if hn:
                    null_hits.append((F, doc, r))
    if null_hits:
        F, doc, r = min(null_hits, key=lambda t: len(json.dumps(t[1])))
        if chk.is_known("only-new-overwrites-null"):
            chk.known_finding("only-new-overwrites-null", "%d cases, e.g. %s | .a *%s .b -> %s" % (len(null_hits), json.dumps(doc), F, json.dumps(r)))
        else:
            violate({"kind": "onlynew", "a": doc["a"], "b": doc["b"], "fl": [fl for fl in range(16) if flag_text(fl) == F][0], "why": "null overwritten", "strict_null": True},
                    "`n` overwrote an existing key whose value is null")

    # ---- identities, idempotence (implementation alone)
    ndocs = 600 if thorough else 100
    docs = [a for a, _ in ADVERSARIAL] + [b for _, b in ADVERSARIAL] + [gen_map(rng) for _ in range(ndocs)]
    ireqs, imeta = [], []
    for x in docs:
        for fl in range(16):
            F = flag_text(fl)
            ireqs.append((".a *%s .b" % F, pair_doc(x, {}), False))
            imeta.append(("x * {}", F, {"a": x, "b": {}}, x))
            if not has(fl, "?"):
                ireqs.append((".a *%s .b" % F, pair_doc({}, x), False))
                imeta.append(("{} * x", F, {"a": {}, "b": x}, x))
            if has(fl, "?"):
                ireqs.append((".a *%s .b" % F, pair_doc({}, x), False))
                imeta.append(("{} *? x = {}", F, {"a": {}, "b": x}, {}))
            if not has(fl, "+"):
                ireqs.append((".a *%s .b" % F, pair_doc(x, x), False))
                imeta.append(("x * x", F, {"a": x, "b": x}, x))
            # a null RHS at top level returns (a copy of) the LHS: the copy must not be the operand itself
            ireqs.append(("[.a *%s .b, .a]" % F, pair_doc(x, None), False))
            imeta.append(("x * null", F, {"a": x, "b": None}, [x, x]))
            ireqs.append(("(.a *%s .b | (.. | select(kind == \"scalar\")) |= \"Z\") as $m | .a" % F, pair_doc(x, None), False))
            imeta.append(("x * null, result overwritten", F, {"a": x, "b": None}, x))
    iout = impl_batch(ireqs)
    for (law, F, doc, want), got, rq in zip(imeta, iout, ireqs):
        chk.count((law, F, json.dumps(doc)), nontrivial=bool(want))
        if got != ok_bytes(want):
            violate({"kind": "eval", "expr": rq[0], "doc": doc, "impl": got.decode("utf-8", "replace"), "expect": ok_bytes(want).decode("utf-8", "replace")},
                    "law %s fails with flags '%s'" % (law, F))

    # ---- multi-document reduce = left fold of the binary merge
    nseq = 800 if thorough else 40
    seqs = []
    for _ in range(nseq):
        k = rng.choice([1, 2, 3, 3, 4, 5] if thorough else [2, 3, 3, 4])
        ds = [gen_map(rng)]
        for _ in range(k - 1):
            base = rng.choice(ds)
            ds.append(mutate(base, rng, 0.0 if rng.random() < 0.75 else 0.15) if rng.random() < 0.8 else gen_map(rng))
        seqs.append(ds)
    seqs += [[a, b, a] for a, b in ADVERSARIAL[:8]] + [[]] * 0
    rcases = [(ds, fl) for ds in seqs for fl in range(16)]
    rout = impl_batch([(". as $i ireduce ({}; . *%s $i)" % flag_text(fl), "\n".join(json.dumps(d) for d in ds), True) for ds, fl in rcases])
    rkeep = impl_batch([("(. as $i ireduce ({}; . *%s $i)) as $m | ." % flag_text(fl), "\n".join(json.dumps(d) for d in ds), True) for ds, fl in rcases])
    rcoq = [("(%d, [%s])" % (fl, ";".join(evalgen.coq_node(d) for d in ds)), rout[i]) for i, (ds, fl) in enumerate(rcases)]
    rmism, rerr = vlib.coq_mismatches(chk.workdir, "c04_reduce", IMPORTS, "(fun c => merge_all_run (fst c) (snd c))", rcoq, shard=100)
    rmodel = {}
    if rerr:
        broken.append("spec evaluation (reduce) failed: " + rerr[-600:])
    else:
        rmodel = dict(rmism)
    # the implementation's own fold, one binary merge per round
    acc = [({}, True) for _ in rcases]
    for rnd in range(max(len(ds) for ds, _ in rcases)):
        idx = [i for i, (ds, fl) in enumerate(rcases) if rnd < len(ds) and acc[i][1]]
        res = impl_batch([(".a *%s .b" % flag_text(rcases[i][1]), pair_doc(acc[i][0], rcases[i][0][rnd]), False) for i in idx])
        for i, b in zip(idx, res):
            acc[i] = first_result(b)
    n_ropen = 0
    for i, (ds, fl) in enumerate(rcases):
        F = flag_text(fl)
        e = ". as $i ireduce ({}; . *%s $i)" % F
        is_open = rmodel.get(i) == b"OPEN"
        n_ropen += is_open
        chk.count(("reduce", F, json.dumps(ds)), nontrivial=not is_open and len(ds) > 1,
                  sample={"expr": e, "docs": ds, "result": rout[i].decode("utf-8", "replace")} if i % 131 == 7 and not is_open else None)
        if not is_open and i in rmodel and not rerr:
            violate({"kind": "reduce", "expr": e, "docs": ds, "impl": rout[i].decode("utf-8", "replace"),
                     "expect": rmodel[i].decode("utf-8", "replace") if isinstance(rmodel[i], bytes) else repr(rmodel[i])},
                    "multi-document reduce with `*%s` differs from the left fold of the documented merge" % F)
        if rout[i].startswith(b"OK\n") and rkeep[i] != ok_bytes(*ds):
            violate({"kind": "reduce", "expr": "(. as $i ireduce ({}; . *%s $i)) as $m | ." % F, "docs": ds, "impl": rkeep[i].decode("utf-8", "replace"),
                     "expect": ok_bytes(*ds).decode("utf-8", "replace")}, "the documents read differently after the reduce with `*%s`" % F)
        folded, okf = acc[i]
        if okf and rout[i] != ok_bytes(folded):
            violate({"kind": "reduce", "expr": e, "docs": ds, "impl": rout[i].decode("utf-8", "replace"), "expect": ok_bytes(folded).decode("utf-8", "replace")},
                    "multi-document reduce with `*%s` differs from folding the implementation's own binary merge" % F)

    # ---- YAML documents with anchors / aliases / merge keys inside both operands: the whole document reads the same afterwards
    nyd = 1500 if thorough else 90
    ydocs = list(YAML_FIXED) + [gen_yaml_doc(rng) for _ in range(nyd)]
    base_out = impl_yaml([(".", t) for t in ydocs])
    yreqs, ymeta = [], []
    for t, (st, ref) in zip(ydocs, base_out):
        if st != "OK":
            chk.count(("yaml-unreadable", t), nontrivial=False)
            continue
        for fl in range(16):
            F = flag_text(fl)
            for pr in YAML_PROBES:
                e = pr.replace("%s", F)
                yreqs.append((e, t))
                ymeta.append((e, t, ref))
    yout = impl_yaml(yreqs)
    ystat = {"documents": len(ydocs), "readable": sum(1 for st, _ in base_out if st == "OK"), "probes": len(yreqs), "merge_ok": 0, "merge_err": 0}
    for (e, t, ref), (st, got) in zip(ymeta, yout):
        chk.count(("yaml", e, t), nontrivial=st == "OK", sample={"expr": e, "yaml": t} if (len(t) < 160 and st == "OK" and "*" in t.split("\na:")[-1]) else None)
        if st == "ERR":
            ystat["merge_err"] += 1          # the merge itself is rejected (e.g. `+` onto a map): nothing was printed, nothing to compare
            continue
        ystat["merge_ok"] += 1
        if st != "OK" or got != ref:
            violate({"kind": "yaml", "expr": e, "yaml": t, "impl": st + "\n" + got.decode("utf-8", "replace"), "expect": "OK\n" + ref.decode("utf-8", "replace")},
                    "the document (anchors, aliases, merge keys) reads differently after evaluating %s" % e)
    chk.extra["yaml_alias_documents"] = ystat

    # ---- keys tagged !!int / !!float (unquoted YAML keys in every number spelling) merge like the same keys as strings
    nk = 600 if thorough else 50
    kpairs = [({"007": {"n": "x", "l": True}, "k": 1, "0x1F": {"p": 1}}, {"007": {"n": "b"}, "0x1F": {"q": 2}, "0o17": [1], "1_0": None})]
    while len(kpairs) < nk:
        a, b = gen_pair(rng)
        if any(k in BARE for m in sub_maps(a, []) + sub_maps(b, []) for k in m):
            kpairs.append((a, b))
    kreq_j, kreq_y = [], []
    for a, b in kpairs:
        for fl in range(16):
            e = ".a *%s .b" % flag_text(fl)
            kreq_j.append((e, pair_doc(a, b), False))
            kreq_y.append({"op": "eval", "expr": e, "input": "a: %s\nb: %s\n" % (yaml_flow(a, True), yaml_flow(b, True)), "in": "yaml", "out": "json", "indent": 0})
    kj = impl_batch(kreq_j)
    ky = [evalgen.canon_impl(r) for r in vlib.yqh_parallel(kreq_y)]
    # the comparison is made on the defined region only: where a map of b meets a sequence of a under `+ ? n` (open region) the entries
    # are addressed by index, and an !!int key 0x1F and the string "0x1F" are legitimately different things there
    kflat = [(a, b, fl) for a, b in kpairs for fl in range(16)]
    kmm, kerr = vlib.coq_mismatches(chk.workdir, "c04_numkeys", IMPORTS, "(fun c => merge_run (fst (fst c)) (snd (fst c)) (snd c))",
                                    [("(%d, %s, %s)" % (fl, evalgen.coq_node(a), evalgen.coq_node(b)), kj[i]) for i, (a, b, fl) in enumerate(kflat)], shard=300)
    if kerr:
        broken.append("spec evaluation (number-like keys) failed: " + kerr[-600:])
        kmm = []
    kmodel = dict(kmm)
    n_kopen = 0
    for i, ((e, dj, _), rq, gj, gy) in enumerate(zip(kreq_j, kreq_y, kj, ky)):
        if kmodel.get(i) == b"OPEN":
            n_kopen += 1
            chk.count(("numkey-open", e, rq["input"]), nontrivial=False)
            continue
        chk.count(("numkey", e, rq["input"]), nontrivial=gj.startswith(b"OK"))
        if i in kmodel and not kerr:
            violate({"kind": "eval", "expr": e, "doc": json.loads(dj), "impl": gj.decode("utf-8", "replace"),
                     "expect": kmodel[i].decode("utf-8", "replace") if isinstance(kmodel[i], bytes) else repr(kmodel[i])},
                    "`%s` differs from the documented merge (Spec/MergeSpec.v merge)" % e)
        if gj != gy:
            violate({"kind": "yamljson", "expr": e, "yaml": rq["input"], "impl": gy.decode("utf-8", "replace"), "expect": gj.decode("utf-8", "replace")},
                    "%s on unquoted number-like YAML keys differs from the same merge with string keys" % e)

    # ---- a rebuilt container as RHS (recorded keys are stale there): same result as merging the value it denotes
    nd = 800 if thorough else 60
    dcases = []
    for _ in range(nd):
        if rng.random() < 0.5:
            a, b = gen_pair(rng)
            dcases.append((a, b, rng.choice(DERIVE_NESTED)))
        else:
            la = [gen_val(rng, 1) for _ in range(rng.choice([0, 1, 2, 3, 4]))]
            lb = mutate(la, rng, 0.1, 1) if rng.random() < 0.7 else [gen_val(rng, 1) for _ in range(rng.choice([1, 2, 3, 4]))]
            dcases.append((la, lb, rng.choice(DERIVE_TOP)))
    dcases += [([3, 4, 5], [1, 2, 9], "reverse"), ([7, 8, 9], [1, 2, 3, 4], ".[1:3]"), ({"k": [{"z": 0}]}, {"k": [{"x": 1}, {"y": 2}]}, DERIVE_NESTED[0])]
    dv = impl_batch([(".b | (%s)" % dz, pair_doc(a, b), False) for a, b, dz in dcases])
    dreq1, dreq2, dmeta = [], [], []
    for (a, b, dz), vb in zip(dcases, dv):
        v, okv = first_result(vb)
        if not okv:
            chk.count(("derive-err", dz, json.dumps([a, b])), nontrivial=False)
            continue
        for fl in range(16):
            F = flag_text(fl)
            dreq1.append((".a *%s (.b | (%s))" % (F, dz), pair_doc(a, b), False))
            dreq2.append((".a *%s .b" % F, pair_doc(a, v), False))
            dmeta.append((a, b))
    d1, d2 = impl_batch(dreq1), impl_batch(dreq2)
    for (e, doc, _), g1, g2 in zip(dreq1, d1, d2):
        chk.count(("derived", e, doc), nontrivial=g2.startswith(b"OK"))
        if g1 != g2:
            violate({"kind": "eval", "expr": e, "doc": json.loads(doc), "impl": g1.decode("utf-8", "replace"), "expect": g2.decode("utf-8", "replace")},
                    "merging a rebuilt container (%s) differs from merging the value it denotes" % e)

    # ---- operands that read a missing key / an index at or past the end, the merge in a read-only position: the document is unchanged
    nro = 600 if thorough else 60
    roreq, rometa = [], []
    for a, b in (pairs[:len(ADVERSARIAL)] + pairs[len(ADVERSARIAL):][:nro]):
        doc = pair_doc(a, b)
        F = flag_text(rng.randrange(16))
        es = ["(.a *%s .a.zz_missing) as $m | ." % F, "(.a.zz_missing *%s .b) as $m | ." % F, "(.a *%s .b.zz.deeper) as $m | ." % F,
              ".merged = (.a *%s .b.zz_missing) | del(.merged)" % F, ".same = ((.a.zz_missing *%s .b) == .b) | del(.same)" % F,
              "[.a *%s .b.zz_missing, .a.zz_missing *%s .b] as $m | ." % (F, F), "(.a | select(. *%s .zz_missing)) as $m | ." % F]
        for side, v in (("a", a), ("b", b)):
            for pth, ln in seq_paths(v)[:3]:
                es.append("(.a *%s .%s%s[%d]) as $m | ." % (F, side, pth, ln))
                es.append("(.%s%s[%d] *%s .b) as $m | ." % (side, pth, ln + 2, F))
        for e in es:
            roreq.append((e, doc, False))
            rometa.append((a, b))
    ro = impl_batch(roreq)
    for (e, doc, _), (a, b), got in zip(roreq, rometa, ro):
        chk.count(("readonly-operand", e, doc), nontrivial=got.startswith(b"OK"))
        want = ok_bytes({"a": a, "b": b})
        res = evalcheck.results_of(got) or []      # a pattern key in the operand path (["*"]) binds $m several times: every output is the document
        if got.startswith(b"OK") and any(x + b"\n" != want[3:] for x in res):
            violate({"kind": "eval", "expr": e, "doc": {"a": a, "b": b}, "impl": got.decode("utf-8", "replace"), "expect": want.decode("utf-8", "replace")},
                    "evaluating a merge whose operand reads a missing path changed the document: " + e)
    chk.extra["extra_oracles"] = {"number_key_pairs_x16": len(kreq_j), "number_key_open_region_skipped": n_kopen, "derived_rhs_cases_x16": len(dreq1), "readonly_operand_probes": len(roreq),
                                   "readonly_operand_probes_ok": sum(1 for g in ro if g.startswith(b"OK"))}

    # ---- recorded findings: exact inputs, still reproducing?
    probes = impl_batch([(".a *+d .b", pair_doc({"k": [1, 2]}, {"k": [3]}), False),
                         (".a *+d .b", pair_doc({}, {"k": [[1]]}), False),
                         (".a *n .b", pair_doc({"k": None}, {"k": 5}), False)])
    # repaired (fixed: in KNOWN_FINDINGS.txt): `+d` used to append and then also assign b's items by position
    for j, (dj, wj) in enumerate((({"a": {"k": [1, 2]}, "b": {"k": [3]}}, {"k": [1, 2, 3]}), ({"a": {}, "b": {"k": [[1]]}}, {"k": [[1]]}))):
        if probes[j] != ok_bytes(wj):
            violate({"kind": "eval", "expr": ".a *+d .b", "doc": dj, "impl": probes[j].decode("utf-8", "replace"), "expect": ok_bytes(wj).decode("utf-8", "replace")},
                    "`*+d` does not append exactly once")
    if probes[2] == ok_bytes({"k": 5}) and not null_hits:
        chk.known_finding("only-new-overwrites-null", '{"a":{"k":null},"b":{"k":5}} | .a *n .b -> {"k":5}')

    # ---- keys are data (repaired, fixed: in KNOWN_FINDINGS.txt: keys of b used to be matched as glob patterns): flat maps, literal merge
    nw = 1500 if thorough else 300
    wcases = [({"ab": 1, "ac": 2}, {"a*": 3}), ({"ab": 1, "ac": 2}, {"*": 0}), ({"a*": 1, "ab": 2}, {"a*": 3}), ({"ab": 1}, {"a?": 2, "a*": 3}),
              ({"a*": 1, "ab": 2, "ac": 3}, {"a?": 9, "ab": 8})]
    for _ in range(nw):
        a = {k: rng.choice([1, 2, 3, "s", None]) for k in rng.sample(WILD_KEYS, rng.choice([1, 2, 3, 4]))}
        b = {k: rng.choice([7, 8, "t", None, True]) for k in rng.sample(WILD_KEYS, rng.choice([1, 2, 3]))}
        wcases.append((a, b))
    wout = impl_batch([(".a * .b", pair_doc(a, b), False) for a, b in wcases] + [(".a *= .b | .a", pair_doc(a, b), False) for a, b in wcases])
    lit = [ok_bytes(literal_flat_merge(a, b)) for a, b in wcases]
    dev = [i for i in range(len(wcases)) if wout[i] != lit[i] or wout[len(wcases) + i] != lit[i]]
    for i, (a, b) in enumerate(wcases):
        chk.count(("wild", json.dumps([a, b])), nontrivial=any(is_wild(k) for k in b))
        if i in dev:
            e, got = (".a * .b", wout[i]) if wout[i] != lit[i] else (".a *= .b | .a", wout[len(wcases) + i])
            violate({"kind": "eval", "expr": e, "doc": {"a": a, "b": b}, "impl": got.decode("utf-8", "replace"), "expect": lit[i].decode("utf-8", "replace")},
                    "flat merge differs from the literal merge (a key of b containing * or ? must be an ordinary key)")

    chk.extra["distribution"] = {
        "pairs": len(pairs), "pair_cases(pairs x 16 flag sets)": len(cases), "defined_region": n_defined, "open_region_skipped": n_open,
        "impl_error_in_defined_region": n_err_defined, "per_flagset": per_flag, "identity_law_instances": len(imeta),
        "reduce_cases(sequences x 16)": len(rcases), "reduce_open_skipped": n_ropen, "wildcard_flat_cases": len(wcases),
        "pattern_key_cases_deviating_from_literal_merge": len(dev), "impl_outcomes": evalcheck.outcome_stats(impl)}
    if broken and not chk.violations:
        chk.violation({"kind": "obligation", "broken": broken}, False, "; ".join(broken)[:600])
    return chk.finish(
        checker_cmd="make -C coq Props/C04.vo + coqc work/C04/c04_{pairs,reduce}_*.v (vm_compute)",
        rule="seeded pairs of nested JSON maps (b derived from a by kind-preserving edits, new / dropped / reordered keys, resized sequences; 30% with kind "
             "conflicts; 20% independent; hand-written corner cases) x all 16 subsets of {+ d ? n}: `.a *F .b` vs Spec/MergeSpec.v merge (open region counted and "
             "skipped); operands-untouched / repeatability / overwrite-the-result probes on every case; key order, `?`, `n` oracles; x*{} / {}*x / x*x laws; "
             "YAML documents with anchors / aliases / `<<` entries inside both operands x 16 flag sets: the whole document printed after the merge (also after repeating it and after overwriting its result) equals the document; document sequences x 16 flag sets through `. as $i ireduce ({}; . *F $i)` (all-at-once evaluator) vs merge_all and vs the implementation's own "
             "iterated binary merge; flat maps whose keys contain * and ? vs the literal merge (`*` and `*=`); non-trivial = defined-region merge whose result differs from a",
        trusted=vlib.COMMON_TRUSTED + ["Spec/MergeSpec.v hand-written from operator_multiply.go (mergeObjects / applyAssignment), operator_assign.go, operator_add.go, "
                                       "operator_traverse_path.go; it is the reference the theorems are about"],
        assumptions=["alias-free JSON-model documents with unique keys, plain tags, no comments/styles/anchors",
                     "operands reached as .a / .b of one document or as documents of a stream (well-keyed: recorded paths equal positions)"])


def replay(rp):
    k = rp.get("kind")
    if k == "eval":
        got = impl_batch([(rp["expr"], json.dumps(rp["doc"]), False)])[0]
        return got.decode("utf-8", "replace") == rp["expect"]
    if k == "reduce":
        got = impl_batch([(rp["expr"], "\n".join(json.dumps(d) for d in rp["docs"]), True)])[0]
        return got.decode("utf-8", "replace") == rp["expect"]
    if k == "yamljson":
        got = evalgen.canon_impl(vlib.yqh_parallel([{"op": "eval", "expr": rp["expr"], "input": rp["yaml"], "in": "yaml", "out": "json", "indent": 0}])[0])
        return got.decode("utf-8", "replace") == rp["expect"]
    if k == "yaml":
        st, got = impl_yaml([(rp["expr"], rp["yaml"])])[0]
        return st + "\n" + got.decode("utf-8", "replace") == rp["expect"]
    if k in ("keyorder", "onlynew"):
        a, b, fl = rp["a"], rp["b"], rp["fl"]
        r, ok = first_result(impl_batch([(".a *%s .b" % flag_text(fl), pair_doc(a, b), False)])[0])
        if not ok:
            return False
        if k == "keyorder":
            return keyorder_fail(a, b, r, fl) is None
        f, hn = only_new_fail(a, b, r, fl)
        return f is None and not (hn and rp.get("strict_null"))
    return True
