"""C05 — YAML in, YAML out: the identity expression preserves data and presentation.

Partial by design: yaml.v3's scanner/emitter is third-party.  Decided by:
theorems Props/C05.v over Model/YamlBridge.v (the yaml.Node <-> CandidateNode
conversion, the leading-content state machine, and the composition under the
library contract as Section hypotheses).
Tie: (1) yqh op c05conv parses YAML with yaml.v3 directly, dumps the yaml.Node
tree, runs yq's UnmarshalYAML / MarshalYAML and dumps both results; compared
field by field with from_y / to_y; (2) processReadStream / PrintLeadingContent
through the decoder's LeadingContent and the encoder's PrintLeadingContent on
generated and adversarial header byte strings; (3) the contract hypotheses are
tested on the same corpus.
Direct oracle on the binary: `yq .` keeps document count, node graph (PyYAML
compose: tags, values, key order, alias sharing), styles, comments, and
`yq . | yq .` is byte-identical to `yq .`.
"""
import json, os, re, shutil, tempfile, time
from concurrent.futures import ThreadPoolExecutor
import vlib

try:
    import yaml as pyyaml
except Exception:  # noqa
    pyyaml = None

IMPORTS = "From YQ Require Import Base.Str Model.YamlBridge."

# ---------------------------------------------------------------------------
# YAML generator (text with known comment markers)
# ---------------------------------------------------------------------------
PLAIN_WORDS = ["a", "b", "key", "x1", "foo_bar", "some-thing", "v1.2.3", "path/to/x", "hello world", "tab\there", "ünï", "中文", "😀", "a#b", "a:b", "it's"]
LOOKALIKE = ["null", "~", "true", "false", "yes", "no", "on", "off", "123", "-1", "0x1F", "0o17", "1.5", "1e3", ".inf", ".nan", "2001-01-01", "", " ", " lead", "trail ",
             "- x", "a: b", "# c", "[x]", "{x}", "<<", "=", "!t", "&a", "*a", "|", ">", "%", "@", "`", "'", "\"", "\\", "a\\nb", "multi\nline", "two\n\nparas\n", "\ttab", "x\n", "é\u00a0", "\u2028"]
INTS = ["0", "1", "-1", "+7", "42", "0x1F", "0o17", "1_000", "007", "9223372036854775807", "18446744073709551616"]
FLOATS = ["1.5", "-0.0", "1e3", "6.02e+23", ".5", ".inf", "-.inf", ".nan", ".NaN", "1_0.5"]
BOOLS = ["true", "false", "True", "FALSE"]
NULLS = ["null", "~", "Null", ""]
TAGS = ["!!str", "!custom", "!!binary", "!local/x", "!!int", "!!float"]


class Gen:
    def __init__(self, rng):
        self.rng = rng
        self.cn = 0
        self.comments = []
        self.anchors = []
        self.an = 0

    def comment(self):
        self.cn += 1
        c = "# c%d %s" % (self.cn, self.rng.choice(["", "note", "x: y", "- z", "'q'", "#hash", "ü"]))
        c = c.rstrip()
        self.comments.append(c)
        return c

    def dq(self, s):
        out = ['"']
        for ch in s:
            cp = ord(ch)
            if ch == '"':
                out.append('\\"')
            elif ch == "\\":
                out.append("\\\\")
            elif ch == "\n":
                out.append("\\n")
            elif ch == "\t":
                out.append("\\t")
            elif cp < 0x20 or cp in (0x7F, 0x85, 0xA0, 0x2028, 0x2029, 0xFEFF):
                out.append("\\x%02x" % cp if cp < 0x100 else "\\u%04x" % cp)
            else:
                out.append(ch)
        out.append('"')
        return "".join(out)

    def scalar_flow(self):
        """a scalar usable anywhere on one line; returns text"""
        r = self.rng
        q = r.random()
        if q < 0.25:
            w = r.choice(PLAIN_WORDS)
            if re.fullmatch(r"[A-Za-z_][A-Za-z0-9_./-]*", w) or (w in ("hello world", "ünï", "中文", "😀", "a#b", "a:b", "it's") and q < 0.2):
                return w
            return self.dq(w)
        if q < 0.45:
            s = r.choice(LOOKALIKE + PLAIN_WORDS)
            st = r.random()
            if st < 0.5 and "\n" not in s and "\t" not in s and all(0x20 <= ord(c) < 0x7F or 0xA1 <= ord(c) < 0x2028 or ord(c) > 0x2029 for c in s):
                return "'" + s.replace("'", "''") + "'"
            return self.dq(s)
        if q < 0.6:
            return r.choice(INTS)
        if q < 0.7:
            return r.choice(FLOATS)
        if q < 0.78:
            return r.choice(BOOLS)
        if q < 0.86:
            return r.choice(NULLS[:3])
        if q < 0.93:
            t = r.choice(TAGS)
            v = {"!!int": "12", "!!float": "1", "!!binary": "aGVsbG8="}.get(t, r.choice(["x", "'12'", "\"q\"", "12", "true"]))
            return t + " " + v
        return self.dq(r.choice(LOOKALIKE))

    def maybe_anchor(self):
        r = self.rng
        if r.random() < 0.12:
            self.an += 1
            nm = "a%d" % self.an
            return "&" + nm + " ", nm
        return "", None

    def flow(self, depth):
        r = self.rng
        if depth >= 2 or r.random() < 0.5:
            return self.scalar_flow()
        n = r.choice([0, 1, 2, 3])
        if r.random() < 0.5:
            return "[" + ", ".join(self.flow(depth + 1) for _ in range(n)) + "]"
        keys = []
        items = []
        for i in range(n):
            k = "k%d%s" % (i, r.choice(["", "x", "_y"]))
            items.append("%s: %s" % (k, self.flow(depth + 1)))
        return "{" + ", ".join(items) + "}"

    def block_scalar(self, ind):
        """literal or folded scalar lines (header first)"""
        r = self.rng
        hdr = r.choice(["|", "|-", "|+", ">", ">-"])
        n = r.choice([1, 2, 3])
        lines = [r.choice(["text", "more text here", "x: not a key", "# not a comment", "  indented", "- dash", "ünï 中"]) for _ in range(n)]
        if lines[0].startswith(" "):
            lines[0] = "first"
        if hdr.startswith(">"):
            lines = [l for l in lines if not l.startswith(" ")] or ["first"]
        return hdr, [" " * ind + l for l in lines]

    def node(self, ind, depth, maxdepth):
        """returns (first_line_suffix, following_lines): the value part of `key:` / `- `"""
        r = self.rng
        q = r.random()
        if depth == 0 and q < 0.35 and r.random() < 0.9:
            q = 0.5 + q
        if depth >= maxdepth or q < 0.35:
            if r.random() < 0.12:
                hdr, lines = self.block_scalar(ind + 2)
                return hdr, lines
            if self.anchors and r.random() < 0.15:
                return "*" + r.choice(self.anchors), []
            pre, nm = self.maybe_anchor()
            s = self.scalar_flow()
            if s == "" and pre:
                s = "null"
            lc = ""
            if r.random() < 0.15:
                lc = " " + self.comment()
            if nm:
                self.anchors.append(nm)
            return pre + s + lc, []
        if q < 0.5:
            pre, nm = self.maybe_anchor()
            s = self.flow(0)
            if nm:
                self.anchors.append(nm)
            if r.random() < 0.25 and (s.startswith(("[", "{"))):
                s += " " + self.comment()          # line comment after a flow collection
            return pre + s, []
        n = r.choice([1, 1, 2, 3, 4])
        pre, nm = self.maybe_anchor()
        tag = ""
        if r.random() < 0.06:
            tag = r.choice(["!custom ", "!!map " if q >= 0.75 else "!!seq "])
        lines = []
        if q < 0.75:
            for i in range(n):
                if r.random() < 0.15:
                    lines.append(" " * ind + self.comment())
                first, rest = self.node(ind + 2, depth + 1, maxdepth)
                if rest and not first.startswith(("|", ">")) and first.rstrip().endswith(":") is False and first == "":
                    lines.append(" " * ind + "-")
                else:
                    lines.append((" " * ind + "- " + first).rstrip(" ") if first != "" else " " * ind + "-")
                lines.extend(rest)
        else:
            for i in range(n):
                if r.random() < 0.15:
                    lines.append(" " * ind + self.comment())
                k = r.choice(["k%d", "key%d", "a%d", "with space %d", "'q%d'", "\"dq%d\"", "%d", "k%d.x", "ünï%d"]) % i
                if r.random() < 0.08:
                    k = self.dq(r.choice(["dq key", "a: b", "#x", "1"])) if r.random() < 0.5 else str(r.choice([1, 2, 3]) * 10 + i)
                first, rest = self.node(ind + 2, depth + 1, maxdepth)
                lines.append((" " * ind + k + ": " + first).rstrip(" ") if first != "" else " " * ind + k + ":")
                lines.extend(rest)
        if nm:
            self.anchors.append(nm)
        return (pre + tag).rstrip(" "), lines

    def document(self, maxdepth):
        r = self.rng
        first, rest = self.node(0, 0, maxdepth)
        if rest and first == "":
            lines = rest
        elif rest:
            # anchored / tagged top-level collection
            lines = [first] + rest
        else:
            lines = [first]
        if r.random() < 0.2:
            lines.append(self.comment())          # foot comment
        return lines

    def stream(self):
        r = self.rng
        ndocs = r.choice([1, 1, 1, 2, 2, 3])
        out = []
        for _ in range(r.choice([0, 0, 0, 1, 2])):
            q = r.random()
            if q < 0.65:
                out.append(self.comment())
            elif q < 0.8:
                out.append(r.choice(["\t", " \t", "\t ", " ", "  \t"])[:3] + self.comment())     # blank-indented header comment
            elif q < 0.88:
                out.append(r.choice([" ", "\t", " \t"]) if out or True else "")                     # white-space-only line (kept only in front of a comment)
                out.append(self.comment())
            elif q < 0.93:
                out.append(self.comment() + "\r")                                                   # CRLF
            else:
                out.append("")
        if r.random() < 0.3:
            out.append("---" if r.random() < 0.8 else "--- " + self.comment())
            for _ in range(r.choice([0, 0, 1])):
                out.append(self.comment())
        if r.random() < 0.08:
            # document-level head comment: missed by the peek (4+ blanks), then a blank line
            out.append(" " * r.choice([4, 5, 9]) + self.comment())
            out.append("")
            if r.random() < 0.5:
                out.append(self.comment())
        base = r.choice([4, 5, 8]) if r.random() < 0.12 else 0
        for d in range(ndocs):
            if d > 0:
                out.append("---")
                if r.random() < 0.3:
                    out.append(self.comment())
            self.anchors = []
            doc = self.document(r.choice([1, 2, 3, 4]))
            if base and d == 0 and not any(l.startswith(("&", "!", "|", ">")) or l == "" for l in doc[:1]):
                doc = [(" " * base + l) if l else l for l in doc]
            out.extend(doc)
        return "\n".join(out) + "\n"


ADVERSARIAL_STREAMS = [
    # a first-document header comment the 4-byte peek does not take (indented by 4+ blanks, after such a line, after a BOM), followed by a
    # blank line: yaml.v3 hands it over as the DOCUMENT node's head comment, which Decode must merge into the root
    "    # c1 top\n\n# c2 second\na: 1\n", "# c1 lead\n    # c2 top\n\n# c3 second\nk: [1, 2]\n", "    \n# c1 top\n\n# c2 second\n- x\n- y\n",
    "\ufeff# c1 top\n\n# c2 second\na: {b: c}\n", "     # c1 top\n\n\n# c2 second\n- 1\n", "    # c1 top\n\na: 1\n", "      # c1 a\n      # c2 b\n\nk: v\n",
    "---\n    # c1 top\n\n# c2 second\na: 1\n", "    # c1 top\n\n# c2 second\na: 1\n---\n    # c3 third\n\nb: 2\n", "\ufeff    # c1 top\n\n- x\n",
    "branches: [main] # c1\nresources: {} # c2\nl:\n  - [a, b] # c3\n  - {k: v} # c4\n  - [] # c5\n", "- {a: 1} # c1\n- [x] # c2\n", "k: {a: [1, 2]} # c1 note\n",
    "- |2-\n\n  a\n", "k: |2\n\n  a\n  b\n", "- \"\\n\\nx\\ny\"\n",
    # header comments indented with TAB / mixed blanks, white-space-only lines, CRLF
    "\t# x\na: 1\n", " \t # x\na: 1\n", "\t\n# c\na: 1\n", "# c\r\na: 1\r\n", "\t# x\n\n \t# y\n---\na: 1\n", "# c\r\n\r\n# d\r\na: 1\n", " \r\n#c\na: 1\n",
    "\t\t# two tabs\nk: v\n", "  \t# x\n---\n\t# y\n- 1\n", " \n\t\n  # c\na: 1\n", "\f# ff\na: 1\n", "\r# cr\na: 1\n",
    # first documents whose root block is indented by 4 or more columns, with and without leading content
    "    a: 1\n    b: 2\n", "# c\n    a: 1\n    b: 2\n", "     - x\n     - y\n", "---\n    a: 1\n", "\n      k:\n        - 1\n", "# c1\n\n        deep: [1, 2]\n",
    "    a: 1\n---\n    b: 2\n", "    'q'\n", "      # c\n      a: 1\n",
    # distinct keys that are spelled alike (a number and the string of its digits, a boolean / null and its quoted spelling): every entry stays
    "1: a\n\"1\": b\n", "true: x\n\"true\": y\n'true': z\n", "~: n\n\"~\": s\nnull: m\n", "m: {1: a, '1': b, 1.0: c}\n", "- {0x10: h, \"0x10\": s}\n- {yes: y, \"yes\": q}\n",
    "k:\n  2: two\n  \"2\": deux\n  !!str 2: zwei\n",
    # explicitly tagged scalars in every quoting style, with text whose type changes when the tag is lost
    "- !!int \"123\"\n- !!int '123'\n- !!null \"\"\n- !!null ''\n- !!bool 'true'\n- !!bool \"false\"\n- !!float \"1.5\"\n- !!str \"x\"\n- !!str 'y'\n- !!str 12\n",
    "a: !!int \"0x1F\"\nb: !!float '1e3'\nc: !!null \"~\"\nd: !custom \"q\"\ne: !custom 'q'\nf: !!binary \"aGk=\"\n", "k: !!str |\n  lit\nm: !!str >\n  fold\n",
    "a: 1\n", "---\na: 1\n", "--- \na: 1\n", "--- a: 1\n", "# c\n\n---\n# d\na: 1 # l\n# f\n", "a: 1\n---\nb: 2\n", "---\na: 1\n---\nb: 2\n...\n",
    "# only comment\n", "\n", "", "---\n", "---\n---\na: 1\n", "a: 1\n---\n---\nb: 2\n", "%YAML 1.1\n---\na: 1\n", " \n#c\na: 1\n", "#a\n#b\nx\n",
    "a: &x 1\nb: *x\nc: !!str 12\nd: !custom {e: f}\n", "- |\n  lit\n- >\n  fold\n  ed\n- \"dq\\n\"\n- 'sq'\n", "a: {b: 1, c: [x, y]}\ne: []\nf: {}\n",
    "- &a {x: 1}\n- *a\n- <<: *a\n  y: 2\n", "{a: , b: }\n", "g: !!set {a, b}\n", "a: !!null [1,2]\n", "? complex\n: value\n", "a:\nb: ~\nc: !!null\nd: !!str\n",
    "a:\n  # head b\n  b: 1 # line b\n  # foot b\n\n  c: [1, 2] # line c\nlist:\n  - x # lx\n  # hy\n  - y\n", "a: 1\n\n\nb: 2\n", "  a: 1\n  b: 2\n",
    "a:   1\nb:     [ 1 ,2 ]\n", "\"a\": 'b'\n", "a: \"\\u00e9\\x41\\t\"\n", "a: |+\n  x\n\nb: 1\n", "a: >-\n  folded\n  text\n\n  para\n", "- - - 1\n- - 2\n", "- a: 1\n  b: 2\n- c: 3\n",
    "key: value # comment\n", "# h\nkey: value\n", "key: value\n# f\n", "\ufeffa: 1\n", "a: 1\r\nb: 2\r\n", "a: 'it''s'\n", "a: \"q\\\"q\"\n", "a: !!binary aGVsbG8=\n",
    "- !!int \"12\"\n- !!float 1\n- !!str 1\n- !!bool \"true\"\n", "a: 0x1F\nb: 0o17\nc: 1_000\nd: 1e3\ne: .inf\n", "a: 2001-01-01\nb: 2001-01-01T00:00:00Z\n",
    "#  c1\n\n#  c2\n\na: 1\n", "  \n# c\na: 1\n", "# $yqDocSeparator$\na: 1\n", "\n\n0\n", "\n\na\n", "\t\n#c\nb: 1\n", "# c\n \n# d\na: 1\n", "---\n# c\n---\n# d\n", "a: 1 # x\n---\n# y\nb: 2\n", "a: &a1 [1, 2]\nb: *a1\n", "&r a: 1\n", "!custom\na: 1\n", "--- !custom\na: 1\n",
    "--- &r\na: 1\n", "--- |\n  text\n", "--- >\n  text\n", "--- \"dq\"\n", "--- # c\n- a\n", "a: 1\n--- # c\nb: 2\n", "- # c\n  a: 1\n", "a: # c\n  b: 1\n", "a: # c\n  - 1\n",
]


# ---------------------------------------------------------------------------
# graph comparison with PyYAML (independent reader)
# ---------------------------------------------------------------------------
def graph(docs):
    """canonical form of a list of composed documents: tags, values, styles, order, alias sharing"""
    out = []
    for d in docs:
        seen = {}

        def walk(n):
            if id(n) in seen:
                return ("alias", seen[id(n)])
            seen[id(n)] = len(seen)
            if isinstance(n, pyyaml.ScalarNode):
                return ("s", n.tag, n.value, n.style)
            if isinstance(n, pyyaml.SequenceNode):
                return ("q", n.tag, bool(n.flow_style), tuple(walk(c) for c in n.value))
            return ("m", n.tag, bool(n.flow_style), tuple((walk(k), walk(v)) for k, v in n.value))
        out.append(walk(d) if d is not None else None)
    return out


def strip_style(g):
    if g is None or g[0] == "alias":
        return g
    if g[0] == "s":
        return ("s", g[1], g[2])
    if g[0] == "q":
        return ("q", g[1], tuple(strip_style(c) for c in g[3]))
    return ("m", g[1], tuple((strip_style(k), strip_style(v)) for k, v in g[3]))


def compose_all(text):
    return [d for d in pyyaml.compose_all(text, Loader=pyyaml.SafeLoader)]


def first_diff(a, b, path="$"):
    if a == b:
        return None
    if a is None or b is None or a[0] != b[0]:
        return (path, a, b)
    if a[0] == "s" or a[0] == "alias":
        return (path, a, b)
    if a[1] != b[1] or (len(a) == 4 and a[2] != b[2]):
        return (path, a[:3], b[:3])
    ca, cb = a[-1], b[-1]
    if len(ca) != len(cb):
        return (path, "len %d" % len(ca), "len %d" % len(cb))
    for i, (x, y) in enumerate(zip(ca, cb)):
        if a[0] == "q":
            d = first_diff(x, y, "%s[%d]" % (path, i))
        else:
            d = first_diff(x[0], y[0], "%s.key%d" % (path, i)) or first_diff(x[1], y[1], "%s.val%d" % (path, i))
        if d:
            return d
    return (path, "?", "?")


NULLT = "tag:yaml.org,2002:null"
STRT = "tag:yaml.org,2002:str"
MERGET = "tag:yaml.org,2002:merge"


def all_diffs(a, b, path="$"):
    """leaf differences where the shapes agree, one entry where they do not"""
    if a == b:
        return []
    if a is None or b is None or a[0] != b[0] or a[0] in ("s", "alias"):
        return [(path, a, b)]
    if a[1] != b[1] or (len(a) == 4 and a[2] != b[2]) or len(a[-1]) != len(b[-1]):
        return [(path, a, b)]
    out = []
    for i, (x, y) in enumerate(zip(a[-1], b[-1])):
        if a[0] == "q":
            out += all_diffs(x, y, "%s[%d]" % (path, i))
        else:
            out += all_diffs(x[0], y[0], "%s.key%d" % (path, i)) + all_diffs(x[1], y[1], "%s.val%d" % (path, i))
    return out


def events(text):
    out = []
    for e in pyyaml.parse(text, Loader=pyyaml.SafeLoader):
        if isinstance(e, pyyaml.DocumentStartEvent):
            out.append(("doc+", bool(e.explicit)))
        elif isinstance(e, pyyaml.DocumentEndEvent):
            out.append(("doc-",))
        elif isinstance(e, pyyaml.SequenceStartEvent):
            out.append(("seq+", e.anchor, e.tag, bool(e.implicit), bool(e.flow_style)))
        elif isinstance(e, pyyaml.SequenceEndEvent):
            out.append(("seq-",))
        elif isinstance(e, pyyaml.MappingStartEvent):
            out.append(("map+", e.anchor, e.tag, bool(e.implicit), bool(e.flow_style)))
        elif isinstance(e, pyyaml.MappingEndEvent):
            out.append(("map-",))
        elif isinstance(e, pyyaml.ScalarEvent):
            out.append(("scalar", e.anchor, e.tag, tuple(bool(x) for x in e.implicit), e.value, e.style))
        elif isinstance(e, pyyaml.AliasEvent):
            out.append(("alias", e.anchor))
    return out


def finding_of_data(d):
    _, a, b = d
    if a and b and a[0] == "s" and b[0] == "s" and a[1] == NULLT and a[2] == "" and b[1] == STRT and b[2] == "":
        return "flow-null-becomes-empty-string"
    if a and b and a[0] == "s" and b[0] == "s" and a[1] == b[1] and a[2][:1] in ("\n", "\u2028", "\u2029") and "\n" in a[2] and b[2] == a[2][1:]:
        return "literal-leading-line-break-lost"
    if a and b and a[0] in ("q", "m") and a[1] == NULLT and b[0] == "s" and b[1] == NULLT:
        return "null-tagged-collection-dropped"
    return None


def finding_of_event(a, b, in_flow=False):
    if a[0] == "scalar" and b[0] == "scalar" and a[1] == b[1] and a[2] == b[2] and a[4] == b[4]:
        if any(ord(c) >= 0x10000 for c in a[4]) and b[5] == '"' and a[5] in (None, "'"):
            return "non-bmp-forced-double-quoted"
        if in_flow and a[5] is None and b[5] == "'" and ":" in a[4]:
            return "flow-plain-colon-gets-quoted"
    if a[0] == "scalar" and b[0] == "scalar" and a[4] == "<<" and b[4] == "<<" and a[5] is None and b[5] is None \
            and a[2] is None and b[2] == MERGET and a[1] == b[1]:
        return "merge-key-gets-explicit-tag"
    return None


def analyse(src, out, comments):
    """-> (status, detail, set of finding keys that explain every difference or None)"""
    # the leading block (blank lines, comments, separators in front of the first document) must come back unchanged
    li, ri, si = py_process(src.encode("utf-8"))
    lo, ro, so = py_process(out)
    if src == "" and out == b"\n":
        return "fail:leading", "the empty stream is printed as one newline", {"empty-stream-prints-newline"}
    # (the output may continue with the root's own head comment, which the scanner also takes: prefix comparison)
    if not si and not so and not lo.startswith(li):
        fixed = b"".join((b"# " + l) if (l.strip(b" \t\r\f\v") == b"\n" and l != b"\n") else l for l in li.splitlines(True))
        if fixed == lo:
            return "fail:leading", "a whitespace-only leading line became a comment", {"whitespace-line-becomes-comment"}
        marked = b"".join(b"$yqDocSeparator$\n" if (b"$yqDocSeparator$" in l and l.lstrip(b" \t").startswith(b"#")) else l for l in li.splitlines(True))
        if marked == lo and marked != li:
            return "fail:leading", "a comment containing the marker text became a separator", {"leading-comment-marker-injection"}
        return "fail:leading", "leading content changed: %r -> %r" % (li[:80], lo[:80]), None
    try:
        gin = graph(compose_all(src))
        ein = events(src)
    except Exception as e:  # noqa
        return "skip", "PyYAML rejects the input: %s" % str(e)[:80], None
    try:
        text = out.decode("utf-8")
        gout = graph(compose_all(text))
        eout = events(text)
    except Exception as e:  # noqa
        return "fail:unreadable", "PyYAML cannot read yq's output: %s" % str(e)[:120], None
    if len(gin) != len(gout):
        return "fail:doccount", "document count %d -> %d" % (len(gin), len(gout)), None
    keys = set()
    unexplained = None
    status = "ok"
    din = [strip_style(g) for g in gin]
    dout = [strip_style(g) for g in gout]
    data_diffs = [d for i, (a, b) in enumerate(zip(din, dout)) for d in all_diffs(a, b, "doc%d" % i)]
    for d in data_diffs:
        status = "fail:data"
        k = finding_of_data(d)
        if k:
            keys.add(k)
        elif unexplained is None:
            unexplained = "data differs at %s: %r -> %r" % (d[0], d[1], d[2])
    if not data_diffs:
        if len(ein) != len(eout):
            status = "fail:style"
            unexplained = "event streams differ in length (%d -> %d)" % (len(ein), len(eout))
        else:
            flow = []
            for i, (a, b) in enumerate(zip(ein, eout)):
                if a[0] in ("seq+", "map+"):
                    flow.append(a[4])
                elif a[0] in ("seq-", "map-") and flow:
                    flow.pop()
                if a != b:
                    status = "fail:style"
                    k = finding_of_event(a, b, bool(flow and flow[-1]))
                    if k:
                        keys.add(k)
                    elif unexplained is None:
                        unexplained = "presentation differs at event %d: %r -> %r" % (i, a, b)
    if status == "ok":
        pos = -1
        for c in comments:
            p = text.find(c, pos + 1)
            if p < 0:
                return "fail:comment", "comment %r lost or out of order" % c, None
            pos = p
        return "ok", "", set()
    if unexplained is None:
        return status, "only recorded defects: %s" % sorted(keys), keys
    return status, unexplained, None


WS = b" \t\n\r\f\v"


def py_process(b):
    """processReadStream re-stated: (leading content, rest, always False: the scan no longer stops on a short tail)"""
    sb = b""
    while True:
        if len(b) == 0:
            return sb, b, False
        w = b[:4]
        if w[:1] == b"\n":
            b = b[1:]
            sb += b"\n"
        elif w == b"--- " or w == b"---\n":
            b = b[4:]
            sb += b"$yqDocSeparator$\n"
        else:
            k = 0
            while k < len(w) and w[k:k + 1] in (b" ", b"\t", b"\n", b"\r", b"\f"):
                k += 1
            if w[k:k + 1] == b"#" or w[k:k + 3] == b"%YA":
                i = b.find(b"\n")
                if i < 0:
                    return sb + b, b"", False
                sb += b[:i + 1]
                b = b[i + 1:]
            else:
                return sb, b, False


def short_tail_signature(out):
    """the first-pass output ends in a header-shaped line followed by fewer than 4 bytes: the peek of 4 bytes
    hits EOF and the remaining header lines are not treated as leading content"""
    lead, rest, short = py_process(out)
    return short and (rest[:1] in (b"\n", b"#") or rest.lstrip(b" \t")[:1] == b"#" or lead != b"" and len(rest) < 4)


def root_scalar(src):
    try:
        return any(isinstance(d, pyyaml.ScalarNode) for d in compose_all(src))
    except Exception:  # noqa
        return False


def judge(src, rc, out, err, rc2, out2, comments):
    """-> (status, detail, finding keys or None); status ok / skip / fail:<kind>"""
    if rc != 0:
        return "skip", "yq rejects the input", None
    st, why, keys = analyse(src, out, comments)
    if st in ("ok", "skip"):      # (skip: the independent reader rejects the input; bytes of the leading block and the second pass are still checked)
        if rc2 != 0:
            return "fail:second", "second pass fails: %s" % (err2s(err))[:100], None
        if out2 != out:
            return "fail:idempotence", "second pass differs from the first", None
    return st, why, keys


def err2s(e):
    return e.decode("utf-8", "replace") if isinstance(e, bytes) else str(e)


def run_pair(src, extra=()):
    b = src.encode("utf-8")
    rc, out, err = vlib.run_yq(list(extra) + ["."], stdin=b)
    if rc != 0:
        return rc, out, err, None, b"", b""
    rc2, out2, err2 = vlib.run_yq(list(extra) + ["."], stdin=out)
    return rc, out, err, rc2, out2, err2


def strip_indent_indicator(b):
    """block scalar headers without their explicit indentation indicator (|2- -> |-)"""
    return re.sub(rb"([|>])[1-9]([-+]?)(?=\n)", rb"\1\2", b)


def strip_trailing_commas(b):
    return b.replace(b",}", b"}").replace(b",]", b"]")


def settle(chk, src, comments, st, why, keys, out1=b"", out2=None):
    """True if the failure is fully explained by listed known findings (which are then reported)"""
    if keys and all(chk.is_known(k) for k in keys):
        if st in ("fail:data", "fail:style", "fail:leading"):
            for k in sorted(keys):
                chk.known_finding(k, src[:80])
            return True
    if st == "fail:idempotence" and chk.is_known("leading-content-peek4-short-stream") and short_tail_signature(out1):
        chk.known_finding("leading-content-peek4-short-stream", repr(src[:60]))
        return True
    if st == "fail:idempotence" and out2 is not None and out1 != out2 and strip_trailing_commas(out1) == strip_trailing_commas(out2) \
            and chk.is_known("flow-trailing-comma-before-foot-comment"):
        chk.known_finding("flow-trailing-comma-before-foot-comment", src[:80])
        return True
    if chk.is_known("toplevel-scalar-unwrapped"):
        # a root scalar printed raw: with unwrapping off the same stream must pass (or show only listed defects), and the two modes must differ
        rc, out, err, rc2, out2b, err2 = run_pair(src, ["--unwrapScalar=false"])
        st2, why2, keys2 = judge(src, rc, out, err, rc2, out2b, comments)
        if out != out1 and (st2 in ("ok", "skip") or (keys2 and all(chk.is_known(k) for k in keys2))):
            chk.known_finding("toplevel-scalar-unwrapped", src[:80])
            for k in sorted(keys2 or []):
                chk.known_finding(k, src[:80])
            return True
    return False


KINDS = {"D": "YDocument", "Q": "YSequence", "M": "YMapping", "S": "YScalar", "A": "YAlias", "Z": "YZero"}


def ynode_coq(t):
    f = lambda k: vlib.coq_str(vlib.b64d(t[k]))
    alias = "(Some %s)" % vlib.coq_str(vlib.b64d(t["alias_b64"])) if "alias_b64" in t else "None"
    return "(YNode %s %d %s %s %s %s %s %s %s %d %d [%s])" % (
        KINDS[t["k"]], t["style"], f("tag_b64"), f("value_b64"), f("anchor_b64"), alias, f("head_b64"), f("line_b64"), f("foot_b64"),
        t["ln"], t["col"], ";".join(ynode_coq(c) for c in (t.get("c") or [])))


def tree_size(t):
    return 1 + sum(tree_size(c) for c in (t.get("c") or []))


HEADER_LINES = ["\n", "---\n", "--- ", "# c\n", "  # c\n", "\t#c\n", " \n", "%YAML 1.1\n", "#\n", "    # four\n", "--- # c\n", "---x\n", "-- -\n", "$yqDocSeparator$\n",
                "# $yqDocSeparator$\n", "   #3\n", "\r\n", "\f# ff\n", " %YAML 1.2\n", "  %YAML 1.2\n", "%YA\n", "%TAG ! tag:x,2000:\n", "#a\r\n", "---\r\n", "----\n", "--- |\n", "#", "# no newline", "---"]
BODIES = ["a: 1\n", "k\n", "0\n", "", "[1]\n", "x: y\nz: w\n", "abcd", "ab", "'q'\n", "- 1\n- 2\n", "a: 1"]


def gen_header_stream(rng):
    n = rng.choice([0, 1, 1, 2, 3, 5])
    h = "".join(rng.choice(HEADER_LINES) for _ in range(n))
    if rng.random() < 0.15:
        h += "".join(rng.choice("#- \n\t%YA$a\r") for _ in range(rng.randrange(1, 8)))
    return h + rng.choice(BODIES)


def gen_content(rng):
    n = rng.choice([0, 1, 1, 2, 3, 5])
    parts = []
    for _ in range(n):
        q = rng.random()
        if q < 0.5:
            parts.append(rng.choice(HEADER_LINES + ["plain text\n", "  indented\n", "%x\n", "x $yqDocSeparator$ y\n", "\t\n", " # sp\n", "a # b\n"]))
        else:
            parts.append("".join(rng.choice("#- \n\t%YA$ax\r") for _ in range(rng.randrange(0, 9))))
    c = "".join(parts)
    if rng.random() < 0.3:
        c = c.rstrip("\n")
    return c


def run_yq_list(jobs):
    with ThreadPoolExecutor(vlib.NCPU) as ex:
        return list(ex.map(lambda j: vlib.run_yq(j[0], stdin=j[1]), jobs))


def replay(rp):
    if rp.get("kind") == "files":
        d = tempfile.mkdtemp(prefix="c05rp_", dir=vlib.WORK)
        try:
            ps = []
            for i, fb in enumerate(rp["files_b64"]):
                ps.append(os.path.join(d, "f%d.yaml" % i))
                with open(ps[-1], "wb") as fh:
                    fh.write(vlib.b64d(fb))
            rc, out, err = vlib.run_yq(["."] + ps)
            return rc == 0 and out == vlib.b64d(rp["expected_b64"])
        finally:
            shutil.rmtree(d, ignore_errors=True)
    if rp.get("kind") == "identity":
        src = vlib.b64d(rp["input_b64"]).decode("utf-8")
        rc, out, err, rc2, out2, err2 = run_pair(src)
        st, why, keys = judge(src, rc, out, err, rc2, out2, rp.get("comments", []))
        return st in ("ok", "skip")
    return False


def run(chk):
    thorough = chk.tier == "thorough"
    rng = chk.rng
    proved, plog = chk.prove("Props/C05.v", clean=False)
    broken = []
    if not proved:
        broken.append("proof obligations of Props/C05.v do not check: " + plog[-800:])
    disagreements = []
    if pyyaml is None:
        broken.append("PyYAML is not importable: the independent reader of the oracle is missing")

    # ---------------- direct oracle: yq . on generated streams ----------------
    n_gen = 4000 if thorough else 350
    cases = [(s, [c.strip() for c in re.findall(r"(?m)^\s*(# c\d+[^\n]*)$", s)]) for s in ADVERSARIAL_STREAMS]
    for _ in range(n_gen):
        g = Gen(rng)
        s = g.stream()
        cases.append((s, [c for c in g.comments]))
    with ThreadPoolExecutor(vlib.NCPU) as ex:
        results = list(ex.map(lambda c: run_pair(c[0]), cases))
    stats = {}
    n_fail = 0
    for (src, comments), (rc, out, err, rc2, out2, err2) in zip(cases, results):
        st, why, keys = judge(src, rc, out, err, rc2, out2, comments) if pyyaml else ("skip", "", None)
        stats[st] = stats.get(st, 0) + 1
        chk.count(("id", src), nontrivial=st != "skip" and len(src) > 12,
                  sample={"yaml": src[:200], "out": out.decode("utf-8", "replace")[:200]} if 60 < len(src) < 200 and st == "ok" else None)
        if st.startswith("fail"):
            if settle(chk, src, comments, st, why, keys, out, out2):
                stats["known"] = stats.get("known", 0) + 1
                continue
            n_fail += 1
            if n_fail <= 8:
                chk.violation({"kind": "identity", "input_b64": vlib.b64e(src), "input": src, "comments": comments,
                               "impl_out": out.decode("utf-8", "replace")[:3000], "status": st}, True, "yq . : " + why)
    chk.extra["identity_stats"] = stats

    # known finding replayed explicitly (a trailing comma is not visible to the event-level comparison)
    rc, o, e_ = vlib.run_yq(["."], stdin=b"- a\n- {k: b}\n# c3\n")
    if rc == 0 and o != b"- a\n- {k: b}\n# c3\n":
        if o == b"- a\n- {k: b,}\n# c3\n" and chk.is_known("flow-trailing-comma-before-foot-comment"):
            chk.known_finding("flow-trailing-comma-before-foot-comment", "- a / - {k: b} / # c3")
        else:
            chk.violation({"kind": "identity", "input_b64": vlib.b64e("- a\n- {k: b}\n# c3\n"), "input": "- a\n- {k: b}\n# c3\n", "comments": [], "status": "bytes",
                           "impl_out": o.decode("utf-8", "replace")}, True, "canonical input is not reproduced byte for byte")

    # ---------------- tie 1: the style constants the model's tables are written against ----------------
    consts = vlib.yqh_batch([{"op": "c05consts"}])[0] or {}
    want = [1, 2, 4, 8, 16, 32]
    if consts.get("yaml") != want or consts.get("yqlib") != want or consts.get("map") != want + [0, 3, 33] or consts.get("back") != want + [0, 3, 33]:
        disagreements.append(("style constants / MapYamlStyle tables", "c05consts", consts, want))

    # ---------------- tie 2: conversion yaml.Node -> CandidateNode -> yaml.Node, field by field ----------------
    conv_src = [c[0] for c in cases]
    resp = vlib.yqh_parallel([{"op": "c05conv", "input_b64": vlib.b64e(s)} for s in conv_src])
    conv_cases, conv_meta = [], []
    for src, r in zip(conv_src, resp):
        if r is None or r.get("panic") or r.get("timeout") or r.get("crash"):
            chk.violation({"kind": "identity", "input_b64": vlib.b64e(src), "input": src, "comments": [], "response": r, "status": "panic"}, True,
                          "the YAML conversion panicked/timed out: %r" % (r,))
            continue
        for d in (r.get("docs") or []):
            if d.get("empty") or tree_size(d["tree"]) > 400:
                continue
            conv_cases.append((ynode_coq(d["tree"]), vlib.b64d(d["impl_b64"])))
            conv_meta.append(src)
            chk.count(("conv", src, len(conv_cases)), nontrivial=tree_size(d["tree"]) > 1)
    mism, err = vlib.coq_mismatches(chk.workdir, "conv", IMPORTS, "model_conv", conv_cases, shard=150)
    if err:
        broken.append("model evaluation failed (conversion): " + err[-500:])
    else:
        for j, mo in mism:
            disagreements.append(("candidate_node_yaml.go UnmarshalYAML/MarshalYAML vs from_y/to_y", conv_meta[j], conv_cases[j][1], mo))
    chk.extra["conversion_trees_compared"] = len(conv_cases)

    # ---------------- tie 3: PrintLeadingContent ----------------
    n_pl = 6000 if thorough else 700
    contents = list(dict.fromkeys(HEADER_LINES + ["", "\n\n", "a", "a\n", "# c\n\n$yqDocSeparator$\n# d\n", "$yqDocSeparator$", "x\n$yqDocSeparator$"] + [gen_content(rng) for _ in range(n_pl)]))
    resp = vlib.yqh_parallel([{"op": "c05print", "content_b64": vlib.b64e(c)} for c in contents])
    pl_cases = []
    for c, r in zip(contents, resp):
        if r is None or "out_b64" not in r or r.get("err") or r.get("panic"):
            disagreements.append(("PrintLeadingContent failed", c, r, None))
            continue
        pl_cases.append((vlib.coq_str(c), vlib.b64d(r["out_b64"])))
        chk.count(("pl", c), nontrivial=len(c) > 2)
    mism, err = vlib.coq_mismatches(chk.workdir, "pl", IMPORTS, "print_leading_content", pl_cases)
    if err:
        broken.append("model evaluation failed (print_leading_content): " + err[-500:])
    else:
        for j, mo in mism:
            disagreements.append(("encoder_yaml.go PrintLeadingContent vs print_leading_content", contents[j], pl_cases[j][1], mo))
    chk.extra["print_leading_cases"] = len(pl_cases)

    # ---------------- tie 4: processReadStream through the decoder's LeadingContent ----------------
    n_hs = 6000 if thorough else 700
    streams = list(dict.fromkeys([c[0] for c in cases[:len(ADVERSARIAL_STREAMS)]] + [h + b for h in HEADER_LINES for b in ("a: 1\n", "0\n")]
                                 + [gen_header_stream(rng) for _ in range(n_hs)]))
    resp = vlib.yqh_parallel([{"op": "c05lead", "input_b64": vlib.b64e(t)} for t in streams])
    ps_cases, ps_src, ps_skipped = [], [], 0
    for t, r in zip(streams, resp):
        if r is None or r.get("panic") or r.get("timeout") or r.get("crash"):
            chk.violation({"kind": "identity", "input_b64": vlib.b64e(t), "input": t, "comments": [], "response": r, "status": "panic"}, True,
                          "the YAML decoder panicked/timed out: %r" % (r,))
            continue
        if r.get("err"):
            ps_skipped += 1          # the body is not YAML for the library: LeadingContent is not observable
            continue
        lead = vlib.b64d(r.get("leading_b64", ""))
        ps_cases.append((vlib.coq_str(t), lead))
        ps_src.append(t)
        chk.count(("prs", t), nontrivial=len(lead) > 0)
    mism, err = vlib.coq_mismatches(chk.workdir, "prs", IMPORTS, "(fun s => fst (process_read_stream s))", ps_cases)
    if err:
        broken.append("model evaluation failed (process_read_stream): " + err[-500:])
    else:
        for j, mo in mism:
            disagreements.append(("decoder_yaml.go processReadStream vs process_read_stream", ps_src[j], ps_cases[j][1], mo))
    chk.extra["process_read_stream_cases"] = len(ps_cases)

    # ---------------- assumption checks: the two hypotheses of C05_second_pass_fixed_partial ----------------
    emitted = []
    for t, r in zip(streams + [c[0] for c in cases], resp + vlib.yqh_parallel([{"op": "c05lead", "input_b64": vlib.b64e(c[0])} for c in cases])):
        if r and not r.get("err") and r.get("first_b64"):
            emitted.append(vlib.b64d(r["first_b64"]))
    emitted = list(dict.fromkeys(emitted))
    resp2 = vlib.yqh_parallel([{"op": "c05lead", "input_b64": vlib.b64e(e)} for e in emitted])
    h_body = h_body_fail = h_reread = h_reread_fail = 0
    for e, r2 in zip(emitted, resp2):
        lead, rest, short = py_process(e)
        try:
            single = len(compose_all(e.decode("utf-8"))) == 1
        except Exception:  # noqa
            single = False
        if not single:
            continue
        body_ok = lead == b"" and not short
        if body_ok:
            h_body += 1
        else:
            h_body_fail += 1          # outside the theorem's domain (e.g. the document starts with its head comment)
        if r2 and not r2.get("err") and r2.get("first_b64") is not None:
            again = vlib.b64d(r2.get("leading_b64", "")) and None
            out2 = vlib.b64d(r2["first_b64"])
            lead2 = vlib.b64d(r2.get("leading_b64", ""))
            if body_ok:
                if out2 == e and lead2 == b"":
                    h_reread += 1
                else:
                    if out2.replace(b",}", b"}").replace(b",]", b"]") == e and lead2 == b"" and chk.is_known("flow-trailing-comma-before-foot-comment"):
                        chk.known_finding("flow-trailing-comma-before-foot-comment", e.decode("utf-8", "replace")[:80])
                        h_reread_fail += 1
                        continue
                    if strip_indent_indicator(out2) == strip_indent_indicator(e) and lead2 == b"" and chk.is_known("literal-leading-line-break-lost"):
                        chk.known_finding("literal-leading-line-break-lost", e.decode("utf-8", "replace")[:80])
                        h_reread_fail += 1
                        continue
                    h_reread_fail += 1
                    chk.extra.setdefault("H_reread_failures", []).append({"doc": e.decode("utf-8", "replace")[:200], "again": out2.decode("utf-8", "replace")[:200], "lead": lead2.decode("utf-8", "replace")[:50]})
                    if h_reread_fail <= 3 and not short_tail_signature(e):
                        rc, o1, e1, rc2, o2, e2 = run_pair(e.decode("utf-8", "replace"), ["--unwrapScalar=false"])
                        if rc == 0 and (rc2 != 0 or o2 != o1):
                            chk.violation({"kind": "identity", "input_b64": vlib.b64e(e), "input": e.decode("utf-8", "replace"), "comments": [], "status": "contract",
                                           "impl_out": o1.decode("utf-8", "replace")[:2000]}, True,
                                          "library contract H_reread fails: yq's own output of a bare document is not a fixed point")
    chk.extra["contract_checks"] = {"emitted_documents": len(emitted), "H_body_holds": h_body, "H_body_outside_domain": h_body_fail,
                                    "H_reread_holds": h_reread, "H_reread_fails": h_reread_fail}
    chk.extra["process_read_stream_unobservable"] = ps_skipped

    # ---------------- tie 5: streams of several documents (C05_stream_identity) and its two premises ----------------
    multi = [c[0] for c in cases]
    rdocs = vlib.yqh_parallel([{"op": "c05docs", "input_b64": vlib.b64e(t)} for t in multi])
    usable = [(t, r) for t, r in zip(multi, rdocs) if r and not r.get("err") and not r.get("panic") and r.get("docs_b64")]
    pls = vlib.yqh_parallel([{"op": "c05print", "content_b64": r.get("leading_b64", "")} for _, r in usable])
    outs = run_yq_list([(["--unwrapScalar=false", "."], t.encode("utf-8")) for t, _ in usable])
    st_ok = st_bad = 0
    joined_streams = []
    for (t, r), plr, (rc, out, err) in zip(usable, pls, outs):
        es = [vlib.b64d(x) for x in r["docs_b64"]]
        predicted = vlib.b64d(plr["out_b64"]) + b"---\n".join(es)
        chk.count(("stream", t), nontrivial=len(es) > 1)
        if rc == 0 and out == predicted:
            st_ok += 1
        else:
            st_bad += 1
            disagreements.append(("printer/stream evaluator vs yq_stream (header block, documents, one separator between documents)", t, out[:300], predicted[:300]))
        joined_streams.append((b"---\n".join(es), es))
    chk.extra["stream_identity_cases"] = {"agree": st_ok, "disagree": st_bad, "multi_document": sum(1 for _, es in joined_streams if len(es) > 1)}
    rj = vlib.yqh_parallel([{"op": "c05docs", "input_b64": vlib.b64e(j)} for j, _ in joined_streams])
    hb = hb_out = hr = hr_fail = 0
    for (j, es), r2 in zip(joined_streams, rj):
        lead, rest, _ = py_process(j)
        if lead != b"":
            hb_out += 1               # H_body does not hold: outside the theorem (the emitted stream starts with a comment)
            continue
        hb += 1
        es2 = [vlib.b64d(x) for x in (r2 or {}).get("docs_b64") or []] if r2 and not r2.get("err") else None
        if es2 == es and vlib.b64d(r2.get("leading_b64", "")) == b"":
            hr += 1
            continue
        hr_fail += 1
        # the library premise fails: is yq's own output then not a fixed point?  (then it is a defect of the shipped product)
        rc, o1, e1 = vlib.run_yq(["--unwrapScalar=false", "."], stdin=j)
        if rc == 0 and o1 != j:
            if strip_trailing_commas(o1) == strip_trailing_commas(j) and chk.is_known("flow-trailing-comma-before-foot-comment"):
                chk.known_finding("flow-trailing-comma-before-foot-comment", j.decode("utf-8", "replace")[:80])
            elif strip_indent_indicator(o1) == strip_indent_indicator(j) and chk.is_known("literal-leading-line-break-lost"):
                # the emitter wrote an indentation indicator for a leading blank line it then dropped; the next pass drops the indicator too
                chk.known_finding("literal-leading-line-break-lost", j.decode("utf-8", "replace")[:80])
            else:
                chk.extra.setdefault("H_reread_stream_failures", []).append({"stream": j.decode("utf-8", "replace")[:300], "again": o1.decode("utf-8", "replace")[:300]})
                if len(chk.extra["H_reread_stream_failures"]) <= 3:
                    chk.violation({"kind": "identity", "input_b64": vlib.b64e(j), "input": j.decode("utf-8", "replace"), "comments": [], "status": "contract",
                                   "impl_out": o1.decode("utf-8", "replace")[:2000]}, True,
                                  "library premise H_reread fails on a stream yq emitted itself: the output is not a fixed point")
    chk.extra["stream_contract_checks"] = {"H_body_holds": hb, "H_body_outside_domain": hb_out, "H_reread_holds": hr, "H_reread_fails": hr_fail}

    # ---------------- several input files in one run: comment-only / empty / separator-only files at every position ----------------
    # expected = the single-file outputs in order, a separator in front of a file's output when something was printed before and the
    # file's leading content does not itself start with a separator (C10's join rule); a file without any document contributes nothing
    import tempfile
    special = ["", "# c-only-1\n# c-only-2\n", "# c\n\n# d\n", "---\n", "\n\n", "---\n# after sep\n", "# before\n---\n", "--- # c\n"]
    normal = [c[0] for c in cases if c[0] and len(c[0]) < 400][len(ADVERSARIAL_STREAMS):] or ["a: 1\n"]
    combos = []
    for sp in special:
        for pos in range(3):
            fs = [rng.choice(normal), rng.choice(normal)]
            fs.insert(pos, sp)
            combos.append(fs)
    combos += [["a: 1 # c-a\n", "# c-only-1\n# c-only-2\n", "---\n# c-b-head\nb: 2\n"], ["", ""], ["# c\n", "# c\n"], ["---\n", "---\n"], ["", "# c\n"]]
    for _ in range(400 if thorough else 30):
        combos.append([rng.choice(special) if rng.random() < 0.4 else rng.choice(normal) for _ in range(rng.choice([2, 3, 4]))])
    tmpd = tempfile.mkdtemp(prefix="c05mf_", dir=chk.workdir)
    uniq = list(dict.fromkeys(f for fs in combos for f in fs))
    paths = {}
    for i, f in enumerate(uniq):
        paths[f] = os.path.join(tmpd, "f%d.yaml" % i)
        with open(paths[f], "wb") as fh:
            fh.write(f.encode("utf-8"))
    singles = dict(zip(uniq, run_yq_list([([".", paths[f]], None) for f in uniq])))
    ndocs = {}
    for f, r in zip(uniq, vlib.yqh_parallel([{"op": "c05docs", "input_b64": vlib.b64e(f)} for f in uniq])):
        ndocs[f] = None if (r is None or r.get("err") or r.get("panic")) else len(r.get("docs_b64") or [])
    multi_out = run_yq_list([(["."] + [paths[f] for f in fs], None) for fs in combos])
    mf_ok = mf_skip = 0
    for fs, (rc, out, err) in zip(combos, multi_out):
        if any(singles[f][0] != 0 or ndocs[f] is None for f in fs):
            mf_skip += 1
            continue
        parts = []
        for f in fs:
            if ndocs[f] == 0:
                continue
            lead = py_process(f.encode("utf-8"))[0]
            if parts and not lead.startswith(b"$yqDocSeparator$"):
                parts.append(b"---\n")
            parts.append(singles[f][1])
        want = b"".join(parts) if parts else b"\n"
        chk.count(("files", tuple(fs)), nontrivial=True)
        if rc == 0 and out == want:
            mf_ok += 1
            continue
        chk.violation({"kind": "files", "files_b64": [vlib.b64e(f) for f in fs], "files": fs, "expected_b64": vlib.b64e(want), "impl_out": out.decode("utf-8", "replace")[:2000]}, True,
                      "yq . f1 .. fn is not the single-file outputs joined by separators (rc=%s): want %r got %r" % (rc, want[:200], out[:200]))
        if len(chk.violations) > 8:
            break
    shutil.rmtree(tmpd, ignore_errors=True)
    chk.extra["multi_file_runs"] = {"agree": mf_ok, "skipped": mf_skip}

    if disagreements and not chk.violations:
        d = disagreements[0]
        chk.violation({"kind": "correspondence", "broken": d[0], "input": repr(d[1])[:600], "impl": repr(d[2])[:600], "model": repr(d[3])[:600],
                       "count": len(disagreements)}, False, "model and implementation disagree on %d cases (%s)" % (len(disagreements), d[0]))
    if broken and not chk.violations:
        chk.violation({"kind": "obligation", "broken": broken}, False, "; ".join(broken)[:600])
    return chk.finish(
        checker_cmd="make -C coq Props/C05.vo (coqc 8.16.1, full .vo) + coqc work/C05/*.v (vm_compute)",
        rule="identity oracle: adversarial stream table + seeded random YAML streams (block/flow collections, all scalar styles, look-alike strings, unicode, "
             "comments in head/line/foot position, anchors/aliases, explicit tags, 1-3 documents with/without leading ---, leading comment blocks)",
        trusted=vlib.COMMON_TRUSTED + ["gopkg.in/yaml.v3 scanner/parser/emitter: library contract (Section hypotheses of Props/C05.v), validated by the harness on generated inputs",
                                       "PyYAML 6 compose (YAML 1.1 resolver) as the independent reader of the oracle; same reader on input and output"],
        assumptions=["correspondence is sampled; the unbounded claims are the Coq theorems over the model"])
