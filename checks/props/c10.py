"""C10 -- multi-document, multi-file input is processed document by document, in order.

Decided by: theorems Props/C10.v over Model/Printer.v + Model/Stream.v against
Spec/StreamSpec.v.  Tie: the real binary (work/bin/yq) over generated file
sequences; its stdout + exit class must equal the bytes the model computes
(Model/StreamInst.v, vm_compute), where the per-document result lists fed to
the model are measured on the binary on single documents.  Direct oracle
(model-free): stdout of the multi-file run = separator-joined concatenation of
the single-document runs; document_index / file_index / filename report true
positions; JSON output (no separators) as a cross-check; identity gives N
documents; eval-all = eval on single-document inputs.
"""
import hashlib, json, os, shutil, tempfile
from concurrent.futures import ThreadPoolExecutor
import vlib

IMPORTS = "From YQ Require Import Base.Str Model.Printer Model.Stream Model.StreamInst."

# ---------------------------------------------------------------------------
# the input space
# ---------------------------------------------------------------------------
# document bodies (id -> text); id 0 is the blank node (comment-only document / null input)
BODIES = {
    1: "a: 1\nb: 2\n",
    2: "a: 3\n",
    3: "b: x\nc: y\n",
    4: "- p\n- q\n",
    5: "a: 5\nb: 6\nc: 7\n",
    6: "[]\n",
    7: "hello\n",
    8: "a: 1\nb: x\n",
    9: "# head\na: 9\nb: 2\n",       # only at non-first positions of a file (else the comment is leading content)
    10: "a: null\nb: false\n",
    11: "a: 3\nb: boom\n",
    12: "n: [1, 2]\na: 1\n",
    13: "n: [10]\na: 2\n",
    14: "n: [5, 5]\nb: 2\n",
    15: "s: hello\np: \"^h\"\nk: s\nl: [a, b, c]\nn: 1\n",
    16: "s: hello\np: z$\nk: q\nl: [x, y, z]\nn: 2\n",
    17: "a: x\ns: double\ne: .b style |= \"single\"\nb: y\nt: single\ng: \"!!str\"\n",
}
FIRST_OK = [1, 1, 2, 2, 3, 3, 5, 5, 8, 8, 10, 11, 4, 6, 7, 12, 12, 13, 13, 14, 15, 15, 16, 16, 17, 17]
BAD_TAIL = "{ bad\n"

# leading content: S = document start marker line, other strings = comment / blank lines
S = "S"
LEADS = [[], [], [], [S], [S], ["# c1\n"], ["# c1\n", S], [S, "# c2\n"], ["\n", "# c3\n"], ["# c1\n", "# c4\n"], [S, "# c2\n", "\n"]]

# selectors: text -> (attached, keeps leading content, kind)
SEL = {
    ".": (1, 1, "b"), ".a": (1, 0, "b"), ".b": (1, 0, "b"), ".c": (1, 0, "b"), ".[]": (1, 0, "b"),
    "select(.a == 1)": (1, 1, "b"), "select(.b == \"x\")": (1, 1, "b"), "select(has(\"a\"))": (1, 1, "b"),
    ".a | select(. != null)": (1, 0, "b"), ". * {\"z\": 1}": (1, 1, "b"), "del(.a)": (1, 1, "b"),
    ".a + 1": ("has_a", 0, "b"),     # without .a the result is the literal 1 (no parent) "{\"x\": .a}": (1, 0, "b"), ".. | select(tag == \"!!int\")": (1, 0, "b"),
    "[.a]": (0, 0, "b"), "keys": (0, 0, "b"), "length": (0, 0, "b"), "\"lit\"": (0, 0, "b"), "tag": (0, 0, "b"),
    "to_entries": (0, 1, "b"), "has(\"a\")": (0, 0, "b"),
    "document_index": (0, 0, "di"), "file_index": (0, 0, "fi"), "filename": (0, 0, "fn"),
    ".a | document_index": (1, 0, "di"), ".b | file_index": (1, 0, "fi"), ".a | filename": (1, 0, "fn"),
    "select(.b == \"boom\") | error(\"boom\")": (1, 1, "b"),
    ".a | select(. == 3) | error(\"three\")": (1, 0, "b"),
    # in-place updates of a literal / of the reduce accumulator inside the per-document expression: the literal
    # lives in the parsed tree that is shared by all documents, so each evaluation must work on a copy
    ".sum = (.n[] as $i ireduce (0; . += $i))": (1, 1, "b"),
    ".n[] as $i ireduce (0; . += $i)": (0, 0, "b"),
    ".a as $v | (0 | . += $v)": (0, 0, "b"),
    ".k = (1 | . *= 2)": (1, 1, "b"),
    "with(.k; . = (3 | . -= 1))": (1, 1, "b"),
    ".k = (.a as $v | (100 | . -= $v))": (1, 1, "b"),
}
# operator arguments that depend on the document (pattern, key, separator, bound taken from a field): whatever an
# operator caches in the shared parsed tree must not survive into the next document
DATADEP = {
    ".p as $p | .s | test($p)": (1, 0, "b"), ".p as $p | .s | sub($p; \"X\")": (1, 0, "b"), ".p as $p | .s | match($p)": (1, 0, "b"),
    ".p as $p | .s | capture($p)": (1, 0, "b"), ".s | test(parent.p)": (1, 0, "b"),
    ".k as $k | has($k)": (0, 0, "b"), ".k as $k | pick([$k])": (0, 1, "b"), ".k as $k | omit([$k])": (0, 1, "b"),
    ".k as $x | .l | join($x)": (1, 0, "b"), ".k as $x | .s | split($x)": (1, 0, "b"), ".n as $n | .l | .[$n:]": (1, 0, "b"),
    ".n as $n | [[1, [2, [3]]]] | flatten($n)": (0, 0, "b"),
}
# expressions that parse another expression while they are evaluated (eval, string interpolation) and assign
# operators whose `=` / `|=` variants come from the same lexer rule
RUNTIME_PARSE = {
    ".a style = .s | eval(.e)": (1, 1, "b"),
    ".a style = .s | .c = \"\\(.b style |= parent.t | .b)\"": (1, 1, "b"),
    ".a tag |= \"!!\" + . | .c = \"\\(.b tag = .g | .b)\"": (1, 1, "b"),
    ".a style = .s": (1, 1, "b"), ".b style |= \"single\"": (1, 1, "b"),
    ".a line_comment = .s | .c = \"\\(.b line_comment |= \"z\" | .b)\"": (1, 1, "b"),
}
# provenance of COPIES of the document root (variable binding, merge, add, explode): the copy must keep
# document / file index and file name
COPYIDX = {
    ". as $d | $d | file_index": (0, 0, "fi"), ". as $d | $d | document_index": (0, 0, "di"), ". as $d | $d | filename": (0, 0, "fn"),
    "(. * {}) | file_index": (0, 0, "fi"), "(. * {\"z\": 1}) | filename": (0, 0, "fn"), "(. * {\"z\": 1}) | document_index": (0, 0, "di"),
    "explode(.) | document_index": (0, 0, "di"), "explode(.) | file_index": (0, 0, "fi"),
    ".a as $x | $x | file_index": (1, 0, "fi"), "select(.a) | file_index": (0, 0, "fi"), ". as $d | $d | .a | file_index": (1, 0, "fi"),
}
# results that come from ANOTHER file (load*) merged or combined with the current document: one result per input
# document, separated and indexed as results of the current input
LOADDIR = os.path.join(vlib.WORK, "c10load")
os.makedirs(LOADDIR, exist_ok=True)
for _n, _t in (("defaults.yml", "d: 0\nz: 9\n"), ("defaults.properties", "d = 0\n"), ("multi.yml", "m: 1\n---\nm: 2\n")):
    with open(os.path.join(LOADDIR, _n), "w") as _f:
        _f.write(_t)
_LY, _LP, _LM = (os.path.join(LOADDIR, n) for n in ("defaults.yml", "defaults.properties", "multi.yml"))
LOADSEL = {
    "load(\"%s\") * ." % _LY: (0, "nb", "b"), ". * load(\"%s\")" % _LY: (1, 1, "b"), "load(\"%s\")" % _LY: (0, 0, "b"),
    "load_str(\"%s\")" % _LY: (0, 0, "b"), "load_props(\"%s\")" % _LP: (0, 0, "b"), "load(\"%s\")" % _LM: (0, 0, "b"),
    "load_props(\"%s\") * ." % _LP: (0, "nb", "b"), "{\"w\": load(\"%s\")} * ." % _LY: (0, "nb", "b"),     # merge takes the leading content of a non-null right operand
    "(. * load(\"%s\")) | file_index" % _LY: (0, 0, "fi"), "(. * load(\"%s\")) | document_index" % _LY: (0, 0, "di"),
}
SEL.update(LOADSEL)
SEL.update(COPYIDX)
SEL.update(DATADEP)
SEL.update(RUNTIME_PARSE)
INPLACE = [".sum = (.n[] as $i ireduce (0; . += $i))", ".n[] as $i ireduce (0; . += $i)", ".a as $v | (0 | . += $v)",
           ".k = (1 | . *= 2)", "with(.k; . = (3 | . -= 1))", ".k = (.a as $v | (100 | . -= $v))"]
# unions: selectors are measured one by one, so a union must not contain a selector that creates a key
# (`.c` on a document without c) next to one that shows the whole document
EXPRS = [[s] for s in SEL] + [
    [".a", ".b"], [".a", ".b", ".c"], [".", "keys"], ["length", "."], [".[]", "length"], ["[.a]", "\"lit\""], ["keys", "length"],
    [".a | document_index", ".b | file_index"], ["document_index", "file_index", "filename"],
    [".a", ".a | select(. == 3) | error(\"three\")"], ["select(.a == 1)", "tag"], [".a | select(. != null)", ".b"],
    [".a", ".a"], ["\"lit\"", ".a"],
    [".n[] as $i ireduce (0; . += $i)", ".a as $v | (0 | . += $v)"], [".a", ".n[] as $i ireduce (0; . += $i)"],
] + [[s] for s in INPLACE] + [[s] for s in DATADEP] + [[s] for s in RUNTIME_PARSE] + [[s] for s in COPYIDX] + [[s] for s in COPYIDX] + [[s] for s in LOADSEL] + [[s] for s in LOADSEL]     # (a second time: weight)
COLLECT = ("[.a]", "{\"x\": .a}", ".a + 1", ". * {\"z\": 1}") + tuple(INPLACE) + tuple(DATADEP) + tuple(RUNTIME_PARSE) + tuple(COPYIDX) + tuple(LOADSEL)   # not document-local in eval-all (collect; cross product of binary operators)
IDENT = ["."]


HAS_A = {1, 2, 5, 8, 9, 10, 11, 12, 13}


def sel_att(sel, b):
    a = SEL[sel][0]
    if a == "has_a":
        return (b % 1000) in HAS_A
    return bool(a)


def expr_text(sels):
    return ", ".join(sels)


def lead_text(lead):
    return "".join("---\n" if x == S else x for x in lead)


def file_text(f):
    t = lead_text(f["lead"]) + "---\n".join(BODIES[b] for b in f["bodies"])
    if f["bad"]:
        t += ("---\n" if f["bodies"] else "") + BAD_TAIL
    return t


def gen_file(rng, maxdocs):
    r = rng.random()
    lead = list(rng.choice(LEADS))
    if r < 0.12:
        n = 0
    elif r < 0.5:
        n = 1
    else:
        n = rng.randrange(1, maxdocs + 1)
    bodies = []
    for k in range(n):
        pool = FIRST_OK if k == 0 else FIRST_OK + [9, 9]
        bodies.append(rng.choice(pool))
    bad = rng.random() < 0.04
    if not bodies:
        # processReadStream peeks 4 bytes: a last line shorter than that is not taken as leading content
        while lead and lead[-1] != S and len(lead[-1]) < 4:
            lead.pop()
    return {"lead": lead, "bodies": bodies, "bad": bad}


def gen_case(rng, maxfiles, maxdocs):
    nf = rng.choice([1, 1, 2, 2, 2, 3, 3, 4] if maxfiles <= 4 else list(range(1, maxfiles + 1)))
    files = [gen_file(rng, maxdocs) for _ in range(nf)]
    sels = rng.choice(EXPRS) if rng.random() < 0.8 else rng.choice([[".a", ".b"], ["."], [".[]"], ["[.a]"], [".a"]])
    r = rng.random()
    mode = "ea" if r < 0.2 else "e"
    flags = {"N": rng.random() < 0.25, "json": rng.random() < 0.2, "nul": rng.random() < 0.12}
    t = rng.random()
    if t > 0.90:      # provenance against the command-line positions, with zero-document files at every position
        nf = rng.randrange(2, maxfiles + 2)
        files = []
        for _ in range(nf):
            f = gen_file(rng, maxdocs)
            z = rng.random()
            if z < 0.3:
                f = {"lead": [], "bodies": [], "bad": False}
            elif z < 0.45:
                f = {"lead": ["# only a comment\n"], "bodies": [], "bad": False}
            f["bad"] = False
            files.append(f)
        sels = rng.choice([["file_index"], ["filename"], ["document_index"], [".a | filename"], [".b | file_index"], [".a | document_index"],
                           ["document_index", "file_index", "filename"], [".a | document_index", ".b | file_index"]])
        mode = rng.choice(["e", "ea"])
        flags = {"N": rng.random() < 0.5, "json": rng.random() < 0.2, "nul": False}
    if t < 0.07:      # identity, counted through the JSON encoder
        sels, mode, flags = list(IDENT), "e", {"N": False, "json": True, "nul": False}
    elif t < 0.15:    # eval-all on a single-document input
        files, mode = [gen_file(rng, 1)], "ea"
    if mode == "ea" and any(x in COLLECT for x in sels) and not (len(files) == 1 and len(files[0]["bodies"]) == 1):
        sels = [".a", ".b"]
    if mode == "ea":
        # eval-all reads the leading lines of later files through yaml.v3 itself; the model covers
        # no leading content / a document start / one comment line there
        for f in files[1:]:
            f["lead"] = list(rng.choice([[], [S], ["# c1\n"]])) if f["bodies"] else list(rng.choice([[], ["# c1\n"]]))
    return {"files": files, "sels": list(sels), "mode": mode, "flags": flags}


def case_args(c, names):
    a = ["ea" if c["mode"] == "ea" else "e"]
    if c["flags"]["N"]:
        a.append("-N")
    if c["flags"]["json"]:
        a += ["-o=json", "-I=0"]
    if c["flags"]["nul"]:
        a.append("-0")
    return a + [expr_text(c["sels"])] + names


# ---------------------------------------------------------------------------
# running the binary
# ---------------------------------------------------------------------------
class Runner:
    def __init__(self, root):
        self.root = root
        self.n = 0
        self.single = {}

    def mkdir(self):
        self.n += 1
        d = os.path.join(self.root, "d%d" % self.n)
        os.makedirs(d)
        return d

    def run_files(self, texts, args_fn):
        """write texts to f0.yml.. in a new dir, run yq with args_fn(names)."""
        d = self.mkdir()
        names = []
        for i, t in enumerate(texts):
            nm = "f%d.yml" % i
            with open(os.path.join(d, nm), "w") as f:
                f.write(t)
            names.append(nm)
        rc, out, err = vlib.run_yq(args_fn(names), cwd=d)
        shutil.rmtree(d, ignore_errors=True)
        return rc, out, err

    def measure(self, sel, text, js, preprocess=True, null_input=False, ea=False):
        """results of one selector on one single document: None (error) or list of byte strings"""
        key = (sel, text, js, preprocess, null_input, ea)
        if key in self.single:
            return self.single[key]
        args = ["ea" if ea else "e", "-0"] + (["-o=json", "-I=0"] if js else []) + ([] if preprocess else ["--header-preprocess=false"])
        if null_input:
            d = self.mkdir()
            rc, out, err = vlib.run_yq(args + ["-n", sel], cwd=d)
            shutil.rmtree(d, ignore_errors=True)
        else:
            rc, out, err = self.run_files([text], lambda names: args + [sel] + names)
        if rc != 0:
            res = None
        else:
            parts = out.split(b"\0")
            assert parts[-1] == b"", (sel, text, out)
            res = [p + b"\n" for p in parts[:-1]]
        self.single[key] = res
        return res


def coq_bool(b):
    return "true" if b else "false"


def coq_lead(lead):
    return "[" + ";".join("LSep" if x == S else "LLine " + vlib.coq_str(x) for x in lead) + "]"


def absorbed(lead):
    return any(x != S for x in lead)


def build_table(run, c):
    """body ids occurring in the case (+ blank, + absorbed variants in eval-all) -> per selector result specs"""
    js = c["flags"]["json"]
    ids = {0}
    texts = {0: None}
    for fi, f in enumerate(c["files"]):
        for k, b in enumerate(f["bodies"]):
            ids.add(b)
            texts[b] = BODIES[b]
            if c["mode"] == "ea" and fi > 0 and k == 0 and absorbed(f["lead"]):
                texts[b + 1000] = "".join(x for x in f["lead"] if x != S) + BODIES[b]
    rows = []
    for b, t in sorted(texts.items()):
        row = []
        for sel in c["sels"]:
            _, lead, kind = SEL[sel]
            if lead == "nb":
                lead = 1 if b != 0 else 0
            att = sel_att(sel, b)
            if b == 0:
                res = run.measure(sel, "", js, null_input=True)
            else:
                res = run.measure(sel, t, js, preprocess=(b < 1000 and b != 9), ea=(c["mode"] == "ea"))
            if res is None:
                row.append("None")
                continue
            specs = []
            for r in res:
                if kind == "di":
                    k = "KDocIdx"
                elif kind == "fi":
                    k = "KFileIdx"
                elif kind == "fn":
                    k = "(KName [34] [34;10])" if js else "(KName [] [10])"
                elif b == 0 and lead and not js and r == b"\n":
                    k = "KBlank"
                else:
                    k = "(KBytes %s)" % vlib.coq_str(r)
                specs.append("mkRspec %s %s %s" % (coq_bool(att), coq_bool(lead), k))
            row.append("(Some [" + ";".join(specs) + "])")
        rows.append("(%d, [%s])" % (b, ";".join(row)))
    return "[" + ";".join(rows) + "]"


def coq_case(run, c):
    fl = c["flags"]
    cfg = "(mkCfg %s %s %s)" % (coq_bool(not fl["json"] and not fl["N"]), coq_bool(not fl["json"]), coq_bool(fl["nul"]))
    files = "[" + ";".join("mkFile %s %s [%s] %s" % (vlib.coq_str("f%d.yml" % i), coq_lead(f["lead"]),
                                                     ";".join(str(b) for b in f["bodies"]), coq_bool(f["bad"]))
                           for i, f in enumerate(c["files"])) + "]"
    return "(mkCase %s %s %d %s %s)" % (coq_bool(c["mode"] == "ea"), cfg, len(c["sels"]), build_table(run, c), files)


def run_case(run, c):
    rc, out, err = run.run_files([file_text(f) for f in c["files"]], lambda names: case_args(c, names))
    return rc, out, err


# ---------------------------------------------------------------------------
# direct oracle (model-free)
# ---------------------------------------------------------------------------
def docs_of(c):
    """(file index, doc index, single-document text, has_result_docs) in order, up to and including the first bad file"""
    out, failed = [], False
    ea = c["mode"] == "ea"
    for fi, f in enumerate(c["files"]):
        lt = lead_text(f["lead"])
        if ea and fi > 0 and not f["bodies"]:
            # eval-all pre-processes leading content of the first file only: a later comment-only file has no document
            if f["bad"]:
                failed = True
                break
            continue
        if f["bodies"]:
            for k, b in enumerate(f["bodies"]):
                out.append((fi, k, (lt if k == 0 else "") + BODIES[b], b))
        elif f["lead"] and not f["bad"]:
            out.append((fi, 0, lt, 0))
        if f["bad"]:
            failed = True
            break
    return out, failed


def strip_seps(b):
    return b"".join(l for l in b.splitlines(True) if l != b"---\n")


def oracle_concat(run, c, actual_rc, actual_out):
    """sequence mode, no NUL: stdout == separator-joined concatenation of single-document runs.
    returns (ok, expected_bytes, expected_rc, info)"""
    fl = c["flags"]
    docs, failed = docs_of(c)
    flags = (["-N"] if fl["N"] else []) + (["-o=json", "-I=0"] if fl["json"] else [])
    exp, rc_exp, printed = b"", 0, False
    multi_later, first_file = False, None
    if not docs and not failed:
        d = run.mkdir()
        rc1, o1, _ = vlib.run_yq(["e"] + flags + ["-n", expr_text(c["sels"])], cwd=d)
        shutil.rmtree(d, ignore_errors=True)
        return (actual_out == o1 and (actual_rc == 0) == (rc1 == 0)), o1, rc1, {}
    for fi, k, text, b in docs:
        pp = [] if k == 0 else ["--header-preprocess=false"]
        key = ("doc", expr_text(c["sels"]), tuple(flags + pp), text)
        if key not in run.single:
            run.single[key] = run.run_files([text], lambda names: ["e"] + flags + pp + [expr_text(c["sels"])] + names)
        rc1, o1, _ = run.single[key]
        if rc1 != 0:
            # the failing document may have printed part of its results
            if o1:
                if printed and not fl["N"] and not fl["json"] and not o1.startswith(b"---\n"):
                    exp += b"---\n"
                exp += o1
            rc_exp = 1
            break
        if not o1:
            continue
        if printed and not fl["N"] and not fl["json"] and not o1.startswith(b"---\n"):
            exp += b"---\n"
        exp += o1
        if first_file is None:
            first_file = fi
        nres = sum(len((run.measure(s, BODIES[b], fl["json"], preprocess=(b != 9)) if b != 0 else
                            run.measure(s, "", fl["json"], null_input=True)) or []) for s in c["sels"])
        if fi > first_file and nres >= 2:
            multi_later = True
        printed = True
    else:
        if failed:
            rc_exp = 1
    ok = (actual_out == exp) and ((actual_rc == 0) == (rc_exp == 0))
    return ok, exp, rc_exp, {"multi_later": multi_later}


# other input formats: files are processed one after the other with ONE decoder instance (Init per file)
SWEEP = {
    "json": ['{"a": 1}\n{"a": 2}\n', '{"b": [1, 2]}\n', '{"c": null}\n'],
    "props": ["a = 1\n", "b.c = 2\n", "d = x\n"],
    "csv": ["a,b\n1,2\n", "a\n3\n", "c\n4\n"],
    "xml": ["<a>1</a>", "<b><c>2</c></b>", "<d>3</d>"],
    "toml": ["a = 1\n", "b = 2\n", "[c]\nd = 3\n"],
    "lua": ["return {a=1}\n", "return {b=2}\n", "return {c=3}\n"],
}


def format_sweep(run):
    """(format, nfiles, ok, got, expected) for 2 and 3 files of every other input format"""
    res = []
    for fmt, texts in SWEEP.items():
        singles = []
        for t in texts:
            rc, out, _ = run.run_files([t], lambda names: ["e", "-p=" + fmt, "-o=yaml", "."] + names)
            singles.append(out if rc == 0 else None)
        for n in (2, 3):
            rc, out, _ = run.run_files(texts[:n], lambda names: ["e", "-p=" + fmt, "-o=yaml", "."] + names)
            if any(x is None for x in singles[:n]):
                continue
            exp = b"---\n".join(x for x in singles[:n] if x)
            res.append((fmt, n, rc == 0 and out == exp, out, exp))
    return res


def json_streams(run, rng, n):
    """non-YAML multi-document input (JSON values one after the other, several files): separators and provenance.
    returns list of (args, texts, ok, got, expected)"""
    res = []
    for _ in range(n):
        files = [[{"a": rng.randrange(1, 90)} for _ in range(rng.randrange(1, 4))] for _ in range(rng.randrange(1, 4))]
        texts = ["".join(json.dumps(v) + "\n" for v in f) for f in files]
        pos = [(fi, k, v["a"]) for fi, f in enumerate(files) for k, v in enumerate(f)]
        exprs = [
            (".a", "yaml", b"---\n".join(b"%d\n" % a for _, _, a in pos)),
            ("document_index", "yaml", b"---\n".join(b"%d\n" % k for _, k, _ in pos)),
            (".a | file_index", "yaml", b"---\n".join(b"%d\n" % fi for fi, _, _ in pos)),
            ("[filename, file_index, document_index, .a]", "json", b"".join(b'["f%d.yml",%d,%d,%d]\n' % (fi, fi, k, a) for fi, k, a in pos)),
            (". as $d | [$d | file_index, ($d | document_index)]", "json", b"".join(b"[%d,%d]\n" % (fi, k) for fi, k, _ in pos)),
        ]
        for e, o, exp in exprs:
            args = ["e", "-p=json", "-o=" + o] + (["-I=0"] if o == "json" else []) + [e]
            rc, out, _ = run.run_files(texts, lambda names: args + names)
            res.append((args, texts, rc == 0 and out == exp, out, exp))
    return res


# every other OUTPUT format: encoder state must not leak from one document / file into the next
OUT_DOCS = {
    "map": ["a: 1\nb: x\n", "a: 2\n", "b: y\nc: z\n", "a: 3\nb: w\nc: v\n"],
    "rows": ["- [1, 2]\n- [3, 4]\n", "- [x, y]\n", "- [5]\n- [6]\n"],
    "scalar": ["hello\n", "12\n", "true\n"],
}
OUT_FORMATS = {"xml": "map", "props": "map", "lua": "map", "shell": "map", "json": "map", "csv": "rows", "tsv": "rows", "toml": "scalar", "uri": "scalar", "base64": "scalar"}


def output_sweep(run, rng, n):
    """(args, texts, ok, got, expected): multi-file run = concatenation of the single-document runs, for every output format"""
    res = []
    for fmt, kind in OUT_FORMATS.items():
        for _ in range(n * (3 if fmt in ("xml", "props") else 1)):      # the encoders that keep state / print leading content
            files, singles = [], []
            for _f in range(rng.randrange(1, 4)):
                docs = []
                for k in range(rng.randrange(1, 4)):
                    body = rng.choice(OUT_DOCS[kind])
                    if k == 0:
                        lead = rng.choice(["", "", "# lead %d\n" % rng.randrange(9), "# l1\n# l2\n", "---\n"])
                    else:
                        lead = rng.choice(["", "", "", "# head %d\n" % rng.randrange(9)]) if kind == "map" else ""
                    docs.append(lead + body)
                    singles.append((k, lead + body))
                files.append("---\n".join(docs))
            expr = rng.choice([".", ".", ".a"]) if kind == "map" else "."
            base = ["e", "-o=" + fmt] + (["-I=0"] if fmt == "json" else [])
            rc, out, _ = run.run_files(files, lambda names: base + [expr] + names)
            exp, rc_exp = b"", 0
            for k, text in singles:
                pp = [] if k == 0 else ["--header-preprocess=false"]
                key = ("out", fmt, expr, k > 0, text)
                if key not in run.single:
                    run.single[key] = run.run_files([text], lambda names: base + pp + [expr] + names)
                rc1, o1, _ = run.single[key]
                exp += o1
                if rc1 != 0:
                    rc_exp = 1
                    break
            res.append((base + [expr], files, out == exp and (rc == 0) == (rc_exp == 0), out, exp))
    return res


def uses_index(c):
    return any(SEL[s][2] != "b" for s in c["sels"])


def has_detached(c):
    bs = {b for f in c["files"] for b in f["bodies"]} | {0}
    return any(not sel_att(s, b) for s in c["sels"] for b in bs)


def oracle_indices(run, c, actual_rc, actual_out):
    """expressions made of index selectors only: values must be the true positions"""
    docs, failed = docs_of(c)
    if not docs:
        return True
    exp = []
    ea = c["mode"] == "ea"
    if ea and failed:
        return actual_out == b""          # eval-all prints nothing when a file cannot be read
    # eval: document-major; eval-all: a union evaluates its first selector over all documents, then the next
    order = [(d, s) for s in c["sels"] for d in docs] if ea else [(d, s) for d in docs for s in c["sels"]]
    for (fi, k, text, b), s in order:
        kind = SEL[s][2]
        n = run.measure(s, BODIES[b] if b != 0 else "", c["flags"]["json"], null_input=(b == 0), preprocess=(b != 9), ea=ea)
        if n is None:
            return True     # evaluation error (e.g. `.a` on a scalar): not this oracle's business
        for _ in n:
            v = {"di": str(k), "fi": str(fi), "fn": ("\"f%d.yml\"" if c["flags"]["json"] else "f%d.yml") % fi}[kind]
            exp.append(v.encode())
    got = [l for l in actual_out.replace(b"\0", b"\n").split(b"\n") if l and l != b"---" and not l.startswith(b"#")]
    return got == exp


# ---------------------------------------------------------------------------
def replay(rp):
    root = tempfile.mkdtemp(prefix="c10r_", dir=vlib.WORK)
    try:
        run = Runner(root)
        if rp.get("kind") == "sweep":
            return all(ok_ for fmt, n, ok_, _, _ in format_sweep(run) if fmt == rp.get("format"))
        if rp.get("kind") == "outsweep":
            rc, out, _ = run.run_files(rp["files"], lambda names: rp["args"] + names)
            return out.decode("utf-8", "replace") == rp["expected_concatenation_of_single_runs"]
        if rp.get("kind") == "jsonstream":
            rc, out, _ = run.run_files(rp["files"], lambda names: rp["args"] + names)
            return rc == 0 and out.decode("utf-8", "replace") == rp["expected"]
        if rp.get("kind") == "constructed":
            rc, out, _ = run.run_files(["a: 1\n", "a: 2\n"], lambda names: ["e", "[.] | .[0] | file_index"] + names)
            return out == b"0\n---\n1\n"
        c = rp.get("case")
        if not c:
            return False
        rc, out, err = run_case(run, c)
        kind = rp.get("kind")
        if kind == "concat":
            ok, exp, rc_exp, info = oracle_concat(run, c, rc, out)
            return ok
        if kind == "indices":
            return oracle_indices(run, c, rc, out)
        if kind == "ea_single":
            c2 = dict(c, mode="e")
            rc2, out2, _ = run_case(run, c2)
            return out == out2 and (rc == 0) == (rc2 == 0)
        if kind == "sweep":
            return all(ok_ for fmt, n, ok_, _, _ in format_sweep(run) if fmt == rp.get("format"))
        if kind == "identity":
            docs, failed = docs_of(c)
            return len(out.splitlines()) == max(1, len(docs))
        return False
    finally:
        shutil.rmtree(root, ignore_errors=True)


def run(chk):
    thorough = chk.tier == "thorough"
    proved, plog = chk.prove("Props/C10.v", clean=False)
    broken = []
    if not proved:
        broken.append("proof obligations of Props/C10.v do not check: " + plog[-800:])
    ok, o, _ = vlib.coq_make(["Model/StreamInst.vo"])
    if not ok:
        broken.append("Model/StreamInst.v does not build: " + o[-500:])

    root = tempfile.mkdtemp(prefix="c10_", dir=vlib.WORK)
    dist = {"mode": {}, "flags": {}, "files": {}, "docs": {}, "expr_results": {}, "exit": {}}
    disagreements = []
    try:
        run_ = Runner(root)
        rng = chk.rng
        ncases = 20000 if thorough else 1500
        maxfiles, maxdocs = (8, 6) if thorough else (4, 3)
        cases = []
        # fixed corner cases first
        def F(lead, bodies, bad=False):
            return {"lead": lead, "bodies": bodies, "bad": bad}
        NF = {"N": False, "json": False, "nul": False}
        fixed = [
            {"files": [F([], [1]), F([], [5])], "sels": [".a", ".b"], "mode": "e", "flags": dict(NF)},
            {"files": [F([], [1, 5])], "sels": ["[.a]"], "mode": "e", "flags": dict(NF)},
            {"files": [F([], []), F([], [])], "sels": ["."], "mode": "e", "flags": dict(NF)},
            {"files": [F([], []), F([], [])], "sels": ["."], "mode": "ea", "flags": dict(NF)},
            {"files": [F(["# c1\n"], []), F([S], []), F([S, "# c2\n"], [1])], "sels": ["."], "mode": "e", "flags": dict(NF)},
            {"files": [F([], []), F([], [1, 2]), F([], []), F([S], [3])], "sels": [".a | document_index", ".b | file_index"], "mode": "e", "flags": dict(NF)},
            {"files": [F([], [1]), F([], [2], True), F([], [3])], "sels": [".a"], "mode": "e", "flags": dict(NF)},
            {"files": [F([], [1]), F([], [2], True), F([], [3])], "sels": [".a"], "mode": "ea", "flags": dict(NF)},
            {"files": [F([], [1]), F([], [11, 5])], "sels": [".a", "select(.b == \"boom\") | error(\"boom\")"], "mode": "e", "flags": dict(NF)},
            {"files": [F([S], [1, 9]), F(["# c1\n", S], [5, 9])], "sels": ["."], "mode": "e", "flags": {"N": True, "json": False, "nul": False}},
            {"files": [F([S], [1, 9]), F(["# c1\n"], [5, 9])], "sels": [".", ".a"], "mode": "e", "flags": {"N": False, "json": False, "nul": True}},
            {"files": [F([], [1]), F(["# c1\n"], [5])], "sels": ["."], "mode": "ea", "flags": dict(NF)},
            {"files": [F([], [12, 13, 14])], "sels": [".sum = (.n[] as $i ireduce (0; . += $i))"], "mode": "e", "flags": dict(NF)},
            {"files": [F([], [12]), F([], [13]), F([S], [14])], "sels": [".n[] as $i ireduce (0; . += $i)"], "mode": "e", "flags": dict(NF)},
            {"files": [F([], [12, 13]), F([], [1])], "sels": [".k = (1 | . *= 2)"], "mode": "e", "flags": {"N": False, "json": True, "nul": False}},
            {"files": [F([], [1]), F([], []), F([], [2]), F([], []), F([], [5])], "sels": ["file_index"], "mode": "ea", "flags": {"N": True, "json": False, "nul": False}},
            {"files": [F([], []), F([], [1, 2]), F(["# c1\n"], []), F([], [5])], "sels": ["document_index", "file_index", "filename"], "mode": "ea", "flags": dict(NF)},
            {"files": [F([], []), F([], [1, 2]), F(["# c1\n"], []), F([], [5])], "sels": ["document_index", "file_index", "filename"], "mode": "e", "flags": dict(NF)},
            {"files": [F([], [1]), F([], [2, 5])], "sels": ["load(\"%s\") * ." % _LY], "mode": "e", "flags": dict(NF)},
            {"files": [F([S], [1, 5]), F(["# c1\n"], [2])], "sels": ["load(\"%s\")" % _LY], "mode": "e", "flags": dict(NF)},
            {"files": [F([], [15, 16])], "sels": [".p as $p | .s | test($p)"], "mode": "e", "flags": dict(NF)},
            {"files": [F([], [16]), F([], [15])], "sels": [".p as $p | .s | sub($p; \"X\")"], "mode": "e", "flags": dict(NF)},
            {"files": [F([], [17, 17])], "sels": [".a style = .s | eval(.e)"], "mode": "e", "flags": dict(NF)},
            {"files": [F([], [17]), F([], [17])], "sels": [".a tag |= \"!!\" + . | .c = \"\\(.b tag = .g | .b)\""], "mode": "e", "flags": dict(NF)},
        ]
        # directed family (seed-independent): a later file / document whose leading content starts with `---` (the printer
        # prints no separator of its own there) and an expression with the document root first and further results after it
        root_first = [[".", "keys"], [".", "length"], [".", "tag"], [".", ".a"], ["select(.a == 1)", ".b"], [".", "keys", "length"]]
        layouts = [
            [F([], [1]), F([S], [1])], [F([], [5]), F([S], [1, 5])], [F([], [1]), F([S, "# c2\n"], [5])],
            [F([], []), F([], [1]), F([S], [8])], [F(["# c1\n"], [1, 5]), F([], [8]), F([S], [1])],
            [F([S], [1]), F([S], [5]), F([S], [8])], [F([], [8]), F(["# c1\n", S], [1])],
        ]
        for sels_ in root_first:
            for lay in layouts:
                for fl_ in (dict(NF), {"N": False, "json": False, "nul": True}):
                    fixed.append({"files": [dict(f, lead=list(f["lead"]), bodies=list(f["bodies"])) for f in lay],
                                  "sels": list(sels_), "mode": "e", "flags": fl_})
        cases += fixed
        while len(cases) < ncases:
            cases.append(gen_case(rng, maxfiles, maxdocs))

        # --- the real binary on every case
        with ThreadPoolExecutor(vlib.NCPU) as ex:
            results = list(ex.map(lambda c: run_case(run_, c), cases))
        # --- the per-document tables (measured) and the Coq terms
        with ThreadPoolExecutor(vlib.NCPU) as ex:
            terms = list(ex.map(lambda c: coq_case(run_, c), cases))
        coq_cases = []
        for c, t, (rc, out, err) in zip(cases, terms, results):
            status = b"0" if rc == 0 else b"1"
            coq_cases.append((t, status + out))
        mism, errlog = vlib.coq_mismatches(chk.workdir, "c10_cases", IMPORTS, "run_case", coq_cases, shard=120)
        if errlog:
            broken.append("model evaluation failed: " + errlog[-600:])
            vlib.log("model evaluation failed: " + errlog[-1500:])
            mism = []
        for i, mo in mism:
            disagreements.append((cases[i], results[i], mo))
        with open(os.path.join(chk.workdir, "disagreements.json"), "w") as f:
            json.dump([{"case": c, "rc": rc, "impl": out.decode("utf-8", "replace"), "model": bytes(mo).decode("utf-8", "replace") if isinstance(mo, (bytes, list)) else repr(mo)}
                       for c, (rc, out, err), mo in disagreements], f, indent=1)

        # --- direct oracles
        def oracle(i):
            c = cases[i]
            rc, out, err = results[i]
            r = {}
            if not c["flags"]["nul"] and uses_index(c) and all(SEL[s][2] != "b" for s in c["sels"]) \
                    and not any(s in COPYIDX for s in c["sels"] if c["mode"] == "ea"):
                r["indices"] = oracle_indices(run_, c, rc, out)
            elif c["mode"] == "e" and not c["flags"]["nul"] and not uses_index(c):
                r["concat"] = oracle_concat(run_, c, rc, out)
            if c["mode"] == "ea" and len(c["files"]) == 1 and len(c["files"][0]["bodies"]) <= 1 and not c["files"][0]["bad"]:
                rc2, out2, _ = run_case(run_, dict(c, mode="e"))
                r["ea_single"] = (out == out2 and (rc == 0) == (rc2 == 0), out2)
            if c["sels"] == IDENT and c["flags"]["json"] and not c["flags"]["nul"] and c["mode"] == "e":
                docs, failed = docs_of(c)
                if not failed:
                    r["identity"] = (len(out.splitlines()) == max(1, len(docs)))
            return r
        with ThreadPoolExecutor(vlib.NCPU) as ex:
            orr = list(ex.map(oracle, range(len(cases))))

        n_known = {"sep-later-file": 0, "sep-detached": 0}
        nviol = 0
        for i, (c, (rc, out, err), r) in enumerate(zip(cases, results, orr)):
            docs, failed = docs_of(c)
            ndocs = len(docs)
            key = json.dumps(c, sort_keys=True)
            nontrivial = ndocs >= 2 or len(c["files"]) >= 2
            chk.count(key, nontrivial=nontrivial,
                      sample={"args": case_args(c, ["f%d.yml" % j for j in range(len(c["files"]))]),
                              "files": [file_text(f) for f in c["files"]], "stdout": out.decode("utf-8", "replace"), "rc": rc}
                      if (i % 37 == 5 and ndocs >= 2) else None)
            dist["mode"][c["mode"]] = dist["mode"].get(c["mode"], 0) + 1
            fk = "".join(k for k in ("N", "json", "nul") if c["flags"][k]) or "plain"
            dist["flags"][fk] = dist["flags"].get(fk, 0) + 1
            dist["files"][len(c["files"])] = dist["files"].get(len(c["files"]), 0) + 1
            dist["docs"][ndocs] = dist["docs"].get(ndocs, 0) + 1
            dist["exit"][str(rc)] = dist["exit"].get(str(rc), 0) + 1
            dist["expr_results"][len(c["sels"])] = dist["expr_results"].get(len(c["sels"]), 0) + 1
            if "concat" in r:
                okc, exp, rc_exp, info = r["concat"]
                if not okc:
                    same_content = strip_seps(out) == strip_seps(exp) and (rc == 0) == (rc_exp == 0)
                    if same_content and has_detached(c):
                        n_known["sep-detached"] += 1
                        chk.known_finding("sep-detached", "yq '%s' over %d documents" % (expr_text(c["sels"]), ndocs))
                        if chk.is_known("sep-detached"):
                            continue
                    elif same_content and info.get("multi_later") and out.count(b"---\n") > exp.count(b"---\n"):
                        n_known["sep-later-file"] += 1
                        chk.known_finding("sep-later-file", "yq '%s' over %d files" % (expr_text(c["sels"]), len(c["files"])))
                        if chk.is_known("sep-later-file"):
                            continue
                    nviol += 1
                    if nviol <= 5:
                        chk.violation({"kind": "concat", "case": c, "stdout": out.decode("utf-8", "replace"),
                                       "expected_join_of_single_runs": exp.decode("utf-8", "replace"), "rc": rc, "rc_expected": rc_exp},
                                      True, "output of the multi-file run is not the separator-joined concatenation of the single-document runs")
            if r.get("indices") is False:
                nviol += 1
                if nviol <= 5:
                    chk.violation({"kind": "indices", "case": c, "stdout": out.decode("utf-8", "replace")}, True,
                                  "document_index / file_index / filename do not report the true position")
            if "ea_single" in r and not r["ea_single"][0]:
                # collect over a missing key differs by design (read-only traversal in eval-all): traversals not total
                partial = any(s in ("[.a]", "{\"x\": .a}") for s in c["sels"])
                if not partial:
                    nviol += 1
                    if nviol <= 5:
                        chk.violation({"kind": "ea_single", "case": c, "ea": out.decode("utf-8", "replace"),
                                       "e": r["ea_single"][1].decode("utf-8", "replace")}, True,
                                      "eval-all and eval differ on a single-document input")
            if r.get("identity") is False:
                nviol += 1
                if nviol <= 5:
                    chk.violation({"kind": "identity", "case": c, "stdout": out.decode("utf-8", "replace")}, True,
                                  "identity over N documents does not give N JSON documents")
        # --- other input formats, several files
        sweep = format_sweep(run_)
        for fmt, n, ok_, got, exp in sweep:
            chk.count(("sweep", fmt, n), nontrivial=True)
            if not ok_:
                if fmt in ("toml", "lua") and exp.startswith(got) and chk.is_known("toml-lua-later-files"):
                    n_known["toml-lua-later-files"] = n_known.get("toml-lua-later-files", 0) + 1
                    chk.known_finding("toml-lua-later-files", "yq -p=%s over %d files" % (fmt, n))
                    continue
                chk.violation({"kind": "sweep", "format": fmt, "files": SWEEP[fmt][:n], "stdout": got.decode("utf-8", "replace"),
                               "expected_join_of_single_runs": exp.decode("utf-8", "replace")}, True,
                              "-p=%s over %d files is not the concatenation of the single-file runs" % (fmt, n))
        # --- every other output format
        osw = output_sweep(run_, rng, 25 if thorough else 5)
        nbad = 0
        for args, texts, ok_, got, exp in osw:
            chk.count(("outsweep", tuple(args), tuple(texts)), nontrivial=len(texts) > 1 or "---" in texts[0])
            if not ok_:
                nbad += 1
                if nbad <= 3:
                    chk.violation({"kind": "outsweep", "args": args, "files": texts, "stdout": got.decode("utf-8", "replace"),
                                   "expected_concatenation_of_single_runs": exp.decode("utf-8", "replace")}, True,
                                  "%s output of several documents / files is not the concatenation of the single-document outputs" % args[1])
        chk.extra["output_format_sweep_runs"] = len(osw)
        # --- JSON streams: several values per file, several files
        js = json_streams(run_, rng, 40 if thorough else 8)
        for args, texts, ok_, got, exp in js:
            chk.count(("jsonstream", tuple(args), tuple(texts)), nontrivial=True)
            if not ok_:
                chk.violation({"kind": "jsonstream", "args": args, "files": texts, "stdout": got.decode("utf-8", "replace"),
                               "expected": exp.decode("utf-8", "replace")}, True,
                              "JSON stream over several files: separators / document_index / file_index / filename are not the true positions")
        chk.extra["json_stream_runs"] = len(js)
        # --- known: index operators on a copy of the document placed inside a constructed container
        rc_, out_, _ = run_.run_files(["a: 1\n", "a: 2\n"], lambda names: ["e", "[.] | .[0] | file_index"] + names)
        if out_ != b"0\n---\n1\n":
            if out_ == b"0\n0\n" and chk.is_known("index-of-constructed-copy"):
                chk.known_finding("index-of-constructed-copy", "yq '[.] | .[0] | file_index' f0.yml f1.yml -> 0 0")
            else:
                chk.violation({"kind": "constructed", "stdout": out_.decode("utf-8", "replace")}, True,
                              "file_index of a copy of the document inside a constructed sequence")
        chk.extra["format_sweep"] = {"%s/%d" % (f, n): o for f, n, o, _, _ in sweep}
        chk.extra["known_counts"] = n_known
        chk.extra["single_document_measurements"] = len(run_.single)
        chk.extra["oracle_runs"] = {k: sum(1 for r in orr if k in r) for k in ("concat", "indices", "ea_single", "identity")}
    finally:
        shutil.rmtree(root, ignore_errors=True)

    if disagreements and not chk.violations:
        c, (rc, out, err), mo = disagreements[0]
        chk.violation({"kind": "correspondence", "broken": "Model/Stream.v + Model/Printer.v vs stream_evaluator.go / printer.go / decoder_yaml.go",
                       "case": c, "args": case_args(c, ["f%d.yml" % j for j in range(len(c["files"]))]),
                       "files": [file_text(f) for f in c["files"]],
                       "impl": ("rc=%s " % rc) + out.decode("utf-8", "replace"), "model": repr(mo), "count": len(disagreements)},
                      False, "model and implementation disagree on %d cases (no violation of the property itself found)" % len(disagreements))
    if broken and not chk.violations:
        chk.violation({"kind": "obligation", "broken": broken}, False, "; ".join(broken)[:600])
    chk.extra["distribution"] = dist
    chk.extra["correspondence_disagreements"] = len(disagreements)
    return chk.finish(
        checker_cmd="make -C coq Props/C10.vo Model/StreamInst.vo (coqc 8.16.1, full .vo) + coqc work/C10/c10_cases_*.v (vm_compute)",
        rule="sequences of 1..%d files x 0..%d documents (empty files, comment-only files, leading `---`, comments before/after it, blank lines, "
             "head-commented later documents, files with a YAML error after their documents) x %d expressions (unions of %d document-local selectors "
             "with 0/1/2/n results per document, results below the root / replacing the root, index operators, document-local errors) x {eval, eval-all} "
             "x {-N, -o=json, -0}; fixed corner cases and a directed family (leading `---` in later files x root-first multi-result expressions) first. Non-trivial: at least two documents or two files; distinct by the whole case."
             % (maxfiles, maxdocs, len(EXPRS), len(SEL)),
        trusted=vlib.COMMON_TRUSTED + [
            "per-document result lists fed to the model are measured on the binary on single documents (yq -0 selector doc); the check only supplies, per selector, whether results stay below the document root and whether they carry the root's leading content",
            "the expression is abstract in the theorems (a function from stamped documents to results); operator semantics is C01's business",
            "YAML text of a single result is the encoder's (C05); leading content is abstracted to lines (marker line / other line)",
            "partial output of a node whose encoding fails after more than one 4096-byte buffer is not modelled; -s (split files), front matter, colours are outside the model",
        ],
        assumptions=["TInv hypotheses: what handlers write into the shared expression tree never changes a later result (the one write in the source, sortOperator's RHS, is proved to satisfy them in the model)",
                     "correspondence is sampled; the unbounded claim is the Coq theorem over the model"])
