"""C09 — parsing honours operator precedence, grouping and layout-insensitivity.

Decided by: theorems Props/C09.v (table-vs-spec over the regenerated operator
table; unbounded correctness of the shunting-yard/tree builder on a precedence
grammar with () [] {} and prefix functions; redundant parentheses; rejection
of unbalanced brackets / missing operands).
Tie: translator (Gen/OpTable.v) + correspondence of Model/PostProcess.v,
Postfix.v, Tree.v with ExpressionParser.ParseExpression on generated token
sequences (the python generator supplies, for every expression text, the raw
tokens it is meant to lex to; the regex lexer itself is not modelled).
Direct oracle: for every generated term the implementation's operator tree of
the minimally parenthesised spelling (parentheses decided by the SPEC's
precedence relation, not by the table), of the fully parenthesised spelling
and of every layout variant must be the tree the term denotes, both spellings
must evaluate to the same results, and malformed strings must be rejected.
"""
import json, os, re, sys, time
import vlib

sys.setrecursionlimit(20000)

IMPORTS = ("From Coq Require Import String.\nFrom YQ Require Import Base.Str Base.Regex Gen.OpTable Gen.LexRules Model.Postfix Model.Tree Model.PostProcess Model.Lexer.\n"
           "Open Scope string_scope.")

# ----------------------------------------------------------------------------
# the grammar: operators with the SPEC's class ranks (Spec/PrecSpec.v), never the numbers
# ----------------------------------------------------------------------------
# symbol -> (go var, type, (rank_lo, rank_hi), canonical val)
BINOPS = {
    ",": ("unionOpType", "UNION", (0, 0), ""),
    ";": ("blockOpType", "BLOCK", (0, 0), ""),
    ":": ("createMapOpType", "CREATE_MAP", (1, 1), ""),
    "or": ("orOpType", "OR", (2, 2), ""),
    "and": ("andOpType", "AND", (2, 2), ""),
    "|": ("pipeOpType", "PIPE", (3, 3), ""),
    "ireduce": ("reduceOpType", "REDUCE", (4, 4), ""),
    "=": ("assignOpType", "ASSIGN", (5, 5), ""),
    "|=": ("assignOpType", "ASSIGN", (5, 5), "u"),
    "+=": ("addAssignOpType", "ADD_ASSIGN", (5, 5), ""),
    "-=": ("subtractAssignOpType", "SUBTRACT_ASSIGN", (5, 5), ""),
    "as": ("assignVariableOpType", "ASSIGN_VARIABLE", (5, 5), ""),
    "==": ("equalsOpType", "EQUALS", (5, 5), ""),
    "!=": ("notEqualsOpType", "NOT_EQUALS", (5, 5), ""),
    "<": ("compareOpType", "COMPARE", (5, 5), "lt"),
    "<=": ("compareOpType", "COMPARE", (5, 5), "le"),
    ">": ("compareOpType", "COMPARE", (5, 5), "gt"),
    ">=": ("compareOpType", "COMPARE", (5, 5), "ge"),
    # `*=` is not ordered by the spec relative to classes 5/6: parenthesise unless both readings agree
    "*=": ("multiplyAssignOpType", "MULTIPLY_ASSIGN", (5, 6), ""),
    "+": ("addOpType", "ADD", (6, 6), ""),
    "-": ("subtractOpType", "SUBTRACT", (6, 6), ""),
    "*": ("multiplyOpType", "MULTIPLY", (6, 6), ""),
    "/": ("divideOpType", "DIVIDE", (6, 6), ""),
    "%": ("moduloOpType", "MODULO", (6, 6), ""),
    "//": ("alternativeOpType", "ALTERNATIVE", (6, 6), ""),
}
# operators safe to evaluate on plain documents (no variables / reduce / separators out of place)
EVAL_BINOPS = [",", "or", "and", "|", "=", "|=", "+=", "-=", "*=", "==", "!=", "<", "<=", ">", ">=", "+", "-", "*", "/", "%", "//"]
# prefix functions: name -> (go var, type, rank, cpt, arities)
FUNCS = {
    "select": ("selectOpType", "SELECT", 9, True, (1,)),
    "map": ("mapOpType", "MAP", 9, True, (1,)),
    "map_values": ("mapValuesOpType", "MAP_VALUES", 9, True, (1,)),
    "filter": ("filterOpType", "FILTER", 9, True, (1,)),
    "sort_by": ("sortByOpType", "SORT_BY", 9, True, (1,)),
    "group_by": ("groupByOpType", "GROUP_BY", 9, True, (1,)),
    "unique_by": ("uniqueByOpType", "UNIQUE_BY", 9, True, (1,)),
    "pick": ("pickOpType", "PICK", 9, True, (1,)),
    "with": ("withOpType", "WITH", 9, True, (2,)),
    "has": ("hasOpType", "HAS", 8, False, (1,)),
    "contains": ("containsOpType", "CONTAINS", 8, False, (1,)),
    "join": ("joinStringOpType", "JOIN", 8, False, (1,)),
    "test": ("testOpType", "TEST", 8, False, (1,)),
    "sub": ("subStringOpType", "SUBSTR", 8, False, (2,)),
    "any_c": ("anyConditionOpType", "ANY_CONDITION", 8, False, (1,)),
    "all_c": ("allConditionOpType", "ALL_CONDITION", 8, False, (1,)),
    "with_entries": ("withEntriesOpType", "WITH_ENTRIES", 8, False, (1,)),
    "del": ("deleteChildOpType", "DELETE", 5, False, (1,)),
}
# every one-argument (prefix) operator of the table with a lexeme: name -> (type, spec rank, number of ;-separated arguments)
PREFIX_OPS = {
    "all_c": ("ALL_CONDITION", 8, 1), "any_c": ("ANY_CONDITION", 8, 1), "capture": ("CAPTURE", 8, 1), "collect": ("COLLECT", 8, 1),
    "contains": ("CONTAINS", 8, 1), "error": ("ERROR", 8, 1), "format_datetime": ("FORMAT_DATE_TIME", 8, 1), "has": ("HAS", 8, 1),
    "join": ("JOIN", 8, 1), "match": ("MATCH", 8, 1), "setpath": ("SET_PATH", 8, 2), "sub": ("SUBSTR", 8, 2), "test": ("TEST", 8, 1),
    "tz": ("TIMEZONE", 8, 1), "with_dtf": ("WITH_DATE_TIME_FORMAT", 8, 2), "with_entries": ("WITH_ENTRIES", 8, 1),
    "delpaths": ("DEL_PATHS", 9, 1), "eval": ("EVAL", 9, 1), "explode": ("EXPLODE", 9, 1), "filter": ("FILTER", 9, 1), "group_by": ("GROUP_BY", 9, 1),
    "load": ("LOAD", 9, 1), "load_str": ("LOAD_STRING", 9, 1), "map": ("MAP", 9, 1), "map_values": ("MAP_VALUES", 9, 1), "omit": ("OMIT", 9, 1),
    "pick": ("PICK", 9, 1), "select": ("SELECT", 9, 1), "sort_by": ("SORT_BY", 9, 1), "sort_keys": ("SORT_KEYS", 9, 1), "split": ("SPLIT", 9, 1),
    "unique_by": ("UNIQUE_BY", 9, 1), "with": ("WITH", 9, 2), "del": ("DELETE", 5, 1),
}
# nullary words: name -> (go var, type, rank, cpt)
WORDS = {
    "length": ("lengthOpType", "LENGTH", 8, False),
    "min": ("minOpType", "MIN", 8, False),
    "max": ("maxOpType", "MAX", 8, False),
    "not": ("notOpType", "NOT", 8, False),
    "key": ("getKeyOpType", "GET_KEY", 8, False),
    "kind": ("getKindOpType", "GET_KIND", 8, False),
    "to_string": ("toStringOpType", "TO_STRING", 8, False),
    "keys": ("keysOpType", "KEYS", 9, True),
    "sort": ("sortOpType", "SORT", 9, True),
    "reverse": ("reverseOpType", "REVERSE", 9, True),
    "unique": ("uniqueOpType", "UNIQUE", 9, True),
    "to_entries": ("toEntriesOpType", "TO_ENTRIES", 9, True),
}
ATOM = (99, 99)
BR = {"(": "BParen", "[": "BCollect", "{": "BObject", ")": "BParen", "]": "BCollect", "}": "BObject"}


def cstr(s):
    return "[" + ";".join(str(b) for b in s.encode()) + "]"


def cbool(b):
    return "true" if b else "false"


class Lex:
    """one lexeme = one raw token of the lexer"""
    __slots__ = ("text", "ctok", "cls")

    def __init__(self, text, ctok, cls):
        self.text, self.ctok, self.cls = text, ctok, cls


def lx_op(sym):
    var, _, _, val = BINOPS[sym]
    return Lex(sym, 'CO "%s" %s false false' % (var, cstr(val)), "word" if sym[0].isalpha() else "op")


def lx_open(c):
    return Lex(c, "CL %s" % BR[c], "open")


def lx_close(c, opt=False):
    return Lex(c + ("?" if opt else ""), "CR %s %s" % (BR[c], cbool(opt)), "close")


# ----------------------------------------------------------------------------
# terms
# ----------------------------------------------------------------------------
def rank(t):
    k = t[0]
    if k in ("path", "self", "var"):
        return (10, 10)
    if k in ("num", "str", "lit"):
        return (8, 8)
    if k == "word":
        r = WORDS[t[1]][2]
        return (r, r)
    if k == "fn":
        r = FUNCS[t[1]][2]
        return (r, r)
    if k == "bin":
        return BINOPS[t[1]][2]
    if k == "chain":
        return (7, 7)
    return ATOM


def leaf_lex(t):
    k = t[0]
    if k == "path":
        return Lex("." + t[1] + ("?" if t[2] else ""), 'CO "traversePathOpType" %s %s true' % (cstr(t[1]), cbool(t[2])), "path")
    if k == "self":
        return Lex(".", 'CO "selfReferenceOpType" [] false false', "self")
    if k == "var":
        return Lex("$" + t[1], 'CO "getVariableOpType" %s false true' % cstr(t[1]), "var")
    if k in ("num", "lit"):
        return Lex(t[1], 'CO "valueOpType" %s false false' % cstr(t[1]), "num" if k == "num" else "word")
    if k == "str":
        return Lex('"' + t[1] + '"', 'CO "stringInterpolationOpType" %s false false' % cstr(t[1]), "str")
    if k == "word":
        var, _, _, cpt = WORDS[t[1]]
        return Lex(t[1], 'CO "%s" [] false %s' % (var, cbool(cpt)), "word")
    raise ValueError(t)


def render(t, mode, rng=None):
    """term -> list of Lex.  mode: 'min' (parentheses only where the spec's relation needs them),
    'full' (every application and every operand bracketed), 'red' (min plus random redundant parentheses)."""
    k = t[0]

    def wrap(ls):
        return [lx_open("(")] + ls + [lx_close(")")]

    def extra(ls, is_leaf=False):
        if mode == "full":
            return wrap(ls)
        if mode == "red" and rng.random() < 0.3:
            ls = wrap(ls)
            if rng.random() < 0.2:
                ls = wrap(ls)
        return ls

    if k in ("path", "self", "var", "num", "lit", "str", "word"):
        return [leaf_lex(t)]
    if k == "bin":
        lo, hi = BINOPS[t[1]][2]
        a, b = t[2], t[3]
        la, lb = render(a, mode, rng), render(b, mode, rng)
        if not rank(a)[0] > hi:
            la = wrap(la)
        else:
            la = extra(la)
        if not rank(b)[0] >= hi:
            lb = wrap(lb)
        else:
            lb = extra(lb)
        return la + [lx_op(t[1])] + lb
    if k == "fn":
        var, _, _, cpt, _ = FUNCS[t[1]]
        args = t[2]
        inner = []
        for i, a in enumerate(args):
            la = render(a, mode, rng)
            if len(args) > 1 and not rank(a)[0] > 0:   # a `,` / `;` inside an argument of f(a;b)
                la = wrap(la)
            else:
                la = extra(la)
            if i:
                inner.append(lx_op(";"))
            inner += la
        return [Lex(t[1], 'CO "%s" [] false %s' % (var, cbool(cpt)), "word")] + wrap(inner)
    if k == "paren":
        return wrap(render(t[1], mode, rng))
    if k == "collect":
        inner = render(t[1], mode, rng) if t[1] is not None else []
        if inner:
            inner = extra(inner)
        return [lx_open("[")] + inner + [lx_close("]")]
    if k == "object":
        inner = render(t[1], mode, rng) if t[1] is not None else []
        return [lx_open("{")] + inner + [lx_close("}")]
    if k == "chain":
        prim, sufs = t[1], t[2]
        out = []
        start = 0
        if prim[0] == "self":
            # `.[` is ONE lexeme (traverseArrayCollect)
            assert sufs and sufs[0][0] == "["
            s = sufs[0]
            inner = render(s[1], mode, rng) if s[1] is not None else []
            out = [Lex(".[", "CT", "open")] + inner + [lx_close("]", s[2])]
            start = 1
        else:
            lp = render(prim, mode, rng)
            if prim[0] in ("bin",) or (prim[0] == "fn" and not FUNCS[prim[1]][3]) or (prim[0] == "word" and not WORDS[prim[1]][3]) \
                    or prim[0] in ("num", "lit", "str"):
                lp = wrap(lp)        # the primary must end in a token with CheckForPostTraverse
            else:
                lp = extra(lp)
            out = lp
        for s in sufs[start:]:
            if s[0] == ".":
                out.append(leaf_lex(("path", s[1], s[2])))
            else:
                inner = render(s[1], mode, rng) if s[1] is not None else []
                out += [lx_open("[")] + inner + [lx_close("]", s[2])]
        return out
    raise ValueError(t)


def ser(typ, val="", l="_", r="_", opt=False):
    return "(%s:%s%s %s %s)" % (typ, val, "?" if opt else "", l, r)


def expected(t):
    """the operator tree the term denotes (independent of any precedence number)"""
    k = t[0]
    if k == "path":
        return ser("TRAVERSE_PATH", t[1], opt=t[2])
    if k == "self":
        return ser("SELF")
    if k == "var":
        return ser("GET_VARIABLE", t[1])
    if k in ("num", "lit"):
        return ser("VALUE", t[1])
    if k == "str":
        return ser("STRING_INT", t[1])
    if k == "word":
        return ser(WORDS[t[1]][1])
    if k == "bin":
        _, typ, _, val = BINOPS[t[1]]
        return ser(typ, val, expected(t[2]), expected(t[3]))
    if k == "fn":
        typ = FUNCS[t[1]][1]
        args = t[2]
        if len(args) == 1:
            return ser(typ, "", "_", expected(args[0]))
        return ser(typ, "", "_", ser("BLOCK", "", expected(args[0]), expected(args[1])))
    if k == "paren":
        return expected(t[1])
    if k == "collect":
        return ser("COLLECT", "", "_", expected(t[1]) if t[1] is not None else ser("EMPTY"))
    if k == "object":
        return ser("SHORT_PIPE", "", expected(t[1]) if t[1] is not None else ser("EMPTY"), ser("COLLECT_OBJECT"))
    if k == "chain":
        prim, sufs = t[1], t[2]
        segs = [[expected(prim), []]]
        for s in sufs:
            if s[0] == ".":
                segs.append([expected(("path", s[1], s[2])), []])
            else:
                segs[-1][1].append(s)
        trees = []
        for head, idxs in segs:
            cur = head
            for s in idxs:
                cur = ser("TRAVERSE_ARRAY", "", cur, ser("COLLECT", "", "_", expected(s[1]) if s[1] is not None else ser("EMPTY")), opt=s[2])
            trees.append(cur)
        cur = trees[-1]
        for tr in reversed(trees[:-1]):
            cur = ser("SHORT_PIPE", "", tr, cur)
        return cur
    raise ValueError(t)


def go_ser(n):
    """canonical serialisation of the harness' tree dump (same format as Model/Tree.v ser_tree)"""
    if n is None:
        return "NIL"
    typ = n.get("op", "")
    val = ""
    prefs = n.get("prefs", "")
    if typ in ("TRAVERSE_PATH", "VALUE", "STRING_INT", "GET_VARIABLE"):
        val = n.get("val", "")
    elif typ == "ASSIGN":
        val = "u" if n.get("upd") else ""
    elif typ == "COMPARE":
        val = ("g" if "Greater:true" in prefs else "l") + ("e" if "OrEqual:true" in prefs else "t")
    opt = typ in ("TRAVERSE_PATH", "TRAVERSE_ARRAY") and "OptionalTraverse:true" in prefs
    return ser(typ, val, go_ser(n["l"]) if "l" in n else "_", go_ser(n["r"]) if "r" in n else "_", opt)


ERRMAP = [("could not find matching `]`", "ERR:missing]"), ("could not find matching `}`", "ERR:missing}"),
          ("could not find matching `)`", "ERR:missing)"), ("got close brackets without matching", "ERR:noopen)"),
          ("got close collect brackets without matching", "ERR:noopen]"), ("probably missing close bracket", "ERR:leftover"),
          ("expects 1 arg but received none", "ERR:arity1"), ("expects 2 args but there", "ERR:arity2"),
          ("please check expression syntax", "ERR:badexpr"), ("lexer:", "ERR:lexer")]


def impl_class(r):
    """response of the parse op -> canonical bytes (tree or error class)"""
    if r is None or r.get("crash") or r.get("harness_error"):
        return "ERR:harness " + repr(r)[:200]
    if r.get("panic"):
        return "PANIC:" + r["panic"]
    if r.get("timeout"):
        return "TIMEOUT"
    if "err" in r:
        for pat, cls in ERRMAP:
            if pat in r["err"]:
                return cls
        return "ERR:other " + r["err"][:120]
    return go_ser(r.get("tree"))


# ----------------------------------------------------------------------------
# layout
# ----------------------------------------------------------------------------
PATH_STOP = set(" ;}{:[],|.()=\n!")


def can_join(a, b):
    """may lexemes a b be written without any blank between them and still be cut into the same two tokens?
    (conservative; the two recorded lexer findings and the documented flag syntax of * and = are kept apart)"""
    x, y = a.text, b.text
    if a.cls in ("path", "var"):
        return y[0] in PATH_STOP and not (a.cls == "var" and False)
    if a.cls == "self":
        return y[0] in ")]},|;:=!" or y in ("==", "!=")
    if a.cls == "num":
        return not (y[0].isalnum() or y[0] in "._$\"")
    if a.cls == "word":
        return not (y[0].isalnum() or y[0] in "_$")
    if a.cls == "str":
        return not y[0] == '"'
    if x == "-" or x == "-=":
        return not y[0].isdigit()          # `-1` is cut as a number: finding sub-number
    if x in ("*", "*="):
        return y[0] not in "+|?cdn="       # merge flags
    if x in ("=", "|="):
        return y[0] not in "c=" and y[0] != "|"
    if x in ("<", ">", "!", "|", "/", "+"):
        if y[0] in "=/|":
            return False
    if b.cls == "num" and y[0] == "-":
        return False
    if x == "." or (x[-1] == "." and y[0] in ".[\""):
        return False
    if a.cls == "open" and x == ".[":
        return True
    # a number directly after `-`handled above; `)` `]` `}` followed by a path / `[` is the postfix production itself
    return True


COMMENT_TEXTS = [" # c\n", " # ) ] } ( | == \"\n", "\n# .a + 1\n", " #\n"]


def layout(ls, style, rng):
    if style == "space":
        return " ".join(l.text for l in ls)
    out = []
    for i, l in enumerate(ls):
        if i:
            p = ls[i - 1]
            if style == "tight":
                sep = "" if can_join(p, l) else " "
            elif style == "newline":
                sep = "\n"
            elif style == "comment":
                sep = COMMENT_TEXTS[i % len(COMMENT_TEXTS)]
            else:  # mixed
                choices = [" ", "  ", "\n", " \n ", " # x\n", "\n#y | (\n "]
                choices += ["\t", " \t", "\t"]     # TAB is a blank everywhere (after a path element too, since fix 5a4c6b6)
                if can_join(p, l):
                    choices += ["", ""]
                sep = rng.choice(choices)
            out.append(sep)
        out.append(l.text)
    s = "".join(out)
    if style == "mixed":
        s = rng.choice(["", " ", "\n", " # lead\n"]) + s + rng.choice(["", " ", "\n", " # trail", "\t"])
    return s


# ----------------------------------------------------------------------------
# generators
# ----------------------------------------------------------------------------
def gen_leaf(rng, for_eval=True):
    r = rng.random()
    if r < 0.4:
        return ("path", rng.choice(["a", "b", "c", "x-y", "k1"]), rng.random() < 0.1)
    if r < 0.55:
        return ("num", rng.choice(["0", "1", "2", "3", "10", "1.5", "0x1F"]))
    if r < 0.65:
        return ("str", rng.choice(["a", "b", "x y", "k # not a comment", ")(", ""]))
    if r < 0.72:
        return ("self",)
    if r < 0.8:
        return ("lit", rng.choice(["true", "false", "null"]))
    if r < 0.95 or for_eval:
        return ("word", rng.choice(list(WORDS)))
    return ("var", rng.choice(["v", "i"]))


def gen_term(rng, depth, for_eval=True):
    if depth <= 0:
        return gen_leaf(rng, for_eval)
    r = rng.random()
    if r < 0.45:
        ops = EVAL_BINOPS if for_eval else [o for o in BINOPS if o not in (":", ";")]
        return ("bin", rng.choice(ops), gen_term(rng, depth - 1, for_eval), gen_term(rng, depth - 1, for_eval))
    if r < 0.6:
        f = rng.choice(list(FUNCS))
        n = rng.choice(FUNCS[f][4])
        return ("fn", f, [gen_term(rng, depth - 1, for_eval) for _ in range(n)])
    if r < 0.68:
        return ("collect", gen_term(rng, depth - 1, for_eval) if rng.random() < 0.85 else None)
    if r < 0.76:
        if rng.random() < 0.1:
            return ("object", None)
        n = rng.choice([1, 1, 2, 3])
        ents = []
        for _ in range(n):
            key = rng.choice([("str", "p"), ("str", "q"), ("path", "a", False), ("path", "b", False)])
            val = gen_term(rng, depth - 1, for_eval)
            ents.append(("bin", ":", key, val))
        inner = ents[-1]
        for e in reversed(ents[:-1]):
            inner = ("bin", ",", e, inner)
        return ("object", inner)
    if r < 0.95:
        # postfix chain
        pr = rng.random()
        if pr < 0.3:
            prim = ("path", rng.choice(["a", "b", "c"]), False)
        elif pr < 0.45:
            prim = ("self",)
        elif pr < 0.6:
            f = rng.choice([f for f in FUNCS if FUNCS[f][3]])
            prim = ("fn", f, [gen_term(rng, depth - 1, for_eval) for _ in range(rng.choice(FUNCS[f][4]))])
        elif pr < 0.7:
            prim = ("word", rng.choice([w for w in WORDS if WORDS[w][3]]))
        elif pr < 0.8:
            prim = ("collect", gen_term(rng, depth - 1, for_eval))
        else:
            prim = gen_term(rng, depth - 1, for_eval)
            if prim[0] in ("chain", "self"):
                prim = ("collect", prim)
        sufs = []
        for i in range(rng.choice([1, 1, 2, 3])):
            if rng.random() < 0.5 or (i == 0 and prim[0] == "self"):
                idx = rng.random()
                inner = None if idx < 0.25 else (("num", rng.choice(["0", "1", "2"])) if idx < 0.7 else gen_term(rng, max(0, depth - 2), for_eval))
                sufs.append(("[", inner, rng.random() < 0.15))
            else:
                sufs.append((".", rng.choice(["a", "b", "c"]), rng.random() < 0.1))
        return ("chain", prim, sufs)
    return gen_leaf(rng, for_eval)


DOCS = ['{"a":{"b":2,"c":[1,2,3],"a":"x"},"b":5,"c":[3,1,2],"k1":"s","x-y":null}', '[1,2,3]', '{"a":1,"b":2,"c":[{"a":1},{"a":2,"b":[0]}]}', '"str"']

KNOWN_INPUTS = {
    "sub-number": ["3-1", "3 -1"],
    "colon-close": ["[1: ]"],
}
# repaired in /repo (KNOWN_FINDINGS `fixed:` lines); replayed as ordinary cases on every run
FIXED_CASES = [
    ("eval-eq", ".a\t| .b", ".a | .b"), ("eval-eq", ".\t| .b", ". | .b"), ("eval-eq", ".a\t.b", ".a .b"),
    ("tree-eq", ". | min == 1", ". | ((min) == 1)"), ("tree-eq", "max - min", "(max) - (min)"), ("tree-eq", "1 + min", "1 + (min)"),
    ("reject", "1 2 +", None), ("reject", "+ 1 2", None), ("reject", "1 + 2 3 *", None), ("reject", "1 + select 2", None),
    ("reject", "1 ) ( | 2", None), ("reject", ")(", None), ("reject", "1 ) ( + 2", None),
]


def parse_reqs(exprs):
    return [{"op": "parse", "expr_b64": vlib.b64e(e)} for e in exprs]


def eval_req(expr, doc):
    return {"op": "eval", "expr_b64": vlib.b64e(expr), "input": doc, "in": "json", "out": "json", "indent": 0, "deadline_ms": 5000}


def eval_obs(r):
    if r is None or r.get("crash"):
        return ("crash",)
    if r.get("panic"):
        return ("panic", r["panic"])
    if r.get("timeout"):
        return ("timeout",)
    if "err" in r:
        return ("err", r.get("stage", "eval"))
    return ("ok", r.get("out_b64"))


def check_known(chk):
    """replay the recorded findings on the implementation (exact inputs)"""
    doc = '{"a":{"b":2},"b":5}'
    # sub-number: `3-1` and `3 -1` must mean 3 - 1 = 2
    rs = vlib.yqh_batch([eval_req("3-1", doc), eval_req("3 -1", doc), eval_req("3 - 1", doc)])
    o = [eval_obs(r) for r in rs]
    if o[2][0] == "ok" and (o[0] != o[2] or o[1] != o[2]):
        chk.known_finding("sub-number", "`3-1` -> %s, `3 -1` -> %s, `3 - 1` -> ok" % (o[0][0], o[1][0]))
    r = vlib.yqh_batch(parse_reqs(["[1: ]"]))[0]
    if not impl_class(r).startswith("ERR"):
        chk.known_finding("colon-close", "`[1: ]` is accepted as %s" % impl_class(r))
    # the repaired findings must stay repaired
    for kind, a, b in FIXED_CASES:
        if kind == "eval-eq":
            rs = vlib.yqh_batch([eval_req(a, doc), eval_req(b, doc)])
            chk.count(("fixed", a), nontrivial=True)
            if eval_obs(rs[0]) != eval_obs(rs[1]) or eval_obs(rs[0])[0] != "ok":
                chk.violation({"kind": "eval", "expr_a": a, "expr_b": b, "doc": doc}, True, "a TAB between tokens changes the result (regression of a repaired finding)")
        elif kind == "tree-eq":
            rs = vlib.yqh_batch(parse_reqs([a, b]))
            c = [impl_class(r) for r in rs]
            chk.count(("fixed", a), nontrivial=True)
            if c[0] != c[1] or c[0].startswith("ERR"):
                chk.violation({"kind": "tree", "expr": a, "expected": c[1], "impl": c[0]}, True, "min/max do not parse as operands (regression of a repaired finding)")
        else:
            r = vlib.yqh_batch(parse_reqs([a]))[0]
            chk.count(("fixed", a), nontrivial=True)
            if not impl_class(r).startswith("ERR:"):
                chk.violation({"kind": "reject", "expr": a, "mutation": "fixed-finding", "impl": impl_class(r)}, True, "a malformed expression is accepted (regression of a repaired finding)")


def ctoks(ls):
    return "[" + "; ".join(l.ctok for l in ls) + "]"


def replay(rp):
    kind = rp.get("kind")
    if kind == "tree":
        r = vlib.yqh_batch(parse_reqs([rp["expr"]]))[0]
        return impl_class(r) == rp["expected"]
    if kind == "eval":
        rs = vlib.yqh_batch([eval_req(rp["expr_a"], rp["doc"]), eval_req(rp["expr_b"], rp["doc"])])
        return eval_obs(rs[0]) == eval_obs(rs[1])
    if kind == "reject":
        r = vlib.yqh_batch(parse_reqs([rp["expr"]]))[0]
        return impl_class(r).startswith("ERR")
    if kind == "file":
        d = os.path.join(vlib.WORK, "C09", "replay")
        os.makedirs(d, exist_ok=True)
        res = []
        for nm in ("script_b64", "reference_b64"):
            with open(os.path.join(d, nm + ".yq"), "wb") as f:
                f.write(vlib.b64d(rp[nm]))
            with open(os.path.join(d, "doc.json"), "w") as f:
                f.write(rp["doc"])
            rc, out, _ = vlib.run_yq(["-o=json", "-I=0", "--from-file", os.path.join(d, nm + ".yq"), os.path.join(d, "doc.json")])
            res.append((rc if rc == 0 else 1, out if rc == 0 else b""))
        return res[0] == res[1]
    return False


def run(chk):
    thorough = chk.tier == "thorough"
    rng = chk.rng
    proved, plog = chk.prove("Props/C09.v", clean=False)
    broken = []
    if not proved:
        broken.append("proof obligations of Props/C09.v do not check: " + plog[-800:])
    check_known(chk)

    # ---------------------------------------------------------------- cases
    # each case: (term, spelling name, lexemes, layout style, text)
    cases = []
    terms = []

    def add_term(t, styles, tag):
        ti = len(terms)
        terms.append((t, tag))
        lmin, lfull = render(t, "min"), render(t, "full")
        lred = render(t, "red", rng)
        cases.append((ti, "min", lmin, "space", layout(lmin, "space", rng)))
        cases.append((ti, "full", lfull, "space", layout(lfull, "space", rng)))
        for st in styles:
            src = rng.choice([lmin, lmin, lred, lfull])
            cases.append((ti, "min" if src is lmin else ("red" if src is lred else "full"), src, st, layout(src, st, rng)))
        if lred != lmin:
            cases.append((ti, "red", lred, "space", layout(lred, "space", rng)))

    # (1) all ordered pairs of binary operators, both groupings, leaves of several kinds
    pair_ops = [o for o in BINOPS]
    A, B, C = ("path", "a", False), ("num", "1"), ("path", "c", False)
    for o1 in pair_ops:
        for o2 in pair_ops:
            add_term(("bin", o1, A, ("bin", o2, B, C)), ["tight", "mixed"] if thorough else ["tight"], "pair")
            add_term(("bin", o2, ("bin", o1, A, B), C), ["comment"] if thorough else [], "pair")
    # (2) every binary operator against every prefix function and postfix chain
    for o in pair_ops:
        for f in FUNCS:
            args = [A] if FUNCS[f][4] == (1,) else [A, B]
            add_term(("bin", o, ("fn", f, args), C), [], "opfn")
            add_term(("bin", o, C, ("fn", f, args)), [], "opfn")
            if FUNCS[f][3]:
                add_term(("bin", o, ("chain", ("fn", f, args), [(".", "b", False)]), ("chain", ("fn", f, args), [("[", ("num", "0"), False)])), [], "opfn")
        add_term(("bin", o, ("chain", A, [("[", B, False), (".", "b", False)]), ("chain", ("self",), [("[", None, False)])), ["tight"], "opchain")
        add_term(("bin", o, ("collect", ("bin", o, A, B)), ("object", ("bin", ":", ("str", "k"), ("bin", "+", A, B)))), ["newline"], "opbr")
    # (2b) long chains of one operator: grouping and acceptance must not depend on the length; the last / a middle
    # operand in redundant parentheses, a function call, a collect, an index
    for sym in ("|", ",", "+", "//", "and"):
        for n in ((50, 100, 150, 300) if not thorough else (50, 99, 100, 101, 150, 300, 600)):
            for last in (A, ("paren", A), ("fn", "select", [A]), ("fn", "has", [("str", "a")]), ("collect", A), ("chain", A, [("[", ("num", "0"), False)])):
                t = last
                for k in range(n - 1):
                    t = ("bin", sym, ("paren", C) if k == n // 2 and last[0] == "paren" else A, t)
                ti = len(terms)
                terms.append((t, "long"))
                lmin = render(t, "min")
                cases.append((ti, "min", lmin, "space", layout(lmin, "space", rng)))
                if last[0] in ("paren", "fn") and n in (100, 300):
                    lfull = render(t, "full")
                    cases.append((ti, "full", lfull, "space", layout(lfull, "space", rng)))
            # the same chain inside a bracket / as a function argument
            t = ("collect", t)
            terms.append((t, "long"))
            lmin = render(t, "min")
            cases.append((len(terms) - 1, "min", lmin, "tight", layout(lmin, "tight", rng)))
    # (3) random terms
    n_rand = 12000 if thorough else 800
    rand_start = len(terms)
    for i in range(n_rand):
        t = gen_term(rng, rng.choice([1, 2, 2, 3, 3, 4] if not thorough else [2, 3, 3, 4, 4, 5]), for_eval=True)
        add_term(t, ["tight", "newline", "comment", "mixed", "mixed"], "rand")
    for i in range(n_rand // 4):
        t = gen_term(rng, rng.choice([2, 3]), for_eval=False)
        add_term(t, ["tight", "mixed"], "randp")

    T = {"gen": round(time.time() - chk.t0, 1)}
    # ---------------------------------------------------------------- implementation
    resp = vlib.yqh_parallel(parse_reqs([c[4] for c in cases]))
    impl = [impl_class(r) for r in resp]
    exp = [expected(terms[c[0]][0]) for c in cases]
    nviol = 0
    dist = {}
    for c, im, ex in zip(cases, impl, exp):
        t, tag = terms[c[0]]
        dist[tag + "/" + c[3]] = dist.get(tag + "/" + c[3], 0) + 1
        chk.count(("tree", c[4]), nontrivial=(t[0] in ("bin", "chain", "fn") and len(c[2]) >= 5),
                  sample={"expr": c[4], "tree": im} if (len(c[2]) > 8 and c[3] != "space") else None)
        if im != ex:
            nviol += 1
            if nviol <= 5:
                chk.violation({"kind": "tree", "expr": c[4], "spelling": c[1], "layout": c[3], "expected": ex, "impl": im,
                               "min_spelling": layout(render(t, "min"), "space", rng), "full_spelling": layout(render(t, "full"), "space", rng)},
                              True, "the %s/%s spelling is not parsed as the bracketing the term denotes" % (c[1], c[3]))
    bad_rec = [c[4] for c in cases if not wellformed(c[2])]
    if bad_rec:
        broken.append("the check's own grammar recogniser rejects a generated expression: %r" % bad_rec[0])
    chk.extra["tree_cases"] = len(cases)
    chk.extra["tree_mismatches"] = nviol

    # ---------------------------------------------------------------- prefix function DIRECTLY followed by a suffix / operator
    # f(x).b  f(x)[0]  f(x) + y ...: by the table the call binds like any operator of its class, so a follower that
    # binds at least as tight is taken INTO the call (del(.a).b = del((.a).b), has("a")[0] = has("a"[0])).
    # Expected trees by precedence climbing over the SPEC ranks (equal rank nests right; TRAVERSE_ARRAY takes only its bracket).
    fol_cases = []   # (text, expected)
    A_t, A_x = ".a", ser("TRAVERSE_PATH", "a")

    def climb(lhs, ops, i, minr):
        while i < len(ops) and ops[i][1] >= minr:
            typ, r, val, atom = ops[i]
            i += 1
            if typ == "TRAVERSE_ARRAY":
                rhs = atom
            else:
                rhs, i = climb(atom, ops, i, r)
            lhs = ser(typ, val, lhs, rhs)
        return lhs, i

    followers = [([".b"], [("SHORT_PIPE", 7, "", ser("TRAVERSE_PATH", "b"))]),
                 (["[", "0", "]"], [("TRAVERSE_ARRAY", 8, "", ser("COLLECT", "", "_", ser("VALUE", "0")))]),
                 (["[", "]"], [("TRAVERSE_ARRAY", 8, "", ser("COLLECT", "", "_", ser("EMPTY")))]),
                 ([".b", "[", "1", "]"], [("SHORT_PIPE", 7, "", ser("TRAVERSE_PATH", "b")), ("TRAVERSE_ARRAY", 8, "", ser("COLLECT", "", "_", ser("VALUE", "1")))]),
                 (["[", "0", "]", ".b"], [("TRAVERSE_ARRAY", 8, "", ser("COLLECT", "", "_", ser("VALUE", "0"))), ("SHORT_PIPE", 7, "", ser("TRAVERSE_PATH", "b"))])]
    for sym in BINOPS:
        if sym == "*=":
            continue
        _, typ, (lo, hi), val = BINOPS[sym]
        followers.append(([sym, ".c"], [(typ, lo, val, ser("TRAVERSE_PATH", "c"))]))
        followers.append(([".b", sym, ".c"], [("SHORT_PIPE", 7, "", ser("TRAVERSE_PATH", "b")), (typ, lo, val, ser("TRAVERSE_PATH", "c"))]))
    for fname, (ftyp, frank, nargs) in PREFIX_OPS.items():
        argtxt, argtree = ([A_t], A_x) if nargs == 1 else ([A_t, ";", "2"], ser("BLOCK", "", A_x, ser("VALUE", "2")))
        for ftoks, fops in followers:
            inner, i = climb(argtree, fops, 0, frank)
            tree, i = climb(ser(ftyp, "", "_", inner), fops, i, 0)
            toks = [fname, "("] + argtxt + [")"] + ftoks
            tight = ""
            for k, tk in enumerate(toks):
                need_sp = k > 0 and ((toks[k - 1][0] == "." and tk[0] not in ";}{:[],|.()=!") or (toks[k - 1][-1].isalnum() and tk[0].isalnum())
                                     or tk in BINOPS and tk not in (",", ";", ":") or toks[k - 1] in BINOPS and toks[k - 1] not in (",", ";", ":"))
                tight += (" " if need_sp else "") + tk
            fol_cases.append((" ".join(toks), tree))
            fol_cases.append((tight, tree))
            if thorough:
                fol_cases.append((" \n".join(toks), tree))
    # operands that may be followed DIRECTLY by a traversal (token flag CheckForPostTraverse): every parameterised /
    # nullary spelling x every suffix kind, against the bracketed form (op) SUFFIX (model-free oracle)
    post_ops = ["parent", "parent(2)", "parent(0)", "flatten", "flatten(2)", "keys", "sort", "reverse", "unique", "to_entries", "toEntries",
                "split_doc", "splitDoc", "path", "pivot", "shuffle", "env(HOME)", "strenv(HOME)", "$x", "sort_by(.a)", "sortKeys(.)", "with(.a; .b)",
                "select(.a)", "map(.a)", "split(\",\")", "group_by(.a)", "unique_by(.a)", "pick([\"a\"])", "explode(.)", "load(\"f\")", "eval(.a)",
                "delpaths([])", "map_values(.)", "filter(.a)", "omit([\"a\"])", ".a", ".\"a-b\"", "(.a)", "[.a]", "{\"k\": 1}"]
    suffixes = [".x", "[0]", "[]", ".x?", "[0]?", ".x.y", ".x[0]", "[0].x", "[\"k\"]", ".[0]", ".\"x-y\""]
    pair_cases = []
    for op in post_ops:
        for suf in suffixes:
            for sep in ("", " ", "\n"):
                if sep == "" and op[0] in ".$" and op[-1] not in ")]}\"" and suf[0] not in ".[":
                    continue
                pair_cases.append((op + sep + suf, "(" + op + ")" + suf))
    presp2 = vlib.yqh_parallel(parse_reqs([x for pc in pair_cases for x in pc]))
    npost = 0
    for k, (direct, bracketed) in enumerate(pair_cases):
        a, b = impl_class(presp2[2 * k]), impl_class(presp2[2 * k + 1])
        chk.count(("post", direct), nontrivial=True)
        dist["post-traverse"] = dist.get("post-traverse", 0) + 1
        if a != b or a.startswith(("ERR", "PANIC", "TIMEOUT")):
            npost += 1
            if npost <= 4:
                chk.violation({"kind": "tree", "expr": direct, "spelling": "operand-then-suffix", "layout": "direct", "expected": b, "impl": a,
                               "bracketed": bracketed}, True, "an operand followed directly by a traversal suffix does not parse like its bracketed form")
    chk.extra["post_traverse_cases"] = len(pair_cases)
    fresp = vlib.yqh_parallel(parse_reqs([c[0] for c in fol_cases]))
    nfol = 0
    fol_impl = []
    for (text, ex), r in zip(fol_cases, fresp):
        im = impl_class(r)
        fol_impl.append(im)
        chk.count(("follow", text), nontrivial=True, sample={"expr": text, "tree": im} if text.startswith("del(") and "[" in text else None)
        dist["follow"] = dist.get("follow", 0) + 1
        if im != ex:
            nfol += 1
            if nfol <= 4:
                chk.violation({"kind": "tree", "expr": text, "spelling": "prefix-function-then-suffix", "layout": "space/tight", "expected": ex, "impl": im}, True,
                              "a prefix function followed directly by a suffix/operator is not grouped as the precedence relation says")
    chk.extra["prefix_follow_cases"] = len(fol_cases)
    T["impl_trees"] = round(time.time() - chk.t0, 1)
    # ---------------------------------------------------------------- model correspondence (raw tokens -> tree)
    seen = {}
    mcases, morig = [], []

    def add_model(text, im, sample_ok=True):
        """the model lexes the TEXT itself (Model/Lexer.v) and must produce the same tree / error class"""
        if text in seen or not sample_ok:
            return
        seen[text] = 1
        mcases.append((vlib.coq_str(text), im.encode()))
        morig.append(text)

    for i, c in enumerate(cases):
        # quick tier: the exhaustive operator-pair families go to the model one in three (all of them to the implementation)
        if terms[c[0]][1] == "long":
            # the model lexer is quadratic in the text length under vm_compute: short chains only (all lengths go to the implementation)
            add_model(c[4], impl[i], len(c[4]) < (1500 if thorough else 450))
            continue
        add_model(c[4], impl[i], thorough or terms[c[0]][1] not in ("pair", "opfn") or i % 5 == 0)
    for k, (direct, bracketed) in enumerate(pair_cases):
        add_model(direct, impl_class(presp2[2 * k]), thorough or k % 3 == 0)
    for k, ((text, ex), im) in enumerate(zip(fol_cases, fol_impl)):
        add_model(text, im, thorough or k % 3 == 0 or text.startswith(("del", "has")))

    # ---------------------------------------------------------------- malformed inputs: must be rejected
    rej = []   # (text, lexemes, kind)
    base_terms = [terms[i][0] for i in range(rand_start, min(len(terms), rand_start + (3000 if thorough else 250)))]
    for t in base_terms:
        ls = render(t, rng.choice(["min", "full"]))
        if len(ls) < 3:
            continue
        m = rng.random()
        ls2 = list(ls)
        bidx = [i for i, l in enumerate(ls) if l.cls in ("open", "close") and l.text != ".["]
        if m < 0.3 and bidx:
            del ls2[rng.choice(bidx)]
            kind = "del-bracket"
        elif m < 0.5:
            c = rng.choice("()[]{}")
            ls2.insert(rng.randrange(len(ls2) + 1), lx_open(c) if c in "([{" else lx_close(c))
            kind = "ins-bracket"
        elif m < 0.6 and bidx:
            i = rng.choice(bidx)
            l = ls2[i]
            if l.cls == "open":
                ls2[i] = lx_open(rng.choice([c for c in "([{" if c != l.text]))
            else:
                ls2[i] = lx_close(rng.choice([c for c in ")]}" if c != l.text[0]]))
            kind = "swap-bracket"
        elif m < 0.8:
            oidx = [i for i, l in enumerate(ls) if l.cls in ("path", "num", "str", "self", "var") or (l.cls == "word" and "valueOpType" in l.ctok)]
            # an operand that is the whole content of [ ] / { } leaves the valid empty bracket behind
            oidx = [i for i in oidx if not (0 < i < len(ls) - 1 and ls[i - 1].cls == "open" and ls[i - 1].text != "(" and ls[i + 1].cls == "close")]
            if not oidx:
                continue
            del ls2[rng.choice(oidx)]
            kind = "del-operand"
        else:
            sym = rng.choice(["+", "|", "==", ",", "and", "*", "//", "="])
            pos = rng.choice([0, len(ls2), rng.randrange(len(ls2) + 1)])
            ls2.insert(pos, lx_op(sym))
            kind = "ins-operator"
        if wellformed(ls2):
            dist["reject/still-valid"] = dist.get("reject/still-valid", 0) + 1
            continue
        rej.append((layout(ls2, "space", rng), ls2, kind))
    for s in ["(", ")", "[", "]", "{", "}", "(]", "[)", "{)", "(}", "[}", "{]", "((1)", "(1))", "[[1]", "[1]]", "1 +", "+ 1", "1 + + 2", "1 |", "| 1",
              ".a ==", "select(", "select(.a", "select(.a))", "has(\"a\"", ".[", ".[0", ".a[0", ".a]", "{\"a\": 1", "\"a\": 1}", "1 , , 2", "and", ".a and", "or .a"]:
        rej.append((s, None, "fixed"))
    # missing-operand matrix: every infix operator with its left / right operand missing, directly next to
    # every kind of bracket and separator (the post-processing must not fabricate the operand)
    A_, B_, K_ = leaf_lex(("path", "a", False)), leaf_lex(("num", "2")), leaf_lex(("str", "k"))
    colon_close = []
    for sym in BINOPS:
        o = lx_op(sym)
        fn1 = Lex("select", 'CO "selectOpType" [] false true', "word")
        fn2 = Lex("with", 'CO "withOpType" [] false true', "word")
        shapes = []
        for oc in ("()", "[]", "{}"):
            shapes.append([lx_open(oc[0]), o, B_, lx_close(oc[1])])                       # ( OP b )
            shapes.append([lx_open(oc[0]), A_, o, lx_close(oc[1])])                       # ( a OP )
            shapes.append([lx_open(oc[0]), A_, lx_op(","), o, B_, lx_close(oc[1])])       # ( a , OP b )
            shapes.append([lx_open(oc[0]), A_, o, lx_op(","), B_, lx_close(oc[1])])       # ( a OP , b )
        shapes += [[o, B_], [A_, o], [A_, lx_op("|"), o, B_], [A_, o, lx_op("|"), B_],
                   [fn1, lx_open("("), o, B_, lx_close(")")], [fn1, lx_open("("), A_, o, lx_close(")")],
                   [fn2, lx_open("("), A_, lx_op(";"), o, B_, lx_close(")")], [fn2, lx_open("("), A_, o, lx_op(";"), B_, lx_close(")")],
                   [lx_open("{"), K_, lx_op(":"), lx_open("["), o, B_, lx_close("]"), lx_close("}")],
                   [lx_open("{"), K_, lx_op(":"), o, B_, lx_close("}")], [lx_open("{"), K_, lx_op(":"), A_, o, lx_close("}")],
                   [A_, lx_op("|"), lx_open("["), o, B_, lx_close("]"), lx_op("|"), Lex(".[", "CT", "open"), B_, lx_close("]")]]
        if sym != ":":   # `.[:b]`, `x[a:]` are the slice syntax with an implied bound, not judged here
            shapes += [[Lex(".[", "CT", "open"), o, B_, lx_close("]")], [Lex(".[", "CT", "open"), A_, o, lx_close("]")],
                       [A_, lx_open("["), o, B_, lx_close("]")], [A_, lx_open("["), B_, o, lx_close("]")]]
        for ls2 in shapes:
            if wellformed(ls2):
                broken.append("missing-operand shape is accepted by the check's own recogniser: " + layout(ls2, "space", rng))
                continue
            is_cc = any(ls2[i].text == ":" and ls2[i].cls == "op" and ls2[i + 1].text == "]" for i in range(len(ls2) - 1))
            for st in (["space", "newline", "comment"] if thorough else ["space", "comment"]):
                (colon_close if is_cc else rej).append((layout(ls2, st, rng), ls2, "missing-operand"))
    # juxtaposition matrix: <complete operand> directly followed by <anything that starts an operand>, with and
    # without a blank; every such text is malformed (no operator between two operands).  A token with
    # CheckForPostTraverse followed by a path / `[` / `.[` is the postfix syntax and is left out.
    lefts = [("1", False), ("\"s\"", False), ("true", False), ("length", False), ("keys", True), (".a", True), ("$x", True), (".", False),
             ("(1)", True), ("[1]", True), ("{\"k\": 1}", True), ("has(0)", True), ("select(.a)", True)]
    rights = [(f + ("(.b)" if PREFIX_OPS[f][2] == 1 else "(.b; 2)"), "fn") for f in PREFIX_OPS] + \
             [(w, "word") for w in ("length", "keys", "not", "min", "sort", "to_entries")] + \
             [("2", "lit"), ("\"t\"", "lit"), ("null", "lit"), ("0x1F", "lit"), (".b", "path"), (".\"b\"", "path"), ("$y", "var"), (".", "self"), ("..", "self"),
              ("(2)", "paren"), ("[2]", "collect"), ("[]", "collect"), ("{\"q\": 2}", "object"), (".[0]", "index"), (".[]", "index")]
    njux = 0
    for ltxt, lcpt in lefts:
        for rtxt, rkind in rights:
            if lcpt and rkind in ("path", "collect", "index"):
                continue        # a.b  a[0]  a.[0]: postfix traversal
            if ltxt == "." and rkind in ("self", "path", "index", "collect"):
                continue        # `. .` is fine as text but `..` / `.[` / `.b` are other tokens; keep the matrix to clear cases
            texts = [ltxt + " " + rtxt, ltxt + "\n" + rtxt]
            lend, r0 = ltxt[-1], rtxt[0]
            tight_ok = (lend in ")]}\"" and r0 in "([{\"$.") or (lend.isalnum() and ltxt[0] not in ".$" and r0 in "([{\"$") \
                or (ltxt[0] in ".$" and len(ltxt) > 1 and r0 in "({")
            if tight_ok:
                texts.append(ltxt + rtxt)
            # the same juxtaposition with a dangling operator that makes the operand count add up (`a f(x) |`, `+ a f(x)`)
            for extra in (texts[0] + " |", texts[0] + " ,", texts[0] + " +", texts[0] + " ==", "+ " + texts[0], "( " + texts[0] + " | ) | .c",
                          (texts[2] + "|") if len(texts) > 2 else texts[1] + "\n|"):
                rej.append((extra, None, "juxtaposed-operands"))
                njux += 1
            for wrap in (False, True):
                for tx in texts:
                    full = ("[ .c , " + tx + " ] | .[0]") if wrap else tx
                    rej.append((full, None, "juxtaposed-operands"))
                    njux += 1
    # a prefix function applied to a bracketed call without brackets of its own: has has("a"), del select(.a)
    for f in PREFIX_OPS:
        for g in ("has(\"a\")", "select(.a)", "del(.a)", "map(.)", "sub(\"a\"; \"b\")"):
            for tx in (f + " " + g, f + "\n" + g, ".c | " + f + " " + g, "[" + f + " " + g + "]"):
                rej.append((tx, None, "juxtaposed-operands"))
                njux += 1
    chk.extra["juxtaposition_cases"] = njux
    rresp = vlib.yqh_parallel(parse_reqs([r[0] for r in rej]))
    rimpl = [impl_class(r) for r in rresp]
    nrej_bad = 0
    for rk, ((s, ls2, kind), im) in enumerate(zip(rej, rimpl)):
        chk.count(("reject", s), nontrivial=True, sample={"malformed": s, "outcome": im} if kind == "swap-bracket" else None)
        dist["reject/" + kind] = dist.get("reject/" + kind, 0) + 1
        if not im.startswith("ERR:"):
            nrej_bad += 1
            if nrej_bad <= 3:
                chk.violation({"kind": "reject", "expr": s, "mutation": kind, "impl": im}, True,
                              "a malformed expression (%s) is accepted instead of rejected" % kind)
        add_model(s, im, thorough or kind != "juxtaposed-operands" or rk % 4 == 0)
    # `a : ]` in a plain collect: the slice default `length` is fabricated as the right operand (finding colon-close)
    cresp = vlib.yqh_parallel(parse_reqs([r[0] for r in colon_close])) if colon_close else []
    for (s_, ls2, kind), r in zip(colon_close, cresp):
        im = impl_class(r)
        chk.count(("reject", s_), nontrivial=True)
        dist["reject/colon-close"] = dist.get("reject/colon-close", 0) + 1
        if not im.startswith("ERR:"):
            if chk.is_known("colon-close"):
                chk.known_finding("colon-close", s_)
            else:
                chk.violation({"kind": "reject", "expr": s_, "mutation": "colon-close", "impl": im}, True, "a `:` without right operand before `]` is accepted")
        add_model(s_, im)
    # permuted (postfix-style / close-before-open) inputs: must be rejected (repaired findings); the model must agree on the error class
    perm = []
    for t in base_terms[:150 if not thorough else 1500]:
        if t[0] != "bin":
            continue
        a, b = render(t[2], "full"), render(t[3], "full")
        o = lx_op(t[1])
        perm.append((wrapl(a) + wrapl(b) + [o], "postfix"))
        perm.append(([o] + wrapl(a) + wrapl(b), "prefix"))
        perm.append((a + [lx_close(")"), lx_open("("), o] + b, "close-open"))
    assert not any(wellformed(p[0]) for p in perm)
    presp = vlib.yqh_parallel(parse_reqs([layout(p[0], "space", rng) for p in perm])) if perm else []
    accepted = {"postfix": 0, "prefix": 0, "close-open": 0}
    for (ls2, kind), r in zip(perm, presp):
        im = impl_class(r)
        s = layout(ls2, "space", rng)
        chk.count(("perm", s), nontrivial=True)
        dist["perm/" + kind] = dist.get("perm/" + kind, 0) + 1
        if not im.startswith("ERR:"):
            accepted[kind] += 1
            chk.violation({"kind": "reject", "expr": s, "mutation": kind, "impl": im}, True, "a malformed expression (%s order) is accepted" % kind)
        add_model(s, im)
    chk.extra["malformed_cases"] = len(rej)
    chk.extra["permuted_accepted"] = accepted

    T["malformed"] = round(time.time() - chk.t0, 1)
    # lexer-level stress strings (tight spellings, findings, odd characters): model and implementation must agree on the class
    lex_extra = ["3-1", "3 -1", "3 - 1", ".a-1", ".a - 1", ".a\t| .b", ".\t| .b", "1 *null", ".a *d .b", ".a =c .b", ".a ==.b", ".a!=.b", ".a|=.b", ".a//.b",
                 "..", "...", ".. | .a", ".a...", ".[]", ".[]?", ".a[]?.b?", "$x", "$x-1", "\"a\\\"b\"", "\"a\\nb\"", "\"\"", "\"unterminated", "#only a comment", "# c\n.a", ".a # c",
                 "true", "TRUE", "True", "nUlL", "~", "0x1F", "0X1f", "1.5", "1e3", "1.5e-3", "-1", "-1.5", "- 1", ".a | -1", "[-1, -2]", ".[-1]", ".[1:-1]", ".[:2]", ".[1:]", ".a[1:2]",
                 "to_yaml", "to_yaml(3)", "toyaml", "@yaml", "@base64d", "@base64", "from_json", "flatten(2)", "flatten", "parent(2)", "parent", "line_comment", "lineComment", "head_comment=\"x\"",
                 ".a style=\"x\"", ".a tag = \"!!str\"", ".a tag==\"x\"", "comments=\"x\"", ". comments |= \"x\"", "env(HOME)", "strenv(HOME)", "envsubst",
                 "with_entries(.)", "with(.a;.b)", "sortKeys(.)", "sort_keys(..)", "splitDoc", "split_doc", "document_index", "di", "fi", "file_index", "filename", "fileName",
                 ".\"a b\"", ".\"a\"?", ".\"a\".b", ".a.\"b c\"[0]", "{\"a\":1}", "{\"a\": 1 }", "{ .a : .b }", "[ ]", "{ }", "[]", "{}", "( )", "()",
                 "\u00e9", ".\u00e9", ".a\u4e2d.b", "\"\u00e9\u4e2d\"", "@", "!", "&", ".a & .b", "`", ".a;.b", ".a ; .b", "a", "abc", ".a as $x | $x", ".a ref $x | $x",
                 "1 or2", "1and 2", "lengthkeys", "length keys", "keys[0]", "not", ".a | not", "ireduce", "array_to_map", "arrayToMap", "any_c(.a)", "any", "all_c(.)", "min", "max",
                 ".a \n\t # c \n | \n .b", "\n", " ", "\t", "", ".a\r| .b", ".a\f.b", "1\r\n+ 2", ".a\r\n| .b", ".a |\r\n.b", "[1,\r\n2]", "(\r\n1)", "1 +\r\n2", "\"s\"\r\n", "length\r\n| .", ".\r\n", ".a\r", "\r.a"]
    lresp = vlib.yqh_parallel(parse_reqs(lex_extra))
    for s_, r in zip(lex_extra, lresp):
        chk.count(("lex", s_), nontrivial=True)
        add_model(s_, impl_class(r))
    mism, err = vlib.coq_mismatches(chk.workdir, "c09_cases", IMPORTS, "parse_text_ser", mcases, shard=300)
    T["model"] = round(time.time() - chk.t0, 1)
    disagreements = []
    if err:
        broken.append("model evaluation failed: " + err[-600:])
    else:
        for i, mo in mism:
            text = morig[i]
            disagreements.append((text, mcases[i][1].decode(), mo.decode("utf-8", "replace") if isinstance(mo, bytes) else repr(mo)))
    chk.extra["model_cases"] = len(mcases)
    chk.extra["model_disagreements"] = len(disagreements)

    # ---------------------------------------------------------------- side condition of C09_spaced_layout_insensitive_partial
    # on the generator's lexeme vocabulary: which tokens satisfy safe_after for blank / TAB / newline
    vocab = sorted({l.text for c in cases for l in c[2]})
    pth = os.path.join(chk.workdir, "c09_vocab.v")
    with open(pth, "w") as f:
        f.write("From YQ Require Import Base.Str Base.Regex Gen.LexRules Model.Lexer Proofs.LexerProofs.\nOpen Scope N_scope.\n")
        f.write("Eval vm_compute in List.map (fun t => (match first_match lex_rules t with Some (_, []) => 1 | _ => 0 end, "
                "if safe_after lex_rules t 32 then 1 else 0, if safe_after lex_rules t 9 then 1 else 0, if safe_after lex_rules t 10 then 1 else 0)) %s.\n"
                % vlib.coq_list([vlib.coq_str(v) for v in vocab]))
    rc, o = vlib.coq_eval_file(pth)
    if rc != 0:
        broken.append("vocabulary side-condition evaluation failed: " + o[-400:])
    else:
        vals = vlib.parse_coq_value(o)
        not_single = [v for v, x in zip(vocab, vals) if x[0] != 1]
        unsafe = {v: [n for n, b in zip(("blank", "TAB", "newline"), x[1:]) if b != 1] for v, x in zip(vocab, vals) if x[0] == 1 and sum(x[1:]) != 3}
        chk.extra["lexeme_side_condition"] = {"lexemes": len(vocab), "single_token_and_safe_for_all_layout": len(vocab) - len(not_single) - len(unsafe),
                                              "not_a_single_token": not_single[:20], "safe_after_fails": {k: unsafe[k] for k in list(unsafe)[:40]}}
        if not_single:
            broken.append("generator lexemes that the model does not lex as one token: %r" % not_single[:5])
    T["vocab"] = round(time.time() - chk.t0, 1)
    # ---------------------------------------------------------------- evaluation of both spellings
    ereqs, emeta = [], []
    n_eval = 4000 if thorough else 300
    for ti in range(rand_start, min(rand_start + n_eval, rand_start + n_rand)):
        t = terms[ti][0]
        smin = layout(render(t, "min"), "space", rng)
        sfull = layout(render(t, "full"), "space", rng)
        salt = layout(render(t, "red", rng), "mixed", rng)
        for d in DOCS[:3] if not thorough else DOCS:
            for s in (smin, sfull, salt):
                ereqs.append(eval_req(s, d))
            emeta.append((smin, sfull, salt, d))
    eresp = vlib.yqh_parallel(ereqs)
    nev = 0
    ok_evals = 0
    for k, (smin, sfull, salt, d) in enumerate(emeta):
        o = [eval_obs(eresp[3 * k + j]) for j in range(3)]
        chk.count(("eval", smin, d), nontrivial=(o[0][0] == "ok"))
        if o[0][0] == "ok":
            ok_evals += 1
        for j, other in ((1, sfull), (2, salt)):
            if o[j] != o[0]:
                nev += 1
                if nev <= 3:
                    chk.violation({"kind": "eval", "expr_a": smin, "expr_b": other, "doc": d, "result_a": repr(o[0])[:300], "result_b": repr(o[j])[:300]},
                                  True, "two spellings of one expression evaluate differently")
        if any(x[0] in ("panic", "timeout", "crash") for x in o):
            pass   # C11's business; equality above already compares the classes
    T["eval"] = round(time.time() - chk.t0, 1)
    chk.extra["stage_seconds_cumulative"] = T
    # ---------------------------------------------------------------- string interpolation: "\(e1) .. \(ek)" re-parses each ei when evaluated
    # (a) fixed sub-expressions with nested brackets of every kind at every position 1..4, against concatenation with to_string
    # (b) random sub-expressions: minimal vs fully parenthesised vs redundantly parenthesised spelling inside the literal
    subs = [".b", "(.b)", "((.b))", ".a.b", "(.a).b", ".c | length", "(.c | length)", "(.c) | (length)", ".c[1]", ".c[(1)]", "(.c)[1]", "[.b] | .[0]", "[(.b)] | (.[0])",
            "{.k1: .b} | .s", "{(.k1): (.b)} | (.s)", ".c | map(. + 1) | .[0]", ".c | map((. + 1)) | (.[0])", "select(.b == 5) | .b", "(select((.b) == (5))) | .b",
            ".b + 1", "(.b) + (1)", "(.b + (1 * (2)))", ".c | (.[1]) | (. * (2))"]
    idoc = DOCS[0]
    ireqs, imeta = [], []
    for pos in range(1, 5):
        for e in subs:
            lit = "\"" + "".join("\\(.b)-" for _ in range(pos - 1)) + "\\(" + e + ")" + "!\""
            ref = "".join("(.b | to_string) + \"-\" + " for _ in range(pos - 1)) + "((" + e + ") | to_string) + \"!\""
            ireqs += [eval_req(lit, idoc), eval_req(ref, idoc)]
            imeta.append((lit, ref, idoc))
    n_irand = 600 if thorough else 60
    made = 0
    guard = 0
    while made < n_irand and guard < 50 * n_irand:
        guard += 1
        k = rng.choice([1, 2, 2, 3, 4])
        ts = [gen_term(rng, rng.choice([1, 2, 2, 3]), for_eval=True) for _ in range(k)]
        spell = []
        for mode in ("min", "full", "red"):
            parts = [layout(render(t, mode, rng), "space", rng) for t in ts]
            spell.append(parts)
        if any(("\"" in x or "\\" in x or "#" in x) for parts in spell for x in parts):
            continue
        lits = ["\"" + "".join("<\\(" + x + ")>" for x in parts) + "\"" for parts in spell]
        d = rng.choice(DOCS[:3])
        ireqs += [eval_req(lits[0], d), eval_req(lits[1], d)]
        imeta.append((lits[0], lits[1], d))
        ireqs += [eval_req(lits[0], d), eval_req(lits[2], d)]
        imeta.append((lits[0], lits[2], d))
        made += 1
    iresp = vlib.yqh_parallel(ireqs)
    nint = 0
    int_ok = 0
    for k, (ea, eb, d) in enumerate(imeta):
        oa, ob = eval_obs(iresp[2 * k]), eval_obs(iresp[2 * k + 1])
        chk.count(("interp", ea, eb), nontrivial=(oa[0] == "ok"), sample={"literal": ea, "same_as": eb} if k % 37 == 5 else None)
        if oa[0] == "ok":
            int_ok += 1
        if oa != ob:
            nint += 1
            if nint <= 3:
                chk.violation({"kind": "eval", "expr_a": ea, "expr_b": eb, "doc": d, "result_a": repr(oa)[:300], "result_b": repr(ob)[:300]}, True,
                              "a string interpolation does not evaluate like the same sub-expressions written outside the literal / with other parentheses")
    chk.extra["interpolation_pairs"] = len(imeta)
    chk.extra["interpolation_ok"] = int_ok
    dist["interpolation/pairs"] = len(imeta)
    # ---------------------------------------------------------------- grouping independence of associative operators (evaluation),
    # including operands that hand back the SAME node (.a, .a / .x // .b where .x is missing / aliases)
    gdocs = ['{"a":{"b":2},"b":5,"c":[3,1,2],"name":"n","job":"unit","image":"go"}', '{"job":"e2e","image":"go","test_image":"cy","b":1,"a":[1,2]}']
    gpool = [".a", ".b", ".a", ".name", ".x // .b", ".test_image // .image", ".image", ".job", ".c[0]", ".a.b", ".b // .a", ".c | .[1]", "1", "\"s\"", ".zz"]   # no bare `.`: `. , .` is the recorded C01 finding union-same-list
    greqs, gmeta = [], []
    for sym in (",", "|", "and", "or", "+"):
        pool = gpool if sym in (",",) else ([".", ".a", ".b", "(.a // .b)", ".c", ".name"] if sym == "|" else
                                            ([".b", ".a.b", "1", ".c[0]", "(.x // .b)", ".b"] if sym == "+" else [".b", ".zz", "true", "false", "(.x // .b)", ".a", ".b"]))
        combos = []
        for a in pool:
            for b in pool:
                for c3 in pool:
                    combos.append((a, b, c3))
        rng.shuffle(combos)
        for a, b, c3 in combos[: (400 if thorough else (120 if sym == "," else 25))] + ([(".job", ".image", ".test_image // .image"), (".a", ".a", ".a"), (".x // .b", ".b", ".b")] if sym == "," else []):
            flat = "%s %s %s %s %s" % (a, sym, b, sym, c3)
            left = "(%s %s %s) %s %s" % (a, sym, b, sym, c3)
            right = "%s %s (%s %s %s)" % (a, sym, b, sym, c3)
            incol = "[%s] | length" % flat
            incol2 = "[(%s %s %s) %s %s] | length" % (a, sym, b, sym, c3)
            for d in gdocs:
                greqs += [eval_req(flat, d), eval_req(left, d), eval_req(right, d), eval_req(incol, d), eval_req(incol2, d)]
                gmeta.append((flat, left, right, incol, incol2, d))
    gresp = vlib.yqh_parallel(greqs)
    ngrp = 0
    for k, (flat, left, right, incol, incol2, d) in enumerate(gmeta):
        o = [eval_obs(gresp[5 * k + j]) for j in range(5)]
        chk.count(("group", flat, d), nontrivial=(o[0][0] == "ok"))
        for (x, y, ex, ey) in ((0, 1, flat, left), (0, 2, flat, right), (3, 4, incol, incol2)):
            if o[x] != o[y]:
                ngrp += 1
                if ngrp <= 3:
                    chk.violation({"kind": "eval", "expr_a": ex, "expr_b": ey, "doc": d, "result_a": repr(o[x])[:300], "result_b": repr(o[y])[:300]}, True,
                                  "regrouping a chain of one associative operator changes the result")
    chk.extra["grouping_cases"] = len(gmeta)
    dist["grouping"] = len(gmeta)

    # ---------------------------------------------------------------- expression FILES (--from-file, the real binary): line endings
    # LF / CRLF / trailing blank lines must not matter (lone CR and a BOM are not claimed)
    from concurrent.futures import ThreadPoolExecutor
    fdir = os.path.join(chk.workdir, "scripts")
    os.makedirs(fdir, exist_ok=True)
    fdoc = os.path.join(fdir, "doc.json")
    with open(fdoc, "w") as f:
        f.write(DOCS[0])
    scripts = [".a\n| .b", ".name\n", ".a\n  | .c\n  | .[1]", "[.b,\n .k1\n]", "{\"k\": .b,\n \"n\": .k1}", ".c\n| map(. + 1)\n| .[0]", ".a.b\n+ 1", ".b == 5\nand true",
               "# comment\n.a # trailing\n| .b", ".a |\n.c |\nlength", "select(.b == 5)\n| .k1", ".c[0]\n, .c[1]", "$ENV\n| kind", ".\n| .b", "\"s\"\n+ .k1", ".a\n\n\n| .b"]
    for ti in range(rand_start, min(rand_start + (200 if thorough else 25), rand_start + n_rand)):
        scripts.append(layout(render(terms[ti][0], "min"), "newline", rng))
    fjobs = []
    for k, sc in enumerate(scripts):
        variants = {"lf": sc + "\n", "crlf": sc.replace("\n", "\r\n") + "\r\n", "lf-blank": sc + "\n\n\n", "crlf-blank": sc.replace("\n", "\r\n") + "\r\n\r\n\r\n",
                    "nonl": sc, "crlf-nonl": sc.replace("\n", "\r\n")}
        for vn, content in variants.items():
            pth2 = os.path.join(fdir, "s%d_%s.yq" % (k, vn))
            with open(pth2, "wb") as f:
                f.write(content.encode())
            fjobs.append((k, vn, pth2, content))
    with ThreadPoolExecutor(vlib.NCPU) as ex:
        fres = list(ex.map(lambda j: vlib.run_yq(["-o=json", "-I=0", "--from-file", j[2], fdoc]), fjobs))
    base = {}
    nfile = 0
    for (k, vn, pth2, content), (rc, out, errb) in zip(fjobs, fres):
        obs = (rc if rc in (0, "timeout") else 1, out if rc == 0 else b"")
        chk.count(("file", k, vn), nontrivial=(rc == 0))
        if vn == "lf":
            base[k] = obs
        elif obs != base[k]:
            nfile += 1
            if nfile <= 3:
                chk.violation({"kind": "file", "script_b64": vlib.b64e(content), "reference_b64": vlib.b64e(scripts[k] + "\n"), "doc": DOCS[0], "variant": vn,
                               "result": repr(obs)[:200], "reference_result": repr(base[k])[:200]}, True,
                              "an expression file with %s line endings evaluates differently from the same file with LF" % vn)
    chk.extra["expression_files"] = len(fjobs)
    dist["files"] = len(fjobs)
    chk.extra["eval_triples"] = len(emeta)
    chk.extra["eval_ok"] = ok_evals
    dist["eval/ok"] = ok_evals
    dist["eval/total"] = len(emeta)

    if disagreements and not chk.violations:
        d = disagreements[0]
        chk.violation({"kind": "correspondence", "broken": "Model/Lexer.v (Gen/LexRules.v) + PostProcess.v + Postfix.v + Tree.v vs lexer_participle.go / lexer.go / expression_postfix.go / expression_parser.go",
                       "input": d[0], "impl": d[1], "model": d[2], "count": len(disagreements)}, False,
                      "model and implementation disagree on %d token sequences although every spelling parses as the term denotes" % len(disagreements))
    if broken and not chk.violations:
        chk.violation({"kind": "obligation", "broken": broken}, False, "; ".join(broken)[:600])
    chk.extra["distribution"] = dist
    return chk.finish(
        checker_cmd="make -C coq Props/C09.vo (coqc 8.16.1, full .vo) + coqc work/C09/c09_cases_*.v (vm_compute)",
        rule="exhaustive: every ordered pair of the %d infix operators in both groupings, every infix operator against every prefix function / postfix chain / bracket kind; "
             "seeded random terms over infix operators, 1-2 argument functions, [] {} (), postfix .a / [i] chains; each term spelled minimally (parentheses from the spec's relation), "
             "fully parenthesised, with redundant parentheses, and laid out tight / newline / comment / mixed; malformed mutants (bracket deleted, inserted, kind swapped, operand deleted, "
             "operator inserted) and permuted orders. Non-trivial: the term applies an operator and has at least 5 tokens; distinct by expression text." % len(BINOPS),
        trusted=vlib.COMMON_TRUSTED + [
            "Spec/PrecSpec.v (hand-written precedence relation; the generator's ranks restate it)",
            "the participle regex lexer (text to raw tokens) is not modelled: the generator states the intended raw tokens and the tree comparison validates them on the generated texts only",
            "harness op `parse` dumps ExpressionNode trees (Type, StringValue, UpdateAssign, %+v of Preferences)"],
        assumptions=["layout-insensitivity between arbitrary tokens is tested on generated expressions, not proved (lexer not modelled)",
                     "correspondence is sampled; the unbounded claims are the Coq theorems over the model"])


def wrapl(ls):
    return [lx_open("(")] + ls + [lx_close(")")]


# ----------------------------------------------------------------------------
# independent recogniser of the infix grammar (decides which mutants are malformed)
#   expr    := operand (binop operand)*
#   operand := primary postfix*          postfix only after a token with CheckForPostTraverse
#   primary := leaf | fn ( expr ) | ( expr ) | [ expr? ] | .[ expr? ] | { expr? }
#   postfix := path | [ expr? ]
# ----------------------------------------------------------------------------
def role(l):
    if l.cls in ("open", "close"):
        return l.cls
    if l.ctok.startswith("CO "):
        var = l.ctok.split('"')[1]
        if l.text in BINOPS and BINOPS[l.text][0] == var:
            return "bin"
        if l.text in FUNCS:
            return "fn"
        return "leaf"
    return "?"


def cpt_of(l):
    return l.cls == "close" or l.ctok.endswith(" true")


def wellformed(ls):
    pos = [0]

    def peek():
        return ls[pos[0]] if pos[0] < len(ls) else None

    def group(closer):
        # after an opening bracket: expr? closer
        l = peek()
        if l is not None and l.cls == "close" and l.text[0] == closer and closer != ")":
            pos[0] += 1
            return True
        if not expr():
            return False
        l = peek()
        if l is None or l.cls != "close" or l.text[0] != closer:
            return False
        pos[0] += 1
        return True

    def operand():
        l = peek()
        if l is None:
            return False
        r = role(l)
        if r == "leaf":
            pos[0] += 1
        elif r == "fn":
            pos[0] += 1
            n = peek()
            if n is None or n.text != "(":
                return False
            pos[0] += 1
            if not group(")"):
                return False
        elif r == "open":
            pos[0] += 1
            if not group({"(": ")", "[": "]", ".[": "]", "{": "}"}[l.text]):
                return False
        else:
            return False
        while True:
            prev = ls[pos[0] - 1]
            n = peek()
            if n is None or not cpt_of(prev):
                return True
            if n.cls == "path":
                pos[0] += 1
            elif n.text == "[":
                pos[0] += 1
                if not group("]"):
                    return False
            else:
                return True

    def expr():
        if not operand():
            return False
        while peek() is not None and role(peek()) == "bin":
            pos[0] += 1
            if not operand():
                return False
        return True

    return expr() and pos[0] == len(ls)
