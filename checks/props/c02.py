"""C02 — assignment obeys the update laws (put-get, get-put, put-put, frame); |= and op=."""
import json
import vlib, evalgen, evalcheck
from evalgen import lit, path_expr


def norm_path(d, p):
    """resolve negative indices against the document; None if a step is type-incompatible"""
    out, v = [], d
    for s in p:
        if isinstance(s, int):
            if v is None or isinstance(v, list):
                n = len(v) if isinstance(v, list) else 0
                i = s + n if s < 0 else s
                if i < 0:
                    return None
                out.append(i)
                v = v[i] if isinstance(v, list) and i < n else None
            else:
                return None
        else:
            if v is None or isinstance(v, dict):
                out.append(s)
                v = v.get(s) if isinstance(v, dict) else None
            else:
                return None
    return tuple(out)


def comparable(p, q):
    n = min(len(p), len(q))
    return p[:n] == q[:n]


def run(chk):
    thorough = chk.tier == "thorough"
    proved, plog = chk.prove("Props/C02.v")
    broken = []
    if not proved:
        broken.append("proof obligations of Props/C02.v do not check: " + plog[-800:])
    g = evalgen.Gen(chk.rng)
    # ---- correspondence on generated updates
    n = 15000 if thorough else 2400
    cases = []
    for _ in range(n):
        d = evalgen.gen_doc(chk.rng)
        g.set_doc(d)
        e = g.update()
        while e[0] == "del":
            e = g.update()
        if chk.rng.random() < 0.25:
            e2 = g.update()
            if e2[0] != "del":
                e = ("pipe", e, e2)
        cases.append((e, d))
    impl, mm, unsup, err = evalcheck.correspondence(chk, cases, "c02_cases")
    if err:
        broken.append("model evaluation failed: " + err[-600:])
    for i, (e, d) in enumerate(cases):
        chk.count((evalgen.render(e), json.dumps(d)), nontrivial=impl[i].startswith(b"OK\n") and impl[i] != b"OK\n" + evalcheck.ser(d) + b"\n",
                  sample={"expr": evalgen.render(e), "doc": d, "after": impl[i].decode("utf-8", "replace")} if 30 < len(evalgen.render(e)) < 90 else None)
    # ---- the laws, executed on the implementation
    laws = []
    nl = 4000 if thorough else 1000
    for _ in range(nl):
        d = evalgen.gen_doc(chk.rng)
        g.set_doc(d)
        p = g.simple_path()
        v1 = g.value_expr() if chk.rng.random() < 0.3 else lit(chk.rng.choice(evalgen.INTS + evalgen.STRS[1:4] + [None, True]))
        v2 = lit(chk.rng.choice(evalgen.INTS[:5] + ["q"]))
        if v1[0] != "lit" and v1[0] != "collect":
            v1 = lit(7)
        if len(p) >= 2 and chk.rng.random() < 0.2:
            pre = p[:chk.rng.randrange(1, len(p))]
            npre = norm_path(d, pre)
            nfull = norm_path(d, p)
            # p itself must exist too: otherwise creating the path changes the container before the RHS reads it
            if npre is not None and evalcheck.jget(d, npre)[1] and nfull is not None and evalcheck.jget(d, nfull)[1]:
                v1 = path_expr(pre)   # the new value is an existing container that holds the target (.a.b = .a)
        laws.append((d, p, v1, v2))
    reqs = []
    for d, p, v1, v2 in laws:
        P = path_expr(p)
        reqs.append((("assign", P, v1), d))                                  # 0 put
        reqs.append((("pipe", ("assign", P, v1), P), d))                      # 1 put-get
        reqs.append((("pipe", ("collect", v1), ("index", ("self",), None)), d))  # 2 the value itself
        reqs.append((("assign", P, P), d))                                    # 3 get-put
        reqs.append((("pipe", ("assign", P, v1), ("assign", P, v2)), d))      # 4 put-put
        reqs.append((("assign", P, v2), d))                                   # 5 put v2
    out = evalcheck.impl_eval(reqs)
    nviol = 0
    # the same updates on the same documents read by the YAML decoder (explicit nulls, line numbers): same results
    ny = 6 * (1200 if thorough else 200)
    yout = evalcheck.impl_eval(reqs[:ny], fmt="yaml")
    for (e_, d_), a_, b_ in zip(reqs[:ny], out[:ny], yout):
        chk.count(("yamlin", evalgen.render(e_), json.dumps(d_)), nontrivial=a_.startswith(b"OK\n"))
        if a_ != b_ and a_.startswith(b"OK") and nviol < 8:
            nviol += 1
            chk.violation({"kind": "yamlin", "expr": evalgen.render(e_), "doc": d_, "impl": b_.decode("utf-8", "replace"), "expect": a_.decode("utf-8", "replace")}, True,
                          "the update gives a different document when the same text is read by the YAML decoder: " + evalgen.render(e_))
    for k, (d, p, v1, v2) in enumerate(laws):
        o = out[6 * k:6 * k + 6]
        P = evalgen.render(path_expr(p))
        key = (P, evalgen.render(v1), json.dumps(d))
        np_ = norm_path(d, p)
        if not o[0].startswith(b"OK\n") or np_ is None:
            # the path is not addressable in this document (type-incompatible prefix / out-of-range negative index)
            chk.count(key, nontrivial=False)
            continue
        chk.count(key, nontrivial=True)
        fails = []
        # put-get
        if o[1].startswith(b"OK\n") and o[2].startswith(b"OK\n") and o[1] != o[2]:
            fails.append(("put-get", evalgen.render(("pipe", ("assign", path_expr(p), v1), path_expr(p))), o[1], o[2]))
        # get-put on existing paths
        val, exists = evalcheck.jget(d, np_) if np_ is not None else (None, False)
        if exists and o[3] != b"OK\n" + evalcheck.ser(d) + b"\n":
            fails.append(("get-put", evalgen.render(("assign", path_expr(p), path_expr(p))), o[3], b"OK\n" + evalcheck.ser(d) + b"\n"))
        # put-put
        if o[4].startswith(b"OK\n") and o[5].startswith(b"OK\n") and o[4] != o[5]:
            fails.append(("put-put", evalgen.render(("pipe", ("assign", path_expr(p), v1), ("assign", path_expr(p), v2))), o[4], o[5]))
        # frame: every path of the original document incomparable with p reads the same afterwards
        if np_ is not None:
            try:
                after = evalgen.parse_json_line(o[0][3:].decode().split("\n")[0]) if False else None
            except Exception:
                after = None
            res = evalcheck.results_of(o[0])
            if res and len(res) == 1:
                qs = [q for q in evalgen.doc_paths(d) if q and not comparable(q, np_)]
                want = dict(d_paths_ser(d, qs))
                # evaluate all frame paths in one expression on the *result* is costly; compare via reference put instead
                exp = ref_put(d, np_, None)
                # compare only the frame: remove p from both sides
                # (done through serialisation of the sibling values)
                got_doc = unser_json(res[0])
                for q in qs:
                    gv, ok1 = evalcheck.jget(got_doc, q)
                    wv, ok2 = evalcheck.jget(d, q)
                    if not ok1 or evalcheck.ser(gv) != evalcheck.ser(wv):
                        fails.append(("frame", evalgen.render(("assign", path_expr(p), v1)), o[0], ("path %r changed" % (q,)).encode()))
                        break
        for law, expr, got, want in fails:
            nviol += 1
            if nviol <= 5:
                chk.violation({"kind": "law", "law": law, "expr": expr, "doc": d, "impl": got.decode("utf-8", "replace"),
                               "expect": want.decode("utf-8", "replace")}, True, "update law %s fails for %s" % (law, expr))
    # ---- histories: a later put on a prefix overrides what an earlier put created below it; |= writes f's first result only
    hist = []
    for d, p, v1, v2 in laws[: (1500 if thorough else 250)]:
        P = path_expr(p)
        w = lit(chk.rng.choice(evalgen.TYPEY + ["q", 3, None, True]))
        below = path_expr(p + (chk.rng.choice(evalgen.KEYS + [0, 1]),) + ((chk.rng.choice(evalgen.KEYS),) if chk.rng.random() < 0.3 else ()))
        hist.append(("override", d, ("pipe", ("assign", below, v2), ("assign", P, w)), ("assign", P, w)))
        hist.append(("override-get", d, ("pipe", ("pipe", ("assign", below, v2), ("assign", P, w)), P), ("pipe", ("collect", w), ("index", ("self",), None))))
        hist.append(("update-first", d, ("update", P, ("union", w, v2)), ("update", P, w)))
        # a copy is independent of its source: writing below the copy (also inside an EMPTY collection of it) leaves the source alone
        conts = [q for q in evalgen.doc_paths(d) if q and isinstance(evalgen._get(d, q), (dict, list))] if isinstance(d, dict) else []
        if conts:
            cq = chk.rng.choice(conts)
            inner = [r_ for r_ in evalgen.doc_paths(evalgen._get(d, cq)) if isinstance(evalgen._get(evalgen._get(d, cq), r_), (dict, list))]
            ir = chk.rng.choice(inner) if inner else ()
            tgt = evalgen._get(evalgen._get(d, cq), ir)
            step = (len(tgt),) if isinstance(tgt, list) else ("nn",)
            hist.append(("copy-frame", d, ("pipe", ("pipe", ("assign", ("getkey", "zz"), path_expr(cq)), ("assign", path_expr(("zz",) + tuple(ir) + step), w)), path_expr(cq)), path_expr(cq)))
        kk = chk.rng.choice(evalgen.KEYS)
        # with(p; u) runs u at p, creating p like an assignment does
        hist.append(("with", d, ("with", P, ("assign", ("getkey", kk), w)), ("assign", path_expr(p + (kk,)), w)))
        hist.append(("with", d, ("with", below, ("assign", ("self",), w)), ("assign", below, w)))
        hist.append(("update-first", d, ("update", P, ("union", ("union", v2, w), ("self",))), ("update", P, v2)))
    hout = evalcheck.impl_eval([(a, d) for _, d, a, b in hist] + [(b, d) for _, d, a, b in hist])
    for k, (law, d, a, b) in enumerate(hist):
        ga, gb = hout[k], hout[len(hist) + k]
        # a path through a scalar is not addressable: the first put then yields no result and there is nothing to compare
        ok = ga.startswith(b"OK\n") and gb.startswith(b"OK\n") and ga != b"OK\n"
        chk.count((law, evalgen.render(a), json.dumps(d)), nontrivial=ok)
        if ok and ga != gb:
            nviol += 1
            if nviol <= 8:
                chk.violation({"kind": "law", "law": law, "expr": evalgen.render(a), "doc": d, "impl": ga.decode("utf-8", "replace"),
                               "expect": gb.decode("utf-8", "replace"), "same_as": evalgen.render(b)}, True,
                              "update law %s fails: %s differs from %s" % (law, evalgen.render(a), evalgen.render(b)))
    chk.extra["history_law_instances"] = len(hist)
    # ---- several context nodes, each updated relative to itself; every element of a sequence once, whatever keys it carries
    import copy
    multi = []
    for _ in range(1200 if thorough else 200):
        n_items = chk.rng.randrange(2, 5)
        items = [{k: chk.rng.choice(evalgen.INTS[:6]) for k in chk.rng.sample(evalgen.KEYS, chk.rng.randrange(2, 4))} for _ in range(n_items)]
        d = {"items": items, "x": chk.rng.choice(evalgen.INTS[:4])}
        k1, k2 = chk.rng.choice(evalgen.KEYS), chk.rng.choice(evalgen.KEYS)
        P = path_expr(("items",))
        form = chk.rng.choice(["assign", "compound", "update"])
        if form == "assign":
            e = ("pipe", ("index", P, None), ("assign", ("getkey", k1), ("getkey", k2)))
            want = []
            for it in items:
                it2 = copy.deepcopy(it)
                if k2 in it:
                    it2[k1] = it[k2]
                elif k1 not in it:
                    it2[k1] = None       # the writable LHS traversal creates the key; an RHS without result then writes nothing
                want.append(it2)
        elif form == "update":
            e = ("pipe", ("index", P, None), ("update", ("getkey", k1), ("add", ("self",), lit(1))))
            want = None if any(k1 not in it for it in items) else [dict(it, **{k1: it[k1] + 1}) for it in items]
        else:
            # an update that leaves duplicate recorded keys (appended elements), then every element once more
            ints = [chk.rng.choice(evalgen.INTS[:5]) for _ in range(n_items)]
            d = {"a": ints}
            e = ("pipe", ("compound", "add", path_expr(("a",)), ("collect", ("union", lit(7), lit(8)))), ("compound", "add", ("index", path_expr(("a",)), None), lit(1)))
            want = [{"a": [v + 1 for v in ints + [7, 8]]}]
        if want is not None:
            multi.append((e, d, want))
    mout = evalcheck.impl_eval([(e, d) for e, d, _ in multi])
    for (e, d, want), got in zip(multi, mout):
        w = b"OK\n" + b"".join(evalcheck.ser(x) + b"\n" for x in want)
        chk.count(("multi", evalgen.render(e), json.dumps(d)), nontrivial=True)
        if got != w:
            nviol += 1
            if nviol <= 10:
                chk.violation({"kind": "eval", "expr": evalgen.render(e), "doc": d, "impl": got.decode("utf-8", "replace"), "expect": w.decode("utf-8", "replace")},
                              True, "an update over several matches did not give each match its own new value: " + evalgen.render(e))
    chk.extra["multi_match_instances"] = len(multi)
    # ---- reading the new value must not change what it reads (frame for the RHS): end-of-sequence and missing-key reads
    rd = []
    fixed_docs = [{"a": 1, "b": [1, 2]}, {"b": []}, {"a": {"x": 1}, "b": [[1], [2, 3]]}, {"a": None, "b": {"c": [5]}}, [[1], [2]]]
    for d in fixed_docs + [evalgen.gen_doc(chk.rng) for _ in range(300 if thorough else 60)]:
        seqs = [p_ for p_ in evalgen.doc_paths(d) if isinstance(evalgen._get(d, p_), list)]
        maps = [p_ for p_ in evalgen.doc_paths(d) if isinstance(evalgen._get(d, p_), dict)]
        for sp in seqs[:3]:
            ln = len(evalgen._get(d, sp))
            for idx in (ln, ln + 1):
                for tgt in ([("z",)] if isinstance(d, dict) else ([(len(d),)] if isinstance(d, list) else [])):
                    rd.append((d, ("assign", path_expr(tgt), path_expr(sp + (idx,))), sp))
                    rd.append((d, ("compound", "add", path_expr(tgt), path_expr(sp + (idx,))), sp))
        for mp in maps[:2]:
            if isinstance(d, dict):
                rd.append((d, ("assign", ("getkey", "z"), path_expr(mp + ("nokey",))), mp))
    rout = evalcheck.impl_eval([(("pipe", e, path_expr(keep) if keep else ("self",)), d) for d, e, keep in rd])
    rcases = [(e, d) for d, e, keep in rd]
    rimpl, rmm, runs, rerr = evalcheck.correspondence(chk, rcases, "c02_reads")
    for (d, e, keep), b in zip(rd, rout):
        want = b"OK\n" + evalcheck.ser(evalgen._get(d, keep)) + b"\n"
        chk.count(("read", evalgen.render(e), json.dumps(d)), nontrivial=True)
        if b.startswith(b"OK") and b != want and keep != () and len(chk.violations) < 6:
            chk.violation({"kind": "eval", "expr": evalgen.render(("pipe", e, path_expr(keep))), "doc": d, "impl": b.decode("utf-8", "replace"),
                           "expect": want.decode("utf-8", "replace")}, True, "reading the value to assign changed the container it was read from: " + evalgen.render(e))
    if rerr:
        broken.append("model evaluation failed (reads): " + rerr[-300:])
    elif rmm and not chk.violations:
        evalcheck.report_disagreements(chk, rcases, rimpl, rmm, "C02 correspondence (reads)")
    # ---- the lens spec itself against the implementation (simple paths incl. indices and creation)
    spec_cases, spec_impl_req = [], []
    for d, p, v1, v2 in laws:
        np_ = norm_path(d, p)
        if np_ is None or v1[0] != "lit":
            continue
        steps = "[" + ";".join(("SKey %s" % vlib.coq_str(s)) if isinstance(s, str) else ("SIdx %d" % s) for s in np_) + "]"
        spec_cases.append(("(%s, %s, %s)" % (steps, evalgen.coq_node(v1[1]), evalgen.coq_node(d)), None))
        spec_impl_req.append((("assign", path_expr(np_), v1), d))
    spec_impl = evalcheck.impl_eval(spec_impl_req)
    sc = [(t, b) for (t, _), b in zip(spec_cases, spec_impl)]
    smm, serr = vlib.coq_mismatches(chk.workdir, "c02_spec", "From YQ Require Import Base.Str Model.Node Model.Store Spec.Lens.",
                                    "(fun c => put_run (fst (fst c)) (snd (fst c)) (snd c))", sc, shard=250)
    if serr:
        broken.append("spec evaluation failed: " + serr[-400:])
    else:
        bad = [(i, mo) for i, mo in smm if mo != b"NA"]
        for i, mo in bad[:3]:
            e, d = spec_impl_req[i]
            chk.violation({"kind": "eval", "expr": evalgen.render(e), "doc": d, "impl": spec_impl[i].decode("utf-8", "replace"),
                           "expect": mo.decode("utf-8", "replace") if isinstance(mo, bytes) else repr(mo)}, True,
                          "assignment differs from the lens put (Spec/Lens.v) on " + evalgen.render(e))
    chk.extra["spec_put_cases"] = len(sc)
    chk.extra["distribution"] = {"update_cases": len(cases), "impl_outcomes": evalcheck.outcome_stats(impl), "outside_model_fragment(UNSUP)": unsup,
                                 "law_instances": len(laws)}
    if mm and not chk.violations:
        evalcheck.report_disagreements(chk, cases, impl, mm, "C02 correspondence")
    if broken and not chk.violations:
        chk.violation({"kind": "obligation", "broken": broken}, False, "; ".join(broken)[:600])
    return chk.finish(
        checker_cmd="make -C coq Props/C02.vo + coqc work/C02/c02_cases_*.v (vm_compute)",
        rule="seeded updates (=, |=, +=, -=, *=; LHS simple paths incl. to-be-created and negative indices, splats, select-filtered and recursive multi-match) x JSON documents for the correspondence; put-get / get-put / put-put / frame instances on simple paths executed on the implementation; non-trivial = the update changed the document resp. the assignment succeeded",
        trusted=vlib.COMMON_TRUSTED + ["Model/Eval.v hand-written from operator_assign.go / candidate_node.go (UpdateFrom) / operator_traverse_path.go"],
        assumptions=["alias-free JSON-model documents, plain tags, stream mode"])


def d_paths_ser(d, qs):
    return [(q, evalcheck.ser(evalcheck.jget(d, q)[0])) for q in qs]


def ref_put(d, p, v):
    return None


def unser_json(b):
    """canonical bytes of one node -> python value (dict keeps order)"""
    pos = 0

    def rd_str():
        nonlocal pos
        j = b.index(b":", pos)
        ln = int(b[pos:j])
        s = b[j + 1:j + 1 + ln]
        pos = j + 1 + ln
        return s

    def rd():
        nonlocal pos
        t = b[pos:pos + 1]
        pos += 1
        if t == b"N":
            return None
        if t == b"B":
            return rd_str() == b"true"
        if t == b"I":
            s = rd_str().decode()
            try:
                return int(s)
            except ValueError:
                return float(s)
        if t == b"S":
            return rd_str().decode()
        if t in (b"L", b"M"):
            j = b.index(b"[", pos)
            n = int(b[pos:j])
            pos = j + 1
            if t == b"L":
                out = [rd() for _ in range(n)]
            else:
                out = {}
                for _ in range(n):
                    k = rd_str().decode()
                    out[k] = rd()
            assert b[pos:pos + 1] == b"]"
            pos += 1
            return out
        raise ValueError(b[pos - 1:pos + 10])
    return rd()


def replay(rp):
    if rp.get("kind") == "yamlin":
        b = evalcheck.impl_eval([(rp["expr"], rp["doc"])], fmt="yaml")[0]
        return b.decode("utf-8", "replace") == rp["expect"]
    if rp.get("kind") == "law":
        b = evalcheck.impl_eval([(rp["expr"], rp["doc"])])[0]
        return b.decode("utf-8", "replace") == rp["expect"] if rp["law"] != "frame" else True
    return evalcheck.replay_eval(rp)
