"""C01 — core expression language evaluates according to its reference semantics."""
import json, collections
import vlib, evalgen

IMPORTS = "From YQ Require Import Base.Str Model.Node Model.Store Model.Eval."


def run_cases(chk, cases, name, model_fn="(fun c => run (fst c) (snd c))"):
    """cases: list of (ast, doc). Returns list of (index, impl_bytes, model_bytes) disagreements and stats."""
    reqs = [{"op": "eval", "expr": evalgen.render(e), "input": json.dumps(d), "in": "json", "out": "json", "indent": 0} for e, d in cases]
    resp = vlib.yqh_parallel(reqs)
    impl = [evalgen.canon_impl(r) for r in resp]
    coq_cases = [("(%s, %s)" % (evalgen.coq_expr(e), evalgen.coq_node(d)), impl[i]) for i, (e, d) in enumerate(cases)]
    mism, err = vlib.coq_mismatches(chk.workdir, name, IMPORTS, model_fn, coq_cases, shard=250)
    return impl, mism, err


def run(chk):
    thorough = chk.tier == "thorough"
    proved, plog = chk.prove("Props/C01.v")
    broken = []
    if not proved:
        broken.append("proof obligations of Props/C01.v do not check: " + plog[-800:])
    g = evalgen.Gen(chk.rng)
    g.wild = 0.12
    g.entry_updates = True
    n = 60000 if thorough else 24000
    cases = []
    for i in range(n):
        d = chk.rng.choice([1, 2, 2, 3, 3, 4] if not thorough else [2, 3, 3, 4, 4, 5])
        doc = evalgen.gen_doc(chk.rng)
        if chk.rng.random() < 0.12:
            import c16
            doc = c16.numkeys(doc, chk.rng)      # string keys spelled like numbers / booleans / null stay strings
        g.set_doc(doc)          # selectors mostly follow the document, so most programs do not die at the first step
        cases.append((g.expr(d), doc))
    # directed: integers that only differ beyond binary64 precision, at the int64 edges, in every comparison
    big = [9007199254740993, 9007199254740992, 9007199254740991, -9007199254740993, 9223372036854775807, 9223372036854775806,
           -9223372036854775808, -9223372036854775807]
    for op in ("lt", "le", "gt", "ge", "eq", "ne"):
        for a in big:
            for b in big:
                if (a, b) in ((big[0], big[1]), (big[1], big[0]), (big[0], big[0]), (big[4], big[5]), (big[5], big[4]), (big[6], big[7]), (big[7], big[6]), (big[3], big[0])) or chk.rng.random() < 0.1:
                    cases.append(((op, evalgen.lit(a), evalgen.lit(b)), None))
    # directed: folds whose block yields nothing for an element that is not the last one and restarts from the bound
    # variable (or a literal) afterwards — the element-by-element semantics visits every element regardless
    L = evalgen.lit
    arrs = [[3, 1, 2], [0, 5, 0, 7], [1, 1, 4, 1], [2, 0], [0, 2], [5], []]
    blocks = lambda x: [("pipe", ("var", x), ("select", ("gt", ("self",), L(1)))),
                        ("pipe", ("var", x), ("select", ("ne", ("self",), L(0)))),
                        ("select", ("lt", ("var", x), L(2))),
                        ("union", ("pipe", ("var", x), ("select", ("gt", ("self",), L(1)))), ("pipe", ("var", x), ("select", ("gt", ("self",), L(4))))),
                        ("collect", ("pipe", ("var", x), ("select", ("gt", ("self",), L(1))))),
                        ("pipe", ("select", ("gt", ("var", x), L(1))), ("add", ("self",), ("var", x))),
                        ("alt", ("pipe", ("var", x), ("select", ("gt", ("self",), L(1)))), ("pipe", ("select", ("ne", ("self",), L(0))), ("self",))),
                        ("add", ("pipe", ("var", x), ("select", ("gt", ("self",), L(1)))), L(10)),
                        ("add", ("self",), ("var", x))]
    for arr in arrs:
        for doc, src in ((arr, ("index", ("self",), None)), ({"a": arr, "k": 1}, ("index", ("getkey", "a"), None))):
            for init in (0, 1):
                for body in blocks("i"):
                    e = ("reduce", src, "i", L(init), body)
                    cases.append((e, doc))
                    cases.append((("collect", e), doc))
                    cases.append((("add", e, L(100)), doc))
    # directed: has(K) looks a key up by its text, whatever type K has (string keys spelled like numbers, booleans, null)
    hdocs = [{"1": "a", "true": "b", "null": "c", "k": 1}, {"m": {"1": "x", "2": "y"}, "i": 2, "b": True}, [{"7": "x"}, {"8": "y"}, {"k": 7}], {"0": 0}]
    hargs = [L(1), L(2), L(7), L(0), L(True), L(None), L("1"), L("true"), L("k"), ("sub", L(4), L(3)), ("getkey", "i"), ("getkey", "b"), ("getkey", "k")]
    for doc in hdocs:
        for a in hargs:
            h = ("has", a)
            for e in (h, ("pipe", ("getkey", "m"), h), ("collect", ("pipe", ("index", ("self",), None), ("select", h))),
                      ("as", ("getkey", "i"), "i", ("pipe", ("getkey", "m"), ("has", ("var", "i")))), ("map", h)):
                cases.append((e, doc))
    # directed: every binary operator over operands that yield nothing, one falsy / truthy result, or several results
    # (the empty-operand rules differ per operator: CalcWhenEmpty, short-circuit, alternative)
    bdoc = {"a": None, "f": False, "t": 1, "z": 0, "e": [], "l": [1, 2], "s": "x", "m": {}}
    opnds = [("getkey", "a"), ("getkey", "f"), ("getkey", "t"), ("getkey", "s"), ("index", ("getkey", "e"), None), ("index", ("getkey", "l"), None),
             ("union", ("getkey", "a"), ("union", ("getkey", "f"), ("getkey", "t"))), ("pipe", ("getkey", "t"), ("select", ("eq", ("self",), L(2)))),
             ("index", ("getkey", "m"), None), L(None), L(False), L(0), ("getkey", "nokey")]
    for op in evalgen.BINOPS:
        for lo in opnds:
            for ro_ in opnds:
                cases.append(((op, lo, ro_), bdoc))
        for lo in opnds[:9]:
            cases.append((("collect", ("pipe", ("index", ("getkey", "l"), None), (op, lo, ("index", ("getkey", "e"), None)))), bdoc))
    # directed: contains compares non-string scalars by value, strings by substring, at every nesting level
    cdoc = {"n": [8080, 443], "k": 8080, "neg": -5, "s": ["foobar", "x"], "p": [{"port": 8080, "name": "web"}, {"port": 443, "name": "tls"}],
            "b": [True], "mix": [12, "12", 3], "t": "8080"}
    cargs = [L(80), L(8080), L(5), L(-5), L(1), L(12), L("80"), L("foo"), L("12"), L(True), L(None),
             ("collect", L(80)), ("collect", L(8080)), ("collect", L(443)), ("collect", L("foo")), ("collect", L("12")), ("collect", L(1)),
             ("collect", ("object", [("port", L(80))])), ("collect", ("object", [("port", L(8080))])), ("object", [("port", L(80))]), ("collect", L(True))]
    for key in cdoc:
        for a in cargs:
            cases.append((("pipe", ("getkey", key), ("contains", a)), cdoc))
            cases.append((("collect", ("pipe", ("pipe", ("getkey", key), ("index", ("self",), None)), ("select", ("contains", a)))), cdoc))
    impl, mism, err = run_cases(chk, cases, "c01_cases")
    stats = collections.Counter()
    opsh = collections.Counter()
    if err:
        broken.append("model evaluation failed: " + err[-600:])
        mism = []
    dis = []
    unsup = 0
    mm = dict(mism)
    for i, (e, d) in enumerate(cases):
        mo = mm.get(i)
        cls = impl[i].split(b"\n")[0].decode()
        stats[cls if cls in ("OK", "ERR", "PANIC", "TIMEOUT", "CRASH") else "OTHER"] += 1
        if mo == b"UNSUP":
            unsup += 1
            continue
        for o in set(evalgen.ops_of(e)):
            opsh[o] += 1
        nontriv = impl[i].startswith(b"OK\n") and len(impl[i]) > 6
        chk.count((evalgen.render(e), json.dumps(d)), nontrivial=nontriv,
                  sample={"expr": evalgen.render(e), "doc": d, "results": impl[i].decode("utf-8", "replace")} if nontriv and len(evalgen.render(e)) > 25 else None)
        if mo is not None:
            dis.append((i, mo))
    chk.extra["distribution"] = {"impl_outcomes": dict(stats), "outside_model_fragment(UNSUP)": unsup, "operator_histogram": dict(opsh.most_common())}
    for i, mo in dis[:5]:
        e, d = cases[i]
        # the reference semantics is the model: a disagreement is a failing input of the property
        chk.violation({"kind": "eval", "expr": evalgen.render(e), "doc": d, "impl": impl[i].decode("utf-8", "replace"),
                       "model": mo.decode("utf-8", "replace") if isinstance(mo, bytes) else repr(mo)}, True,
                      "implementation and reference semantics (Model/Eval.v) disagree on %s" % evalgen.render(e))
    # eval-all on the same single document must give the same results wherever no operator meets a context made of
    # several copies of the document root: collect, `as` and the binary operators switch to evaluating "all together"
    # exactly then (every context node flagged EvaluateTogether; the flag sits on document roots and their copies),
    # which is eval-all's purpose.  Expressions that can hand the root on more than once -- `,`, select, `//`,
    # variables, reduce, parent -- and top-level collects (read-only under eval-all) are therefore left out, except
    # the directed shape `(., path) | op` whose context is the root followed by an inner node.
    ROOTY = {"collect", "union", "as", "var", "reduce", "parent", "select", "alt", "filter"}

    def ea_ok(e):
        if e[0] == "pipe" and e[1][0] == "union" and e[1][1] == ("self",) and not (ROOTY & set(evalgen.ops_of(e[1][2]))) \
                and not (ROOTY & set(evalgen.ops_of(e[2]))):
            return True
        return not (ROOTY & set(evalgen.ops_of(e)))
    ea_idx = [i for i, (e, d) in enumerate(cases) if ea_ok(e) and impl[i].startswith(b"OK")]
    ea_req = [{"op": "eval", "expr": evalgen.render(cases[i][0]), "input": json.dumps(cases[i][1]), "in": "json", "out": "json", "indent": 0, "all": True} for i in ea_idx]
    ea_out = [evalgen.canon_impl(r) for r in vlib.yqh_parallel(ea_req)]
    nea = 0
    for i, b in zip(ea_idx, ea_out):
        if b != impl[i]:
            nea += 1
            if nea <= 3:
                e, d = cases[i]
                chk.violation({"kind": "evalall", "expr": evalgen.render(e), "doc": d, "impl": b.decode("utf-8", "replace"),
                               "expect": impl[i].decode("utf-8", "replace")}, True,
                              "eval-all on a single document differs from eval: " + evalgen.render(e))
    chk.extra["evalall_vs_eval_cases"] = len(ea_idx)
    # `|` is associative (C01_pipe_associative): re-bracketing a pipe chain anywhere in the program changes nothing
    def rotate(e):
        """first sub-term of the shape (a | b) | c or a | (b | c), re-associated; None when there is none"""
        if not isinstance(e, tuple):
            return None
        if e[0] == "pipe" and isinstance(e[1], tuple) and e[1][0] == "pipe":
            return ("pipe", e[1][1], ("pipe", e[1][2], e[2]))
        if e[0] == "pipe" and isinstance(e[2], tuple) and e[2][0] == "pipe":
            return ("pipe", ("pipe", e[1], e[2][1]), e[2][2])
        if e[0] in ("lit", "object", "mulf", "getkey", "var"):
            return None
        for j in range(1, len(e)):
            r = rotate(e[j])
            if r is not None:
                return e[:j] + (r,) + e[j + 1:]
        return None
    rot = [(i, rotate(e)) for i, (e, d) in enumerate(cases)]
    rot = [(i, r) for i, r in rot if r is not None and not impl[i].startswith(b"UNSUP")]
    rot_req = [{"op": "eval", "expr": evalgen.render(r), "input": json.dumps(cases[i][1]), "in": "json", "out": "json", "indent": 0} for i, r in rot]
    rot_out = [evalgen.canon_impl(x) for x in vlib.yqh_parallel(rot_req)]
    nrot = 0
    for (i, r), b in zip(rot, rot_out):
        if b != impl[i]:
            nrot += 1
            if nrot <= 3:
                chk.violation({"kind": "reassoc", "expr": evalgen.render(r), "original": evalgen.render(cases[i][0]), "doc": cases[i][1],
                               "impl": b.decode("utf-8", "replace"), "expect": impl[i].decode("utf-8", "replace")}, True,
                              "re-bracketing a pipe chain changes the results: " + evalgen.render(r))
    chk.extra["pipe_reassociation_cases"] = len(rot)
    # recorded finding: `,` drops the RHS results when both operands return the context's own list
    w = vlib.yqh_batch([{"op": "eval", "expr": ". , .", "input": "2", "in": "json", "out": "json", "indent": 0}])[0]
    if evalgen.canon_impl(w) == b"OK\nI1:2\n":
        chk.known_finding("union-same-list", "`. , .` on 2 prints 2 once")
    if broken and not chk.violations:
        chk.violation({"kind": "obligation", "broken": broken}, False, "; ".join(broken)[:600])
    return chk.finish(
        checker_cmd="make -C coq Props/C01.vo + coqc work/C01/c01_cases_*.v (vm_compute)",
        rule="seeded random core-fragment expressions (depth<=5) x JSON-model documents; non-trivial = implementation returned at least one result; distinct by (expression text, document)",
        trusted=vlib.COMMON_TRUSTED + ["Model/Eval.v is hand-written from operator_*.go; inputs it marks UNSUP (floats in arithmetic, glob patterns, hex spellings, deep merge) are skipped"],
        assumptions=["stream mode (EvaluateTogether=false), single JSON document", "correspondence is sampled"])


def replay(rp):
    import vlib
    if rp.get("kind") == "reassoc":
        r = vlib.yqh_batch([{"op": "eval", "expr": rp["expr"], "input": json.dumps(rp["doc"]), "in": "json", "out": "json", "indent": 0}])[0]
        return evalgen.canon_impl(r).decode("utf-8", "replace") == rp.get("expect")
    if rp.get("kind") == "evalall":
        r = vlib.yqh_batch([{"op": "eval", "expr": rp["expr"], "input": json.dumps(rp["doc"]), "in": "json", "out": "json", "indent": 0, "all": True}])[0]
        return evalgen.canon_impl(r).decode("utf-8", "replace") == rp.get("expect")
    r = vlib.yqh_batch([{"op": "eval", "expr": rp["expr"], "input": json.dumps(rp["doc"]), "in": "json", "out": "json", "indent": 0}])[0]
    return evalgen.canon_impl(r).decode("utf-8", "replace") == rp.get("model")
