"""C18 -- evaluation is deterministic and independent of earlier or concurrent runs (PARTIAL).

Decided by: theorems Props/C18.v over Model/History.v (explicit record of the
process-global / re-used objects; non-interference invariant; interleaving at
the granularity of accesses to shared objects).  Tie: histories of
evaluations inside ONE yqh process re-using ExpressionParser, parsed trees
and decoder instances; every evaluation's bytes are compared (a) with what
the symbolic model (Model/HistoryInst.v, vm_compute) says they are a function
of, mapped to bytes through fresh-process runs, and (b) directly with the
same evaluation run first in a fresh process (the property itself).
Thorough tier: yqh built with -race, concurrent evaluations on separate
evaluators / documents as a search for data races.
"""
import json, os, re, shutil, subprocess, tempfile
from concurrent.futures import ThreadPoolExecutor
import vlib

NEEDS_RACE = True
IMPORTS = "From YQ Require Import Base.Str Model.History Model.HistoryInst."

FMT = {"yaml": ("FYaml", 0), "json": ("FJson", 1), "xml": ("FXml", 2), "props": ("FProps", 3), "csv": ("FCsv", 4),
       "base64": ("FBase64", 5), "uri": ("FUri", 6), "toml": ("FToml", 7), "lua": ("FLua", 8)}

# preferences a step may configure (what cmd writes from -I / --unwrapScalar); id 0 = not configured
PREFS = [None, {"indent": 4, "unwrap": True}, {"indent": 2, "unwrap": False}, {"indent": 3, "unwrap": True}]

YDOC1 = "a: 1\nb: [3, 1, 2]\nc: {z: 1, y: 2}\ns: plain ${NOPE_X} text\n"
YDOC2 = "# lead\n---\na: 7\nb: [b, a]\nc: {k: v}\ns: other\n---\na: 8\nb: []\nc: {}\ns: ''\n"
YDOC3 = "---\n# only comment after start\nx: &anc {p: 1}\ny: *anc\nb: [2, 2, 1]\na: q\nc: {b: 1, a: 2}\ns: t\n"
YDOC4 = "# only a comment\n"
YDOC6 = "n: [1, 2]\na: 1\n---\nn: [10]\na: 2\n---\nn: [5, 5]\na: 3\n"
YDOC7 = "n: [4]\na: 7\n"
YDOC8 = "a: x\ns: double\ne: .b style |= \"single\"\nb: y\nt: single\ng: \"!!str\"\n"
YDOC9 = "s: hello\np: \"^h\"\nk: s\nl: [a, b, c]\nn: 1\na: x\nb: y\nt: single\ng: \"!!int\"\ne: .a tag = \"!!x\"\n"
YDOC10 = "s: hello\np: z$\nk: q\nl: [x, y, z]\nn: 2\na: x\nb: y\nt: double\ng: \"!!str\"\ne: .b anchor |= \"k\"\n"
YDOC11 = "# generated header\na: 1\nb: x\n"
YDOC12 = "b: 2\nc: y\n"
YDOC13 = "# h1\n# h2\n- [1, 2]\n- [3, 4]\n"
YDOC14 = "- [5, 6]\n"
YDOC15 = "t: [!cust 3, !cust 1, !cust 2, !other 2]\nu: !cust 5\nv: !cust 7\nb: [!cust b, !cust a]\na: !cust 1\ns: !cust str\n"
YDOC5 = "y: *anc\n"      # alias without anchor: an error unless anchors leak from an earlier stream
INPUTS = {
    "yaml": [YDOC1, YDOC2, YDOC3, YDOC4, YDOC5, YDOC6, YDOC6, YDOC7, YDOC8, YDOC9, YDOC10, YDOC11, YDOC11, YDOC12, YDOC12, YDOC13, YDOC14, YDOC15, YDOC15, ""],
    "json": ['{"a": 1, "b": [2, 1], "c": {"y": 1, "x": 2}, "s": "j"}', '{"a": 5, "b": [], "c": {}, "s": ""} {"a": 6, "b": [1], "c": {"q": 1}, "s": "k"}', '{"a": 1} {bad'],
    "xml": ["<r><a>1</a><b>x</b><b>y</b><c><y>1</y></c><s>t</s></r>", "<?xml version=\"1.0\"?>\n<!-- c -->\n<a>2</a>", "<a>1</a><b>"],
    "props": ["a = 1\nb.0 = x\nc.y = 2\ns = p\n", "# c\na=2\n"],
    "csv": ["a,b,s\n1,2,x\n3,4,y\n", "a\n9\n"],
    "toml": ["a = 1\ns = \"t\"\n[c]\ny = 2\n", "a = 2\nb = [2, 1]\n", "a = = 1\n"],
    "lua": ["return {a=1, s=\"l\", c={y=2}}\n", "return {a=2, b={2,1}}\n"],
    "base64": ["YTogMQ==", "aGVsbG8="],
    "uri": ["a%20b", "x%3Dy"],
}
# expressions (time / random / env operators excluded; envsubst only on text without defined variables)
EXPRS = [
    ".", ".a", ".a, .b", ".b | sort", "sort_by(.a)", ".c | sort_keys(.)", ".b |= sort", ".c | keys", ".b | length",
    ".s | envsubst", ".s | envsubst(nu)", ".s | envsubst(ne)", ".s | envsubst(ne, nu)", ".s | envsubst(ff)",
    "with(envsubst)", "with(.a; . = 3)", ".a = 5", "del(.b)", ". as $x | $x.a", "[.[] | select(tag == \"!!int\")]",
    ".c | to_entries", ".b | @json", ".c | to_yaml", ".c | to_xml", ".b | to_json(0)", ".c | to_props", ".s | @base64 | @base64d",
    ".c | to_yaml | from_yaml", "explode(.)", "... comments=\"\"", ".b | reverse", ".b | unique", ".. style=\"flow\"",
    "(.b | sort) as $s | $s", ".b | sort | .[0]", "document_index", "reduce .b[] as $i (0; . + 1)", ".x.p",
    ".b[] as $i ireduce (0; . + 1)", ".a | | .b",
    # custom-tagged scalars through sort / compare / arithmetic (tag guessing)
    ".t | sort", ".t | unique", ".u + .v", ".u < .v", ".t | sort_by(.) | .[0]", ".u * 2", ".t | max", "[.t[] | . + 1]", ".u == .v", ".t | group_by(.)",
    # in-place updates of literals / accumulators that live in the parsed tree
    ".sum = (.n[] as $i ireduce (0; . += $i))", ".n[] as $i ireduce (0; . += $i)", ".a as $v | (0 | . += $v)",
    ".k = (1 | . *= 2)", "with(.k; . = (3 | . -= 1))", ".k = (.a as $v | (100 | . -= $v))",
    ".n[] as $i ireduce (0; . += $i)", ".k = (1 | . *= 2)",
]
# (a) operators whose `X = e` and `X |= e` forms come from one lexer rule; the second list parses while evaluating
FAMILIES = ["style", "tag", "anchor", "line_comment", "head_comment", "foot_comment", "alias"]
def variant_exprs(x):
    return [".a %s = .t" % x, ".b %s |= \"single\"" % x, ".a %s = .g" % x, ".b %s |= . + \"q\"" % x, ".a %s |= \"!!str\"" % x, ".b %s = .s" % x]
RUNTIME_PARSE = [".a style = .s | eval(.e)", ".a style = .s | .c = \"\\(.b style |= parent.t | .b)\"",
                 ".a tag |= \"!!\" + . | .c = \"\\(.b tag = .g | .b)\"", ".a line_comment = .s | .c = \"\\(.b line_comment |= \"z\" | .b)\"",
                 "eval(.e)", ".c = \"\\(.a anchor = .t | .a | anchor)\"", ".a anchor |= \"k\" | eval(.e)"]
# (b) operator arguments taken from the document
DATADEP = [".p as $p | .s | test($p)", ".p as $p | .s | sub($p; \"X\")", ".p as $p | .s | match($p)", ".p as $p | .s | capture($p)",
           ".s | test(parent.p)", ".k as $k | has($k)", ".k as $k | pick([$k])", ".k as $k | omit([$k])", ".k as $x | .l | join($x)",
           ".k as $x | .s | split($x)", ".n as $n | .l | .[$n:]", ".n as $n | [[1, [2, [3]]]] | flatten($n)", ".p as $p | [.l[] | select(test($p))]"]
SPECIAL_DOCS = [YDOC8, YDOC9, YDOC10]
GENERIC = [".", ".a", ".a, .s", "keys", "to_entries", ".s | envsubst(ne)", "with(envsubst)", ".a = 5", "del(.a)", ". as $x | $x.a",
           "... comments=\"\"", "explode(.)", "sort_keys(.)", ".[0]", "length", ".. | select(tag == \"!!str\")", "to_json(0)", "sort_by(.a)"]
LOADS = [("load(\"%s\").a", "ld1.yml", "a: L1\n"), ("load(\"%s\").a", "ld2.yml", "a: L2\n---\na: L2b\n"),
         ("load_xml(\"%s\")", "ld1.xml", "<q>1</q>"), ("load_props(\"%s\")", "ld1.properties", "k = v\n"),
         ("load_base64(\"%s\")", "ld1.b64", "aGk="), ("load_str(\"%s\")", "ld1.txt", "txt\n")]
# values loaded from a file and then UPDATED in place: every evaluation must see the file as it is on disk
LOAD_UPDATES = [("load(\"%s\") | .replicas += 1", "ldu.yml", "replicas: 1\nname: base\nl: [1]\n"),
                ("load(\"%s\") | .l += [.replicas]", "ldu.yml", None), ("load(\"%s\") | .name |= . + \"!\"", "ldu.yml", None),
                (".a = (load(\"%s\") | .replicas *= 3 | .replicas)", "ldu.yml", None), ("load(\"%s\") * . | .replicas += 1", "ldu.yml", None),
                (".[] |= (load(\"%s\") | .replicas += 1 | .replicas)", "ldu.yml", None), ("load(\"%s\") | del(.name) | keys", "ldu.yml", None),
                ("load(\"%s\") | .[0].k += 1", "ldm.yml", "k: 1\n---\nk: 5\n"), ("load(\"%s\") | .[1] |= . * {\"z\": 1}", "ldm.yml", None),
                ("load_props(\"%s\") | .k |= . + \"x\"", "ldu.properties", "k = v\n"), ("load_xml(\"%s\") | .q.r += 1", "ldu.xml", "<q><r>1</r></q>"),
                ("load_str(\"%s\") | . += \"y\"", "ldu.txt", "txt"), ("load_base64(\"%s\") | . += \"y\"", "ldu.b64", "aGk=")]
OUTS = ["yaml", "yaml", "json", "props", "xml", "xml", "lua", "shell", "csv", "tsv", "toml"]


def envtoks(expr):
    """the envsubst tokens of an expression, as the lexer sees them"""
    toks = []
    for m in re.finditer(r"envsubst(\(([^)]*)\))?", expr):
        if m.group(1):
            opts = m.group(2)
            sfx = (["sfx_ne"] if "ne" in opts else []) + (["sfx_nu"] if "nu" in opts else [])
            toks.append("TokOpt [%s]" % ";".join(sfx))
        else:
            toks.append("TokPlain")
    return toks


class Pool:
    def __init__(self, loaddir):
        self.exprs, self.texts = [], []     # ids
        self.eidx, self.tidx = {}, {}
        self.loaddir = loaddir
        os.makedirs(loaddir, exist_ok=True)
        self.load_exprs = []
        for pat, name, content in LOADS:
            p = os.path.join(loaddir, name)
            with open(p, "w") as f:
                f.write(content)
            self.load_exprs.append(pat % p)
        self.load_updates = []
        for pat, name, content in LOAD_UPDATES:
            p = os.path.join(loaddir, name)
            if content is not None:
                with open(p, "w") as f:
                    f.write(content)
            self.load_updates.append(pat % p)

    def eid(self, expr, all_, out):
        k = (expr, all_, out)
        if k not in self.eidx:
            self.eidx[k] = len(self.exprs) + 1
            self.exprs.append(k)
        return self.eidx[k]

    def tid(self, text):
        if text not in self.tidx:
            self.tidx[text] = len(self.texts) + 1
            self.texts.append(text)
        return self.tidx[text]


def gen_step(rng, pool):
    fmt = rng.choice(["yaml", "yaml", "yaml", "json", "xml", "props", "csv", "toml", "toml", "lua", "base64", "uri"])
    text = rng.choice(INPUTS[fmt])
    r = rng.random()
    if r < 0.06:
        expr = rng.choice(pool.load_exprs)
    elif r < 0.16:
        expr = rng.choice(pool.load_updates)
    elif fmt in ("base64", "uri"):
        expr = rng.choice([".", ". | length", ".", "with(envsubst)"])
    elif fmt in ("xml", "props", "csv", "toml", "lua"):
        expr = rng.choice(GENERIC if rng.random() < 0.8 else EXPRS)
    else:
        expr = rng.choice(EXPRS)
    s = {"expr": expr, "input": text, "in": fmt, "out": rng.choice(OUTS),
         "all": rng.random() < 0.3, "reuse_tree": rng.random() < 0.5, "reuse_dec": rng.random() < 0.55,
         "reuse_enc": rng.random() < 0.5}
    s["pf"] = rng.choice([0, 0, 0, 1, 2, 3]) if rng.random() < 0.6 else 0
    return s


def wire(step):
    """the harness request for a step"""
    w = {k: step[k] for k in ("expr", "input", "in", "out", "all", "reuse_tree", "reuse_dec")}
    w["reuse_enc"] = bool(step.get("reuse_enc"))
    if step.get("pf"):
        w.update(PREFS[step["pf"]])
    return w


def run_history(steps, binary=None):
    r = vlib.yqh_batch([{"op": "history", "steps": [wire(s) for s in steps], "deadline_ms": 60000}], binary=binary)[0]
    if r is None or "outs" not in r:
        return None
    return [(vlib.b64d(o["out_b64"]), o["err"]) for o in r["outs"]]


class Baselines:
    """an evaluation run FIRST in a fresh process"""
    def __init__(self):
        self.cache = {}

    def get(self, expr, text, fmt, out, all_, pf, primed=False):
        key = (expr, text, fmt, out, all_, pf, primed)
        if key not in self.cache:
            st = {"expr": expr, "input": text, "in": fmt, "out": out, "all": all_, "reuse_tree": False, "reuse_dec": primed, "pf": pf}
            if primed:
                prime = {"expr": ".", "input": "", "in": fmt, "out": "yaml", "all": all_, "reuse_tree": False, "reuse_dec": True, "pf": 0}
                r = run_history([prime, st])
                self.cache[key] = r[1] if r else None
            else:
                r = run_history([st])
                self.cache[key] = r[0] if r else None
        return self.cache[key]


GOT = re.compile(r"got (ENVSUBST[A-Z_]*) instead")


def norm_err(e):
    return GOT.sub("got <TYPE> instead", e)


def coq_req(pool, s):
    pf = "(Some %d)" % s["pf"] if s["pf"] else "None"
    return "(mkReq %d %s %s %d %s %s %s [])" % (pool.eid(s["expr"], s["all"], s["out"]), "true" if s["reuse_tree"] else "false",
                                                FMT[s["in"]][0], pool.tid(s["input"]), "true" if s["all"] else "false",
                                                "true" if s["reuse_dec"] else "false", pf)


def model_histories(chk, pool, base, histories):
    """descriptors per evaluation, computed by the model inside Coq"""
    reqs = [[coq_req(pool, s) for s in h] for h in histories]
    # texts whose decoding ends in an error (measured: `.` on the text in a fresh process)
    fails = set()
    for h in histories:
        for s in h:
            if s["in"] in ("toml", "lua"):
                b = base.get(".", s["input"], s["in"], "yaml", False, 0)
                if b is not None and b[1]:
                    fails.add(pool.tid(s["input"]))
    ft = "[" + ";".join(str(x) for x in sorted(fails)) + "]"
    # expressions that do not parse (measured in a fresh process)
    pfail = set()
    for h in histories:
        for s in h:
            b = base.get(s["expr"], "", "yaml", "yaml", False, 0)
            if b is not None and b[1].startswith("parse:"):
                pfail.add(pool.eid(s["expr"], s["all"], s["out"]))
    pt = "[" + ";".join(str(x) for x in sorted(pfail)) + "]"
    tb = "[" + ";".join("(%d, [%s])" % (i + 1, ";".join(envtoks(e[0]))) for i, e in enumerate(pool.exprs) if envtoks(e[0])) + "]"
    shards = [list(range(i, min(i + 60, len(histories)))) for i in range(0, len(histories), 60)]
    files = []
    for k, idxs in enumerate(shards):
        p = os.path.join(chk.workdir, "c18_hist_%d.v" % k)
        with open(p, "w") as f:
            f.write(IMPORTS + "\nOpen Scope N_scope.\n")
            f.write("Definition tb : list (N * list etok) := %s.\n" % tb)
            f.write("Eval vm_compute in List.map (run_history tb %s %s) %s.\n" % (pt, ft, vlib.coq_list(["[" + ";".join(reqs[i]) + "]" for i in idxs])))
        files.append(p)
    with ThreadPoolExecutor(min(vlib.NCPU, len(files) or 1)) as ex:
        res = list(ex.map(vlib.coq_eval_file, files))
    out = []
    for (rc, o), idxs in zip(res, shards):
        if rc != 0:
            return None, o[-1500:]
        v = vlib.parse_coq_value(o)
        out += v
    return out, None


def descriptor_expected(base, pool, d):
    """bytes + error the model's descriptor stands for, through fresh-process runs"""
    k = len(d) - 1 - d[::-1].index(255)      # the Type string is ASCII; ids before it may be >= 255
    val, ty = d[:k], bytes(d[k + 1:]).decode()
    expr, all_, out = pool.exprs[val[0] - 1]
    pf = val[1]
    if len(val) == 2 and val[1] == 254:
        return ("parse", expr, all_, out), ty
    docs = val[2:]
    fmt = None
    if not docs:
        return ("eof", expr, all_, out, pf), ty
    code, pre, tid = docs
    fmt = [n for n, (_, c) in FMT.items() if c == code][0]
    return ("doc", expr, all_, out, pf, fmt, pre, pool.texts[tid - 1]), ty


# ---------------------------------------------------------------------------
def check_history(chk, base, pool, steps, outs, descs):
    """returns list of (index, kind, detail) problems; kind in known keys or 'violation' / 'correspondence'"""
    problems = []
    eff_pf = 0
    used = set()
    for i, (s, (out, err)) in enumerate(zip(steps, outs)):
        if s["pf"]:
            eff_pf = s["pf"]
        # (b) the property itself: same evaluation first in a fresh process (same flags = effective preferences)
        b = base.get(s["expr"], s["input"], s["in"], s["out"], s["all"], eff_pf)
        dk = (s["in"], s["all"])
        if b is not None and (out, err) != b:
            kind = "violation"
            if out == b[0] and norm_err(err) == norm_err(b[1]):
                kind = "envsubst-type-message"
            elif s["reuse_dec"] and dk in used and s["in"] in ("toml", "lua"):
                e = base.get(s["expr"], "", "yaml", s["out"], s["all"], eff_pf)     # a decoder that reports EOF at once = no document
                if e is not None and out == e[0]:
                    kind = "decoder-init-finished"
            elif s["reuse_dec"] and dk in used and s["in"] == "yaml" and s["all"]:
                pb = base.get(s["expr"], s["input"], s["in"], s["out"], s["all"], eff_pf, primed=True)
                if pb is not None and (out, err) == pb:       # exactly what a decoder with firstFile = false yields
                    kind = "yaml-firstfile-reuse"
            problems.append((i, kind, {"got": [out.decode("utf-8", "replace"), err], "fresh": [b[0].decode("utf-8", "replace"), b[1]]}))
        # (a) correspondence with the model's descriptor
        if descs is not None:
            d, ty = descriptor_expected(base, pool, descs[i])
            if d[0] == "parse":
                exp = base.get(d[1], "", "yaml", "yaml", False, 0)
            elif d[0] == "eof":
                _, expr, all_, o_, pf = d
                exp = base.get(expr, "", "yaml", o_, all_, pf)
            else:
                _, expr, all_, o_, pf, fmt, pre, text = d
                exp = base.get(expr, text, fmt, o_, all_, pf, primed=(pre == 0))
            if exp is not None:
                ok = out == exp[0] and err == exp[1]
                m = GOT.search(err)
                if m and m.group(1) not in ty.split():
                    ok = False     # the type name an error shows must be one of the expression's own
                if not ok:
                    problems.append((i, "correspondence", {"got": [out.decode("utf-8", "replace"), err], "model": [list(d)[:1], ty],
                                                            "model_bytes": [exp[0].decode("utf-8", "replace"), exp[1]]}))
        if s["reuse_dec"]:
            used.add(dk)
    return problems


RACE_KNOWN = [("race-envsubst-type", re.compile(r"envSubstWithOptions|lexer_participle\.go:(41\d|42\d)")),
              ("race-load-decoder", re.compile(r"loadWithDecoder|operator_load\.go"))]


def race_run(binary, reqs, timeout=900):
    """run concurrent requests through the -race binary; returns (responses, race reports)"""
    data = "".join(json.dumps(r) + "\n" for r in reqs).encode()
    env = dict(os.environ, GORACE="halt_on_error=0 exitcode=0 history_size=2")
    p = subprocess.run([binary], input=data, stdout=subprocess.PIPE, stderr=subprocess.PIPE, timeout=timeout, env=env)
    resp = []
    for ln in p.stdout.decode("utf-8", "replace").splitlines():
        try:
            resp.append(json.loads(ln))
        except Exception:
            resp.append(None)
    reports = [blk for blk in p.stderr.decode("utf-8", "replace").split("==================") if "DATA RACE" in blk]
    return resp, reports


def gen_pair(rng, pool, with_load):
    def one():
        fmt = rng.choice(["yaml", "yaml", "json", "xml", "props", "toml"])
        text = rng.choice(INPUTS[fmt])
        expr = rng.choice(pool.load_exprs) if (with_load and rng.random() < 0.5) else rng.choice(EXPRS)
        return {"expr": expr, "input": text, "in": fmt, "out": rng.choice(OUTS), "all": rng.random() < 0.3,
                "reuse_tree": False, "reuse_dec": False}
    return one(), one()


# ---------------------------------------------------------------------------
# determinism: repeated runs are byte-identical (operators that might iterate a Go map)
# ---------------------------------------------------------------------------
DET_DOC = ("rows:\n"
           "  - {id: 1, name: a, g: x}\n"
           "  - {id: 2, name: b, g: y, colour: red, size: 3, k1: 1, k2: 2, k3: 3}\n"
           "  - {id: 3, g: x, weight: 7, owner: x, shape: round, age: 9, k4: 4, k5: 5, k6: 6}\n"
           "  - {id: 4, g: z, m1: 1, m2: 2, m3: 3, m4: 4, m5: 5, m6: 6}\n"
           "m: {z9: 1, b2: 2, q7: 3, a1: 4, k5: 5, c3: 6, y8: 7, d4: 8, x0: 9}\n")
DET_ROW_KEYS = ["id", "name", "g", "colour", "size", "k1", "k2", "k3", "weight", "owner", "shape", "age", "k4", "k5", "k6", "m1", "m2", "m3", "m4", "m5", "m6"]
DET_M_KEYS = ["z9", "b2", "q7", "a1", "k5", "c3", "y8", "d4", "x0"]
# (expression, output format, expected stdout or None): expected = first-seen / document order where it is known
DET = [
    (".rows | pivot", "yaml", None),
    (".rows | pivot | keys", "json", json.dumps(DET_ROW_KEYS, separators=(",", ":")) + "\n"),
    (".rows | pivot | to_entries | map(.key)", "json", json.dumps(DET_ROW_KEYS, separators=(",", ":")) + "\n"),
    ("[.rows[1], .rows[2], .rows[3]] | pivot | keys | length", "json", "21\n"),
    (".m | keys", "json", json.dumps(DET_M_KEYS, separators=(",", ":")) + "\n"),
    (".m | to_entries | map(.key)", "json", json.dumps(DET_M_KEYS, separators=(",", ":")) + "\n"),
    (".m | with_entries(.value += 1) | keys", "json", json.dumps(DET_M_KEYS, separators=(",", ":")) + "\n"),
    (".m | sort_keys(.) | keys", "json", json.dumps(sorted(DET_M_KEYS), separators=(",", ":")) + "\n"),
    (".rows | group_by(.g) | map(map(.id))", "json", "[[1,3],[2],[4]]\n"),
    (".rows | unique_by(.g) | map(.id)", "json", "[1,2,4]\n"),
    (".rows | group_by(.g)", "yaml", None), (".rows | unique_by(.g)", "yaml", None),
    (".rows[1] * .rows[2] * .rows[3]", "yaml", None), (".rows[1] * .rows[2] * .rows[3] | keys", "json", None),
    (".rows[0] + .rows[1] + .rows[3]", "yaml", None), (".m * {\"n1\": 1, \"n2\": 2, \"n3\": 3}", "yaml", None),
    (".m | to_entries | from_entries", "yaml", None), (".m | map_values(. + 1)", "yaml", None), (".m | omit([\"z9\", \"a1\"])", "yaml", None),
    (".m | pick([\"d4\", \"z9\", \"c3\"])", "yaml", None), (".m", "props", None), (".m", "json", None), (".m", "xml", None), (".m", "csv", None),
    (".m | to_props", "yaml", None), (".m | to_json(0)", "yaml", None), (".m | to_xml", "yaml", None), ("[.m | .. | select(tag == \"!!int\")]", "json", None),
    (".rows", "csv", None), (".rows | @csv", "yaml", None), (".rows | map(keys) | flatten | unique", "json", None),
    ("[.rows[] | to_entries | .[].key] | unique", "json", None), (".rows | map(with_entries(.)) | pivot | keys", "json", None),
    (".rows | sort_by(.g) | map(.id)", "json", None), (".rows[] | select(has(\"k4\")) | keys", "json", None),
    ("... comments=\"\" | .m", "yaml", None), ("explode(.) | .m | keys", "json", None), (". as $d | $d.rows | pivot | keys", "json", None),
    ("[.rows[] | {(.g): .id}] | .[0] * .[1] * .[3]", "yaml", None), (".m | to_entries | sort_by(.value) | reverse | from_entries", "yaml", None),
]


def determinism_sweep(chk, loaddir, thorough):
    """returns list of (step, kind, detail) for evaluations whose repeated runs are not byte-identical / not in the expected order"""
    lp = os.path.join(loaddir, "det.yml")
    with open(lp, "w") as f:
        f.write(DET_DOC)
    det = list(DET) + [("load(\"%s\") | .rows | pivot | keys" % lp, "json", json.dumps(DET_ROW_KEYS, separators=(",", ":")) + "\n"),
                       ("load(\"%s\") | .m | to_entries" % lp, "yaml", None), ("load_str(\"%s\") | from_yaml | .rows | pivot" % lp, "yaml", None)]
    reps, procs = (60, 8) if thorough else (25, 3)
    bad = []

    def one(item):
        e, o, exp = item
        step = {"expr": e, "input": DET_DOC, "in": "yaml", "out": o, "all": False, "reuse_tree": False, "reuse_dec": False, "pf": 0}
        outs = []
        for _ in range(procs):
            r = run_history([step] * reps)       # a new process each time, `reps` evaluations in it
            if r is None:
                return (step, "crash", {})
            outs += r
        first = outs[0]
        for k, x in enumerate(outs):
            if x != first:
                return (step, "nondeterministic", {"first": [first[0].decode("utf-8", "replace"), first[1]],
                                                   "run": k, "other": [x[0].decode("utf-8", "replace"), x[1]]})
        def val(t):
            try:
                return json.loads(re.sub(r"\x1b\[[0-9;]*m", "", t))      # the JSON encoder's colours / indent do not matter here
            except Exception:
                return t
        if exp is not None and (val(first[0].decode("utf-8", "replace")) != val(exp) or first[1]):
            return (step, "order", {"got": [first[0].decode("utf-8", "replace"), first[1]], "expected": exp})
        return None
    with ThreadPoolExecutor(vlib.NCPU) as ex:
        for item, r in zip(det, ex.map(one, det)):
            chk.count(("det", item[0], item[1]), nontrivial=True)
            if r:
                bad.append(r)
    return bad, len(det), reps * procs


def load_kind(expr):
    m = re.match(r"(load\w*)\(", expr)
    return m.group(1) if m else None


def replay(rp):
    if rp.get("kind") == "history":
        steps = rp["steps"]
        outs = run_history(steps)
        if outs is None:
            return False
        base = Baselines()
        i = rp["index"]
        eff = 0
        for s in steps[:i + 1]:
            if s["pf"]:
                eff = s["pf"]
        s = steps[i]
        b = base.get(s["expr"], s["input"], s["in"], s["out"], s["all"], eff)
        return b is not None and outs[i] == b
    if rp.get("kind") == "determinism":
        outs = []
        for _ in range(4):
            r = run_history([rp["step"]] * 40)
            if r is None:
                return False
            outs += r
        if any(x != outs[0] for x in outs):
            return False
        strip = lambda t: re.sub(r"\s|\x1b\[[0-9;]*m", "", t)
        return rp.get("expected") is None or strip(outs[0][0].decode("utf-8", "replace")) == strip(rp["expected"])
    if rp.get("kind") == "concurrent":
        r = vlib.yqh_batch([{"op": "concurrent", "a": rp["a"], "b": rp["b"], "n": 200, "deadline_ms": 120000}])[0]
        return bool(r) and r.get("mismatches") == 0
    return False


def run(chk):
    thorough = chk.tier == "thorough"
    proved, plog = chk.prove("Props/C18.v", clean=False)
    broken = []
    if not proved:
        broken.append("proof obligations of Props/C18.v do not check: " + plog[-800:])
    rng = chk.rng
    loaddir = os.path.join(chk.workdir, "load")
    pool = Pool(loaddir)
    base = Baselines()
    dist = {"steps": 0, "formats": {}, "reuse_tree": 0, "reuse_dec": 0, "configured": 0, "all": 0, "errors": 0}

    # ---------------- histories ----------------
    nh, kmax = (4000, 30) if thorough else (700, 8)
    fixed = [
        [{"expr": ".", "input": "a = 1\n", "in": "toml", "out": "yaml", "all": False, "reuse_tree": False, "reuse_dec": True, "pf": 0},
         {"expr": ".", "input": "a = 2\nb = [2, 1]\n", "in": "toml", "out": "yaml", "all": False, "reuse_tree": False, "reuse_dec": True, "pf": 0}],
        [{"expr": ".", "input": "return {a=1}\n", "in": "lua", "out": "yaml", "all": False, "reuse_tree": False, "reuse_dec": True, "pf": 0},
         {"expr": ".", "input": "return {a=2, b={2,1}}\n", "in": "lua", "out": "yaml", "all": False, "reuse_tree": False, "reuse_dec": True, "pf": 0}],
        [{"expr": ".", "input": YDOC1, "in": "yaml", "out": "yaml", "all": True, "reuse_tree": False, "reuse_dec": True, "pf": 0},
         {"expr": ".", "input": YDOC3, "in": "yaml", "out": "yaml", "all": True, "reuse_tree": False, "reuse_dec": True, "pf": 0},
         {"expr": ".", "input": YDOC4, "in": "yaml", "out": "yaml", "all": True, "reuse_tree": False, "reuse_dec": True, "pf": 0}],
        [{"expr": ".s | envsubst(ne)", "input": YDOC1, "in": "yaml", "out": "yaml", "all": False, "reuse_tree": False, "reuse_dec": False, "pf": 0},
         {"expr": "with(envsubst)", "input": YDOC1, "in": "yaml", "out": "yaml", "all": False, "reuse_tree": False, "reuse_dec": False, "pf": 0},
         {"expr": ".s | envsubst(ne, nu)", "input": YDOC1, "in": "yaml", "out": "yaml", "all": False, "reuse_tree": True, "reuse_dec": False, "pf": 0},
         {"expr": "with(envsubst)", "input": YDOC1, "in": "yaml", "out": "yaml", "all": False, "reuse_tree": True, "reuse_dec": False, "pf": 0},
         {"expr": ".s | envsubst(ne, nu)", "input": YDOC1, "in": "yaml", "out": "yaml", "all": False, "reuse_tree": True, "reuse_dec": False, "pf": 0},
         {"expr": ".s | envsubst", "input": YDOC1, "in": "yaml", "out": "yaml", "all": False, "reuse_tree": False, "reuse_dec": False, "pf": 0}],
        [{"expr": ".b | sort", "input": YDOC1, "in": "yaml", "out": "yaml", "all": False, "reuse_tree": True, "reuse_dec": True, "pf": 0},
         {"expr": ".b | sort", "input": YDOC3, "in": "yaml", "out": "json", "all": False, "reuse_tree": True, "reuse_dec": True, "pf": 1},
         {"expr": ".b | sort", "input": YDOC1, "in": "yaml", "out": "yaml", "all": False, "reuse_tree": True, "reuse_dec": True, "pf": 0}],
    ]
    def st(expr, inp, **kw):
        d = {"expr": expr, "input": inp, "in": "yaml", "out": "yaml", "all": False, "reuse_tree": True, "reuse_dec": False, "pf": 0}
        d.update(kw)
        return d
    fixed += [
        [st(".n[] as $i ireduce (0; . += $i)", YDOC7), st(".n[] as $i ireduce (0; . += $i)", YDOC7), st(".n[] as $i ireduce (0; . += $i)", YDOC6)],
        [st(".k = (1 | . *= 2)", YDOC7, out="json"), st(".k = (1 | . *= 2)", YDOC7, out="json", all=True), st(".k = (1 | . *= 2)", YDOC7, out="json")],
        [st(".a as $v | (0 | . += $v)", YDOC6, reuse_tree=False), st(".a as $v | (0 | . += $v)", YDOC7, reuse_tree=False)],
    ]
    fixed += [
        [st(".a style = .t", YDOC8), st(".b style |= \"single\"", YDOC8, reuse_tree=False), st(".a style = .t", YDOC8)],
        [st(".b tag |= \"!!str\"", YDOC9), st(".a tag = .g", YDOC9, reuse_tree=False), st(".b tag |= \"!!str\"", YDOC9)],
        [st(".a style = .s | eval(.e)", YDOC8), st(".a style = .s | eval(.e)", YDOC8)],
        [st(".p as $p | .s | test($p)", YDOC9), st(".p as $p | .s | test($p)", YDOC10), st(".p as $p | .s | test($p)", YDOC9)],
        [st(".p as $p | .s | sub($p; \"X\")", YDOC10), st(".p as $p | .s | sub($p; \"X\")", YDOC9)],
    ]
    # a literal reached through an EMPTY context (the producer before it yields nothing) and then updated in place,
    # on a kept tree: valueOperator must hand out a copy there too (seeded change C18-k)
    EDOC = "n: []\na: 1\n"
    for e in (".n[] | 3 | . += 4", "[.n[] | true | . = false]", ".k = [.n[] | 1 | . *= 2]", ".n[] | null | . = 5",
              ".n[] | 2 | . tag = \"!!str\"", ".z[] | 6 | . -= 1"):
        fixed.append([st(e, EDOC), st(e, EDOC), st(e, YDOC7), st(e, EDOC, all=True), st(e, EDOC + "---\n" + EDOC), st(e, EDOC, reuse_tree=False)])
    # one Encoder instance over documents with and without leading comments, every output format
    for of in ("xml", "props", "lua", "shell", "json", "yaml", "toml"):
        fixed.append([st(".", YDOC11, out=of, reuse_enc=True, reuse_tree=False), st(".", YDOC12, out=of, reuse_enc=True, reuse_tree=False),
                      st(".", YDOC11, out=of, reuse_enc=True, reuse_tree=False), st(".a", YDOC12, out=of, reuse_enc=True, reuse_tree=False)])
    for of in ("csv", "tsv"):
        fixed.append([st(".", YDOC13, out=of, reuse_enc=True, reuse_tree=False), st(".", YDOC14, out=of, reuse_enc=True, reuse_tree=False),
                      st(".", YDOC13, out=of, reuse_enc=True, reuse_tree=False)])
    for e in pool.load_updates:
        fixed.append([st(e, YDOC6, reuse_tree=False), st(e, YDOC6, reuse_tree=False), st(e, YDOC7, reuse_tree=True), st(e, YDOC7, reuse_tree=True, all=True)])
    # one Decoder instance over streams that hold only comments, before and after streams that hold documents
    for al in (False, True):
        for out in ("yaml", "json"):
            fixed.append([st(".", YDOC1, reuse_dec=True, reuse_tree=False, all=al, out=out), st(".", YDOC4, reuse_dec=True, reuse_tree=False, all=al, out=out),
                          st(".", YDOC7, reuse_dec=True, reuse_tree=False, all=al, out=out), st(".", "---\n# c\n", reuse_dec=True, reuse_tree=False, all=al, out=out),
                          st(".", YDOC4, reuse_dec=True, reuse_tree=False, all=al, out=out), st(".a", YDOC1, reuse_dec=True, reuse_tree=False, all=al, out=out)])
            fixed.append([st(".", YDOC4, reuse_dec=True, reuse_tree=False, all=al, out=out), st(".", YDOC4, reuse_dec=True, reuse_tree=False, all=al, out=out),
                          st(".", YDOC2, reuse_dec=True, reuse_tree=False, all=al, out=out), st(".", YDOC4, reuse_dec=True, reuse_tree=False, all=al, out=out)])
    histories = list(fixed)

    def targeted():
        r = rng.random()
        k = rng.randrange(3, kmax + 1)
        h = []
        if r < 0.5:
            # one operator family: trees parsed early, re-evaluated after parses of the other variant
            fam = rng.choice(FAMILIES)
            pool_e = variant_exprs(fam) + (rng.sample(RUNTIME_PARSE, 2) if rng.random() < 0.6 else [])
            for _ in range(k):
                h.append(st(rng.choice(pool_e), rng.choice(SPECIAL_DOCS), reuse_tree=rng.random() < 0.7,
                            all=rng.random() < 0.2, out=rng.choice(["yaml", "yaml", "json"])))
        else:
            es = rng.sample(DATADEP, rng.randrange(1, 3))
            for _ in range(k):
                h.append(st(rng.choice(es), rng.choice([YDOC9, YDOC10, YDOC9 + "---\n" + YDOC10]), reuse_tree=rng.random() < 0.8,
                            all=rng.random() < 0.2, out=rng.choice(["yaml", "json"])))
        return h
    ntarget = (nh - len(histories)) // 4
    for _ in range(ntarget):
        histories.append(targeted())
    while len(histories) < nh:
        k = rng.randrange(2, kmax + 1)
        # a small alphabet per history so that repetition and re-use actually happen
        alphabet = [gen_step(rng, pool) for _ in range(rng.randrange(2, 6))]
        h = []
        for _ in range(k):
            s = dict(rng.choice(alphabet))
            if rng.random() < 0.4:
                s["reuse_tree"] = rng.random() < 0.6
                s["reuse_dec"] = rng.random() < 0.6
                s["reuse_enc"] = rng.random() < 0.6
            if rng.random() < 0.2:
                s["input"] = rng.choice(INPUTS[s["in"]])
            h.append(s)
        # an Encoder instance keeps the preferences it was built with (constructor arguments): histories either
        # re-use encoders under the default preferences, or configure preferences and build an encoder per evaluation
        if rng.random() < 0.5:
            for s in h:
                s["pf"] = 0
        else:
            for s in h:
                s["reuse_enc"] = False
        histories.append(h)

    with ThreadPoolExecutor(vlib.NCPU) as ex:
        outs = list(ex.map(run_history, histories))
    descs, merr = model_histories(chk, pool, base, histories)
    if merr:
        broken.append("model evaluation failed: " + merr[-600:])
        vlib.log("model evaluation failed: " + merr)

    # warm the baseline cache in parallel
    want = set()
    for h in histories:
        eff = 0
        for s in h:
            if s["pf"]:
                eff = s["pf"]
            want.add((s["expr"], s["input"], s["in"], s["out"], s["all"], eff))
            if s["in"] in ("toml", "lua"):
                want.add((s["expr"], "", "yaml", s["out"], s["all"], eff))
    with ThreadPoolExecutor(vlib.NCPU) as ex:
        list(ex.map(lambda k: base.get(*k), sorted(want, key=repr)))

    known_counts = {}
    ncorr = 0
    nviol = 0
    for hi, (h, o) in enumerate(zip(histories, outs)):
        if o is None:
            chk.violation({"kind": "history", "steps": h, "index": 0}, True, "the harness process died on this history")
            continue
        probs = check_history(chk, base, pool, h, o, descs[hi] if descs else None)
        for s, (out, err) in zip(h, o):
            dist["steps"] += 1
            dist["formats"][s["in"]] = dist["formats"].get(s["in"], 0) + 1
            dist["reuse_tree"] += s["reuse_tree"]
            dist["reuse_dec"] += s["reuse_dec"]
            dist["configured"] += 1 if s["pf"] else 0
            dist["all"] += s["all"]
            dist["errors"] += 1 if err else 0
        chk.count(json.dumps(h, sort_keys=True), nontrivial=len(h) >= 2,
                  sample={"history": [[s["expr"], s["in"], s["reuse_tree"], s["reuse_dec"]] for s in h][:6],
                          "last_out": o[-1][0].decode("utf-8", "replace")[:80]} if hi % 41 == 7 else None)
        for i, kind, detail in probs:
            if kind == "correspondence":
                ncorr += 1
                if ncorr <= 3:
                    vlib.log("correspondence: history %d step %d: %r" % (hi, i, detail))
                    chk.extra.setdefault("correspondence_samples", []).append({"steps": h[:i + 1], "detail": detail})
            elif kind == "violation":
                nviol += 1
                if nviol <= 5:
                    chk.violation({"kind": "history", "steps": h[:i + 1], "index": i, "detail": detail}, True,
                                  "an evaluation's bytes differ from the same evaluation run first in a fresh process")
            else:
                known_counts[kind] = known_counts.get(kind, 0) + 1
                chk.known_finding(kind, "history of %d evaluations, step %d: %s" % (len(h), i, h[i]["expr"]))
                if not chk.is_known(kind):
                    nviol += 1
                    if nviol <= 5:
                        chk.violation({"kind": "history", "steps": h[:i + 1], "index": i, "detail": detail, "class": kind}, True,
                                      "history dependence (%s) not listed in KNOWN_FINDINGS.txt" % kind)
    chk.extra["known_counts"] = known_counts
    chk.extra["correspondence_disagreements"] = ncorr
    chk.extra["fresh_process_baselines"] = len(base.cache)

    # ---------------- determinism: repeated runs, in one process and in new processes ----------------
    bad, ndet, nrep = determinism_sweep(chk, loaddir, thorough)
    for step, kind, detail in bad[:5]:
        chk.violation({"kind": "determinism", "step": step, "class": kind, "detail": detail, "expected": detail.get("expected")}, True,
                      "repeated runs of the same evaluation are not byte-identical" if kind != "order" else
                      "key order is not the first-seen / document order")
    chk.extra["determinism_sweep"] = {"evaluations": ndet, "runs_each": nrep, "failing": len(bad)}

    # ---------------- concurrency: values (both tiers), data races (thorough, -race build) ----------------
    npairs = 2000 if thorough else 150
    pairs = [gen_pair(rng, pool, True) for _ in range(npairs)]
    # deterministic witnesses first: same load decoder singleton / two envsubst(...) lexings
    pairs = [({"expr": pool.load_exprs[0], "input": YDOC1, "in": "yaml", "out": "yaml", "all": False, "reuse_tree": False, "reuse_dec": False},
              {"expr": pool.load_exprs[1], "input": YDOC1, "in": "yaml", "out": "yaml", "all": False, "reuse_tree": False, "reuse_dec": False}),
             ({"expr": ".s | envsubst(ne)", "input": YDOC1, "in": "yaml", "out": "yaml", "all": False, "reuse_tree": False, "reuse_dec": False},
              {"expr": ".s | envsubst(nu)", "input": YDOC1, "in": "yaml", "out": "yaml", "all": False, "reuse_tree": False, "reuse_dec": False})] + pairs
    # the two assign variants of one lexer rule, parsed and evaluated concurrently; run-time parses
    for fam in FAMILIES:
        ve = variant_exprs(fam)
        for ea_, eb_ in ((ve[0], ve[1]), (ve[2], ve[3]), (ve[4], ve[5])):
            pairs.append(({"expr": ea_, "input": YDOC8, "in": "yaml", "out": "yaml", "all": False, "reuse_tree": False, "reuse_dec": False},
                          {"expr": eb_, "input": YDOC9, "in": "yaml", "out": "yaml", "all": False, "reuse_tree": False, "reuse_dec": False}))
    for e1 in RUNTIME_PARSE[:4]:
        pairs.append(({"expr": e1, "input": YDOC8, "in": "yaml", "out": "yaml", "all": False, "reuse_tree": False, "reuse_dec": False},
                      {"expr": ".a style = .t", "input": YDOC10, "in": "yaml", "out": "yaml", "all": False, "reuse_tree": False, "reuse_dec": False}))
    rounds = 40 if thorough else 25
    creqs = [{"op": "concurrent", "a": wire(dict(a, pf=0)), "b": wire(dict(b, pf=0)), "n": rounds, "deadline_ms": 120000} for a, b in pairs]
    cres = vlib.yqh_parallel(creqs)
    cm = 0
    for (a, b), r in zip(pairs, cres):
        chk.count(("pair", json.dumps([a, b], sort_keys=True)), nontrivial=True)
        if r is None or "mismatches" not in r:
            same_load = load_kind(a["expr"]) and load_kind(a["expr"]) == load_kind(b["expr"])
            if same_load and chk.is_known("load-decoder-shared"):
                chk.known_finding("load-decoder-shared", "concurrent %s crashed the process" % a["expr"][:20])
                known_counts["load-decoder-shared"] = known_counts.get("load-decoder-shared", 0) + 1
                continue
            chk.violation({"kind": "concurrent", "a": a, "b": b, "response": r}, True, "concurrent evaluations killed the harness")
            continue
        if r["mismatches"]:
            cm += 1
            same_load = load_kind(a["expr"]) and load_kind(a["expr"]) == load_kind(b["expr"]) and load_kind(a["expr"]) != "load_str"
            if same_load:
                known_counts["load-decoder-shared"] = known_counts.get("load-decoder-shared", 0) + 1
                chk.known_finding("load-decoder-shared", "%s || %s" % (a["expr"][-24:], b["expr"][-24:]))
                if chk.is_known("load-decoder-shared"):
                    continue
            chk.violation({"kind": "concurrent", "a": a, "b": b, "first": r.get("first"), "solo": r.get("solo")}, True,
                          "two concurrent evaluations on separate evaluators/documents do not return what each returns alone")
    chk.extra["concurrent_pairs"] = len(pairs)
    chk.extra["concurrent_pairs_with_value_mismatch"] = cm

    if thorough and os.path.exists(vlib.YQH + "-race"):
        reports_all, unknown = [], []
        chunks = [creqs[i:i + 100] for i in range(0, len(creqs), 100)]
        with ThreadPoolExecutor(max(1, vlib.NCPU // 2)) as ex:
            rr = list(ex.map(lambda c: race_run(vlib.YQH + "-race", c), chunks))
        nrep = 0
        for (resp, reports), chunk in zip(rr, chunks):
            for blk in reports:
                nrep += 1
                for key, pat in RACE_KNOWN:
                    if pat.search(blk):
                        known_counts[key] = known_counts.get(key, 0) + 1
                        chk.known_finding(key, blk.strip().splitlines()[1][:160] if len(blk.strip().splitlines()) > 1 else "")
                        if chk.is_known(key):
                            break
                else:
                    unknown.append(blk)
        chk.extra["race_reports"] = nrep
        chk.extra["race_reports_unclassified"] = len(unknown)
        if unknown:
            chk.violation({"kind": "race", "report": unknown[0][:4000], "count": len(unknown)}, True,
                          "the race detector reports a data race between two evaluations on separate evaluators/documents")
    elif thorough:
        broken.append("work/bin/yqh-race was not built")

    if ncorr and not chk.violations:
        chk.violation({"kind": "correspondence", "broken": "Model/History.v vs pkg/yqlib (global / re-used objects)", "count": ncorr,
                       "samples": chk.extra.get("correspondence_samples")}, False,
                      "model and implementation disagree on %d evaluations (no violation of the property itself found)" % ncorr)
    if broken and not chk.violations:
        chk.violation({"kind": "obligation", "broken": broken}, False, "; ".join(broken)[:600])
    chk.extra["distribution"] = dist
    return chk.finish(
        checker_cmd="make -C coq Props/C18.vo (coqc 8.16.1, full .vo) + coqc work/C18/c18_hist_*.v (vm_compute)" + ("; go build -race yqh" if thorough else ""),
        rule="histories of 2..%d evaluations in one process drawn with repetition from a per-history alphabet of 2..5 evaluations over %d expressions "
             "(+ %d load operators) x 9 input formats x 4 output formats x {stream, eval-all}, each step re-using or not the parsed tree and the decoder instance, "
             "optionally configuring indent/unwrap; 5 fixed histories first (TOML/Lua decoder re-use, YAML eval-all decoder re-use, envsubst variants, sort on a kept tree). "
             "Concurrent pairs: %d x %d rounds. Non-trivial: history of at least two evaluations; distinct by the whole history."
             % (kmax, len(EXPRS), len(LOADS), npairs + 2, rounds),
        trusted=vlib.COMMON_TRUSTED + [
            "Model/History.v: the list of shared mutable objects was collected by reading pkg/yqlib (grep for package-level variables, receiver fields, assignments to ExpressionNode/Operation); parsing, decoding, evaluating and printing are abstract functions of the values the model hands them",
            "compared: stdout bytes + error text (the operation type name an error shows must be one of the expression's own)",
            "Go memory model, goroutine scheduling, race detector: runtime (thorough tier searches, proves nothing)",
        ],
        assumptions=["time / random / env operators excluded (now, shuffle, env, strenv; envsubst only on text whose variables are unset)",
                     "printer and StreamEvaluator are per-run objects (re-using them continues one output stream / file sequence by design: C10)",
                     "Configured*Preferences are an input (flags): an evaluation that does not configure them reads what the last configuration wrote"])
