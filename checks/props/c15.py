"""C15 — sort, min/max and the comparison operators agree on one consistent total order.

Decided by: theorems Props/C15.v over Model/Sort.v (sort comparator, insertion sort = Go's sort.Stable below 21
elements, compareScalars, min/max, sortKeys; at the repaired state of /repo:
three-way integer compare, no panic, null = null, numbers before strings) and
Spec/Order.v.
Tie: correspondence of the model with the implementation (yqh `multi` op) on
generated sequences / pairs / maps.  Direct oracle: the implementation's output
must be a permutation, ordered under the spec order recomputed independently
here from the generator's ground truth, stable and idempotent; operators and
min/max must agree with the same order where defined; sort_keys must only
reorder.  Deviations that fall in a recorded defect class (KNOWN_FINDINGS.txt)
are reported as KNOWN-FINDING, everything else is a VIOLATION.
"""
import datetime, json, re
from fractions import Fraction
import vlib

IMPORTS = "From YQ Require Import Base.Str Model.Sort."
TAGC = {"!!null": "TNull", "!!bool": "TBool", "!!int": "TInt", "!!float": "TFloat", "!!str": "TStr"}
TAGB = {"!!null": b"n", "!!bool": b"b", "!!int": b"i", "!!float": b"f", "!!str": b"s"}
PANIC, ERR = b"\xfa", b"\xfb"
I63 = 2 ** 63


# --------------------------------------------------------------------------
# scalars with ground truth
# --------------------------------------------------------------------------
def sc(sp, tag, text, kind, val):
    return {"sp": sp, "tag": tag, "text": text, "kind": kind, "val": val}


def mk_null(sp="null"):
    return sc(sp, "!!null", sp, "null", None)


def mk_bool(sp):
    return sc(sp, "!!bool", sp, "bool", sp.lower() == "true")


def mk_int(v, style="dec"):
    if style == "hex" and v >= 0:
        sp = "0x%X" % v
    elif style == "oct" and v >= 0:
        sp = "0o%o" % v
    elif style == "us" and abs(v) >= 1000:
        sp = format(v, "_d")
    elif style == "plus" and v >= 0:
        sp = "+%d" % v
    elif style == "lead0" and v >= 0 and all(c in "01234567" for c in str(v)):
        sp = "0%d" % v
    else:
        sp = str(v)
    return sc(sp, "!!int", sp, "int", str(v))


def mk_intbad(sp, v):
    """tagged !!int by the YAML decoder but not parseable by yq's parseInt64"""
    return sc(sp, "!!int", sp, "intbad", str(v))


def mk_float(sp):
    f = float(sp)  # correctly rounded by Python, independent of the Coq model
    return sc(sp, "!!float", sp, "float", "%d/%d" % Fraction(f).as_integer_ratio())


def mk_fspecial(sp):
    return sc(sp, "!!float", sp, "fspecial", sp)


def mk_nan():
    return sc("!!float nan", "!!float", "nan", "nan", None)


def mk_str(s):
    return sc(json.dumps(s, ensure_ascii=False), "!!str", s, "str", s)


def numval(d):
    if d["kind"] in ("int", "intbad"):
        return Fraction(int(d["val"]))
    if d["kind"] == "float":
        n, m = d["val"].split("/")
        return Fraction(int(n), int(m))
    return None


def spec_key(d):
    """The spec order (Spec/Order.v) recomputed independently from ground truth."""
    k = d["kind"]
    if k == "null":
        return (0,)
    if k == "bool":
        return (1, d["val"])
    if k in ("int", "intbad", "float"):
        return (2, numval(d))
    if k == "fspecial":
        sp = d["sp"].lower()
        return None if sp == ".nan" else (2, float("-inf") if sp == "-.inf" else float("inf"))
    if k == "str":
        return (3, d["val"].encode("utf-8"))
    return None  # nan


def is_number(d):
    return d["kind"] in ("int", "intbad", "float", "fspecial", "nan")


FLOATABLE = re.compile(r"[-+]?[0-9](_?[0-9])*$")


def int_floatable(d):
    return bool(FLOATABLE.match(d["text"]))


def int_exact_as_double(d):
    v = int(d["val"])
    try:
        return Fraction(float(v)) == v
    except OverflowError:
        return False


DECIMAL = re.compile(r"[-+]?[0-9]+$")


def is_nan(d):
    return d["kind"] == "nan" or (d["kind"] == "fspecial" and d["sp"].lower() == ".nan")


def unreadable_int(d):
    """!!int for the YAML decoder, but neither parseInt64 nor ParseFloat reads the text (0b11, -0x10)"""
    return d["kind"] == "intbad" and not DECIMAL.match(d["text"])


def pair_class(a, b):
    """None if the pair lies in the consistent domain D of Props/C15.v, else the defect class."""
    ka, kb = a["kind"], b["kind"]
    if ka in ("null", "bool") or kb in ("null", "bool"):
        return None
    if ka == "str" or kb == "str":
        return None          # strings among themselves by bytes; a number sorts before a string
    if is_nan(a) or is_nan(b):
        return "nan"
    if unreadable_int(a) or unreadable_int(b):
        return "int-unreadable-text-order"
    if ka == "int" and kb == "int":
        return None          # exact int64 comparison
    # otherwise both operands are read as binary64
    for x in (a, b):
        if x["kind"] in ("int", "intbad") and not int_exact_as_double(x):
            return "mixed-precision"
    return None


def ops_pair_class(a, b):
    """Class of a pair for < <= > >= when the operator returned a value."""
    ka, kb = a["kind"], b["kind"]
    if (ka == "null") != (kb == "null"):
        return "ops-null"
    if ka == "null":
        return None
    if ka == "nan" or kb == "nan":
        return "nan"
    if is_number(a) and is_number(b):
        ints = [x for x in (a, b) if x["kind"] in ("int", "intbad")]
        if len(ints) == 1 and not int_exact_as_double(ints[0]):
            return "mixed-precision"
    return None


def list_classes(scalars):
    out = set()
    for i in range(len(scalars)):
        for j in range(i + 1, len(scalars)):
            c = pair_class(scalars[i], scalars[j])
            if c:
                out.add(c)
    return out


def coq_scalar(d):
    return "mk %s %s" % (TAGC[d["tag"]], vlib.coq_str(d["text"].encode("utf-8")))


# --------------------------------------------------------------------------
# generators
# --------------------------------------------------------------------------
INT_POOL = [0, 1, -1, 2, 3, 5, 9, 10, 16, 17, 100, 1000, 1234567, -1000, -2, 8, 15,
            2 ** 53, 2 ** 53 + 1, 2 ** 53 - 1, -(2 ** 53) - 1, 2 ** 62, -(2 ** 62), 2 ** 63 - 1, -(2 ** 63), 2 ** 63 - 2,
            -(2 ** 63) + 1, 2 ** 31, -(2 ** 31), 4611686018427387904, 9007199254740993]
FLOAT_POOL = ["1.5", "1.50", "1.0", "-1.0", "0.0", "-0.0", "1e3", "1E3", "2.5e-3", "0.1", "0.10000000000000001", "0.3",
              "9007199254740992.0", "9007199254740993.0", "9007199254740994.0", "1e22", "1e23", "5e-324", "2.4703282292062327e-324",
              "2.4703282292062328e-324", "1.7976931348623157e308", "-1.7976931348623157e308", ".5", "1.", "+2.5", "16.0", "10.0", "9.0",
              "1000.0", "123456789012345678.0", "4.35", "4.349999999999999", "0.30000000000000004", "1e-7", "3.0e0", "100.0"]
STR_POOL = ["", "a", "A", "b", "ab", "abc", "a b", "B", "10", "9", "5", "1.5", "true", "null", "~", "é", "z", "中", "\U0001F600", "aa",
            "a\tb", "Z", "_", "-1", "0x10", " ", "x'y", "q\"r"]
NULLS = ["null", "~", "Null", "NULL"]
BOOLS = ["true", "false", "True", "FALSE", "TRUE", "False"]
INTBAD = [("0b11", 3), ("-0x10", -16), ("18446744073709551615", 2 ** 64 - 1), ("9223372036854775808", 2 ** 63)]


def gen_int(rng, styles=True):
    r = rng.random()
    if r < 0.45:
        v = rng.randrange(-20, 21)
    elif r < 0.75:
        v = rng.choice(INT_POOL)
    elif r < 0.9:
        v = rng.randrange(-(2 ** 63), 2 ** 63)
    else:
        v = rng.choice([2 ** 53, 2 ** 63 - 1, -(2 ** 63), 0]) + rng.randrange(-3, 4)
        v = max(-(2 ** 63), min(2 ** 63 - 1, v))
    st = rng.choice(["dec"] * 5 + ["hex", "oct", "us", "plus", "lead0"]) if styles else "dec"
    return mk_int(v, st)


def gen_float(rng):
    r = rng.random()
    if r < 0.5:
        return mk_float(rng.choice(FLOAT_POOL))
    if r < 0.7:
        return mk_float("%d.%d" % (rng.randrange(-20, 21), rng.randrange(0, 100)))
    if r < 0.85:
        # decimal strings near a rounding boundary of binary64
        base = rng.choice([2 ** 53, 2 ** 54, 2 ** 60, 1])
        return mk_float("%d.%s" % (base + rng.randrange(0, 8), rng.choice(["0", "5", "49999999999999999999", "50000000000000000001"])))
    m = rng.randrange(1, 10 ** rng.randrange(1, 20))
    return mk_float("%de%d" % (m, rng.randrange(-30, 30)))


def gen_str(rng):
    if rng.random() < 0.7:
        return mk_str(rng.choice(STR_POOL))
    alpha = "abAB019 _-éz中"
    return mk_str("".join(rng.choice(alpha) for _ in range(rng.randrange(0, 5))))


def gen_scalar(rng, profile):
    """profile: 'ints' | 'smallnum' | 'nums' | 'strs' | 'mixed-clean' | 'adversarial'"""
    r = rng.random()
    if profile != "adversarial":
        if r < 0.08:
            return mk_null("null")
        if r < 0.2:
            return mk_bool(rng.choice(BOOLS))
    if profile == "ints":
        d = gen_int(rng)
        v = int(d["val"])
        if abs(v) >= 2 ** 62:   # keep pairwise differences inside int64
            d = mk_int(v // 4, "dec")
        return d
    if profile == "smallnum":
        if rng.random() < 0.5:
            return mk_int(rng.randrange(-30, 31), rng.choice(["dec", "dec", "plus", "lead0"]))
        return gen_float(rng)
    if profile == "nums":
        return gen_int(rng) if rng.random() < 0.5 else gen_float(rng)
    if profile == "strs":
        return gen_str(rng)
    if profile == "mixed-clean":
        return gen_str(rng)
    # adversarial: everything, including the defect classes
    if r < 0.08:
        return mk_null(rng.choice(NULLS))
    if r < 0.15:
        return mk_bool(rng.choice(BOOLS))
    if r < 0.45:
        return gen_int(rng)
    if r < 0.65:
        return gen_float(rng)
    if r < 0.7:
        return mk_fspecial(rng.choice([".inf", "-.inf", ".nan", ".Inf", "-.INF", "+.inf", ".NaN"]))
    if r < 0.74:
        return mk_nan()
    if r < 0.78:
        return mk_intbad(*rng.choice(INTBAD))
    return gen_str(rng)


def gen_list(rng, maxlen):
    long_case = maxlen > 20
    if long_case:    # beyond 20 elements Go merges blocks: only the consistent domain is compared
        profile = rng.choice(["ints", "smallnum", "strs", "mixed-clean"])
        n = rng.randrange(21, maxlen + 1)
    else:
        profile = rng.choice(["ints", "ints", "smallnum", "smallnum", "strs", "strs", "mixed-clean", "nums", "adversarial", "adversarial"])
        n = rng.choice([0, 1, 2, 2, 3, 3, 4, 5, 6, 8, 12, 20])
    base = [gen_scalar(rng, profile) for _ in range(n)]
    if base and rng.random() < 0.5:      # duplicates / equal values in other spellings
        for _ in range(rng.randrange(1, 4)):
            base.insert(rng.randrange(0, len(base) + 1), dict(rng.choice(base)))
    return profile, base[:maxlen]


def pool(rng, size):
    p = [mk_null("null"), mk_null("~"), mk_bool("true"), mk_bool("false"), mk_bool("True"),
         mk_int(9), mk_int(10), mk_int(1), mk_int(-2), mk_int(2 ** 63 - 1), mk_int(-(2 ** 63)), mk_int(16, "hex"), mk_int(8, "oct"),
         mk_int(1000, "us"), mk_int(2 ** 53 + 1), mk_int(2 ** 53), mk_int(0),
         mk_float("1.5"), mk_float("1.0"), mk_float("9007199254740992.0"), mk_float("10.0"), mk_float("-0.0"), mk_float("0.1"),
         mk_float("0.10000000000000001"), mk_float("1e3"), mk_fspecial(".inf"), mk_fspecial("-.inf"), mk_fspecial(".nan"), mk_nan(), mk_intbad("0b11", 3),
         mk_intbad("18446744073709551615", 2 ** 64 - 1),
         mk_str("5"), mk_str("10"), mk_str("a"), mk_str("B"), mk_str(""), mk_str("ab"), mk_str("é"), mk_str("~")]
    while len(p) < size:
        d = gen_scalar(rng, "adversarial")
        if all(d["sp"] != q["sp"] for q in p):
            p.append(d)
    return p[:size]


# --------------------------------------------------------------------------
# implementation access
# --------------------------------------------------------------------------
def flow_seq(scalars):
    return "[" + ", ".join(s["sp"] for s in scalars) + "]"


def flow_elems(elems):
    parts = []
    for i, e in enumerate(elems):
        f = ["i: %d" % i]
        if e.get("k") is not None:
            f.insert(0, "k: " + e["k"]["sp"])
        if e.get("j") is not None:
            f.insert(1 if e.get("k") is not None else 0, "j: " + e["j"]["sp"])
        parts.append("{" + ", ".join(f) + "}")
    return "[" + ", ".join(parts) + "]"


def res_json(r):
    """-> ('ok', parsed) | ('panic', site) | ('err', msg) | ('empty', None)"""
    if r is None:
        return ("crash", None)
    if r.get("panic"):
        return ("panic", r.get("panic"))
    if r.get("err"):
        return ("err", r["err"])
    out = r.get("out", "")
    if out.strip() == "":
        return ("empty", None)
    try:
        return ("ok", json.loads(out))
    except Exception:
        return ("bad", out)


def multi(inputs_exprs):
    reqs = [{"op": "multi", "input": inp, "exprs": exprs, "deadline_ms": 60000} for inp, exprs in inputs_exprs]
    resp = vlib.yqh_parallel(reqs)
    out = []
    for (inp, exprs), r in zip(inputs_exprs, resp):
        if r is None or "results" not in r:
            out.append([None] * len(exprs))
        else:
            out.append(r["results"])
    return out


def elem_keys(e, two):
    ks = []
    if e.get("k") is not None:
        ks.append(e["k"])
    if two and e.get("j") is not None:
        ks.append(e["j"])
    return ks


def coq_elems(elems, two):
    return "[" + "; ".join("mke [%s] %d" % ("; ".join(coq_scalar(k) for k in elem_keys(e, two)), i) for i, e in enumerate(elems)) + "]"


def keys_key(e, two):
    return tuple(spec_key(k) for k in elem_keys(e, two))


# --------------------------------------------------------------------------
# the direct oracle for one sort_by case (also used by replay)
# --------------------------------------------------------------------------
def sort_case_exprs(two):
    f = ".k, .j" if two else ".k"
    return ["sort_by(%s) | map(.i)" % f, "sort_by(%s) | sort_by(%s) | map(.i)" % (f, f)]


def judge_sort(elems, two, r1, r2):
    """-> (verdict, classes, detail); verdict in ok | known | violation"""
    allk = [k for e in elems for k in elem_keys(e, two)]
    classes = list_classes(allk)
    n = len(elems)
    k1, v1 = res_json(r1)
    k2, v2 = res_json(r2)
    if k1 == "panic" or k2 == "panic":
        return "violation", classes, "the sort comparator panicked"
    if k1 != "ok" or k2 != "ok":
        return "violation", classes, "sort_by failed: %r %r" % ((k1, v1), (k2, v2))
    if sorted(v1) != list(range(n)):
        return "violation", classes, "output is not a permutation of the input: %r" % (v1,)
    if any(spec_key(k) is None for k in allk):
        want = None
    else:
        want = sorted(range(n), key=lambda i: keys_key(elems[i], two))   # Python's sort is stable
    if want is not None and v1 != want:
        if classes:
            return "known", classes, "order %r, spec order %r" % (v1, want)
        return "violation", classes, "not the stable spec order: got %r want %r" % (v1, want)
    if v2 != v1:
        if classes:
            return "known", classes, "not idempotent: %r then %r" % (v1, v2)
        return "violation", classes, "sort is not idempotent: %r then %r" % (v1, v2)
    return "ok", classes, ""


def judge_ops(a, b, r):
    kind, v = res_json(r)
    if kind == "panic" or kind == "crash":
        return "violation", None, "comparison operator crashed"
    def plain_num(x):
        return x["kind"] == "float" or (x["kind"] == "int" and int_floatable(x))
    defined_expected = (a["kind"] == "int" and b["kind"] == "int") or (plain_num(a) and plain_num(b)) or (a["kind"] == "str" and b["kind"] == "str")
    if kind != "ok":
        if defined_expected:
            return "violation", None, "operators undefined on comparable operands: %r" % (v,)
        return "ok", None, "undefined"
    cls = ops_pair_class(a, b)
    ka, kb = spec_key(a), spec_key(b)
    if ka is None or kb is None:
        return "known", "nan", "NaN operand"
    want = [ka < kb, ka <= kb, ka > kb, ka >= kb]
    if v != want:
        if cls:
            return "known", cls, "got %r spec %r" % (v, want)
        return "violation", None, "operators disagree with the order: got %r spec %r" % (v, want)
    return "ok", None, ""


SUPERL_EXPRS = ["min | tag", "min | to_string", "max | tag", "max | to_string"]


def join_tt(rt, rx):
    """combine the answers of `X | tag` and `X | to_string` into one pseudo-response holding [tag, text]"""
    kt, vt = res_json(rt)
    kx, vx = res_json(rx)
    if kt == "ok" and kx == "ok":
        return {"out": json.dumps([vt, vx])}
    return rt if kt != "ok" else rx


def judge_superl(scalars, greater, r):
    kind, v = res_json(r)
    if kind in ("panic", "crash", "bad"):
        return "violation", None, "min/max crashed: %r" % (v,)
    if not scalars:
        return ("ok", None, "") if kind == "empty" else ("violation", None, "min/max of an empty sequence produced %r" % (v,))
    kinds = set("num" if is_number(s) else s["kind"] for s in scalars)
    if kind == "err":
        if kinds <= {"num"} and all(s["kind"] == "float" or (s["kind"] == "int" and int_floatable(s)) for s in scalars) or kinds <= {"str"}:
            return "violation", None, "min/max undefined on comparable operands: %r" % (v,)
        return "ok", None, "undefined"
    if kind != "ok":
        return "violation", None, "min/max printed nothing"
    tag, text = v
    cand = [s for s in scalars if s["tag"] == tag and s["text"] == text]
    if not cand:
        return "violation", None, "result %r is not an element" % (v,)
    classes = set()
    for i in range(len(scalars)):
        for j in range(len(scalars)):
            c = ops_pair_class(scalars[i], scalars[j])
            if c:
                classes.add(c)
    keys = [spec_key(s) for s in scalars]
    if any(k is None for k in keys):
        return "known", "nan", "NaN operand"
    best = max(keys) if greater else min(keys)
    if spec_key(cand[0]) != best:
        if classes:
            return "known", sorted(classes)[0], "got %r, spec %s is %r" % (v, "max" if greater else "min", best)
        return "violation", None, "%s is %r but the order says %r" % ("max" if greater else "min", v, best)
    return "ok", None, ""


# --------------------------------------------------------------------------
# sort_keys
# --------------------------------------------------------------------------
KEYCH = "abcxyzABZ019_"


def gen_tree(rng, depth=0):
    r = rng.random()
    if depth >= 3 or r < 0.35:
        return rng.choice([1, 2, 10, -3, "a", "b", "zz", True, None, 7])
    if r < 0.55:
        return [gen_tree(rng, depth + 1) for _ in range(rng.randrange(0, 4))]
    d = {}
    for _ in range(rng.randrange(0, 6)):
        k = "".join(rng.choice(KEYCH) for _ in range(rng.randrange(1, 4)))
        d[k] = gen_tree(rng, depth + 1)
    return d


def coq_tree(t):
    if isinstance(t, dict):
        return "TMap [" + "; ".join("(%s, %s)" % (vlib.coq_str(k), coq_tree(v)) for k, v in t.items()) + "]"
    if isinstance(t, list):
        return "TSeq [" + "; ".join(coq_tree(v) for v in t) + "]"
    return "TScalar " + vlib.coq_str(json.dumps(t))


def keys_sorted_everywhere(t):
    if isinstance(t, dict):
        ks = [k.encode() for k in t.keys()]
        return ks == sorted(ks) and all(keys_sorted_everywhere(v) for v in t.values())
    if isinstance(t, list):
        return all(keys_sorted_everywhere(v) for v in t)
    return True


def judge_sort_keys(t, r):
    kind, v = res_json(r)
    if kind != "ok":
        return "violation", "sort_keys failed: %r" % (v,)
    if v != t:      # dict equality ignores key order, everything else must be identical
        return "violation", "sort_keys changed a value"
    if not keys_sorted_everywhere(v):
        return "violation", "keys not sorted at every level"
    return "ok", ""


# --------------------------------------------------------------------------
# known findings: fixed witnesses replayed on the real binary
# --------------------------------------------------------------------------
def yq_out(doc, expr, fmt="json"):
    rc, o, e = vlib.run_yq(["-o=" + fmt, "-I0", expr], stdin=doc.encode())
    return rc, o.decode("utf-8", "replace").strip(), e.decode("utf-8", "replace")


def replay_known(chk):
    rc, o, e = yq_out("[0b11, 1, -0x10, -20]", "sort | map(to_string)")
    if rc == 0 and o == '["-0x10","-20","0b11","1"]':
        chk.known_finding("int-unreadable-text-order", "[0b11, 1, -0x10, -20] | sort -> " + o)
    rc, o, e = yq_out("[9007199254740993, 9007199254740992.0, 9007199254740992]", "sort | map(to_string)")
    if rc == 0 and o.startswith('["9007199254740993"'):
        chk.known_finding("mixed-precision", "[9007199254740993, 9007199254740992.0, 9007199254740992] | sort -> " + o)
    rc1, o1, _ = yq_out("[!!float nan, 1.0]", "sort | map(to_string)")
    rc2, o2, _ = yq_out("[1.0, !!float nan]", "sort | map(to_string)")
    if rc1 == 0 and rc2 == 0 and o1 == '["nan","1.0"]' and o2 == '["1.0","nan"]':
        chk.known_finding("nan", "[!!float nan, 1.0] | sort keeps either input order")
    rc1, o1, _ = yq_out("[1, null]", "min")
    rc2, o2, _ = yq_out("[null, 1]", "min")
    rc3, o3, _ = yq_out("[null, 1]", ".[0] < .[1]")
    if (o1, o2, o3) == ("1", "null", "false"):
        chk.known_finding("ops-null", "[1, null] | min -> 1, [null, 1] | min -> null, null < 1 -> false")
    rc, o, e = yq_out("{a: 1, a: 2}", "sort_keys(.)")
    if rc == 0 and o == '{"a":2,"a":2}':
        chk.known_finding("sort-keys-dup", "{a: 1, a: 2} | sort_keys(.) -> " + o)


# --------------------------------------------------------------------------
# replay of a recorded violation
# --------------------------------------------------------------------------
def replay(rp):
    kind = rp.get("kind")
    if kind == "sort":
        elems, two = rp["elems"], rp.get("two", False)
        res = multi([(flow_elems(elems), sort_case_exprs(two))])[0]
        v, _, _ = judge_sort(elems, two, res[0], res[1])
        return v != "violation"
    if kind == "ops":
        a, b = rp["a"], rp["b"]
        res = multi([(flow_seq([a, b]), ["[.[0] < .[1], .[0] <= .[1], .[0] > .[1], .[0] >= .[1]]"])])[0]
        v, _, _ = judge_ops(a, b, res[0])
        return v != "violation"
    if kind == "superl":
        scalars, greater = rp["scalars"], rp["greater"]
        res = multi([(flow_seq(scalars), SUPERL_EXPRS)])[0]
        v, _, _ = judge_superl(scalars, greater, join_tt(res[2], res[3]) if greater else join_tt(res[0], res[1]))
        return v != "violation"
    if kind == "multiseq":
        seqs, o = rp["seqs"], rp["op"]
        n = len(seqs)
        if rp["mode"] == "eval-all":
            r = vlib.yqh_batch([{"op": "multi", "input": "\n---\n".join(json.dumps(x) for x in seqs) + "\n", "exprs": [o], "all": True}])[0]
            got = [x for x in ((r or {}).get("results") or [{}])[0].get("out", "").split("\n") if x]
        else:
            got = [x for x in (multi([(json.dumps(seqs), [".[] | %s" % o])])[0][0] or {}).get("out", "").split("\n") if x]
        alone = []
        for r in multi([(json.dumps(seqs), [".[%d] | %s" % (i, o) for i in range(n)])])[0]:
            alone += [x for x in (r or {}).get("out", "").split("\n") if x]
        return got == alone and (o not in ("min", "max") or alone == [json.dumps(min(x) if o == "min" else max(x)) for x in seqs if x])
    if kind == "dtf":
        r = multi([(rp["doc"], ['with_dtf("%s"; sort)' % rp["layout"]])])[0][0]
        k, v = res_json(r)
        return k == "ok" and v == rp["want"]
    if kind == "jsonedge":
        def jn(lit):
            if re.fullmatch(r"-?\d+", lit) and -(2 ** 63) <= int(lit) <= 2 ** 63 - 1:
                return sc(lit, "!!int", lit, "int", str(int(lit)))
            return sc(lit, "!!float", lit, "float", "%d/%d" % Fraction(float(lit)).as_integer_ratio())
        l = [jn(x) for x in rp["lits"]]
        r = vlib.yqh_batch([{"op": "multi", "input": rp["doc"], "in": "json", "exprs": sort_case_exprs(False)}])[0]
        rs = (r or {}).get("results") or [None, None]
        v, _, _ = judge_sort([{"k": x} for x in l], False, rs[0], rs[1])
        return v != "violation"
    if kind == "ts":
        inst = [datetime.datetime.fromisoformat(x) for x in rp["instants"]]
        rs = multi([(rp["doc"], ["[.[0].t < .[1].t, .[0].t <= .[1].t, .[0].t > .[1].t, .[0].t >= .[1].t]", "sort_by(.t) | map(.i)"])])[0]
        k1, v1 = res_json(rs[0])
        k2, v2 = res_json(rs[1])
        a, b = inst[0], inst[1]
        return k1 == "ok" and v1 == [a < b, a <= b, a > b, a >= b] and k2 == "ok" and v2 == sorted(range(len(inst)), key=lambda i: inst[i])
    if kind == "sort_keys":
        t = rp["tree"]
        res = multi([(json.dumps(t), ["sort_keys(..)"])])[0]
        v, _ = judge_sort_keys(t, res[0])
        return v != "violation"
    return False


# --------------------------------------------------------------------------
def run(chk):
    thorough = chk.tier == "thorough"
    rng = chk.rng
    proved, plog = chk.prove("Props/C15.v", clean=False)
    broken = []
    if not proved:
        broken.append("proof obligations of Props/C15.v do not check: " + plog[-800:])
    import time as _t
    phase = {}
    _t0 = [_t.time()]

    def mark(name):
        phase[name] = round(_t.time() - _t0[0], 1)
        _t0[0] = _t.time()
    mark("prove")
    replay_known(chk)
    mark("known_findings")
    disagreements = []
    stats = {"sort_lists": 0, "sort_lists_clean": 0, "sort_lists_long": 0, "pairs": 0, "ops_pairs": 0, "superl": 0, "sort_keys": 0,
             "known_class_hits": {}, "law_violations_by_class": {}, "tag_mismatch_skipped": 0}
    nviol = [0]

    def viol(replay_obj, what):
        nviol[0] += 1
        if nviol[0] <= 6:
            chk.violation(replay_obj, True, what)

    def known_or_viol(classes, replay_obj, what):
        classes = [classes] if isinstance(classes, str) else sorted(classes)
        unknown = [c for c in classes if not chk.is_known(c)]
        if unknown or not classes:
            viol(replay_obj, what + " (class %s not a recorded finding)" % (unknown,))
            return
        for c in classes:
            stats["known_class_hits"][c] = stats["known_class_hits"].get(c, 0) + 1

    # ---------------- sort_by on generated sequences ----------------
    n_lists = 12000 if thorough else 1000
    cases = []
    for ci in range(n_lists):
        long_case = rng.random() < 0.08
        profile, base = gen_list(rng, (60 if thorough else 45) if long_case else 20)
        two = rng.random() < 0.2
        elems = []
        for s in base:
            e = {"k": s}
            if rng.random() < 0.05:
                e["k"] = None
            if two:
                e["j"] = gen_scalar(rng, "ints") if rng.random() < 0.8 else None
            elems.append(e)
        if len(elems) > 20:
            allk = [k for e in elems for k in elem_keys(e, two)]
            if list_classes(allk):     # beyond 20 elements only the consistent domain is compared
                elems = elems[:20]
        cases.append((elems, two, profile))
    corpus = [([{"k": mk_int(9223372036854775807)}, {"k": mk_int(-2)}, {"k": mk_int(1)}], False, "corpus"),
              ([{"k": mk_int(16, "hex")}, {"k": mk_float("1.5")}], False, "corpus"),
              ([{"k": mk_int(10)}, {"k": mk_str("5")}, {"k": mk_int(9)}], False, "corpus"),
              ([{"k": mk_null("~")}, {"k": mk_null("null")}], False, "corpus"),
              ([{"k": mk_int(1)}, {"k": mk_float("1.0")}, {"k": mk_int(1, "plus")}, {"k": mk_int(1, "hex")}], False, "corpus"),
              ([], False, "corpus"), ([{"k": mk_str("x")}], False, "corpus")]
    cases = corpus + cases
    exprs_tags = ["[.[] | select(has(\"k\")) | .k | tag]", "[.[] | select(has(\"k\")) | .k | to_string]"]
    res = multi([(flow_elems(e), sort_case_exprs(two) + exprs_tags) for e, two, _ in cases])
    coq_cases = []
    for (elems, two, profile), rs in zip(cases, res):
        if rs[0] is None:
            broken.append("harness gave no answer for a sort case")
            continue
        # generator sanity: yq's decoder sees the tags/texts the generator believes in
        kt, vt = res_json(rs[2])
        kx, vx = res_json(rs[3])
        want_tt = [[e["k"]["tag"], e["k"]["text"]] for e in elems if e.get("k") is not None]
        if kt != "ok" or kx != "ok" or [list(p) for p in zip(vt, vx)] != want_tt or len(vt) != len(vx):
            stats["tag_mismatch_skipped"] += 1
            continue
        verdict, classes, detail = judge_sort(elems, two, rs[0], rs[1])
        stats["sort_lists"] += 1
        stats["sort_lists_clean"] += 0 if classes else 1
        stats["sort_lists_long"] += 1 if len(elems) > 20 else 0
        k1, v1 = res_json(rs[0])
        chk.count(("sort", flow_elems(elems), two), nontrivial=len(elems) >= 2,
                  sample={"doc": flow_elems(elems), "expr": sort_case_exprs(two)[0], "out": v1} if 3 <= len(elems) <= 5 else None)
        rp = {"kind": "sort", "elems": elems, "two": two, "doc": flow_elems(elems), "expr": sort_case_exprs(two)[0], "got": repr(v1), "detail": detail}
        if verdict == "violation":
            viol(rp, detail)
        elif verdict == "known":
            known_or_viol(classes, rp, detail)
        exp = PANIC if k1 == "panic" else (bytes(v1) if k1 == "ok" and all(isinstance(x, int) and 0 <= x < 250 for x in v1) else b"\xff")
        coq_cases.append((coq_elems(elems, two), exp, rp))
    mism, err = vlib.coq_mismatches(chk.workdir, "sort_cases", IMPORTS, "run_sort", [(c, e) for c, e, _ in coq_cases])
    if err:
        broken.append("model evaluation failed (sort): " + err[-600:])
    else:
        for i, mo in mism:
            disagreements.append(("sort_by", coq_cases[i][2]["doc"], repr(coq_cases[i][1]), repr(mo)))

    mark("sort_by")
    # ---------------- plain sort on scalars (texts come back, no float formatting) ----------------
    plain = []
    for _ in range(4000 if thorough else 400):
        profile, base = gen_list(rng, 20)
        plain.append(base)
    res = multi([(flow_seq(b), ["sort | map(tag)", "sort | map(to_string)"]) for b in plain])
    pc = []
    for base, rs in zip(plain, res):
        k, v = res_json(rs[0])
        k2, v2 = res_json(rs[1])
        chk.count(("plain", flow_seq(base)), nontrivial=len(base) >= 2)
        if k == "panic":
            exp = PANIC
        elif k == "ok" and k2 == "ok" and len(v) == len(v2):
            v = list(zip(v, v2))
            exp = b"".join(TAGB.get(t, b"?") + x.encode("utf-8") + b"\n" for t, x in v)
            # oracle: multiset of (tag,text) preserved
            if sorted(map(tuple, v)) != sorted((s["tag"], s["text"]) for s in base):
                viol({"kind": "sort", "elems": [{"k": s} for s in base], "two": False, "doc": flow_seq(base)}, "plain sort lost or changed an element")
        else:
            exp = b"\xff"
        pc.append(("[" + "; ".join(coq_scalar(s) for s in base) + "]", exp, flow_seq(base)))
    mism, err = vlib.coq_mismatches(chk.workdir, "plain_cases", IMPORTS, "run_sort_plain", [(c, e) for c, e, _ in pc])
    if err:
        broken.append("model evaluation failed (plain sort): " + err[-600:])
    else:
        for i, mo in mism:
            disagreements.append(("sort", pc[i][2], repr(pc[i][1]), repr(mo)))

    mark("plain_sort")
    # ---------------- all ordered pairs and the order laws on all triples over a pool ----------------
    P = pool(rng, 90 if thorough else 40)
    pdoc = flow_elems([{"k": s} for s in P])
    pairs = [(a, b) for a in range(len(P)) for b in range(len(P)) if a != b]
    exprs = ["[.[%d], .[%d]] | sort_by(.k) | map(.i)" % (a, b) for a, b in pairs]
    chunks = [exprs[i:i + 200] for i in range(0, len(exprs), 200)]
    res = [r for part in multi([(pdoc, c) for c in chunks]) for r in part]
    L, PN = {}, {}
    pair_cases = []
    for (a, b), r in zip(pairs, res):
        k, v = res_json(r)
        stats["pairs"] += 1
        chk.count(("pair", P[a]["sp"], P[b]["sp"]), nontrivial=True)
        if k == "panic":
            PN[(a, b)] = True
            exp = PANIC
        elif k == "ok" and sorted(v) == sorted([a, b]):
            L[(b, a)] = (v == [b, a])      # Less(b, a) made the second element move in front
            exp = bytes([0, 1]) if v == [a, b] else bytes([1, 0])
        else:
            viol({"kind": "sort", "elems": [{"k": P[a]}, {"k": P[b]}], "two": False}, "two-element sort is not a permutation: %r" % (v,))
            exp = b"\xff"
        pair_cases.append(("[mke [%s] 0; mke [%s] 1]" % (coq_scalar(P[a]), coq_scalar(P[b])), exp, (a, b)))
    mism, err = vlib.coq_mismatches(chk.workdir, "pair_cases", IMPORTS, "run_sort", [(c, e) for c, e, _ in pair_cases])
    if err:
        broken.append("model evaluation failed (pairs): " + err[-600:])
    else:
        for i, mo in mism:
            a, b = pair_cases[i][2]
            disagreements.append(("pair", flow_seq([P[a], P[b]]), repr(pair_cases[i][1]), repr(mo)))
    # oracle on pairs
    for a in range(len(P)):
        for b in range(a + 1, len(P)):
            cls = pair_class(P[a], P[b])
            rp = {"kind": "sort", "elems": [{"k": P[a]}, {"k": P[b]}], "two": False, "doc": flow_seq([P[a], P[b]])}
            if PN.get((a, b)) or PN.get((b, a)):
                viol(rp, "the sort comparator panics")
                continue
            ka, kb = spec_key(P[a]), spec_key(P[b])
            if ka is None or kb is None:
                known_or_viol("nan", rp, "NaN operand")
                continue
            ok = L.get((a, b)) == (ka < kb) and L.get((b, a)) == (kb < ka)
            if not ok:
                if cls:
                    known_or_viol(cls, rp, "pair order deviates from the spec")
                else:
                    viol(rp, "comparator disagrees with the spec order on a pair inside the consistent domain: less(a,b)=%r less(b,a)=%r" % (L.get((a, b)), L.get((b, a))))
    # laws on triples (pure computation over the observed matrix)
    idx = [i for i in range(len(P))]
    def E(a, b):
        return not L.get((a, b)) and not L.get((b, a))
    def tclasses(t):
        out = set()
        for x in t:
            for y in t:
                if x < y:
                    c = pair_class(P[x], P[y])
                    if c:
                        out.add(c)
        return out
    ntrip = 0
    for a in idx:
        for b in idx:
            if a == b or (a, b) in PN or (b, a) in PN:
                continue
            if L.get((a, b)) and L.get((b, a)):
                cl = tclasses((a, b))
                for c in cl or {"(clean)"}:
                    stats["law_violations_by_class"][c] = stats["law_violations_by_class"].get(c, 0) + 1
                if not cl:
                    viol({"kind": "sort", "elems": [{"k": P[a]}, {"k": P[b]}], "two": False}, "asymmetry fails on a clean pair")
            for c in idx:
                if c == a or c == b or any(p in PN for p in ((a, c), (c, a), (b, c), (c, b))):
                    continue
                ntrip += 1
                bad = (L.get((a, b)) and L.get((b, c)) and not L.get((a, c))) or (E(a, b) and E(b, c) and not E(a, c))
                if bad:
                    cl = tclasses((a, b, c))
                    for x in cl or {"(clean)"}:
                        stats["law_violations_by_class"][x] = stats["law_violations_by_class"].get(x, 0) + 1
                    if not cl:
                        viol({"kind": "sort", "elems": [{"k": P[a]}, {"k": P[b]}, {"k": P[c]}], "two": False}, "transitivity fails on a clean triple")
    stats["triples_checked"] = ntrip

    mark("pairs_and_laws")
    # ---------------- operators on all ordered pairs of the pool ----------------
    OP = [s for s in P if not (s["kind"] == "str" and re.match(r"\d{4}-", s["val"]))]
    odoc = flow_seq(OP)
    opairs = [(a, b) for a in range(len(OP)) for b in range(len(OP))]
    exprs = ["[.[%d] < .[%d], .[%d] <= .[%d], .[%d] > .[%d], .[%d] >= .[%d]]" % (a, b, a, b, a, b, a, b) for a, b in opairs]
    chunks = [exprs[i:i + 200] for i in range(0, len(exprs), 200)]
    res = [r for part in multi([(odoc, c) for c in chunks]) for r in part]
    oc = []
    for (a, b), r in zip(opairs, res):
        stats["ops_pairs"] += 1
        chk.count(("ops", OP[a]["sp"], OP[b]["sp"]), nontrivial=True,
                  sample={"doc": flow_seq([OP[a], OP[b]]), "expr": "[.[0] < .[1], .[0] <= .[1], .[0] > .[1], .[0] >= .[1]]", "out": r.get("out") if r else None} if (a, b) in ((5, 17), (9, 10)) else None)
        verdict, cls, detail = judge_ops(OP[a], OP[b], r)
        rp = {"kind": "ops", "a": OP[a], "b": OP[b], "doc": flow_seq([OP[a], OP[b]]), "detail": detail}
        if verdict == "violation":
            viol(rp, detail)
        elif verdict == "known":
            known_or_viol(cls, rp, detail)
        k, v = res_json(r)
        exp = bytes(1 if x else 0 for x in v) if k == "ok" and isinstance(v, list) else (ERR if k == "err" else b"\xff")
        oc.append(("(%s, %s)" % (coq_scalar(OP[a]), coq_scalar(OP[b])), exp, rp))
    mism, err = vlib.coq_mismatches(chk.workdir, "ops_cases", IMPORTS, "(fun p => run_ops (fst p) (snd p))", [(c, e) for c, e, _ in oc])
    if err:
        broken.append("model evaluation failed (ops): " + err[-600:])
    else:
        for i, mo in mism:
            disagreements.append(("ops", oc[i][2]["doc"], repr(oc[i][1]), repr(mo)))

    mark("operators")
    # ---------------- min / max ----------------
    sl = []
    for _ in range(3000 if thorough else 300):
        prof = rng.choice(["ints", "smallnum", "nums", "strs", "adversarial"])
        n = rng.choice([0, 1, 2, 3, 4, 6, 9])
        sl.append([gen_scalar(rng, prof) for _ in range(n)])
    sl += [[mk_int(1), mk_null()], [mk_null(), mk_int(1)], [mk_int(2 ** 63 - 1), mk_int(-2), mk_int(1)]]
    res = multi([(flow_seq(s), SUPERL_EXPRS) for s in sl])
    mc = {False: [], True: []}
    for scalars, rs in zip(sl, res):
        for greater, r in ((False, join_tt(rs[0], rs[1])), (True, join_tt(rs[2], rs[3]))):
            stats["superl"] += 1
            chk.count(("superl", greater, flow_seq(scalars)), nontrivial=len(scalars) >= 2)
            verdict, cls, detail = judge_superl(scalars, greater, r)
            rp = {"kind": "superl", "scalars": scalars, "greater": greater, "doc": flow_seq(scalars), "detail": detail}
            if verdict == "violation":
                viol(rp, detail)
            elif verdict == "known":
                known_or_viol(cls, rp, detail)
            k, v = res_json(r)
            if k == "ok":
                exp = TAGB.get(v[0], b"?") + v[1].encode("utf-8") + b"\n"
            elif k == "empty":
                exp = b""
            elif k == "err":
                exp = ERR
            else:
                exp = b"\xff"
            mc[greater].append(("[" + "; ".join("(%s, %d)" % (coq_scalar(s), i) for i, s in enumerate(scalars)) + "]", exp, rp))
    for greater in (False, True):
        mism, err = vlib.coq_mismatches(chk.workdir, "superl_%d" % greater, IMPORTS, "run_superl %s" % ("true" if greater else "false"),
                                        [(c, e) for c, e, _ in mc[greater]])
        if err:
            broken.append("model evaluation failed (min/max): " + err[-600:])
        else:
            for i, mo in mism:
                disagreements.append(("max" if greater else "min", mc[greater][i][2]["doc"], repr(mc[greater][i][1]), repr(mo)))

    mark("min_max")
    # ---------------- sort_keys(..) ----------------
    trees = [gen_tree(rng) for _ in range(3000 if thorough else 300)]
    trees = [t for t in trees if isinstance(t, (dict, list))]
    res = multi([(json.dumps(t), ["sort_keys(..)"]) for t in trees])
    kc = []
    for t, rs in zip(trees, res):
        stats["sort_keys"] += 1
        chk.count(("sort_keys", json.dumps(t)), nontrivial=isinstance(t, dict) and len(t) >= 2,
                  sample={"doc": json.dumps(t), "expr": "sort_keys(..)", "out": rs[0].get("out") if rs[0] else None} if isinstance(t, dict) and len(json.dumps(t)) < 60 and len(t) >= 2 else None)
        verdict, detail = judge_sort_keys(t, rs[0])
        if verdict == "violation":
            viol({"kind": "sort_keys", "tree": t, "detail": detail}, detail)
        out = (rs[0] or {}).get("out", "").strip().encode("utf-8")
        kc.append((coq_tree(t), out, json.dumps(t)))
    mism, err = vlib.coq_mismatches(chk.workdir, "keys_cases", IMPORTS, "run_sort_keys", [(c, e) for c, e, _ in kc])
    if err:
        broken.append("model evaluation failed (sort_keys): " + err[-600:])
    else:
        for i, mo in mism:
            disagreements.append(("sort_keys", kc[i][2], repr(kc[i][1]), repr(mo)))

    mark("sort_keys")
    # ---------------- several sequences in one context, and eval-all (oracle only) ----------------
    # every operator works sequence by sequence: what it answers for the i-th matched sequence is what it answers for that sequence alone
    MOPS = ["min", "max", "sort", "unique", "group_by(.)", "sort_by(.)", "sort | reverse"]
    WORDS2 = ["a", "b", "c", "ab", "zz", "B", "q"]
    groups = []
    for _ in range(1500 if thorough else 150):
        seqs = []
        for _ in range(rng.choice([2, 3, 3, 4])):
            n = rng.choice([0, 1, 2, 3, 4, 5])
            if rng.random() < 0.6:
                seqs.append([rng.randrange(-9, 40) for _ in range(n)])
            else:
                seqs.append([rng.choice(WORDS2) for _ in range(n)])
        groups.append(seqs)
    groups += [[[3, 1, 2], [5, 4, 6], [9, 8, 7], ["b", "a", "c"]], [[1, 2], [5, 4]], [[1, 2], []], [[3, 1], [5, 4]]]
    reqs_a, reqs_b = [], []
    for seqs in groups:
        exprs = [".[] | %s" % o for o in MOPS]
        for i in range(len(seqs)):
            exprs += [".[%d] | %s" % (i, o) for o in MOPS]
        reqs_a.append((json.dumps(seqs), exprs))
        reqs_b.append({"op": "multi", "input": "\n---\n".join(json.dumps(x) for x in seqs) + "\n", "exprs": MOPS, "all": True, "deadline_ms": 60000})
    res_a = multi(reqs_a)
    res_b = vlib.yqh_parallel(reqs_b)
    stats["multi_sequence_groups"] = len(groups)

    def lines_of(r):
        k, v = ("crash", None) if r is None else (("panic", r["panic"]) if r.get("panic") else (("err", r["err"]) if r.get("err") else ("ok", r.get("out", ""))))
        return [x for x in v.split("\n") if x != ""] if k == "ok" else (k, v)

    for seqs, ra, rb in zip(groups, res_a, res_b):
        chk.count(("multiseq", json.dumps(seqs)), nontrivial=True)
        nops = len(MOPS)
        for oi, o in enumerate(MOPS):
            alone = []
            ok = True
            for i in range(len(seqs)):
                l = lines_of(ra[nops * (i + 1) + oi])
                if not isinstance(l, list):
                    ok = False
                    break
                alone += l
            if not ok:
                continue        # the operator is undefined on that sequence alone (nothing to compare)
            if o in ("min", "max"):
                want = [json.dumps(min(x) if o == "min" else max(x)) for x in seqs if x]
                if alone != want:
                    viol({"kind": "multiseq", "seqs": seqs, "op": o, "mode": "alone", "got": alone, "want": want}, "%s of single sequences gives %r, expected %r" % (o, alone, want))
            together = lines_of(ra[oi])
            if together != alone:
                viol({"kind": "multiseq", "seqs": seqs, "op": o, "mode": "context", "got": together, "want": alone},
                     "`.[] | %s` on %s gives %r but sequence by sequence %r" % (o, json.dumps(seqs), together, alone))
            rb_res = (rb or {}).get("results") or [None] * nops
            ea = lines_of(rb_res[oi])
            if ea != alone:
                viol({"kind": "multiseq", "seqs": seqs, "op": o, "mode": "eval-all", "got": ea, "want": alone},
                     "eval-all `%s` over the documents %s gives %r but document by document %r" % (o, json.dumps(seqs), ea, alone))
    mark("several_sequences")

    # ---------------- the order under custom date layouts: with_dtf(L; sort), both argument orders (oracle only) ----------------
    import datetime
    LAYOUTS = [("02-Jan-2006", "%d-%b-%Y"), ("2006/01/02", "%Y/%m/%d"), ("02.01.2006 15:04", "%d.%m.%Y %H:%M")]
    stats["date_layout_pairs"] = 0
    for lay, fmt in LAYOUTS:
        dates = [datetime.datetime(2011, 6, 12, 9, 30), datetime.datetime(2012, 2, 3, 18, 5), datetime.datetime(2020, 1, 1, 0, 0),
                 datetime.datetime(1999, 12, 31, 23, 59), datetime.datetime(2012, 2, 4, 7, 0)]
        dpool = [(None, (0,)), (True, (1, True)), (False, (1, False)), (2, (2, 2)), (7, (2, 7)), (30, (2, 30)), (-1, (2, -1)), (1.5, (2, 1.5))]
        dpool += [(d.strftime(fmt), (3, datetime.datetime.strptime(d.strftime(fmt), fmt))) for d in dates]
        dpool += [(w, (4, w.encode())) for w in ("cat", "Zed", "apple", "m")]
        items = []
        for a in range(len(dpool)):
            for b in range(len(dpool)):
                if a != b:
                    items.append([dpool[a], dpool[b]])
        for _ in range(200 if thorough else 40):
            items.append(rng.sample(dpool, rng.randrange(3, 9)))
        expr = 'with_dtf("%s"; sort)' % lay
        expr2 = 'with_dtf("%s"; sort_by(.k)) | map(.k)' % lay
        res_d = multi([(json.dumps([x for x, _ in it]), [expr]) for it in items] +
                      [(json.dumps([{"k": x} for x, _ in it]), [expr2]) for it in items[-40:]])
        for it, rs in zip(items + items[-40:], res_d):
            stats["date_layout_pairs"] += 1
            chk.count(("dtf", lay, json.dumps([x for x, _ in it])), nontrivial=True)
            want = [x for x, _ in sorted(it, key=lambda p: p[1])]
            k, v = res_json(rs[0])
            if k != "ok" or v != want:
                viol({"kind": "dtf", "layout": lay, "doc": json.dumps([x for x, _ in it]), "got": repr(v), "want": want},
                     "under the date layout %s, sort of %s gives %r, the order (null, bool, numbers, dates by date, other strings) says %r" % (lay, json.dumps([x for x, _ in it]), v, want))
    mark("date_layouts")

    # ---------------- timestamps: the same instant in different offsets / spellings (oracle only) ----------------
    # < <= > >=, sort_by, min and max must all follow the order of the instants
    utc = datetime.timezone.utc
    def inst(y, mo, d, h=0, mi=0, sec=0):
        return datetime.datetime(y, mo, d, h, mi, sec, tzinfo=utc)
    TS = [("2021-01-01T00:00:00Z", inst(2021, 1, 1)), ("2021-01-01T02:00:00+02:00", inst(2021, 1, 1)), ("2020-12-31T19:00:00-05:00", inst(2021, 1, 1)),
          ("2021-01-01T00:00:00.000Z", inst(2021, 1, 1)), ("2021-01-01", inst(2021, 1, 1)),
          ("2021-01-01T01:00:00Z", inst(2021, 1, 1, 1)), ("2021-01-01T03:00:00+02:00", inst(2021, 1, 1, 1)),
          ("2020-06-15T12:30:00Z", inst(2020, 6, 15, 12, 30)), ("2020-06-15T14:30:00+02:00", inst(2020, 6, 15, 12, 30)),
          ("2021-01-01T00:00:01Z", inst(2021, 1, 1, 0, 0, 1)), ("2020-12-31T23:59:59-01:00", inst(2021, 1, 1, 0, 59, 59))]
    tlists = [[TS[a], TS[b]] for a in range(len(TS)) for b in range(len(TS)) if a != b]
    for _ in range(300 if thorough else 40):
        tlists.append([rng.choice(TS) for _ in range(rng.randrange(3, 7))])
    TEX = ["[.[] | .t | tag]", "[.[0].t < .[1].t, .[0].t <= .[1].t, .[0].t > .[1].t, .[0].t >= .[1].t]",
           "sort_by(.t) | map(.i)", "map(.t) | min | to_string", "map(.t) | max | to_string", "sort_by(.t) | sort_by(.t) | map(.i)"]
    tdocs = ["[" + ", ".join("{t: %s, i: %d}" % (sp, i) for i, (sp, _) in enumerate(l)) + "]" for l in tlists]
    tres = multi([(d, TEX) for d in tdocs])
    stats["timestamp_cases"] = len(tlists)
    spell = dict(TS)
    for l, d, rs in zip(tlists, tdocs, tres):
        chk.count(("ts", d), nontrivial=True)
        rp = {"kind": "ts", "doc": d, "instants": [t.isoformat() for _, t in l]}
        kt, vt = res_json(rs[0])
        if kt != "ok" or any(x != "!!timestamp" for x in vt):
            broken.append("a generated timestamp is not tagged !!timestamp by the decoder: %s -> %r" % (d, vt))
            continue
        a, b = l[0][1], l[1][1]
        k1, v1 = res_json(rs[1])
        want_ops = [a < b, a <= b, a > b, a >= b]
        if k1 != "ok" or v1 != want_ops:
            viol(dict(rp, what="ops"), "timestamps %s: [<, <=, >, >=] of the first two gives %r, their instants say %r" % (d, v1, want_ops))
        want_sort = sorted(range(len(l)), key=lambda i: l[i][1])
        for ei in (2, 5):
            k2, v2 = res_json(rs[ei])
            if k2 != "ok" or v2 != want_sort:
                viol(dict(rp, what="sort"), "timestamps %s: %s gives %r, their instants say %r" % (d, TEX[ei], v2, want_sort))
        for ei, f in ((3, min), (4, max)):
            k3, v3 = res_json(rs[ei])
            if k3 != "ok" or spell.get(v3) != f(t for _, t in l):
                viol(dict(rp, what="minmax"), "timestamps %s: %s gives %r, their instants say %s" % (d, TEX[ei], v3, f(t for _, t in l).isoformat()))
    mark("timestamps")

    # ---------------- JSON input: whole-valued numbers at and beyond the int64 edges (oracle only) ----------------
    # an integer literal inside int64 is exact, every other JSON number is the binary64 it denotes
    JLITS = ["18446744073709551615", "1e19", "9223372036854775808", "9223372036854775807", "9223372036854775806", "-9223372036854775808",
             "-9223372036854775809", "1e308", "-1e300", "1000.0", "1e3", "1024", "5", "-3", "2.5", "0", "1.8446744073709552e19",
             "4611686018427387904", "1e18", "123456789012345678901234567890", "-1e19", "9007199254740992"]

    def jnum(lit):
        if re.fullmatch(r"-?\d+", lit) and -(2 ** 63) <= int(lit) <= 2 ** 63 - 1:
            return sc(lit, "!!int", lit, "int", str(int(lit)))
        return sc(lit, "!!float", lit, "float", "%d/%d" % Fraction(float(lit)).as_integer_ratio())
    jlists = [[jnum(JLITS[a]), jnum(JLITS[b])] for a in range(len(JLITS)) for b in range(len(JLITS)) if a != b]
    for _ in range(400 if thorough else 60):
        jlists.append([jnum(rng.choice(JLITS)) for _ in range(rng.randrange(3, 8))])
    jdocs = ["[" + ",".join('{"k":%s,"i":%d}' % (d["sp"], i) for i, d in enumerate(l)) + "]" for l in jlists]
    JEX = sort_case_exprs(False) + ["map(.k) | max", "map(.k) | min", "[.[0].k < .[1].k, .[0].k <= .[1].k, .[0].k > .[1].k, .[0].k >= .[1].k]"]
    jres = vlib.yqh_parallel([{"op": "multi", "input": d, "in": "json", "exprs": JEX, "deadline_ms": 60000} for d in jdocs])
    stats["json_edge_cases"] = len(jlists)
    for l, d, r in zip(jlists, jdocs, jres):
        rs = (r or {}).get("results") or [None] * len(JEX)
        chk.count(("jsonedge", d), nontrivial=True)
        elems = [{"k": x} for x in l]
        verdict, classes, detail = judge_sort(elems, False, rs[0], rs[1])
        rp = {"kind": "jsonedge", "doc": d, "lits": [x["sp"] for x in l], "detail": detail}
        if verdict == "violation":
            viol(rp, "-p=json %s: %s" % (d, detail))
        elif verdict == "known":
            known_or_viol(classes, rp, detail)
        if classes:
            continue
        vals = [numval(x) for x in l]
        for ei, f in ((2, max), (3, min)):
            k, v = res_json(rs[ei])
            if k != "ok" or not isinstance(v, (int, float)) or Fraction(float(v)) != Fraction(float(f(vals))):
                viol(rp, "-p=json %s: %s gives %r, the values say %s" % (d, JEX[ei], v, float(f(vals))))
        a, b = vals[0], vals[1]
        k, v = res_json(rs[4])
        if k != "ok" or v != [a < b, a <= b, a > b, a >= b]:
            viol(rp, "-p=json %s: [<, <=, >, >=] of the first two gives %r, the values say %r" % (d, v, [a < b, a <= b, a > b, a >= b]))
    mark("json_edges")
    chk.extra["phase_s"] = phase
    # ---------------- verdict ----------------
    if stats["tag_mismatch_skipped"] > 0.02 * max(1, len(cases)):
        broken.append("the YAML decoder tags %d generated scalars differently from the generator's expectation" % stats["tag_mismatch_skipped"])
    chk.extra["distribution"] = stats
    chk.extra["disagreements"] = len(disagreements)
    if disagreements and not chk.violations:
        d = disagreements[0]
        chk.violation({"kind": "correspondence", "broken": "Model/Sort.v vs operator_sort.go / operator_compare.go / operator_sort_keys.go",
                       "route": d[0], "input": d[1], "impl": d[2], "model": d[3], "count": len(disagreements),
                       "more": [x[:2] for x in disagreements[1:6]]},
                      False, "model and implementation disagree (%d cases, first on %s of %s) but the direct oracle found no failing input" % (len(disagreements), d[0], d[1]))
    if broken and not chk.violations:
        chk.violation({"kind": "obligation", "broken": broken}, False, "; ".join(broken)[:600])
    return chk.finish(
        checker_cmd="make -C coq Props/C15.vo (coqc 8.16.1, full .vo) + coqc work/C15/*_cases_*.v (vm_compute)",
        rule="sort_by(.k)/sort_by(.k,.j) on seeded sequences of maps keyed by scalars (clean profiles and an adversarial one mixing types, "
             "duplicates, extreme ints, hex/octal/underscore spellings, floats near rounding boundaries; up to 60 elements inside the consistent "
             "domain, up to 20 outside), plain sort on scalar sequences, every ordered pair of a %d-value pool (sort comparator and the four "
             "operators, exhaustive) with the order laws checked on every triple of the observed relation, min/max on scalar sequences, "
             "sort_keys(..) on nested maps; min / max / sort / unique / group_by / sort_by applied to several sequences in one context (`.[] | OP`) and under "
             "eval-all, each compared with the same operator on every sequence alone; with_dtf(LAYOUT; sort) for three date layouts on every ordered pair "
             "of a pool (null, bools, numbers, dates, other strings) and on samples, against the order computed here (oracle only, not modelled); "
             "!!timestamp scalars denoting equal and different instants in several offsets / spellings: < <= > >=, sort_by, min, max against the instants; "
             "JSON input (-p=json) with whole-valued numbers at and beyond the int64 edges (2^63, 2^64-1, 1e19, -2^63-1, 1e308 ...): sort_by, min, max, < <= > >= against the values. "
             "A case is non-trivial when it has at least two elements; distinct by input text." % len(P),
        trusted=vlib.COMMON_TRUSTED + [
            "Spec/Order.v (hand-written total preorder; numbers placed before strings by choice, never used to judge a mixed sequence)",
            "strconv.ParseInt / strconv.ParseFloat (decimal syntax, correct rounding) and sort.Stable below 21 elements are restated in Model/Sort.v; "
            "validated by the correspondence run (floats near rounding boundaries against Go, ground truth from Python's float())",
            "sort.Stable above 20 elements (symMerge) is not modelled: by C15_sort_unique any stable sort gives the same result on the consistent domain, "
            "and the check compares longer inputs only inside that domain",
            "scalars are (tag, text) as yq's YAML decoder produces them; the decoder's tagging is checked against the generator's expectation on every case",
            "timestamps, custom tags and non-scalar sort keys are outside the model; non-default date-time layouts (with_dtf) and the handling of several "
            "matched sequences / eval-all are outside the model too but are TESTED by the direct oracle"],
        assumptions=["the spec value of a !!float scalar is the binary64 its text denotes (YAML core schema)",
                     "correspondence is sampled; the unbounded claims are the Coq theorems over the model"])
