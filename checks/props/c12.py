"""C12 — in-place edit is all-or-nothing.

Decided by: theorems Props/C12.v over Model/InPlace.v (the -i protocol as a
machine over an abstract file system, all schedules) and Spec/FsSpec.v.
Tie: the real binary (build tag verif) is run with a fault or a kill at every
hook point x {same device, other device} x (expression, content, mode) cases;
exit status, target bytes, target mode, the hook points reached and whether a
temp file is left behind are compared with the model's prediction for that
schedule (exhaustive over the finite fault space).  A syscall-level sweep
(strace fault injection) ties the O-steps whose errors the Go code ignores.
Direct oracle, independent of the model: exit 0 => file = stdout of the same
command without -i and mode kept; exit != 0 => file unchanged; killed => old
or new; front matter tail still present.
"""
import json, os, shutil, stat, subprocess, tempfile
from concurrent.futures import ThreadPoolExecutor
import vlib

HOOKS = ["create_temp", "stat_target", "chmod_temp", "chown_temp", "print_node", "printed_node",
         "finish_before_close", "finish_after_close", "before_rename", "copy_open_src", "copy_create_dst",
         "copy_after_truncate", "copy_before_sync", "copy_done_before_remove", "after_rename"]
CODE = {n: i + 1 for i, n in enumerate(HOOKS)}
COQ_STEP = {"create_temp": "HCreateTemp", "stat_target": "HStatTarget", "chmod_temp": "HChmodTemp",
            "chown_temp": "HChownTemp", "print_node": "HPrintNode", "printed_node": "HPrintedNode",
            "finish_before_close": "HFinishBeforeClose", "finish_after_close": "HFinishAfterClose",
            "before_rename": "HBeforeRename", "copy_open_src": "HCopyOpenSrc", "copy_create_dst": "HCopyCreateDst",
            "copy_after_truncate": "HCopyAfterTruncate", "copy_before_sync": "HCopyBeforeSync",
            "copy_done_before_remove": "HCopyDoneBeforeRemove", "after_rename": "HAfterRename"}
# injected errors at these points have no real counterpart (nothing can fail
# there: the commit already happened); the model predicts them, the direct
# oracle does not count them as failures of the property
ARTIFACT_FAIL_POINTS = {"after_rename", "copy_done_before_remove"}
IMPORTS = "From YQ Require Import Base.Str Model.InPlace."
SHM = "/dev/shm"

# syscall-level faults (strace): (label, [inject specs], model O-step faults, needs rename to fail)
SYSCALL_FAULTS = [
    ("rename-EXDEV", ["renameat:error=EXDEV"], ["(ORename, Fail 0%nat)"]),
    ("chown-EPERM", ["fchownat:error=EPERM"], ["(OChown, Fail 0%nat)"]),
    ("chmod-EPERM", ["fchmodat:error=EPERM"], ["(OChmod, Fail 0%nat)"]),
    ("rename-EXDEV+fsync-EIO", ["renameat:error=EXDEV", "fsync:error=EIO"], ["(ORename, Fail 0%nat)", "(OSync, Fail 0%nat)"]),
    ("rename-EXDEV+unlink-EPERM", ["renameat:error=EXDEV", "unlinkat:error=EPERM"], ["(ORename, Fail 0%nat)", "(ORemoveTemp, Fail 0%nat)", "(ORemoveDiscard, Fail 0%nat)"]),
]


def base_cases():
    big = "".join("key%04d: value number %d\n" % (i, i) for i in range(260)).encode()
    return [
        dict(name="set-scalar", expr=".a = 5", content=b"a: 1\nb: 2\n", mode=0o640),
        dict(name="multi-doc", expr='.x = "y"', content=b"a: 1\n---\nb: 2\n---\nc: 3\n", mode=0o600),
        dict(name="eval-error", expr='.a = error("boom")', content=b"a: 1\n", mode=0o644),
        dict(name="eval-error-2nd-doc", expr='select(.a) // error("no a")', content=b"a: 1\n---\nb: 2\n", mode=0o644),
        dict(name="bad-yaml", expr=".a = 5", content=b"a: [1, 2\nb: }\n", mode=0o644),
        dict(name="bad-yaml-2nd-doc", expr=".a = 5", content=b"a: 1\n---\nb: [\n", mode=0o664),
        dict(name="bad-expression", expr=".a |", content=b"a: 1\n", mode=0o644),
        dict(name="e-no-match", expr=".zz", flags=["-e"], content=b"a: 1\n", mode=0o644),
        dict(name="e-match", expr=".a", flags=["-e"], content=b"a: 1\n", mode=0o644),
        dict(name="json", expr='.a = {"k": [1, 2]}', content=b'{"a": 1, "b": "x"}\n', mode=0o644, ext=".json"),
        dict(name="eval-all-two-files", cmd="ea", expr="select(fi == 0) * select(fi == 1)", content=b"a: 1\nb: {c: 2}\n",
             mode=0o644, more=[("second.yml", b"b: {d: 3}\ne: 4\n")]),
        dict(name="encode-error", expr=".", flags=["-o=xml"], content=b"- 1\n- 2\n", mode=0o644),
        dict(name="encode-error-2nd", expr=".[]", flags=["-o=base64"], content=b"- abc\n- [1]\n", mode=0o644),
        dict(name="front-matter", expr=".a = 5", flags=["--front-matter=process"], fm=2,
             content=b"---\na: 1\n---\nhello tail\nmore text\n", mode=0o644, ext=".md"),
        # the text after the front matter is longer than any reader buffer (4 KiB bufio, 32 KiB io.Copy, 64 KiB pipes)
        dict(name="front-matter-long-tail", expr=".a = 5", flags=["--front-matter=process"], fm=2,
             content=b"---\na: 1\n---\n" + b"".join(b"line %05d of the body text\n" % i for i in range(320)), mode=0o644, ext=".md"),
        dict(name="front-matter-long-head", expr=".k0100 = 5", flags=["--front-matter=process"], fm=2,
             content=b"---\n" + b"".join(b"k%04d: value %d\n" % (i, i) for i in range(260)) + b"---\ntail after a long front matter\n" + b"x" * 600 + b"\n", mode=0o644, ext=".md"),
        dict(name="front-matter-no-result", expr="select(.a == 7)", flags=["--front-matter=process"], fm=2,
             content=b"---\na: 1\n---\nhello tail\n", mode=0o644, ext=".md"),
        dict(name="front-matter-extract", expr=".a = 6", flags=["--front-matter=extract"], fm=1,
             content=b"a: 1\n---\nrest\n", mode=0o644, ext=".md"),
        dict(name="init-error", expr=".a", flags=["-n"], content=b"a: 1\n", mode=0o644, cls="init"),
        dict(name="init-error-format", expr=".a", flags=["-o=nope"], content=b"a: 1\n", mode=0o644, cls="init"),
        dict(name="config-error", expr=".a", flags=["-p=shell"], content=b"a: 1\n", mode=0o644, cls="config_err"),
        dict(name="eval-panic-or-error", expr=".[-5:1]", content=b"- 1\n- 2\n", mode=0o644),   # a Go panic at the pinned tree (C11)
        dict(name="no-result", expr="select(.a == 7)", content=b"a: 1\n", mode=0o644),
        dict(name="big-file", expr=".key0007 = 1", content=big, mode=0o444),
        dict(name="mode-755", expr="del(.b)", content=b"#!x\na: 1\nb: 2\n", mode=0o755),
        dict(name="empty-file", expr=".a = 1", content=b"", mode=0o644),
        # the same protocol through the other command (eval-all has its own copy of the deferred finisher)
        dict(name="ea-set-scalar", cmd="ea", expr=".a = 5", content=b"a: 1\nb: 2\n", mode=0o640),
        dict(name="ea-multi-doc", cmd="ea", expr='.x = "y"', content=b"a: 1\n---\nb: 2\n---\nc: 3\n", mode=0o600),
        dict(name="ea-eval-error", cmd="ea", expr='.a = error("boom")', content=b"a: 1\n", mode=0o644),
        dict(name="ea-e-no-match", cmd="ea", expr=".zz", flags=["-e"], content=b"a: 1\n", mode=0o644),
        dict(name="ea-e-match", cmd="ea", expr=".a", flags=["-e"], content=b"a: 1\n", mode=0o644),
        dict(name="ea-front-matter", cmd="ea", expr=".a = 5", flags=["--front-matter=process"], fm=2,
             content=b"---\na: 1\n---\nhello tail\n", mode=0o644, ext=".md"),
        # the path given to -i is a link; unusual permission bits (the mode seen AT THE PATH must survive)
        dict(name="symlink-640", expr=".port = 8080", content=b"user: admin\nport: 1\n", mode=0o640, link="symlink"),
        dict(name="symlink-eval-error", expr='.a = error("x")', content=b"a: 1\n", mode=0o600, link="symlink"),
        dict(name="hardlink-600", expr=".a = 2", content=b"a: 1\n", mode=0o600, link="hardlink"),
        dict(name="mode-setuid-4755", expr=".a = 2", content=b"a: 1\n", mode=0o4755),
        dict(name="mode-setgid-2750", expr=".a = 2", content=b"a: 1\n", mode=0o2750),
        dict(name="mode-sticky-1644", expr=".a = 2", content=b"a: 1\n", mode=0o1644),
        dict(name="mode-000", expr=".a = 2", content=b"a: 1\n", mode=0o000),
    ]


def random_cases(rng, n):
    exprs = [".a = 5", ".b += 1", "del(.a)", ".c.d = [1,2]", ". as $x | .z = ($x | length)", ".[] |= .", "sort_keys(.)",
             '.a = error("e")', ".a |", "select(.a)", ".. style=\"\"", "[.]", "{\"k\": .}", ".a, .b", 'select(.b) // error("x")',
             ".a = (.b | keys)", "explode(.)", "with(.a; . = 1)"]
    out = []
    for i in range(n):
        docs = []
        for _ in range(rng.choice([1, 1, 2, 3])):
            keys = rng.sample(["a", "b", "c", "z", "k e y", "q"], rng.randrange(1, 4))
            d = "".join("%s: %s\n" % (json.dumps(k) if " " in k else k,
                                     rng.choice(["1", "2", "x", "[1, 2]", "{c: 2}", "null", "\"s t\"", "true", "&x 1", "# c\n  3"]))
                        for k in keys)
            docs.append(d)
        content = "---\n".join(docs)
        if rng.random() < 0.12:
            content += rng.choice(["x: [1,\n", "\t- bad\n", "a: b: c\n"])
        flags = []
        if rng.random() < 0.15:
            flags.append("-e")
        if rng.random() < 0.15:
            flags.append(rng.choice(["-o=json", "-o=props", "-N", "-P", "-o=csv", "-o=xml"]))
        out.append(dict(name="rand%d" % i, expr=rng.choice(exprs), content=content.encode(), flags=flags,
                        mode=rng.choice([0o600, 0o644, 0o640, 0o444, 0o755, 0o666, 0o400]),
                        cmd=rng.choice(["eval", "eval", "ea"])))
    return out


# ---------------------------------------------------------------------------
def py_fm_split(b):
    """independent restatement of front_matter.go Split: (yaml part, rest)"""
    pos, first = 0, True
    while True:
        if len(b) - pos < 3:
            break
        if not first and b[pos:pos + 3] == b"---":
            break
        nl = b.find(b"\n", pos)
        nl = len(b) if nl < 0 else nl + 1
        pos, first = nl, False
    return b[:pos], b[pos:]


def argv(case, inplace, target, more_paths, drop_e=False, drop_fm=False):
    a = []
    if case.get("cmd", "eval") == "ea":
        a.append("ea")
    for f in case.get("flags", []):
        if drop_e and f == "-e":
            continue
        if drop_fm and f.startswith("--front-matter"):
            continue
        a.append(f)
    if inplace:
        a.append("-i")
    a += [case["expr"], target] + more_paths
    return a


class Sandbox:
    """one directory per run: target (+ other input files), private TMPDIR on the wanted device"""

    def __init__(self, root, shmroot, case, cross, content=None):
        self.dir = tempfile.mkdtemp(prefix="r_", dir=root)
        self.tmpdir = tempfile.mkdtemp(prefix="t_", dir=shmroot if cross else self.dir)
        self.target = os.path.join(self.dir, "target" + case.get("ext", ".yml"))
        self.real = self.target
        link = case.get("link")
        if link:
            # the edited path is a symbolic / hard link to the file that holds the content and the mode
            os.mkdir(os.path.join(self.dir, "real"))
            self.real = os.path.join(self.dir, "real", "data" + case.get("ext", ".yml"))
        with open(self.real, "wb") as f:
            f.write(case["content"] if content is None else content)
        os.chmod(self.real, case["mode"])
        if link == "symlink":
            os.symlink(os.path.join("real", os.path.basename(self.real)), self.target)
        elif link == "hardlink":
            os.link(self.real, self.target)
        self.more = []
        for nm, data in case.get("more", []):
            p = os.path.join(self.dir, nm)
            with open(p, "wb") as f:
                f.write(data)
            self.more.append(p)
        self.trace = os.path.join(self.dir, "trace.txt")

    def env(self, fault=None):
        e = dict(os.environ, TMPDIR=self.tmpdir, YQ_VERIF_TRACE=self.trace)
        e.pop("YQ_VERIF_FAULT", None)
        if fault:
            e["YQ_VERIF_FAULT"] = fault
        return e

    def read_trace(self):
        if not os.path.exists(self.trace):
            return []
        return [l for l in open(self.trace).read().split("\n") if l]

    def observe(self):
        try:
            st = os.stat(self.target)
            data = open(self.target, "rb").read()
            mode = stat.S_IMODE(st.st_mode)
            present = 1
        except FileNotFoundError:
            data, mode, present = b"", 0, 0
        temps = [f for f in os.listdir(self.tmpdir) if f.startswith("temp")]
        return data, mode, present, len(temps)

    def close(self):
        shutil.rmtree(self.dir, ignore_errors=True)
        shutil.rmtree(self.tmpdir, ignore_errors=True)


def rc_class(rc):
    if rc == "timeout":
        return 99
    if rc < 0:
        return 9
    return rc


def baseline(root, shmroot, case):
    """What the evaluator does for this case, from runs WITHOUT -i: chunks printed, how it ends."""
    info = {}
    fm = case.get("fm", 0)
    content = case["content"]
    tail = b""
    if fm:
        ypart, rest = py_fm_split(content)
        tail = rest if fm == 2 else b""
        content_eval = ypart
    else:
        content_eval = content
    info["tail"] = tail
    cls = case.get("cls", "eval")
    # full command without -i: the reference for 'new' in the direct oracle
    sb = Sandbox(root, shmroot, case, False)
    rc, out, err = vlib.run_yq(argv(case, False, sb.target, sb.more), env=sb.env(), cwd=sb.dir)
    info["ref_rc"], info["ref_out"], info["ref_err"] = rc_class(rc), out, err
    sb.close()
    # evaluation of the part the evaluator sees (front matter stripped), for the model's plan
    sb = Sandbox(root, shmroot, case, False, content=content_eval)
    rc, out, err = vlib.run_yq(argv(case, False, sb.target, sb.more, drop_fm=True), env=sb.env(), cwd=sb.dir)
    tr = sb.read_trace()
    sb.close()
    n_print, n_printed = tr.count("print_node"), tr.count("printed_node")
    info["n"] = n_print
    info["enc_fail"] = n_print > n_printed
    rcc = rc_class(rc)
    e_fail = False
    if "-e" in case.get("flags", []) and rcc == 1:
        sb = Sandbox(root, shmroot, case, False, content=content_eval)
        rc2, _, _ = vlib.run_yq(argv(case, False, sb.target, sb.more, drop_e=True, drop_fm=True), env=sb.env(), cwd=sb.dir)
        sb.close()
        e_fail = rc_class(rc2) == 0
    info["e_fail"] = e_fail
    info["end"] = "Done" if (rcc == 0 or e_fail) else ("Panicked" if rcc == 2 else "Failed")
    # chunk boundaries: kill before the k-th flush, stdout (a file) then holds chunks 1..k-1
    bounds = []
    for k in range(2, n_print + 1):
        sb = Sandbox(root, shmroot, case, False, content=content_eval)
        outp = os.path.join(sb.dir, "stdout.bin")
        with open(outp, "wb") as fo:
            subprocess.run([vlib.YQ] + argv(case, False, sb.target, sb.more, drop_fm=True), env=sb.env("print_node:kill:%d" % k),
                           cwd=sb.dir, stdout=fo, stderr=subprocess.DEVNULL, timeout=30)
        bounds.append(os.path.getsize(outp))
        sb.close()
    chunks, prev = [], 0
    for b in bounds:
        chunks.append(out[prev:b])
        prev = b
    if n_print >= 1:
        chunks.append(out[prev:])
    info["chunks"] = chunks
    info["cls"] = cls
    return info


def coq_plan(info):
    cls = info["cls"]
    cfgend = {"config_err": "Failed", "config_panic": "Panicked"}.get(cls, "Done")
    return "(mkPlan %s %s [[%s]] %s %s)" % ("false" if cls == "init" else "true", cfgend,
                                          ";".join(vlib.coq_str(c) for c in info["chunks"]), info["end"],
                                          "true" if info["e_fail"] else "false")


def coq_faults(point, action, nth, info, extra=()):
    l = []
    if point:
        st = COQ_STEP[point]
        if point in ("print_node", "printed_node"):
            st = "%s %d%%nat" % (st, nth)
        l.append("(%s, %s)" % (st, "Fail 0%nat" if action == "fail" else "CrashBefore"))
    l += list(extra)
    if info["enc_fail"]:
        l.append("(OEncode %d%%nat, Fail 0%%nat)" % info["n"])
    return "[" + "; ".join(l) + "]"


def expected_obs(rcc, data, mode, present, ntemps, trace, old, ref):
    hooks = [CODE[t] for t in trace if t in CODE]
    comp = [0] if data == old else ([1] if data == ref else [2] + list(data))
    return [rcc, present, mode if present else 0, 1 if ntemps > 0 else 0, len(hooks)] + hooks + (comp if present else [])


def run_fault(root, shmroot, case, cross, fault, strace_inject=None, fsize=None):
    sb = Sandbox(root, shmroot, case, cross)
    try:
        args = argv(case, True, sb.target, sb.more)
        if fsize is not None:
            # a REAL write failure: RLIMIT_FSIZE makes the write(2) that crosses the limit on the temp file fail (EFBIG);
            # the hook trace goes to stderr (a pipe, not subject to the limit)
            import resource

            def limit():
                resource.setrlimit(resource.RLIMIT_FSIZE, (fsize, fsize))
            env = sb.env(None)
            env["YQ_VERIF_TRACE"] = "/dev/stderr"
            p = subprocess.run([vlib.YQ] + args, env=env, cwd=sb.dir, stdout=subprocess.PIPE, stderr=subprocess.PIPE, timeout=60, preexec_fn=limit)
            data, mode, present, ntemps = sb.observe()
            lines = p.stderr.decode("utf-8", "replace").split("\n")
            return dict(rc=rc_class(p.returncode), data=data, mode=mode, present=present, ntemps=ntemps,
                        trace=[l for l in lines if l in CODE], stdout=p.stdout,
                        stderr="\n".join(l for l in lines if l and l not in CODE)[-300:], fsize=fsize)
        if strace_inject:
            cmd = ["strace", "-f", "-o", "/dev/null", "-e", "trace=" + ",".join(sorted({s.split(":")[0] for s in strace_inject}))]
            for s in strace_inject:
                cmd += ["-e", "inject=" + s]
            p = subprocess.run(cmd + [vlib.YQ] + args, env=sb.env(fault), cwd=sb.dir, stdout=subprocess.PIPE, stderr=subprocess.PIPE, timeout=60)
            rc, out, err = p.returncode, p.stdout, p.stderr
        else:
            rc, out, err = vlib.run_yq(args, env=sb.env(fault), cwd=sb.dir)
        data, mode, present, ntemps = sb.observe()
        return dict(rc=rc_class(rc), data=data, mode=mode, present=present, ntemps=ntemps, trace=sb.read_trace(),
                    stdout=out, stderr=err[-300:])
    finally:
        sb.close()


def oracle(case, info, run, point, action, cross):
    """The property itself, on the implementation. Returns list of (key, text); key None = plain violation."""
    bad = []
    old, mode = case["content"], case["mode"]
    rc, data = run["rc"], run["data"]
    new = info["ref_out"] if info["ref_rc"] == 0 else None
    if run["present"] != 1:
        return [(None, "target file vanished")]
    if run["mode"] != mode:
        bad.append((None, "permission bits changed %o -> %o" % (mode, run["mode"])))
    if run.get("fsize") is not None and new is not None and len(new) > run["fsize"]:
        # the output does not fit under the file size limit: some write of the temp file must have failed
        if rc == 0:
            bad.append((None, "a write of the temp file failed (file size limit %d < %d bytes of output) but yq -i exits 0; the file now has %d bytes"
                        % (run["fsize"], len(new), len(data))))
        elif not run["stderr"].strip():
            bad.append((None, "failed write of the temp file: exit %d without a message on stderr" % rc))
    artifact = action == "fail" and point in ARTIFACT_FAIL_POINTS
    sig_xdev = cross or run.get("rename_forced")
    if rc == 0:
        if new is None:
            bad.append((None, "exit 0 with -i although the same command without -i fails"))
        elif data != new:
            bad.append((None, "exit 0 but the file differs from the stdout of the same command without -i"))
    elif rc == 9:
        if data != old and (new is None or data != new):
            key = "xdev-kill-truncated" if (sig_xdev and "copy_create_dst" in run["trace"]) else None
            bad.append((key, "killed at %s: file is neither old nor new (%d bytes)" % (point, len(data))))
    else:
        if data != old and not artifact:
            key = "xdev-fail-not-old" if (sig_xdev and "copy_after_truncate" in run["trace"]) else None
            bad.append((key, "exit %d at %s:%s but the file changed" % (rc, point, action)))
    if case.get("fm", 0) == 2 and info["tail"] and info["tail"] not in data:
        trunc = sig_xdev and "copy_create_dst" in run["trace"] and data != new
        if not trunc:  # truncation already reported above
            bad.append((None, "front matter tail lost (exit %d)" % rc))
    # protocol hygiene (not part of the property statement): no temp file is left behind at an exit, unless the
    # injected fault sits in the finishing / clean-up phase itself
    finish_phase = point in HOOKS[HOOKS.index("finish_before_close"):] or run.get("unlink_forced")
    if rc in (0, 1, 2) and run["ntemps"] > 0 and not finish_phase and not case.get("fm", 0):
        bad.append((None, "temp file left in TMPDIR after exit %d" % rc))
    return bad


def fault_space(n, thorough):
    """every hook point x {fail, kill}; print points for each arrival 1..n"""
    sp = [(None, None, 1)]
    for pt in HOOKS:
        nths = [1]
        if pt in ("print_node", "printed_node"):
            nths = list(range(1, max(n, 1) + 1)) if (n <= 4 or thorough) else [1, 2, n]
        for k in nths:
            for act in ("fail", "kill"):
                sp.append((pt, act, k))
    return sp


def have_cross():
    try:
        return os.stat(SHM).st_dev != os.stat(vlib.WORK).st_dev and os.access(SHM, os.W_OK)
    except OSError:
        return False


def have_strace():
    if not shutil.which("strace"):
        return False
    try:
        p = subprocess.run(["strace", "-o", "/dev/null", "-e", "trace=none", "/bin/true"], timeout=20,
                           stdout=subprocess.DEVNULL, stderr=subprocess.DEVNULL)
        return p.returncode == 0
    except Exception:
        return False


def replay(rp):
    root = tempfile.mkdtemp(prefix="c12rp_", dir=vlib.WORK)
    shmroot = tempfile.mkdtemp(prefix="verif_c12_", dir=SHM) if have_cross() else root
    try:
        case = dict(rp["case"])
        case["content"] = vlib.b64d(case.pop("content_b64"))
        case["more"] = [(n, vlib.b64d(b)) for n, b in case.get("more_b64", [])]
        info = baseline(root, shmroot, case)
        fault = rp.get("fault")
        run = run_fault(root, shmroot, case, rp.get("cross", False), fault, rp.get("strace"), rp.get("fsize"))
        if rp.get("strace") and any(s.startswith("renameat") for s in rp["strace"]):
            run["rename_forced"] = True
        if rp.get("strace") and any(s.startswith(("unlinkat", "fsync")) for s in rp["strace"]):
            run["unlink_forced"] = True
        pt, act = (fault.split(":") + [None])[:2] if fault else (None, None)
        return not oracle(case, info, run, pt, act, rp.get("cross", False))
    finally:
        shutil.rmtree(root, ignore_errors=True)
        if shmroot != root:
            shutil.rmtree(shmroot, ignore_errors=True)


def case_json(case):
    c = {k: v for k, v in case.items() if k not in ("content", "more")}
    c["content_b64"] = vlib.b64e(case["content"])
    c["more_b64"] = [(n, vlib.b64e(b)) for n, b in case.get("more", [])]
    return c


def run(chk):
    thorough = chk.tier == "thorough"
    proved, plog = chk.prove("Props/C12.v", clean=False)
    broken = []
    if not proved:
        broken.append("proof obligations of Props/C12.v do not check: " + plog[-800:])

    root = tempfile.mkdtemp(prefix="c12_", dir=chk.workdir)
    cross_ok = have_cross()
    shmroot = tempfile.mkdtemp(prefix="verif_c12_", dir=SHM) if cross_ok else root
    strace_ok = have_strace()
    chk.extra["cross_device_available"] = cross_ok
    chk.extra["strace_available"] = strace_ok
    disagreements = []
    dist = {"runs": 0, "killed": 0, "exit0": 0, "exit1": 0, "exit2": 0, "cross": 0, "syscall_level": 0}
    try:
        cases = base_cases() + random_cases(chk.rng, 250 if thorough else 6)
        import time
        t0 = time.time()
        with ThreadPoolExecutor(vlib.NCPU) as ex:
            infos = list(ex.map(lambda c: baseline(root, shmroot, c), cases))
        vlib.log("C12: %d baselines in %.1fs" % (len(cases), time.time() - t0))
        jobs = []  # (case index, cross, point, action, nth, strace spec or None, extra model faults)
        for ci, (case, info) in enumerate(zip(cases, infos)):
            for cross in ([False, True] if cross_ok else [False]):
                for pt, act, k in fault_space(info["n"], thorough):
                    jobs.append((ci, cross, pt, act, k, None, (), None))
            if strace_ok and (thorough or ci < 4 or case["name"] in ("front-matter", "big-file", "eval-error")):
                for label, inj, mf in SYSCALL_FAULTS:
                    jobs.append((ci, False, None, None, 1, inj, tuple(mf), None))
            # real write failures of the temp file (file size limit): on the last and on a non-last result, below and above
            # the 4096-byte buffer of the printer's bufio.Writer
            if info["ref_rc"] == 0 and not case.get("fm", 0) and info["chunks"] and info["cls"] == "eval":
                total = sum(len(c) for c in info["chunks"])
                limits = {0, total - 1, total, total // 2, 4096, 8192, max(0, total - 4097)}
                cum = 0
                for c in info["chunks"][:-1]:
                    cum += len(c)
                    limits.add(cum)          # exactly the results before fit: the next one fails
                    limits.add(cum + 1)
                for L in sorted(x for x in limits if 0 <= x <= total):
                    cum, k = 0, 0
                    for i, c in enumerate(info["chunks"]):
                        cum += len(c)
                        if cum > L:
                            k = i + 1
                            break
                    mf = ("(OFlush %d%%nat, Fail 0%%nat)" % k,) if k else ()
                    jobs.append((ci, False, None, None, 1, None, mf, L))

        def do(job):
            ci, cross, pt, act, k, inj, mf, fsize = job
            fault = None if pt is None else "%s:%s:%d" % (pt, act, k)
            r = run_fault(root, shmroot, cases[ci], cross, fault, inj, fsize)
            if inj and any(s.startswith("renameat") for s in inj):
                r["rename_forced"] = True
            if inj and any(s.startswith(("unlinkat", "fsync")) for s in inj):
                r["unlink_forced"] = True
            return r
        t0 = time.time()
        with ThreadPoolExecutor(vlib.NCPU) as ex:
            runs = list(ex.map(do, jobs))
        vlib.log("C12: %d runs of the binary in %.1fs" % (len(jobs), time.time() - t0))

        # ---- model predictions
        defs = [IMPORTS, "Open Scope N_scope."]
        for ci, (case, info) in enumerate(zip(cases, infos)):
            defs.append("Definition old_%d : bytes := %s." % (ci, vlib.coq_str(case["content"])))
            defs.append("Definition plan_%d : plan := %s." % (ci, coq_plan(info)))
            defs.append("Definition ref_%d : bytes := %s." % (ci, vlib.coq_str(info["ref_out"])))
        coq_cases = []
        for job, r in zip(jobs, runs):
            ci, cross, pt, act, k, inj, mf, fsize = job
            term = "((%s, %d), %s, plan_%d, (old_%d, %d), ref_%d)" % ("true" if cross else "false", cases[ci].get("fm", 0),
                                                                      coq_faults(pt, act, k, infos[ci], mf), ci, ci, cases[ci]["mode"], ci)
            coq_cases.append((term, expected_obs(r["rc"], r["data"], r["mode"], r["present"], r["ntemps"], r["trace"],
                                                 cases[ci]["content"], infos[ci]["ref_out"])))
        t0 = time.time()
        # runs under a file size limit are compared without the hook trace
        idx_nt = [i for i, j in enumerate(jobs) if j[7] is not None]
        idx_tr = [i for i, j in enumerate(jobs) if j[7] is None]
        for i in idx_nt:
            e = coq_cases[i][1]
            coq_cases[i] = (coq_cases[i][0], e[:4] + e[5 + e[4]:])
        mism = []
        for name, fn, idx in (("c12_cases", "c12_case", idx_tr), ("c12_fsize", "c12_case_nt", idx_nt)):
            if not idx:
                continue
            sub = [coq_cases[i] for i in idx]
            m, err = vlib.coq_mismatches(chk.workdir, name, "\n".join(defs), fn, sub, shard=max(60, len(sub) // vlib.NCPU + 1))
            if err:
                broken.append("model evaluation failed: " + err[-600:])
            else:
                mism += [(idx[i], mo) for i, mo in m]
        vlib.log("C12: model evaluated on %d schedules in %.1fs" % (len(coq_cases), time.time() - t0))
        for i, mo in mism:
            ci = jobs[i][0]
            exp = coq_cases[i][1]
            mo = list(mo)
            if cases[ci].get("fm", 0) and jobs[i][7] is None and len(mo) > 3 and len(exp) > 3:
                # the front-matter yaml temp file is not modelled: ignore the temp-left flag
                mo[3] = exp[3]
                if mo == exp:
                    continue
            disagreements.append((i, mo))

        # ---- direct oracle + bookkeeping
        nviol = 0
        for job, r in zip(jobs, runs):
            ci, cross, pt, act, k, inj, mf, fsize = job
            case, info = cases[ci], infos[ci]
            dist["runs"] += 1
            dist["cross"] += 1 if cross else 0
            dist["syscall_level"] += 1 if inj else 0
            dist["file_size_limit"] = dist.get("file_size_limit", 0) + (1 if fsize is not None else 0)
            if r["rc"] == 9:
                dist["killed"] += 1
            elif r["rc"] in (0, 1, 2):
                dist["exit%d" % r["rc"]] += 1
            reached = pt is None or (pt in r["trace"])
            chk.count((case["name"], cross, pt, act, k, tuple(inj or ()), fsize), nontrivial=reached and (pt is not None or inj is not None or bool(mf)),
                      sample={"case": case["name"], "cross": cross, "fault": "%s:%s:%s" % (pt, act, k), "rc": r["rc"],
                              "file_bytes": len(r["data"]), "trace_len": len(r["trace"])} if (pt == "copy_after_truncate" or (pt == "print_node" and cross)) else None)
            if r["rc"] == 99:
                chk.violation({"case": case_json(case), "cross": cross, "fault": "%s:%s:%d" % (pt, act, k)}, True, "yq -i hangs")
                continue
            for key, text in oracle(case, info, r, pt, act, cross):
                detail = "%s cross=%s fault=%s:%s:%s%s %s" % (case["name"], cross, pt, act, k, "" if fsize is None else " RLIMIT_FSIZE=%d" % fsize, text)
                if key and chk.is_known(key):
                    chk.known_finding(key, detail)
                    continue
                nviol += 1
                if nviol <= 5:
                    chk.violation({"case": case_json(case), "cross": cross, "fault": None if pt is None else "%s:%s:%d" % (pt, act, k),
                                   "strace": inj, "fsize": fsize, "rc": r["rc"], "file_after_b64": vlib.b64e(r["data"]), "mode_after": r["mode"],
                                   "trace": r["trace"], "signature": key}, True, detail)
        chk.extra["disagreements"] = len(disagreements)
    finally:
        shutil.rmtree(root, ignore_errors=True)
        if shmroot != root:
            shutil.rmtree(shmroot, ignore_errors=True)

    if disagreements and not chk.violations:
        i, mo = disagreements[0]
        ci, cross, pt, act, k, inj, mf, fsize = jobs[i]
        chk.violation({"kind": "correspondence", "broken": "Model/InPlace.v vs the -i protocol of the binary",
                       "case": case_json(cases[ci]), "cross": cross, "fault": None if pt is None else "%s:%s:%d" % (pt, act, k), "strace": inj, "fsize": fsize,
                       "impl_obs": coq_cases[i][1][:40], "model_obs": mo[:40], "count": len(disagreements),
                       "legend": "[exit class(9=killed), target present, mode, temp left, #hooks, hook codes..., 0=old bytes | 1=stdout of the command without -i | 2,bytes...]"},
                      False, "model and implementation disagree on %d schedules, but the direct oracle found no failing input" % len(disagreements))
    if broken and not chk.violations:
        chk.violation({"kind": "obligation", "broken": broken}, False, "; ".join(broken)[:600])
    chk.extra["distribution"] = dist
    chk.extra["exhaustive"] = True
    chk.extra["cases"] = [c["name"] for c in cases]
    return chk.finish(
        checker_cmd="make -C coq Props/C12.vo (coqc 8.16.1, full .vo) + coqc work/C12/c12_cases_*.v (vm_compute)",
        rule="exhaustive over the fault space: every verif hook point (15; print points for every arrival) x {fail, kill} x "
             "{temp dir on the same device, on another device (/dev/shm)} plus the fault-free run, for %d (expression, content, mode, flags) "
             "cases (succeeding, failing expression, invalid YAML at document 1 / 2, syntax error, -e, encoder error, multi-document, "
             "eval-all with two files, JSON, front matter process/extract, init error, panic, empty result, file larger than the write buffer, "
             "target given through a symbolic link / a hard link, setuid / setgid / sticky / 000 modes) "
             "and seeded random ones; plus strace syscall error injection (rename, chown, chmod, fsync, unlink) for the O-steps; plus REAL write failures of the "
             "temp file (RLIMIT_FSIZE at 0, mid, last byte, result boundaries, 4096, 8192: failing on the last and on a non-last result, below and above the bufio size) "
             "with the oracle failed write => non-zero exit, message on stderr, target unchanged. "
             "Observables: exit status, target bytes, target mode, hook trace, temp file left. "
             "A run is non-trivial when the injected point was reached." % len(cases),
        trusted=vlib.COMMON_TRUSTED + [
            "Spec/FsSpec.v (hand-written: atomic, exit_truth, mode_kept, tail_kept)",
            "the evaluator is abstracted as a plan (chunks handed to the printer, ending); the check derives the plan of each case from runs of the same binary without -i",
            "the verif hook points (commit 64a510a) stand for the step boundaries; an injected error at a point stands for the failure of the operation that follows it",
            "kernel/file-system durability (what rename and fsync guarantee after power loss) is outside the model; ownership (chown) and the front-matter yaml temp file are not modelled",
        ],
        assumptions=["os.Rename is atomic on one file system and fails without effect across file systems",
                     "os.Create on an existing file truncates it and keeps its mode",
                     "correspondence is exhaustive over the hook fault space for the listed cases, sampled over (expression, content); the unbounded claim is the Coq theorem over the model"])
