"""C19 — exit status and output tell the truth.

Decided by: theorems Props/C19.v over Model/Cli.v (format auto-detection over
the regenerated Gen/Formats.v, initCommand, the control flow from decode /
evaluate / encode errors to the exit status, -e, -n, the encoders' accept /
reject / swallow behaviour) and Spec/CliSpec.v.
Tie (real binary): (A) format choice for -p x -o x file names (debug log of
initCommand), (B) exhaustive result-kind x output-format x {-0} table of the
encoders, (C) multi-file / multi-document runs with erroneous documents at any
position x flags.  Direct oracle: exit 0 with missing output is a violation
unless it matches a recorded finding; exit 0 iff nothing failed; -e rule.
"""
import base64, os, re, shutil, subprocess, tempfile, urllib.parse
from concurrent.futures import ThreadPoolExecutor
import vlib

IMPORTS = "From YQ Require Import Base.Str Gen.Formats Model.Cli."
FORMATS = ["yaml", "json", "props", "csv", "tsv", "xml", "base64", "uri", "toml", "shell", "lua"]
FMT_ID = {"yaml": "id_YamlFormat", "json": "id_JSONFormat", "props": "id_PropertiesFormat", "csv": "id_CSVFormat",
          "tsv": "id_TSVFormat", "xml": "id_XMLFormat", "base64": "id_Base64Format", "uri": "id_UriFormat",
          "toml": "id_TomlFormat", "shell": "id_ShellVariablesFormat", "lua": "id_LuaFormat"}
NAMES = ["yaml", "y", "yml", "json", "j", "props", "p", "properties", "csv", "c", "tsv", "t", "xml", "x", "base64", "uri",
         "toml", "shell", "s", "sh", "lua", "l"]
FILENAMES = ["x.yml", "x.yaml", "x.json", "X.JSON", "x.Json", "d.d/x", "d.json/x", "x.tar.json", "x.", ".json", "x.properties",
             "x.props", "x.csv", "x.tsv", "x.xml", "x.toml", "x.lua", "x.sh", "x.s", "x.base64", "x.uri", "x.txt", "x.c",
             "noext", "-", "a/b.c/d.e.f.xml", "x.YML", "x.l", "x.p", ".hidden", "x.json.bak", "x.y", "x.t", "x.j"]


# ---------------------------------------------------------------------------
# values: ("s", tag, text) | ("seq", [v...]) | ("map", [(k, v)...])
def S(t):
    return ("s", "str", t)


def I(n):
    return ("s", "int", str(n))


KINDS = {
    "null": ("s", "null", "null"), "false": ("s", "bool", "false"), "true": ("s", "bool", "true"), "int": I(4711),
    "float": ("s", "float", "1.5"), "str": S("zq1"), "emptyseq": ("seq", []), "emptymap": ("map", []),
    "seq_scalars": ("seq", [S("zq1"), I(4711)]),
    "seq_seq": ("seq", [("seq", [S("zq1"), I(4711)]), ("seq", [S("zq2"), I(12)])]),
    "seq_mixed": ("seq", [S("zq1"), ("seq", [S("zq2")])]),
    "seq_seq_nested": ("seq", [("seq", [S("zq1"), ("seq", [S("zq2")])])]),
    "seq_seq_then_scalar": ("seq", [("seq", [S("zq1")]), S("zq2")]),
    "seq_maps": ("seq", [("map", [(S("ka"), S("zq1")), (S("kb"), I(4711))]), ("map", [(S("ka"), S("zq2"))])]),
    "seq_maps_nested": ("seq", [("map", [(S("ka"), ("map", [(S("kb"), S("zq1"))]))])]),
    "seq_maps_later_nested": ("seq", [("map", [(S("ka"), S("zq1"))]), ("map", [(S("ka"), ("seq", [S("zq2")]))])]),
    "seq_map_then_scalar": ("seq", [("map", [(S("ka"), S("zq1"))]), S("zq2")]),
    "seq_maps_extra_key": ("seq", [("map", [(S("ka"), S("zq1"))]), ("map", [(S("kb"), S("zq2"))])]),
    "seq_maps_extra_nested": ("seq", [("map", [(S("ka"), S("zq1"))]), ("map", [(S("ka"), S("zq2")), (S("kb"), ("seq", [S("zq3")]))])]),
    "seq_cplxkey": ("seq", [("map", [(("seq", [S("zq1"), S("zq2")]), S("zq3"))])]),
    "seq_cplxkey_later": ("seq", [("map", [(S("ka"), S("zq1"))]), ("map", [(("seq", [S("zq2")]), S("zq3"))])]),
    "map_flat": ("map", [(S("ka"), S("zq1")), (S("kb"), I(4711))]),
    "map_nested": ("map", [(S("ka"), ("map", [(S("kb"), ("seq", [S("zq1"), S("zq2")]))]))]),
    "map_seq": ("map", [(S("ka"), ("seq", [S("zq1"), S("zq2")]))]),
    "map_attr": ("map", [(S("ka"), ("map", [(S("+@x"), S("zq1")), (S("kb"), S("zq2"))]))]),
    "map_attr_seq": ("map", [(S("ka"), ("map", [(S("+@x"), ("seq", [S("zq1")]))]))]),
    "map_cplxkey": ("map", [(("seq", [S("zq1"), S("zq2")]), S("zq3"))]),
    "map_cplxkey_nested": ("map", [(S("ka"), ("map", [(("map", [(S("kb"), S("zq1"))]), S("zq2"))]))]),
    # scalars JSON cannot represent
    "inf": ("s", "float", ".inf"), "neginf": ("s", "float", "-.inf"), "nan": ("s", "float", ".nan"), "badint": ("s", "int", "abc"),
    "seq_with_nan": ("seq", [S("zq1"), ("s", "float", ".NaN")]), "map_with_inf": ("map", [(S("ka"), S("zq1")), (S("kb"), ("s", "float", ".Inf"))]),
    "map_with_badint": ("map", [(S("ka"), ("s", "int", "abc")), (S("kb"), S("zq2"))]),
}
VARIANTS = {"plain": [], "nul": ["-0"], "colors": ["-C"], "nocolors": ["-M"], "pretty": ["-P"]}


def yaml_flow(v):
    if v[0] == "s":
        if v[1] == "int" and not v[2].lstrip("-").isdigit():
            return "!!int " + v[2]
        return '"%s"' % v[2] if v[1] == "str" else v[2]
    if v[0] == "seq":
        return "[" + ", ".join(yaml_flow(x) for x in v[1]) + "]"
    return "{" + ", ".join(("? %s : %s" % (yaml_flow(k), yaml_flow(x))) if k[0] != "s" else "%s: %s" % (yaml_flow(k), yaml_flow(x))
                           for k, x in v[1]) + "}"


TAGS = {"null": "TagNull", "bool": "TagBool", "int": "TagInt", "float": "TagFloat", "str": "TagStr"}


def coq_node(v):
    if v[0] == "s":
        return "(NScalar %s %s)" % (TAGS[v[1]], vlib.coq_str(v[2]))
    if v[0] == "seq":
        return "(NSeq [" + "; ".join(coq_node(x) for x in v[1]) + "])"
    return "(NMap [" + "; ".join("(%s, %s)" % (coq_node(k), coq_node(x)) for k, x in v[1]) + "])"


def leaves(v, keys=True):
    if v[0] == "s":
        return [] if v[2].startswith("+@") else [v[2]]   # xml attribute / shell names are rewritten by design
    if v[0] == "seq":
        return [t for x in v[1] for t in leaves(x, keys)]
    out = []
    for k, x in v[1]:
        if keys or k[0] != "s":
            out += leaves(k, keys)
        out += leaves(x, keys)
    return out


def has_complex_key(v):
    if v[0] == "s":
        return False
    if v[0] == "seq":
        return any(has_complex_key(x) for x in v[1])
    return any(k[0] != "s" or has_complex_key(k) or has_complex_key(x) for k, x in v[1])


def out_has(fmt, out, tok):
    t = tok.encode()
    if fmt == "lua" and tok == "null":
        return b"nil" in out
    if fmt == "lua" and tok.lower() in (".inf", "-.inf", ".nan"):
        return {".inf": b"(1/0)", "-.inf": b"(-1/0)", ".nan": b"(0/0)"}[tok.lower()] in out
    if fmt == "base64":
        return base64.b64encode(t) in out
    if fmt == "uri":
        return urllib.parse.quote_plus(tok).encode() in out
    return t in out


def sandbox(root):
    return tempfile.mkdtemp(prefix="r_", dir=root)


def yq(args, cwd, stdin=b"", sink=None):
    """sink: None = a pipe; "full" = /dev/full (every write fails with ENOSPC); "ro" = a descriptor opened read-only (EBADF)"""
    env = dict(os.environ, NO_COLOR="1")
    env.pop("YQ_VERIF_FAULT", None)
    env.pop("YQ_VERIF_TRACE", None)
    out = subprocess.PIPE
    fh = None
    if sink == "full":
        fh = out = open("/dev/full", "wb")
    elif sink == "ro":
        fh = out = open("/dev/null", "rb")
    try:
        p = subprocess.run([vlib.YQ] + args, cwd=cwd, env=env, input=stdin, stdout=out, stderr=subprocess.PIPE, timeout=30)
        return p.returncode, p.stdout or b"", p.stderr
    except subprocess.TimeoutExpired:
        return 99, b"", b"timeout"
    finally:
        if fh:
            fh.close()


# ---------------------------------------------------------------------------
# (A) format choice
def init_jobs(rng, thorough):
    pv = ["auto", "", "a"] + NAMES + ["nope"]
    jobs = []
    for f in FILENAMES:
        jobs.append(("auto", "auto", False, f))
        jobs.append(("auto", "json", False, f))
        jobs.append(("xml", "auto", False, f))
        jobs.append(("auto", "auto", True, f))
    files4 = ["x.json", "x.txt", "x.sh", "-"]
    for p in pv:
        for o in pv:
            for f in (FILENAMES if thorough else files4):
                for tj in ((False, True) if thorough else (False,)):
                    jobs.append((p, o, tj, f))
    seen, out = set(), []
    for j in jobs:
        if j not in seen:
            seen.add(j)
            out.append(j)
    return out


def run_init(root, job):
    p, o, tj, f = job
    d = sandbox(root)
    try:
        args = ["-v", "--input-format=" + p, "--output-format=" + o] + (["-j"] if tj else []) + [".", f, "second.xml"]
        rc, out, err = yq(args, d)
        e = err.decode("utf-8", "replace")
        mi = re.search(r"Using input format (.*)", e)
        mo = re.search(r"Using output format (.*)", e)
        if mi and mo:
            return (1, mi.group(1).strip(), mo.group(1).strip(), rc)
        return (0, "", "", rc)
    finally:
        shutil.rmtree(d, ignore_errors=True)


# ---------------------------------------------------------------------------
# (B) encoder table
def run_enc(root, kind, fmt, variant):
    if variant is True or variant is False:      # older replay files
        variant = "nul" if variant else "plain"
    d = sandbox(root)
    try:
        with open(os.path.join(d, "in.yml"), "w") as f:
            f.write(yaml_flow(KINDS[kind]) + "\n")
        rc, out, err = yq(VARIANTS[variant] + ["-o=" + fmt, ".", "in.yml"], d)
        return rc, out, err
    finally:
        shutil.rmtree(d, ignore_errors=True)


def enc_signature(kind, fmt, variant):
    """which recorded finding explains exit 0 with missing data for this cell, if any"""
    v = KINDS[kind]
    if fmt in ("csv", "tsv") and v[0] == "seq" and v[1] and v[1][0][0] == "map":
        hdr = [k for k, _ in v[1][0][1]]
        if any(c[0] == "map" and any(k not in hdr for k, _ in c[1]) for c in v[1][1:]):
            return "csv-extra-keys-dropped"
    if fmt in ("json", "props", "shell") and has_complex_key(v):
        return "complex-key-dropped"
    return None


# ---------------------------------------------------------------------------
# (C) whole runs
EXPR = 'with(select(.boom == true); error("boom")) | .v[]'


def gen_scenario(rng, idx):
    """files -> docs -> results; flags"""
    nid = [0]

    def val(kind):
        nid[0] += 1
        i = nid[0]
        if kind == "tok":
            return dict(id=i, v=S("r%d" % i), toks=["r%d" % i])
        if kind == "null":
            return dict(id=i, v=("s", "null", "null"), toks=["null"])
        if kind == "false":
            return dict(id=i, v=("s", "bool", "false"), toks=["false"])
        if kind == "False":
            return dict(id=i, v=("s", "bool", "False"), toks=["False"])
        if kind == "seq":
            return dict(id=i, v=("seq", [S("r%da" % i), S("r%db" % i)]), toks=["r%da" % i, "r%db" % i])
        if kind == "map":
            return dict(id=i, v=("map", [(S("k"), S("r%d" % i))]), toks=["r%d" % i])
        raise ValueError(kind)
    mode = rng.choice(["normal", "normal", "normal", "falsy", "containers"])
    files = []
    nfiles = rng.choice([1, 1, 2, 2, 3])
    for fi in range(nfiles):
        r = rng.random()
        if r < 0.07:
            files.append(dict(name="f%d.yml" % fi, missing=True, docs=[]))
            continue
        docs = []
        for _ in range(rng.choice([0, 1, 1, 2, 3]) if r > 0.15 else 0):
            q = rng.random()
            if q < 0.08:
                docs.append(dict(kind="bad"))
            elif q < 0.16:
                docs.append(dict(kind="evalerr", res=[val("tok")]))
            elif q < 0.26:
                docs.append(dict(kind="res", res=[]))
            else:
                if mode == "falsy":
                    ks = [rng.choice(["null", "false", "false", "null", "False", "tok"]) for _ in range(rng.choice([1, 2]))]
                    if rng.random() < 0.6:
                        ks = [k for k in ks if k != "tok"] or ["null"]
                elif mode == "containers":
                    ks = [rng.choice(["tok", "seq", "map"]) for _ in range(rng.choice([1, 2]))]
                else:
                    ks = ["tok"] * rng.choice([1, 1, 2, 3])
                docs.append(dict(kind="res", res=[val(k) for k in ks]))
        files.append(dict(name="f%d.yml" % fi, missing=False, docs=docs))
    flags = []
    fmt = "yaml"
    if mode == "containers":
        fmt = rng.choice(["yaml", "json", "csv", "xml", "toml", "props", "tsv"])
    elif rng.random() < 0.4:
        fmt = rng.choice(["json", "props", "csv", "toml", "xml", "lua", "shell"])
    flags.append("-o=" + fmt)
    e = rng.random() < (0.7 if mode == "falsy" else 0.2)
    if e:
        flags.append("-e")
    for fl, pr in (("-N", 0.2), ("-r", 0.15), ("-0", 0.12), ("-r=false", 0.05)):
        if rng.random() < pr:
            flags.append(fl)
    allmode = rng.random() < 0.3
    badexpr = rng.random() < 0.04
    nullin = rng.random() < 0.06
    if nullin:
        badexpr = False        # the -n scenarios use a fixed, valid expression
    return dict(idx=idx, files=files, flags=flags, fmt=fmt, e=e, nul="-0" in flags, all=allmode, badexpr=badexpr, nullin=nullin)


def directed_e_scenarios(idx0):
    """-e over every sequence of up to three documents, each giving a match, null, false or no result, in one file or
    split over two, stream and eval-all: the exit status is decided by all results of the run, not by the last document"""
    import itertools
    out = []
    for n in (1, 2, 3):
        for kinds in itertools.product(["tok", "null", "false", "none"], repeat=n):
            for split in ([None] if n == 1 else [None, 1] if n == 2 else [None, 1, 2]):
                for allmode in (False, True):
                    nid = 0
                    docs = []
                    for k in kinds:
                        nid += 1
                        if k == "none":
                            docs.append(dict(kind="res", res=[]))
                        elif k == "tok":
                            docs.append(dict(kind="res", res=[dict(id=nid, v=S("r%d" % nid), toks=["r%d" % nid])]))
                        else:
                            docs.append(dict(kind="res", res=[dict(id=nid, v=("s", "null" if k == "null" else "bool", k), toks=[k])]))
                    files = [dict(name="f0.yml", missing=False, docs=docs)] if split is None else \
                            [dict(name="f0.yml", missing=False, docs=docs[:split]), dict(name="f1.yml", missing=False, docs=docs[split:])]
                    out.append(dict(idx=idx0 + len(out), files=files, flags=["-o=yaml", "-e"], fmt="yaml", e=True, nul=False, all=allmode,
                                    badexpr=False, nullin=False))
    return out


def write_scenario(d, sc):
    for f in sc["files"]:
        if f["missing"]:
            continue
        parts = []
        for doc in f["docs"]:
            if doc["kind"] == "bad":
                parts.append("v: [1, 2\n}\n")
            else:
                txt = "v: [" + ", ".join(yaml_flow(r["v"]) for r in doc["res"]) + "]\n"
                if doc["kind"] == "evalerr":
                    txt += "boom: true\n"
                parts.append(txt)
        with open(os.path.join(d, f["name"]), "w") as fh:
            fh.write("---\n".join(parts))


def scenario_args(sc):
    a = (["ea"] if sc["all"] else []) + list(sc["flags"])
    if sc["nullin"]:
        return a + ["-n", '"r900", "r901"']
    return a + [EXPR + (" | [" if sc["badexpr"] else "")] + [f["name"] for f in sc["files"]]


def run_scenario(root, sc, sink=None):
    d = sandbox(root)
    try:
        write_scenario(d, sc)
        return yq(scenario_args(sc), d, sink=sink)
    finally:
        shutil.rmtree(d, ignore_errors=True)


def coq_evalout(results):
    return "(EvalOk [" + "; ".join("mkRes %d %s" % (r["id"], coq_node(r["v"])) for r in results) + "])"


def coq_scenario(sc, sink_ok=True):
    if sc["nullin"]:
        files, tbl = [], "[]"
        nullo = "(EvalOk [mkRes 900 %s; mkRes 901 %s])" % (coq_node(S("r900")), coq_node(S("r901")))
        allo = "(EvalOk [])"
    else:
        files = [f["name"] for f in sc["files"]]
        ents = []
        alldocs_results, any_evalerr = [], False
        for f in sc["files"]:
            if f["missing"]:
                continue
            ds = []
            for doc in f["docs"]:
                if doc["kind"] == "bad":
                    ds.append("DocBad")
                elif doc["kind"] == "evalerr":
                    ds.append("DocOk EvalErr")
                    any_evalerr = True
                else:
                    ds.append("DocOk " + coq_evalout(doc["res"]))
                    alldocs_results += doc["res"]
            ents.append("(%s, Docs [%s])" % (vlib.coq_str(f["name"]), "; ".join(ds)))
        tbl = "[" + "; ".join(ents) + "]"
        nullo = "(EvalOk [])"
        allo = "EvalErr" if any_evalerr else coq_evalout(alldocs_results)
    unwrap = "(Some true)" if "-r" in sc["flags"] else ("(Some false)" if "-r=false" in sc["flags"] else "None")
    cli = "(mkCli %s [] %s false [%s] false %s false false %s %s %s)" % (
        "true" if sc["all"] else "false", vlib.coq_str(sc["fmt"]), "; ".join(vlib.coq_str(n) for n in files),
        "true" if sc["nullin"] else "false", unwrap, "true" if sc["e"] else "false", "true" if sc["nul"] else "false")
    return "(%s, %s, (%s, %s, %s), %s)" % (cli, tbl, "false" if sc["badexpr"] else "true", nullo, allo, "true" if sink_ok else "false")


def all_results(sc):
    """results in order if everything were fine, and whether the scenario is free of input/eval failures (python restatement)"""
    if sc["nullin"]:
        return [dict(id=900, v=S("r900"), toks=["r900"]), dict(id=901, v=S("r901"), toks=["r901"])], not sc["badexpr"]
    res, fine = [], not sc["badexpr"]
    for f in sc["files"]:
        if f["missing"]:
            return res, False
        for doc in f["docs"]:
            if doc["kind"] in ("bad", "evalerr"):
                return res, False
            res += doc["res"]
    return res, fine


def py_encodable(fmt, v):
    """python restatement of which results an encoder accepts (scalars and the two container shapes used in scenarios)"""
    if v[0] == "s":
        return fmt not in ("base64", "uri") or v[1] == "str"
    if fmt in ("toml", "base64", "uri"):
        return False
    if fmt in ("csv", "tsv"):
        return v[0] == "seq"
    if fmt == "xml":
        return v[0] == "map"
    return True


def match_shown(sc, out):
    """ids of the results whose tokens appear, in order, in stdout (greedy over the ordered result list)"""
    toks = re.findall(rb"r\d+[ab]?|null|nil|false|False", out)
    toks = ["null" if t == b"nil" else t.decode() for t in toks]   # lua spells null as nil
    res, _ = all_results_even_failed(sc)
    pos, shown = 0, []
    for r in res:
        n = len(r["toks"])
        if [t.lower() for t in toks[pos:pos + n]] == [t.lower() for t in r["toks"]]:   # some encoders normalise False to false
            shown.append(r["id"])
            pos += n
    return shown, pos == len(toks)


def all_results_even_failed(sc):
    if sc["nullin"]:
        return all_results(sc)
    res = []
    for f in sc["files"]:
        for doc in f["docs"]:
            if doc["kind"] == "res":
                res += doc["res"]
    return res, True


# ---------------------------------------------------------------------------
def replay(rp):
    root = tempfile.mkdtemp(prefix="c19rp_", dir=vlib.WORK)
    try:
        if rp.get("kind") == "enc":
            rc, out, err = run_enc(root, rp["value_kind"], rp["format"], rp.get("variant", rp.get("nul", False)))
            if rc != 0:
                return True
            return all(out_has(rp["format"], out, t) for t in leaves(KINDS[rp["value_kind"]]))
        if rp.get("kind") == "run":
            sc = rp["scenario"]
            rc, out, err = run_scenario(root, sc)
            return not scenario_oracle(sc, rc, out, err)
        if rp.get("kind") == "multi":
            ext, allm, seq = rp["ext"], rp["all"], tuple(rp["seq"])
            singles = {i: run_multi(root, (ext, False, (i,), [], "."))[1] for i in set(seq)}
            rc, out, err = run_multi(root, (ext, allm, seq, [], "."))
            return rc == 0 and out == b"".join(singles[i] for i in seq)
        if rp.get("kind") == "junk":
            rc, out, err = run_junk(root, tuple(rp["job"]))
            return junk_oracle(rc, out, err) is None
        if rp.get("kind") == "inplace":
            import c12
            shm = tempfile.mkdtemp(prefix="verif_c19_", dir=c12.SHM) if c12.have_cross() else root
            try:
                case = dict(rp["case"], content=vlib.b64d(rp["case"]["content_b64"]))
                rc0, want, r = run_inplace(root, shm, (case, rp["cross"], rp["fault"]))
                return inplace_oracle(case, rc0, want, r) is None
            finally:
                if shm != root:
                    shutil.rmtree(shm, ignore_errors=True)
        if rp.get("kind") == "sink":
            case = [c for c in sink_cases() if c[0] == rp["case"]][0]
            return sink_oracle(run_sink_case(root, case, None), run_sink_case(root, case, rp["sink"])) is None
        if rp.get("kind") == "sink-run":
            sc = rp["scenario"]
            return sink_oracle(run_scenario(root, sc), run_scenario(root, sc, rp["sink"])) is None
        if rp.get("kind") == "e-flag":
            d = sandbox(root)
            open(os.path.join(d, "e.yml"), "w").write(rp["doc"])
            rc, out, err = yq(["-e", ".a", "e.yml"], d)
            return rc == 1
        return False
    finally:
        shutil.rmtree(root, ignore_errors=True)


# ---------------------------------------------------------------------------
# (D) several input files per input format: the decoder object is shared by all files of a run
MULTI_INPUTS = {
    "yml": ["a: zq1\n", "b: zq2\n"], "json": ['{"a": "zq1"}\n', '{"b": "zq2"}\n'],
    "properties": ["a.b = zq1\n", "c.d = zq2\n"], "csv": ["h1,h2\nzq1,1\n", "h1,h2\nzq2,2\n"],
    "tsv": ["h1\th2\nzq1\t1\n", "h1\th2\nzq2\t2\n"], "xml": ["<a>zq1</a>\n", "<b>zq2</b>\n"],
    "toml": ['a = "zq1"\n', 'b = "zq2"\n'], "lua": ['return {a = "zq1"}\n', 'return {b = "zq2"}\n'],
    "base64": ["enEx", "enEy"], "uri": ["zq%201", "zq%202"],
}


def multi_jobs():
    """(ext, eval-all?, sequence of file indices, extra flags, expression)"""
    jobs = []
    for ext in MULTI_INPUTS:
        for seq in ((0,), (1,), (0, 1), (1, 0), (0, 0), (0, 1, 0), (1, 1, 0)):
            for allm in (False, True):
                jobs.append((ext, allm, seq, [], "."))
        jobs.append((ext, False, (0, 1), ["-e"], '.. | select(. == "zq2" or . == "zq 2")'))
    return jobs


def run_multi(root, job):
    ext, allm, seq, flags, expr = job
    d = sandbox(root)
    try:
        for i, txt in enumerate(MULTI_INPUTS[ext]):
            open(os.path.join(d, "f%d.%s" % (i, ext)), "w").write(txt)
        return yq((["ea"] if allm else []) + flags + ["-o=json", "-I=0", expr] + ["f%d.%s" % (i, ext) for i in seq], d)
    finally:
        shutil.rmtree(d, ignore_errors=True)


# ---------------------------------------------------------------------------
# (E) inputs whose tail is garbage after a complete value, followed by more content carrying the token zqT:
#     either the run fails (non-zero, message) or the content after the junk is in the output -- never silently dropped
JUNK_INPUTS = {
    "json": dict(prefixes=['{"a":"zq1"}', '[1,2]', '"zq1"', ''], junk=["]", "}", "]]", "}\n", "\x00", " x ", ",", ":", "\"", "]}", "}]\n\n"],
                 suffix='{"t":"zqT"}\n'),
    "yml": dict(prefixes=["a: zq1\n", "- zq1\n"], junk=["]\n", "}\n", "\t- x\n", "\x00\n", "a: [\n", "'\n"], suffix="---\nt: zqT\n"),
    "xml": dict(prefixes=["<a>zq1</a>"], junk=["</b>", "<", "</a>", "\x00", "<b>"], suffix="<t>zqT</t>\n"),
    "toml": dict(prefixes=['a = "zq1"\n'], junk=["]\n", "}\n", "= 3\n", "\x00\n", "[[\n", '"\n'], suffix='t = "zqT"\n'),
    "csv": dict(prefixes=["h,t\nzq1,x\n"], junk=['"\n', 'a"b,\n', "1,2,3\n", "\x00"], suffix="zq2,zqT\n"),
    "lua": dict(prefixes=['return {a="zq1"'], junk=["]", "}}", "\x00", ")"], suffix=', t="zqT"}\n'),
    "properties": dict(prefixes=["a = zq1\n"], junk=["\\u00zz\n", "\x00\n"], suffix="t = zqT\n"),
}


def junk_jobs(thorough):
    jobs = []
    for ext, d in JUNK_INPUTS.items():
        for pi, pre in enumerate(d["prefixes"]):
            for ji, j in enumerate(d["junk"]):
                for allm in (False, True):
                    for pos in ((0, 1, 2) if thorough or ext == "json" else (0,)):   # the junk file alone / first / second of two
                        jobs.append((ext, pi, ji, allm, pos))
    return jobs


def run_junk(root, job):
    ext, pi, ji, allm, pos = job
    d = JUNK_INPUTS[ext]
    dd = sandbox(root)
    try:
        open(os.path.join(dd, "junk." + ext), "w").write(d["prefixes"][pi] + d["junk"][ji] + d["suffix"])
        open(os.path.join(dd, "good." + ext), "w").write((d["prefixes"][0] if ext != "lua" else 'return {a="zq1"}') + ("\n" if ext in ("json", "xml") else "") if ext != "lua" else 'return {a="zq1"}\n')
        files = {0: ["junk." + ext], 1: ["junk." + ext, "good." + ext], 2: ["good." + ext, "junk." + ext]}[pos]
        return yq((["ea"] if allm else []) + ["-o=json", "-I=0", "."] + files, dd)
    finally:
        shutil.rmtree(dd, ignore_errors=True)


def junk_oracle(rc, out, err):
    if rc == 0:
        return None if b"zqT" in out else "exit 0 and nothing on stderr although the input has junk after a complete value; everything after the junk is silently dropped"
    return None if err.strip() else "exit %d without a message on stderr" % rc


# ---------------------------------------------------------------------------
# (F) -i under every fault point of the in-place protocol, for eval and eval-all: the exit status tells whether
#     the file got the new content (uses the verif hook points and the sandbox of the C12 check)
def inplace_jobs(cross_ok):
    import c12
    cases = [dict(name="set", expr=".a = 5", content=b"a: 1\nb: 2\n", mode=0o640),
             dict(name="multi-doc", expr='.x = "y"', content=b"a: 1\n---\nb: 2\n", mode=0o600),
             dict(name="e-match", expr=".a", flags=["-e"], content=b"a: 1\n", mode=0o644),
             dict(name="e-no-match", expr=".zz", flags=["-e"], content=b"a: 1\n", mode=0o644),
             dict(name="eval-error", expr='.a = error("x")', content=b"a: 1\n", mode=0o644)]
    jobs = []
    for case in cases:
        for cmd in ("eval", "ea"):
            c = dict(case, cmd=cmd)
            for cross in ([False, True] if cross_ok else [False]):
                jobs.append((c, cross, None))
                for pt in c12.HOOKS:
                    for act in ("fail", "kill"):
                        jobs.append((c, cross, "%s:%s:1" % (pt, act)))
    return jobs


def run_inplace(root, shmroot, job):
    import c12
    case, cross, fault = job
    sb = c12.Sandbox(root, shmroot, case, False)
    try:
        rc0, want, _ = vlib.run_yq(c12.argv(case, False, sb.target, sb.more), env=sb.env(), cwd=sb.dir)
    finally:
        sb.close()
    r = c12.run_fault(root, shmroot, case, cross, fault)
    return rc0, want, r


def inplace_oracle(case, rc0, want, r):
    """exit 0 <=> the file holds the new content (the stdout of the same command without -i)"""
    if r["rc"] == 9:
        return None                                  # killed: no exit status to judge (C12 judges the file)
    got_new = rc0 == 0 and r["data"] == want
    if r["rc"] == 0 and not got_new:
        return "exit 0 with empty stderr although the file did not get the new content" if not r["stderr"].strip() else "exit 0 although the file did not get the new content"
    if r["rc"] != 0 and not r["stderr"].strip():
        return "exit %d without a message on stderr" % r["rc"]
    return None


def sink_cases():
    """(name, args, input text): outputs below and above the 4096-byte buffer, failure on the last / a non-last result"""
    big = "".join("- name: item-%04d-abcdefghijklmnopqrstuv\n" % i for i in range(200))
    multi = "a: 1\n---\na: 2\n---\na: 3\n"
    return [
        ("scalar", [".a"], "a: 1\nb: [x, y]\n"), ("json-doc", ["-o=json", "."], "a: 1\nb: [x, y]\n"),
        ("props-e", ["-e", "-o=props", "."], "a: 1\nb: [x, y]\n"), ("eval-all", ["ea", "[.a]"], multi),
        ("multi-doc-stream", [".a"], multi), ("three-results", [".a, .a, .a"], "a: zz\n"),
        ("big-6k", ["."], big), ("big-then-small", [".[0], ."], big), ("small-then-big", [".[0].name, ."], big),
        ("csv", ["-o=csv", "."], "- [1, 2]\n- [3, 4]\n"), ("xml", ["-o=xml", "."], "a: {b: c}\n"), ("nul", ["-0", ".b[]"], "b: [x, y]\n"),
        ("lua", ["-o=lua", "."], "a: 1\n"), ("shell", ["-o=shell", "."], "a: 1\n"), ("toml-scalar", ["-o=toml", ".a"], "a: 1\n"),
    ]


def run_sink_case(root, case, sink):
    name, args, text = case
    d = sandbox(root)
    try:
        open(os.path.join(d, "in.yml"), "w").write(text)
        return yq(args + ["in.yml"], d, sink=sink)
    finally:
        shutil.rmtree(d, ignore_errors=True)


def sink_oracle(normal, failed):
    """a failed write => non-zero exit and a message on stderr (normal = the same run into a pipe)"""
    rc0, out0, _ = normal
    rc, _, err = failed
    if rc0 == 0 and out0:
        if rc == 0:
            return "the output (%d bytes) could not be written, yet yq exits 0%s" % (len(out0), "" if err.strip() else " with empty stderr")
        if not err.strip():
            return "failed write of the output: exit %d without a message on stderr" % rc
    return None


def scenario_oracle(sc, rc, out, err):
    """the property itself, from the scenario description alone; returns list of (key, text)"""
    bad = []
    res, fine = all_results(sc)
    enc_ok = all(py_encodable(sc["fmt"], r["v"]) for r in res)
    truthy = any(not (r["v"][0] == "s" and (r["v"][1] == "null" or (r["v"][1] == "bool" and r["v"][2] in ("false", "False", "FALSE")))) for r in res)
    complete = fine and enc_ok
    if rc == 0:
        if not complete:
            bad.append((None, "exit 0 although a file/document/evaluation/encoding failed"))
        else:
            shown, _ = match_shown(sc, out)
            missing = [r["id"] for r in res if r["id"] not in shown]
            if missing:
                bad.append((None, "exit 0 but results %s are not on stdout" % missing[:5]))
            if sc["e"] and not truthy:
                bad.append((None, "-e: exit 0 although there is no result other than null/false"))
    else:
        if not err.strip():
            bad.append((None, "exit %d without a message on stderr" % rc))
        if complete and not (sc["e"] and not truthy):
            bad.append((None, "exit %d although nothing failed" % rc))
        if rc not in (1,):
            bad.append((None, "unexpected exit status %d" % rc))
    return bad


def run(chk):
    thorough = chk.tier == "thorough"
    proved, plog = chk.prove("Props/C19.v", clean=False)
    broken = []
    if not proved:
        broken.append("proof obligations of Props/C19.v do not check: " + plog[-800:])
    root = tempfile.mkdtemp(prefix="c19_", dir=chk.workdir)
    disagreements = []
    nviol = [0]

    def report(replay, key, detail):
        if key and chk.is_known(key):
            chk.known_finding(key, detail)
            return
        nviol[0] += 1
        if nviol[0] <= 6:
            chk.violation(replay, True, detail)

    try:
        pool = ThreadPoolExecutor(vlib.NCPU)
        # ---------------- (A) format choice ----------------
        ijobs = init_jobs(chk.rng, thorough)
        iobs = list(pool.map(lambda j: run_init(root, j), ijobs))
        cases = []
        for (p, o, tj, f), (ok, fi, fo, rc) in zip(ijobs, iobs):
            term = "((%s, %s), %s, [%s; %s], 0)" % (vlib.coq_str(p), vlib.coq_str(o), "true" if tj else "false",
                                                     vlib.coq_str(f), vlib.coq_str("second.xml"))
            exp = [1, len(fi.encode())] + list(fi.encode()) + list(fo.encode()) if ok else [0]
            cases.append((term, exp))
            chk.count(("init", p, o, tj, f), nontrivial=True,
                      sample={"p": p, "o": o, "file": f, "input_format": fi, "output_format": fo} if (f in ("X.JSON", "x.sh") and p == "auto" and o == "auto") else None)
            # direct oracle: automatic formats are named by the FIRST file's extension
            if ok and p == "auto" and o == "auto" and not tj:
                base = f.rsplit("/", 1)[-1]
                ext = base.rsplit(".", 1)[1].lower() if "." in base else ""      # Go filepath.Ext: from the last dot
                want = ext if ext in NAMES else "yaml"
                if fi != want or fo != want:
                    report({"kind": "init", "args": [p, o, f], "input_format": fi, "output_format": fo}, None,
                           "automatic formats for %r are in=%s out=%s, expected %s" % (f, fi, fo, want))
        mism, err = vlib.coq_mismatches(chk.workdir, "c19_init", IMPORTS, "c19_init_case", cases, shard=max(100, len(cases) // vlib.NCPU + 1))
        if err:
            broken.append("model evaluation failed (init): " + err[-500:])
        else:
            for i, mo in mism:
                disagreements.append(("format choice", repr(ijobs[i]), cases[i][1], list(mo)))
        chk.extra["init_cases"] = len(ijobs)

        # ---------------- (B) encoder table ----------------
        cells = [(k, f, var) for k in KINDS for f in FORMATS for var in VARIANTS]
        eobs = list(pool.map(lambda c: run_enc(root, *c), cells))
        cases = []
        table = {}
        for (k, f, var), (rc, out, err) in zip(cells, eobs):
            toks = leaves(KINDS[k])
            if rc != 0:
                cls = 0
            else:
                cls = 1 if all(out_has(f, out, t) for t in toks) else 2
            table["%s/%s/%s" % (k, f, var)] = cls
            cases.append(("(%s, %s, %s)" % (FMT_ID[f], "true" if var == "nul" else "false", coq_node(KINDS[k])), [cls]))
            chk.count(("enc", k, f, var), nontrivial=KINDS[k][0] != "s" or f in ("base64", "uri"),
                      sample={"kind": k, "format": f, "flags": VARIANTS[var], "class": ["error", "complete", "SWALLOWED"][cls]} if cls == 2 and len(chk.cov["samples"]) < 8 else None)
            if rc != 0 and not err.strip():
                report({"kind": "enc", "value_kind": k, "format": f, "variant": var}, None, "encoder error without a message on stderr")
            if cls == 2:
                report({"kind": "enc", "value_kind": k, "format": f, "variant": var, "stdout": out.decode("utf-8", "replace")[:200]},
                       enc_signature(k, f, var),
                       "exit 0 but the output of %s -o=%s for %s lacks part of the result" % (" ".join(VARIANTS[var]), f, yaml_flow(KINDS[k])))
        mism, err = vlib.coq_mismatches(chk.workdir, "c19_enc", IMPORTS, "c19_enc_case", cases, shard=max(60, len(cases) // vlib.NCPU + 1))
        if err:
            broken.append("model evaluation failed (encoders): " + err[-500:])
        else:
            for i, mo in mism:
                disagreements.append(("encoder table", repr(cells[i]), cases[i][1], list(mo)))
        chk.extra["encoder_table_cells"] = len(cells)
        chk.extra["encoder_table_swallowed"] = sorted(k for k, v in table.items() if v == 2)

        # ---------------- (D) two or more input files for every input format ----------------
        mjobs = multi_jobs()
        mobs = list(pool.map(lambda j: run_multi(root, j), mjobs))
        single = {(j[0], j[2][0]): o for j, o in zip(mjobs, mobs) if len(j[2]) == 1 and not j[1] and not j[3]}
        cases = []
        mjob_idx = []
        for job, (rc, out, err) in zip(mjobs, mobs):
            ext, allm, seq, flags, expr = job
            chk.count(("multi", ext, allm, seq, tuple(flags)), nontrivial=len(seq) > 1)
            if flags:
                # -e: the only match lives in the second file
                if rc != 0 or (b"zq2" not in out and b"zq 2" not in out):
                    report({"kind": "multi-e", "ext": ext, "rc": rc, "stdout": out.decode("utf-8", "replace")[:200]}, None,
                           "-e over f0.%s f1.%s: the match in the second file is not seen (exit %d)" % (ext, ext, rc))
                continue
            want = b"".join(single[(ext, i)][1] for i in seq)
            ok_single = all(single[(ext, i)][0] == 0 and single[(ext, i)][1] for i in seq)
            if not ok_single:
                report({"kind": "multi", "ext": ext, "all": allm, "seq": list(seq)}, None, "a single .%s input does not decode" % ext)
                continue
            if rc != 0 or out != want:
                report({"kind": "multi", "ext": ext, "all": allm, "seq": list(seq), "rc": rc, "stdout": out.decode("utf-8", "replace")[:300],
                        "expected": want.decode("utf-8", "replace")[:300]}, None,
                       "yq %s-o=json -I=0 . %s: exit %d, output differs from the concatenation of the single-file runs (a decoder keeps state across files?)"
                       % ("ea " if allm else "", " ".join("f%d.%s" % (i, ext) for i in seq), rc))
            # the model: one document with one result per file, formats from the first file's extension
            shown, pos = [], 0
            for n, i in enumerate(seq):
                piece = single[(ext, i)][1]
                if out[pos:pos + len(piece)] == piece:
                    shown.append(n + 1)
                    pos += len(piece)
            names = ["g%d.%s" % (n, ext) for n in range(len(seq))]
            res = ["mkRes %d (NScalar TagStr [%d])" % (n + 1, 48 + n) for n in range(len(seq))]
            tbl = "[" + "; ".join("(%s, Docs [DocOk (EvalOk [%s])])" % (vlib.coq_str(nm), r) for nm, r in zip(names, res)) + "]"
            cli = "(mkCli %s [] %s false [%s] false false false false None false false)" % (
                "true" if allm else "false", vlib.coq_str("json"), "; ".join(vlib.coq_str(nm) for nm in names))
            cases.append(("(%s, %s, (true, (EvalOk []), (EvalOk [%s])), true)" % (cli, tbl, "; ".join(res)),
                          [rc, 1 if err.strip() else 0, 0, len(shown)] + shown))
            mjob_idx.append(job)
        mism, err = vlib.coq_mismatches(chk.workdir, "c19_multi", IMPORTS, "c19_run_case", cases, shard=max(60, len(cases) // vlib.NCPU + 1))
        if err:
            broken.append("model evaluation failed (multi-file): " + err[-500:])
        else:
            for i, mo in mism:
                disagreements.append(("several input files", repr(mjob_idx[i]), cases[i][1], list(mo)))
        chk.extra["multi_file_runs"] = len(mjobs)

        # ---------------- (E) junk after a complete value ----------------
        jjobs = junk_jobs(thorough)
        jobs_obs = list(pool.map(lambda j: run_junk(root, j), jjobs))
        jdist = {"error": 0, "accepted_with_tail": 0}
        for job, (rc, out, err) in zip(jjobs, jobs_obs):
            ext, pi, ji, allm, pos = job
            chk.count(("junk",) + job, nontrivial=True)
            jdist["error" if rc != 0 else "accepted_with_tail"] += 1
            why = junk_oracle(rc, out, err)
            if why:
                d = JUNK_INPUTS[ext]
                report({"kind": "junk", "job": list(job), "input": d["prefixes"][pi] + d["junk"][ji] + d["suffix"], "rc": rc,
                        "stdout": out.decode("utf-8", "replace")[:200]}, "junk-tail-" + ext,
                       "%s :: yq %s-o=json -I=0 . <%s> with input %r" % (why, "ea " if allm else "", {0: "junk", 1: "junk good", 2: "good junk"}[pos],
                                                                        d["prefixes"][pi] + d["junk"][ji] + d["suffix"]))
        chk.extra["junk_tail_runs"] = dict(jdist, total=len(jjobs))

        # ---------------- (F) -i: the exit status under every fault point, eval and eval-all ----------------
        import c12
        cross_ok = c12.have_cross()
        shmroot = tempfile.mkdtemp(prefix="verif_c19_", dir=c12.SHM) if cross_ok else root
        try:
            ijobs2 = inplace_jobs(cross_ok)
            iobs2 = list(pool.map(lambda j: run_inplace(root, shmroot, j), ijobs2))
        finally:
            if shmroot != root:
                shutil.rmtree(shmroot, ignore_errors=True)
        for (case, cross, fault), (rc0, want, r) in zip(ijobs2, iobs2):
            chk.count(("inplace", case["name"], case["cmd"], cross, fault), nontrivial=fault is not None)
            why = inplace_oracle(case, rc0, want, r)
            # an error injected after the commit (no real operation there) exits 1 with the new content: not a lie about a failure
            if why:
                report({"kind": "inplace", "case": dict({k: v for k, v in case.items() if k != "content"}, content_b64=vlib.b64e(case["content"])),
                        "cross": cross, "fault": fault, "rc": r["rc"], "stderr": r["stderr"]}, None,
                       "%s :: yq %s -i %s <file> with YQ_VERIF_FAULT=%s%s" % (why, case["cmd"], case["expr"], fault, " (temp dir on another device)" if cross else ""))
        chk.extra["inplace_fault_runs"] = len(ijobs2)

        # ---------------- -e spelling (direct) ----------------
        for doc, want in (("a: false\n", 1), ("a: False\n", 1), ("a: FALSE\n", 1), ("a: null\n", 1), ("a: ~\n", 1), ("a: 0\n", 0), ("a: \"false\"\n", 0), ("b: 1\n", 1)):
            d = sandbox(root)
            open(os.path.join(d, "e.yml"), "w").write(doc)
            rc, out, err = yq(["-e", ".a", "e.yml"], d)
            shutil.rmtree(d, ignore_errors=True)
            chk.count(("e", doc), nontrivial=True)
            if rc != want:
                report({"kind": "e-flag", "doc": doc, "rc": rc}, None, "-e on %r exits %d, expected %d" % (doc, rc, want))

        # ---------------- (C) whole runs ----------------
        scs = [gen_scenario(chk.rng, i) for i in range(6000 if thorough else 700)]
        scs += directed_e_scenarios(len(scs))
        robs = list(pool.map(lambda s: run_scenario(root, s), scs))
        cases = []
        dist = {"exit0": 0, "exit1": 0, "other": 0, "ea": 0, "e": 0, "nul": 0, "bad_doc": 0, "missing_file": 0, "eval_error": 0}
        for sc, (rc, out, err) in zip(scs, robs):
            shown, clean = match_shown(sc, out)
            dist["exit0" if rc == 0 else "exit1" if rc == 1 else "other"] += 1
            dist["ea"] += sc["all"]
            dist["e"] += sc["e"]
            dist["nul"] += sc["nul"]
            dist["bad_doc"] += any(d["kind"] == "bad" for f in sc["files"] for d in f["docs"])
            dist["eval_error"] += any(d["kind"] == "evalerr" for f in sc["files"] for d in f["docs"])
            dist["missing_file"] += any(f["missing"] for f in sc["files"])
            # the model's o_encoded is not observable: compare exit, stderr, usage, shown
            exp = [rc, 1 if err.strip() else 0, 0, len(shown)] + shown
            cases.append((coq_scenario(sc), exp))
            nontrivial = len(sc["files"]) > 1 or any(len(f["docs"]) > 1 for f in sc["files"])
            chk.count(("run", sc["idx"], tuple(sc["flags"]), sc["all"]), nontrivial=nontrivial,
                      sample={"args": scenario_args(sc), "rc": rc, "shown": shown} if (rc == 1 and shown and len(chk.cov["samples"]) < 11) else None)
            for key, text in scenario_oracle(sc, rc, out, err):
                report({"kind": "run", "scenario": sc, "rc": rc, "stdout": out.decode("utf-8", "replace")[:300]}, key,
                       "%s :: yq %s" % (text, " ".join(scenario_args(sc))))
        # ---- the same runs with an output that rejects every write (REAL write failures: /dev/full, read-only descriptor)
        sink_idx = list(range(len(scs))) if thorough else list(range(0, len(scs), 2))
        sink_kind = ["full" if i % 3 else "ro" for i in sink_idx]
        sobs = list(pool.map(lambda t: run_scenario(root, scs[t[0]], t[1]), zip(sink_idx, sink_kind)))
        dist["write_failure_runs"] = len(sink_idx)
        sink_case_list = []
        for i, kind, (rc, out, err) in zip(sink_idx, sink_kind, sobs):
            sc = scs[i]
            cases.append((coq_scenario(sc, sink_ok=False), [rc, 1 if err.strip() else 0, 0, 0]))
            sink_case_list.append(i)
            chk.count(("sink-run", sc["idx"], kind), nontrivial=bool(robs[i][1]))
            why = sink_oracle(robs[i], (rc, out, err))
            if why:
                report({"kind": "sink-run", "scenario": sc, "sink": kind, "rc": rc, "stderr": err.decode("utf-8", "replace")[:200]}, None,
                       "%s :: yq %s > %s" % (why, " ".join(scenario_args(sc)), "/dev/full" if kind == "full" else "(read-only fd)"))
        for case in sink_cases():
            normal = run_sink_case(root, case, None)
            for kind in ("full", "ro"):
                failed = run_sink_case(root, case, kind)
                chk.count(("sink", case[0], kind), nontrivial=True,
                          sample={"args": case[1], "stdout": kind, "bytes": len(normal[1]), "rc": failed[0]} if case[0] in ("scalar", "big-6k") and kind == "full" else None)
                why = sink_oracle(normal, failed)
                if why:
                    report({"kind": "sink", "case": case[0], "args": case[1], "input": case[2], "sink": kind, "rc": failed[0]}, None,
                           "%s :: yq %s in.yml > %s" % (why, " ".join(case[1]), "/dev/full" if kind == "full" else "(read-only fd)"))
        mism, err = vlib.coq_mismatches(chk.workdir, "c19_run", IMPORTS, "c19_run_case", cases, shard=max(60, len(cases) // vlib.NCPU + 1))
        if err:
            broken.append("model evaluation failed (runs): " + err[-500:])
        else:
            nsc = len(scs)
            for i, mo in mism:
                j = i if i < nsc else sink_case_list[i - nsc]
                disagreements.append(("run" if i < nsc else "run with failing output", " ".join(scenario_args(scs[j])) + " :: " + repr(scs[j]["files"])[:400], cases[i][1], list(mo)))
        chk.extra["distribution"] = dist
        pool.shutdown()
    finally:
        shutil.rmtree(root, ignore_errors=True)

    chk.extra["disagreements"] = len(disagreements)
    if disagreements and not chk.violations:
        what, inp, impl, model = disagreements[0]
        chk.violation({"kind": "correspondence", "broken": "Model/Cli.v vs the binary (%s)" % what, "input": inp,
                       "impl_obs": impl[:40], "model_obs": model[:40], "count": len(disagreements),
                       "all": [(d[0], d[1][:200]) for d in disagreements[:10]]}, False,
                      "model and implementation disagree on %d cases (%s) but the direct oracle found no failing input" % (len(disagreements), what))
    if broken and not chk.violations:
        chk.violation({"kind": "obligation", "broken": broken}, False, "; ".join(broken)[:600])
    return chk.finish(
        checker_cmd="make -C coq Props/C19.vo (coqc 8.16.1, full .vo) + coqc work/C19/c19_*_*.v (vm_compute)",
        rule="(A) initCommand: -p x -o over auto, every formal name and alias of format.go and an unknown name, x %d file names (case, dots, "
             "directories with dots, no extension, stdin, decoderless formats), two files with different extensions; observed through the "
             "debug log. (B) exhaustive table: %d result kinds (incl. .inf/.nan/!!int abc) x %d output formats x {plain, -0, -C, -M, -P}; a cell is error / complete (every scalar leaf of "
             "the result is in stdout) / swallowed. (C) seeded runs of eval and eval-all over 1-3 files with 0-3 documents each, with missing "
             "files, undecodable documents, evaluation errors and unencodable results at any position x -e -n -N -r -0 -o; observables exit "
             "status, stderr non-empty, which results are on stdout; half of them (all in the thorough tier) again with an output that rejects every write "
             "(/dev/full, read-only descriptor), plus fixed cases below and above the 4096-byte buffer, failure on the last / a non-last result: a failed write => "
             "non-zero exit and a message on stderr. (D) for every input format with a decoder (yaml, json, props, csv, tsv, xml, toml, lua, base64, uri) one, two and "
             "three input files (also the same file twice, both orders) in eval and eval-all: the output must be the concatenation of the single-file runs, "
             "and -e must see a match that lives in the second file. (E) inputs (json, yaml, xml, toml, csv, lua, props) with junk after a complete value "
             "(stray closing brackets, stray tokens, NUL, unterminated quotes) followed by more content, alone / first / second file, eval and eval-all: "
             "non-zero exit with a message, or the content after the junk is on stdout. (F) yq -i and yq ea -i under every verif fault point x {fail, kill} x "
             "{same, other device}: exit 0 <=> the file holds the new content, non-zero exit => message on stderr. Non-trivial: container kinds / multi-file or multi-document runs."
             % (len(FILENAMES), len(KINDS), len(FORMATS)),
        trusted=vlib.COMMON_TRUSTED + [
            "Spec/CliSpec.v (hand-written: expected results of a complete run, -e rule)",
            "decoders and evaluator are abstracted as a world (documents per file, results per document); the check builds the world of each scenario from its description",
            "encoder completeness is observed as 'every scalar leaf of the result occurs in stdout'",
        ],
        assumptions=["strings.ToLower / filepath.Ext are modelled for ASCII names",
                     "correspondence is sampled (exhaustive for the encoder table over the listed kinds); the unbounded claim is the Coq theorem over the model"])
