#!/usr/bin/env python3
"""Entry point of every registered check.

  python3 checks/check.py <Cid> [--tier quick|thorough] [--replay FILE]

exit 0: the property held on everything explored (known findings are printed
as KNOWN-FINDING lines); exit 1 + `VIOLATION property=<id> replay=<path>`
otherwise; exit 2: the tree under /repo does not build.
"""
import argparse, importlib, json, os, sys, traceback

HERE = os.path.dirname(os.path.abspath(__file__))
sys.path.insert(0, os.path.join(HERE, "lib"))
sys.path.insert(0, os.path.join(HERE, "props"))
import vlib


def main():
    ap = argparse.ArgumentParser()
    ap.add_argument("pid")
    ap.add_argument("--tier", default=os.environ.get("VERIF_TIER", "quick"))
    ap.add_argument("--replay")
    a = ap.parse_args()
    tier = a.tier if a.tier in ("quick", "thorough") else "quick"
    try:
        seed = int(os.environ.get("VERIF_SEED", "20260930"))
    except ValueError:
        seed = 20260930
    mod = importlib.import_module(a.pid.lower())
    try:
        vlib.build_impl(race=getattr(mod, "NEEDS_RACE", False) and tier == "thorough")
    except vlib.BuildError as e:
        print("BUILD-FAILED: " + str(e)[:3000])
        sys.exit(2)
    if a.replay:
        rp = json.load(open(a.replay))
        if rp.get("kind") == "obligation":
            # a broken proof obligation / translator tie is replayed by rebuilding the property's theorems
            chk = vlib.Check(a.pid, tier, seed)
            ok, why = chk.prove("Props/%s.v" % a.pid)
            if not ok:
                print("obligation still broken: " + why[-600:])
        else:
            ok = mod.replay(rp)
        if ok:
            print("replay: the recorded input no longer fails")
            sys.exit(0)
        print("VIOLATION property=%s replay=%s" % (a.pid, a.replay))
        sys.exit(1)
    chk = vlib.Check(a.pid, tier, seed)
    rc = mod.run(chk)
    sys.exit(rc)


if __name__ == "__main__":
    main()
