#!/bin/sh
# usage: checks/seed_sweep.sh "<ids>" "<seeds>" [tier]   — dev helper: run checks under several seeds, print only alarms
IDS=${1:-"C01 C02 C03 C04 C05 C06 C07 C08 C09 C10 C11 C12 C13 C14 C15 C16 C17 C18 C19"}; SEEDS=${2:-"1 2 3"}; TIER=${3:-quick}
cd "$(dirname "$0")/.."
for s in $SEEDS; do for x in $IDS; do
  VERIF_SEED=$s python3 checks/check.py $x --tier $TIER > /tmp/sweep_${x}_${s}.log 2>&1; rc=$?
  if [ $rc -ne 0 ] || grep -q '^VIOLATION' /tmp/sweep_${x}_${s}.log; then echo "ALARM $x seed=$s rc=$rc"; grep -E '^VIOLATION|^  ->' /tmp/sweep_${x}_${s}.log | head -4; fi
  rm -f /tmp/sweep_${x}_${s}.log
done; done
echo sweep-done
