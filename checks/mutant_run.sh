#!/bin/sh
# usage: checks/mutant_run.sh <patch.diff> <Cid> [tier]
# Runs the check <Cid> against a scratch copy of /repo with the patch applied, using a scratch
# copy of /verif, so that neither /repo nor /verif (and the builders working there) are disturbed.
set -e
PATCH=$(readlink -f "$1"); CID=$2; TIER=${3:-quick}
ROOT=$(mktemp -d /tmp/vm_XXXXXX)
trap 'git -C /repo worktree remove --force "$ROOT/repo" >/dev/null 2>&1; rm -rf "$ROOT"' EXIT
git -C /repo worktree add --detach "$ROOT/repo" HEAD >/dev/null 2>&1
git -C "$ROOT/repo" apply "$PATCH" 2>/dev/null || git -C "$ROOT/repo" apply --3way "$PATCH" 2>/dev/null || (cd "$ROOT/repo" && patch -p1 --fuzz=3 < "$PATCH" >/dev/null) || { echo "PATCH-FAILED $PATCH does not apply to $(git -C /repo rev-parse --short HEAD)"; exit 3; }
if grep -rlq '^<<<<<<< ' "$ROOT/repo/pkg" "$ROOT/repo/cmd" 2>/dev/null; then echo "PATCH-FAILED $PATCH leaves conflict markers on $(git -C /repo rev-parse --short HEAD)"; exit 3; fi
mkdir -p "$ROOT/verif"
rsync -a --exclude work --exclude .git --exclude replays /verif/ "$ROOT/verif/"
cd "$ROOT/verif"
VERIF_REPO="$ROOT/repo" timeout 3000 python3 checks/check.py "$CID" --tier "$TIER" > "$ROOT/out.txt" 2>&1 && RC=0 || RC=$?
grep -E '^(VIOLATION|BUILD-FAILED|C[0-9]+ (quick|thorough))' "$ROOT/out.txt" | head -8
grep -c '^KNOWN-FINDING' "$ROOT/out.txt" | sed 's/^/known-finding lines: /'
echo "exit=$RC"
if [ "$RC" != "0" ] && ! grep -q '^VIOLATION' "$ROOT/out.txt"; then tail -15 "$ROOT/out.txt"; fi
for f in replays/*.json; do [ -f "$f" ] && { echo "--- $f"; head -c 900 "$f"; echo; break; }; done
