#!/usr/bin/env python3
"""dev helper: list model/implementation disagreements on generated evaluator cases, smallest first."""
import sys, os, json, random
sys.path.insert(0, os.path.join(os.path.dirname(os.path.abspath(__file__)), "lib"))
sys.path.insert(0, os.path.join(os.path.dirname(os.path.abspath(__file__)), "props"))
import vlib, evalgen, c01
n = int(sys.argv[1]) if len(sys.argv) > 1 else 1500
seed = int(sys.argv[2]) if len(sys.argv) > 2 else 1
depths = [int(x) for x in sys.argv[3].split(",")] if len(sys.argv) > 3 else [1, 2, 2, 3]
vlib.build_impl()
chk = vlib.Check("DEV", "quick", seed)
g = evalgen.Gen(chk.rng)
g.wild = 0.2
g.entry_updates = not os.environ.get('RO')
cases = []
for _ in range(n):
    d = evalgen.gen_doc(chk.rng)
    g.set_doc(d)
    if os.environ.get("DER"):
        e = g.derived_query()
    elif os.environ.get("MUT"):
        e = g.update()
        if chk.rng.random() < 0.3:
            e = ("pipe", e, g.update())
    else:
        e = g.expr(chk.rng.choice(depths))
    cases.append((e, d))
if os.environ.get("WRAP"):
    cases = [(("union", ("collect", e), ("self",)), d) for e, d in cases]
impl, mism, err = c01.run_cases(chk, cases, "dev_cases")
if err:
    print(err); sys.exit(1)
rows = []
uns = 0
for i, mo in mism:
    if mo == b"UNSUP":
        uns += 1
        continue
    e, d = cases[i]
    rows.append((len(evalgen.render(e)) + len(json.dumps(d)), evalgen.render(e), json.dumps(d), impl[i], mo))
rows.sort()
print("cases", n, "mismatches", len(rows), "unsup", uns)
for r in rows[:int(os.environ.get("SHOW", "25"))]:
    print("EXPR", r[1]); print(" DOC", r[2]); print(" IMPL", r[3]); print(" MODEL", r[4] if isinstance(r[4], bytes) else r[4])
