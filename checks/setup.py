#!/usr/bin/env python3
"""setup_cmd: build the Go harness + yq binary (tag verif), run the translator,
build the whole Coq development (full .vo).  Offline; nothing is fetched."""
import os, sys
sys.path.insert(0, os.path.join(os.path.dirname(os.path.abspath(__file__)), "lib"))
import vlib

def main():
    vlib.build_impl()
    ok, log = vlib.run_translator()
    if not ok:
        print("translator failed:\n" + log)
        sys.exit(1)
    bad = vlib.hygiene_scan()
    if bad:
        print("hygiene scan failed: %s" % bad)
        sys.exit(1)
    ok, o, dt = vlib.coq_make(["all"], timeout=3400)
    print(o[-3000:])
    print("coq build: %s in %.0fs" % ("ok" if ok else "FAILED", dt))
    # a proof that does not build is reported by that property's check, not by setup
    sys.exit(0)

if __name__ == "__main__":
    main()
