#!/usr/bin/env python3
"""Run every kept seeded change through the check of the property it breaks (isolated scratch copies, see
mutant_run.sh) and record what the check reported: seeded/<name>/detection.json and seeded/RESULTS.md."""
import concurrent.futures, glob, json, os, re, subprocess, sys
VERIF = os.path.dirname(os.path.dirname(os.path.abspath(__file__)))


def run(d):
    name = os.path.basename(d)
    pid = name.split("-")[0]
    patch = os.path.join(d, "patch_ported_to_later_head.diff")
    if not os.path.exists(patch):
        patch = os.path.join(d, "patch.diff")
    try:
        meta = json.load(open(os.path.join(d, "meta.json")))
    except Exception:
        meta = {}
    if meta.get("neutralised_by") and not os.path.exists(os.path.join(d, "patch_ported_to_later_head.diff")):
        res = {"seeded": name, "property": pid, "patch": "patch.diff", "check_exit": None, "violation_lines": 0, "with_concrete_replay": 0,
               "verdict": "no longer breaks the property on the current head (neutralised by: %s)" % meta["neutralised_by"], "summary_line": ""}
        json.dump(res, open(os.path.join(d, "detection.json"), "w"), indent=1)
        return res
    p = subprocess.run([os.path.join(VERIF, "checks", "mutant_run.sh"), patch, pid], stdout=subprocess.PIPE, stderr=subprocess.STDOUT, timeout=3600)
    out = p.stdout.decode("utf-8", "replace")
    viol = [l for l in out.splitlines() if l.startswith("VIOLATION")]
    with_input = [l for l in viol if not l.rstrip().endswith("no-failing-input-found")]
    m = re.search(r"exit=(\d+)", out)
    res = {"seeded": name, "property": pid, "patch": os.path.basename(patch), "check_exit": int(m.group(1)) if m else None,
           "violation_lines": len(viol), "with_concrete_replay": len(with_input),
           "verdict": "patch does not apply to the current head (needs porting)" if "PATCH-FAILED" in out else
                      "caught with a concrete replay" if with_input else ("caught (no-failing-input-found)" if viol else "NOT caught"),
           "summary_line": next((l for l in out.splitlines() if re.match(r"C\d+ (quick|thorough):", l)), "")}
    i = out.find("--- replays/")
    if i >= 0:
        res["first_replay_excerpt"] = out[i:i + 700]
    json.dump(res, open(os.path.join(d, "detection.json"), "w"), indent=1)
    return res


def main():
    dirs = sorted(x for x in glob.glob(os.path.join(VERIF, "seeded", "C*-*")) if os.path.isdir(x))
    if len(sys.argv) > 1:
        dirs = [d for d in dirs if os.path.basename(d) in sys.argv[1:]]
    with concurrent.futures.ThreadPoolExecutor(4) as ex:
        results = list(ex.map(run, dirs))
    lines = ["# Seeded changes: what each property's check reports", "",
             "| seeded change | property | verdict | check summary |", "|---|---|---|---|"]
    allres = {}
    for d in sorted(glob.glob(os.path.join(VERIF, "seeded", "C*-*", "detection.json"))):
        r = json.load(open(d))
        allres[r["seeded"]] = r
    for k in sorted(allres):
        r = allres[k]
        lines.append("| %s | %s | %s | %s |" % (k, r["property"], r["verdict"], r["summary_line"]))
    open(os.path.join(VERIF, "seeded", "RESULTS.md"), "w").write("\n".join(lines) + "\n")
    print("\n".join(lines))


if __name__ == "__main__":
    main()
