#!/usr/bin/env python3
"""python3 checks/coqbuild.py <target.vo ...>  — locked, regenerates _CoqProject, full .vo build."""
import os, sys
sys.path.insert(0, os.path.join(os.path.dirname(os.path.abspath(__file__)), "lib"))
import vlib
ok, o, dt = vlib.coq_make(sys.argv[1:] or ["all"])
print(o[-6000:])
print("%s in %.0fs" % ("OK" if ok else "FAILED", dt))
sys.exit(0 if ok else 1)
