#!/bin/sh
# usage: checks/seeded_verify.sh <Cid> <k>   (reads /tmp/mut/out_<Cid>/<k>/, writes /verif/seeded/<Cid>-<k>/)
# Confirms independently: patch applies to a clean checkout, project builds, Go tests pass,
# demo.sh passes on the original binary and fails on the mutant binary.
set -e
ID=$1; K=$2; SRC=${3:-/tmp/mut/out_$ID/$K}; NAME=${4:-$K}
BASE=$(git -C /tmp/mut/wt_$ID rev-parse HEAD)
ROOT=$(mktemp -d /tmp/sv_XXXXXX)
trap 'git -C /repo worktree remove --force "$ROOT/o" >/dev/null 2>&1; git -C /repo worktree remove --force "$ROOT/m" >/dev/null 2>&1; rm -rf "$ROOT"' EXIT
export GOFLAGS=-mod=mod GOPROXY=off GOSUMDB=off GOTOOLCHAIN=local
git -C /repo worktree add --detach "$ROOT/o" $BASE >/dev/null 2>&1
git -C /repo worktree add --detach "$ROOT/m" $BASE >/dev/null 2>&1
git -C "$ROOT/m" apply "$SRC/patch.diff"
(cd "$ROOT/o" && go build -o "$ROOT/yq_o" .)
(cd "$ROOT/m" && go build ./... && go build -o "$ROOT/yq_m" .)
TESTS=$(cd "$ROOT/m" && go test ./... -count=1 -vet=off 2>&1 | grep -c '^ok' || true)
FAILS=$(cd "$ROOT/m" && go test ./... -count=1 -vet=off 2>&1 | grep -c '^FAIL\|^--- FAIL' || true)
cd "$SRC"
if sh ./demo.sh "$ROOT/yq_o" >/dev/null 2>&1; then DO=pass; else DO=FAIL; fi
if sh ./demo.sh "$ROOT/yq_m" >/dev/null 2>&1; then DM=pass; else DM=FAIL; fi
echo "$ID-$NAME base=$BASE tests_ok_pkgs=$TESTS test_failures=$FAILS demo_on_original=$DO demo_on_mutant=$DM"
if [ "$FAILS" = "0" ] && [ "$DO" = "pass" ] && [ "$DM" = "FAIL" ]; then
  D=/verif/seeded/$ID-$NAME; mkdir -p $D; cp "$SRC/patch.diff" "$SRC/demo.sh" $D/
  [ -f "$SRC/meta.json" ] && cp "$SRC/meta.json" $D/meta_author.json
  for f in "$SRC"/*; do case "$f" in *patch.diff|*demo.sh|*meta.json) ;; *) cp -r "$f" $D/ ;; esac; done
  python3 - "$D" "$ID" "$BASE" <<'PY'
import json,sys,os
d,pid,base=sys.argv[1:4]
a=json.load(open(os.path.join(d,'meta_author.json'))) if os.path.exists(os.path.join(d,'meta_author.json')) else {}
m={"property":pid,"base_commit":base,"summary":a.get("summary",""),"needs":a.get("needs",""),"why_tests_pass":a.get("why_tests_pass",""),
   "confirmed":{"applies_to_clean_checkout":True,"go_build":True,"go_test_failures":0,"demo_on_original":"pass","demo_on_mutant":"fail"},
   "ran":"checks/seeded_verify.sh (git worktree at base_commit, git apply, go build ./..., go test ./... -count=1 -vet=off, demo.sh on both binaries)"}
json.dump(m,open(os.path.join(d,'meta.json'),'w'),indent=1)
PY
  echo "kept in $D"
else
  echo "NOT kept"
fi
